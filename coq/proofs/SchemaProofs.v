(* SchemaProofs.v — lemmas for property C19: the builder on the two spellings of a field query (for ANY
   options without field_options), the schema analyzer's lists, spellings of field specifications. *)
Require Import Base Decimal Tree GenTree GenVisitors GenChars GenEs Visitor Json EsSpecs EsCheck EsBuild Schema SchemaSpec.
From Coq Require Import Lia.
Require Import TreeInd.



Definition word_clause (cfg : es_config) (comps : list str) (x : str) : json :=
  clause (dotted comps) (mem_str (dotted comps) (c_not_analyzed cfg)) x.

Lemma chk_handler_field : chk_handler_of CSearchField = HField. Proof. reflexivity. Qed.
Lemma chk_handler_word : chk_handler_of CWord = HFinal. Proof. reflexivity. Qed.
Lemma bhandler_field cfg : bhandler_of cfg CSearchField = BField. Proof. reflexivity. Qed.
Lemma bhandler_word cfg : bhandler_of cfg CWord = BWord. Proof. reflexivity. Qed.

Lemma check_dotted env mf mw f x :
  check_nested env (SearchField mf f (Term KWord mw x)) = check_final env (split_on c_dot f).
Proof.
  unfold check_nested. cbn [chk_go]. unfold chk_via at 1. cbn [cls_of]. rewrite chk_handler_field.
  cbn [field_name app chk_walk]. cbn [chk_go]. unfold chk_via. cbn [cls_of cls_of_termk].
  rewrite chk_handler_word. destruct (check_final env (split_on c_dot f)); reflexivity.
Qed.

Lemma word_json cfg comps x :
  c_field_options cfg = [] -> has_wildcard x = false ->
  leaf_json cfg (mk_word x (if negb (mem_str (dotted comps) (c_not_analyzed cfg)) then k_match else k_term)
                         comps None) = ROk (word_clause cfg comps x).
Proof.
  intros Hfo Hw. unfold leaf_json, word_clause, clause, mk_word, leaf_field. cbn [l_kind l_q l_fields l_name l_method l_addkeys].
  assert (Hstar : str_eqb x k_star = false).
  { destruct x as [|c [|c' x']]; [reflexivity| |].
    - cbn. destruct (N.eqb c c_star) eqn:E; [|reflexivity].
      apply N.eqb_eq in E. subst c. discriminate Hw.
    - cbn. apply andb_false_r. }
  rewrite Hstar. unfold leaf_method, leaf_field, leaf_has_wildcard, base_options, field_opts.
  cbn [l_kind l_q l_fields l_name l_method l_addkeys]. rewrite Hw, Hfo. cbn [obj_get obj_remove].
  destruct (mem_str (dotted comps) (c_not_analyzed cfg)); cbn [negb andb]; reflexivity.
Qed.

Lemma visit_word cfg env mw x cx :
  m_name mw = None ->
  visit cfg env (Term KWord mw x) None cx =
  ROk [ELeaf (mk_word x (if ctx_is_analyzed cfg cx
                         then (if c_match_word_as_phrase cfg then k_match_phrase else k_match)
                         else k_term) (ctx_fields cfg cx) (x_name cx))].
Proof.
  intros Hn. cbn [visit]. unfold visit_via. cbn [cls_of cls_of_termk]. rewrite bhandler_word.
  cbn [value_of]. unfold get_name, name_of. cbn [meta_of]. rewrite Hn. reflexivity.
Qed.

Definition dotted_leaf (cfg : es_config) (comps : list str) (x : str) : eitem :=
  ELeaf (mk_word x (if negb (mem_str (dotted comps) (c_not_analyzed cfg)) then k_match else k_term) comps None).

Lemma visit_dotted cfg env mf mw f x :
  m_name mf = None -> m_name mw = None -> c_match_word_as_phrase cfg = false ->
  visit cfg env (SearchField mf f (Term KWord mw x)) None ctx0 =
  ROk [match split_nested env f ctx0 with
       | Some p => ENested p None (dotted_leaf cfg (split_on c_dot f) x)
       | None => dotted_leaf cfg (split_on c_dot f) x
       end].
Proof.
  intros Hf Hw Hp. cbn [visit]. unfold visit_via at 1. cbn [cls_of]. rewrite bhandler_field.
  cbn [field_name]. unfold propagate_name, name_of, get_name, name_of. cbn [meta_of]. rewrite Hf.
  unfold field_prefix at 1. cbn [ctx0 x_prefix x_name app].
  cbn [walk]. rewrite visit_word by exact Hw.
  unfold ctx_is_analyzed, ctx_fields. cbn [x_analyzed x_prefix x_name app single]. rewrite Hp.
  fold (dotted_leaf cfg (split_on c_dot f) x).
  destruct (split_nested env f ctx0); reflexivity.
Qed.

Theorem build_dotted cfg mf mw f x :
  c_field_options cfg = [] -> c_match_word_as_phrase cfg = false ->
  m_name mf = None -> m_name mw = None -> has_wildcard x = false ->
  build cfg (SearchField mf f (Term KWord mw x)) =
  match check_final (ev_chk (mk_env cfg)) (split_on c_dot f) with
  | Some e => RExc e
  | None => ROk (wrap_nested (split_nested (mk_env cfg) f ctx0) (word_clause cfg (split_on c_dot f) x))
  end.
Proof.
  intros Hfo Hp Hf Hw Hx. unfold build, build_etree, build_etree_env.
  rewrite check_dotted. destruct (check_final _ _); [reflexivity|].
  rewrite visit_dotted by assumption.
  unfold dotted_leaf.
  destruct (split_nested (mk_env cfg) f ctx0) as [p|]; cbn [ejson wrap_nested];
    rewrite word_json by assumption; reflexivity.
Qed.

(* ---------------------------------------------------------------- split / join *)

Lemma split_nodot s : nodot s = true -> split_on c_dot s = [s].
Proof.
  unfold nodot. induction s as [|x s IH]; [reflexivity|]. cbn [mem_N]. intros H.
  apply negb_true_iff in H. apply orb_false_iff in H. destruct H as [H1 H2].
  cbn [split_on]. rewrite IH by (apply negb_true_iff; exact H2).
  rewrite N.eqb_sym in H1. rewrite H1. reflexivity.
Qed.

Lemma split_app a rest : nodot a = true -> split_on c_dot (a ++ c_dot :: rest) = a :: split_on c_dot rest.
Proof.
  unfold nodot. induction a as [|y a IH]; intros H.
  - cbn [app split_on]. rewrite N.eqb_refl. destruct (split_on c_dot rest); reflexivity.
  - cbn [mem_N] in H. apply negb_true_iff in H. apply orb_false_iff in H. destruct H as [H1 H2].
    cbn [app split_on]. rewrite IH by (apply negb_true_iff; exact H2).
    rewrite N.eqb_sym in H1. rewrite H1. reflexivity.
Qed.

Lemma split_dotted cs : cs <> [] -> forallb nodot cs = true -> split_on c_dot (dotted cs) = cs.
Proof.
  unfold dotted. induction cs as [|a [|b l] IH]; intros Hne H; [congruence| |].
  - cbn [join]. cbn in H. apply andb_true_iff in H. apply split_nodot. apply H.
  - cbn [forallb] in H. apply andb_true_iff in H. destruct H as [Ha H].
    change (join [c_dot] (a :: b :: l)) with (a ++ c_dot :: join [c_dot] (b :: l)).
    rewrite split_app by exact Ha. f_equal. apply IH; [discriminate|exact H].
Qed.

(* ---------------------------------------------------------------- the chain spelling *)

Lemma chk_handler_fgroup : chk_handler_of CFieldGroup = HGeneric. Proof. reflexivity. Qed.
Lemma bhandler_fgroup cfg : bhandler_of cfg CFieldGroup = BGeneric. Proof. reflexivity. Qed.

Lemma chk_chain env cs x t :
  chain cs x t -> forallb nodot cs = true -> forall pre, chk_go env t pre = check_final env (pre ++ cs).
Proof.
  induction 1 as [c x mf mw Hf Hw | c cs x mf mg t Hf Hg Hne Hc IH]; intros Hd pre.
  - cbn in Hd. apply andb_true_iff in Hd. destruct Hd as [Hd _].
    cbn [chk_go]. unfold chk_via at 1. cbn [cls_of]. rewrite chk_handler_field.
    cbn [field_name chk_walk]. rewrite (split_nodot _ Hd). cbn [chk_go]. unfold chk_via. cbn [cls_of cls_of_termk].
    rewrite chk_handler_word. destruct (check_final env (pre ++ [c])); reflexivity.
  - cbn [forallb] in Hd. apply andb_true_iff in Hd. destruct Hd as [Hd Hds].
    cbn [chk_go]. unfold chk_via at 1. cbn [cls_of]. rewrite chk_handler_field.
    cbn [field_name chk_walk]. rewrite (split_nodot _ Hd). cbn [chk_go]. unfold chk_via at 1.
    cbn [cls_of cls_of_groupk]. rewrite chk_handler_fgroup. cbn [chk_walk].
    rewrite (IH Hds). rewrite <- app_assoc. cbn [app].
    destruct (check_final env (pre ++ c :: cs)); reflexivity.
Qed.

Fixpoint chain_etree (cfg : es_config) (np : list str) (pre cs : list str) (x : str) : eitem :=
  match cs with
  | [] => dotted_leaf cfg pre x
  | c :: cs' =>
      let inner := chain_etree cfg np (pre ++ [c]) cs' x in
      match try_prefixes np pre [c] 1 with
      | Some p => if is_enested inner then inner else mk_nested p None inner
      | None => inner
      end
  end.

Lemma visit_chain cfg env cs x t :
  c_match_word_as_phrase cfg = false ->
  chain cs x t -> forallb nodot cs = true ->
  forall pfx an, visit cfg env t None (mkECtx pfx an None) =
                 ROk [chain_etree cfg (ev_nested_prefixes env)
                                  (match pfx with Some p => p | None => [] end) cs x].
Proof.
  intros Hp. induction 1 as [c x mf mw Hf Hw | c cs x mf mg t Hf Hg Hne Hc IH]; intros Hd pfx an.
  - cbn in Hd. apply andb_true_iff in Hd. destruct Hd as [Hd _].
    cbn [visit]. unfold visit_via at 1. cbn [cls_of]. rewrite bhandler_field.
    cbn [field_name]. unfold propagate_name, name_of, get_name, name_of. cbn [meta_of]. rewrite Hf.
    unfold field_prefix at 1. cbn [x_prefix x_name]. rewrite (split_nodot _ Hd).
    cbn [walk]. rewrite visit_word by exact Hw.
    unfold ctx_is_analyzed, ctx_fields. cbn [x_analyzed x_prefix x_name app single]. rewrite Hp.
    unfold split_nested. rewrite (split_nodot _ Hd). unfold field_prefix. cbn [x_prefix length].
    cbn [chain_etree]. fold (dotted_leaf cfg ((match pfx with Some p => p | None => [] end) ++ [c]) x).
    destruct (try_prefixes _ _ _ _); reflexivity.
  - cbn [forallb] in Hd. apply andb_true_iff in Hd. destruct Hd as [Hd Hds].
    cbn [visit]. unfold visit_via at 1. cbn [cls_of]. rewrite bhandler_field.
    cbn [field_name]. unfold propagate_name at 1, name_of, get_name, name_of. cbn [meta_of]. rewrite Hf.
    unfold field_prefix at 1. cbn [x_prefix x_name]. rewrite (split_nodot _ Hd).
    cbn [walk]. cbn [visit]. unfold visit_via at 1. cbn [cls_of cls_of_groupk]. rewrite bhandler_fgroup.
    unfold propagate_name, name_of. cbn [meta_of]. rewrite Hg. cbn [walk].
    rewrite (IH Hds). cbn [app single].
    unfold split_nested. rewrite (split_nodot _ Hd). unfold field_prefix. cbn [x_prefix length].
    cbn [chain_etree].
    destruct (try_prefixes _ _ _ _); [|reflexivity].
    destruct (is_enested _); reflexivity.
Qed.

Lemma try_prefixes_cons np pre c cs k :
  try_prefixes np pre (c :: cs) (S k) =
  match try_prefixes np (pre ++ [c]) cs k with
  | Some p => Some p
  | None => try_prefixes np pre [c] 1
  end.
Proof.
  induction k as [|k IH].
  - reflexivity.
  - change (try_prefixes np pre (c :: cs) (S (S k))) with
      (if mem_str (dotted (pre ++ firstn (S (S k)) (c :: cs))) np
       then Some (dotted (pre ++ firstn (S (S k)) (c :: cs)))
       else try_prefixes np pre (c :: cs) (S k)).
    change (try_prefixes np (pre ++ [c]) cs (S k)) with
      (if mem_str (dotted ((pre ++ [c]) ++ firstn (S k) cs)) np
       then Some (dotted ((pre ++ [c]) ++ firstn (S k) cs))
       else try_prefixes np (pre ++ [c]) cs k).
    change (firstn (S (S k)) (c :: cs)) with (c :: firstn (S k) cs).
    rewrite <- app_assoc. cbn [app].
    destruct (mem_str _ np); [reflexivity|exact IH].
Qed.

Lemma chain_etree_longest cfg np x cs : forall pre,
  chain_etree cfg np pre cs x =
  match try_prefixes np pre cs (length cs) with
  | Some p => ENested p None (dotted_leaf cfg (pre ++ cs) x)
  | None => dotted_leaf cfg (pre ++ cs) x
  end.
Proof.
  induction cs as [|c cs IH]; intros pre.
  - cbn. rewrite app_nil_r. reflexivity.
  - cbn [chain_etree length]. rewrite (try_prefixes_cons np pre c cs (length cs)). rewrite IH. rewrite <- app_assoc. cbn [app].
    destruct (try_prefixes np (pre ++ [c]) cs (length cs)) as [p'|].
    + cbn [is_enested]. destruct (try_prefixes np pre [c] 1); reflexivity.
    + destruct (try_prefixes np pre [c] 1); reflexivity.
Qed.

Theorem build_chain cfg cs x t :
  c_field_options cfg = [] -> c_match_word_as_phrase cfg = false -> has_wildcard x = false ->
  chain cs x t -> forallb nodot cs = true ->
  build cfg t =
  match check_final (ev_chk (mk_env cfg)) cs with
  | Some e => RExc e
  | None => ROk (wrap_nested (try_prefixes (ev_nested_prefixes (mk_env cfg)) [] cs (length cs))
                             (word_clause cfg cs x))
  end.
Proof.
  intros Hfo Hp Hx Hc Hd. unfold build, build_etree, build_etree_env, check_nested.
  rewrite (chk_chain _ _ _ _ Hc Hd []). cbn [app]. destruct (check_final _ _); [reflexivity|].
  unfold ctx0. rewrite (visit_chain _ _ _ _ _ Hp Hc Hd None None). rewrite chain_etree_longest. cbn [app].
  unfold dotted_leaf.
  destruct (try_prefixes _ _ _ _) as [p|]; cbn [ejson wrap_nested];
    rewrite word_json by assumption; reflexivity.
Qed.

(* both spellings of the same dot-free path give the same outcome, for ANY options without field_options *)
Theorem spellings_agree cfg cs x t mf mw :
  c_field_options cfg = [] -> c_match_word_as_phrase cfg = false -> has_wildcard x = false ->
  m_name mf = None -> m_name mw = None ->
  cs <> [] -> forallb nodot cs = true -> chain cs x t ->
  build cfg t = build cfg (SearchField mf (dotted cs) (Term KWord mw x)).
Proof.
  intros Hfo Hp Hx Hf Hw Hne Hd Hc.
  rewrite (build_chain _ _ _ _ Hfo Hp Hx Hc Hd).
  rewrite (build_dotted _ _ _ _ _ Hfo Hp Hf Hw Hx).
  unfold split_nested. rewrite (split_dotted _ Hne Hd). reflexivity.
Qed.

(* ================================================================ schema side *)
Definition na_entry (e : entry) : bool := not_analyzed_def (e_def e).

(* entries of the walk with the same dotted name agree on "not analysed" *)
Definition coherent (s : schema) : bool :=
  let es := iter_fields s true in
  forallb (fun e => forallb (fun e' => negb (str_eqb (e_dot e) (e_dot e')) ||
                                      Bool.eqb (na_entry e) (na_entry e')) es) es.

Lemma not_analyzed_fields_spec s f :
  mem_str f (not_analyzed_fields s) = true <->
  exists e, In e (iter_fields s true) /\ e_dot e = f /\ not_analyzed_def (e_def e) = true.
Proof.
  unfold not_analyzed_fields. rewrite mem_str_In, in_map_iff. split.
  - intros [e [Hd Hin]]. apply filter_In in Hin. destruct Hin as [Hin Hna]. exists e. auto.
  - intros [e [Hin [Hd Hna]]]. exists e. split; [exact Hd|]. apply filter_In. auto.
Qed.

Lemma object_fields_spec s f :
  mem_str f (object_fields s) = true <->
  exists e, In e (iter_fields s false) /\ e_dot e = f /\
            type_is (parent_type (e_parents e)) k_object = true /\
            type_is (fd_type (e_def e)) k_object = false /\ type_is (fd_type (e_def e)) k_nested = false.
Proof.
  unfold object_fields. rewrite mem_str_In, in_map_iff. split.
  - intros [e [Hd Hin]]. apply filter_In in Hin. destruct Hin as [Hin H].
    apply andb_true_iff in H. destruct H as [H1 H2]. apply negb_true_iff, orb_false_iff in H2.
    exists e. tauto.
  - intros [e [Hin [Hd [H1 [H2 H3]]]]]. exists e. split; [exact Hd|]. apply filter_In. split; [exact Hin|].
    rewrite H1, H2, H3. reflexivity.
Qed.

(* each mapped field is listed in not_analyzed_fields iff its (overlaid) definition is "not analysed" *)
Lemma not_analyzed_iff s e :
  coherent s = true -> In e (iter_fields s true) ->
  mem_str (e_dot e) (not_analyzed_fields s) = not_analyzed_def (e_def e).
Proof.
  intros Hc Hin. destruct (not_analyzed_def (e_def e)) eqn:Hna.
  - apply not_analyzed_fields_spec. exists e. auto.
  - destruct (mem_str (e_dot e) (not_analyzed_fields s)) eqn:Hm; [|reflexivity].
    apply not_analyzed_fields_spec in Hm. destruct Hm as [e' [Hin' [Hd' Hna']]].
    unfold coherent in Hc. rewrite forallb_forall in Hc. specialize (Hc e Hin).
    rewrite forallb_forall in Hc. specialize (Hc e' Hin').
    rewrite <- Hd' in Hc. rewrite str_eqb_refl in Hc. cbn in Hc. unfold na_entry in Hc.
    rewrite Hna, Hna' in Hc. discriminate Hc.
Qed.


Lemma leaf_not_analyzed d :
  is_container_type d = false -> not_analyzed_def d = negb (analysed_text d).
Proof.
  unfold is_container_type, not_analyzed_def, analysed_text. intros H. apply orb_false_iff in H.
  destruct H as [Ho Hn]. rewrite Ho, Hn.
  destruct (fd_type d) as [ty|]; [|reflexivity].
  unfold type_is. cbn [ostr_eqb].
  destruct (str_eqb ty k_text) eqn:Et; destruct (str_eqb ty k_string) eqn:Es;
    destruct (str_eqb _ k_not_analyzed); try reflexivity.
  all: apply str_eqb_eq in Et; apply str_eqb_eq in Es; subst ty; discriminate Es.
Qed.

(* a sub-field's overlaid definition analyses like its own one as soon as it does not inherit the index
   of a legacy string parent (negation = finding F12b) *)

Lemma merge_not_analyzed p sd :
  sub_self_described p sd = true -> not_analyzed_def (merge_def p sd) = not_analyzed_def sd.
Proof.
  destruct p as [pt pi pf pp], sd as [st si sf sp]. unfold sub_self_described, not_analyzed_def.
  cbn [merge_def fd_type fd_index]. destruct st as [ty|]; [|discriminate].
  intros H. apply orb_true_iff in H. destruct H as [H|H].
  - apply negb_true_iff in H. unfold type_is. cbn [ostr_eqb]. rewrite H. reflexivity.
  - destruct si as [i|]; [reflexivity|]. destruct pi as [i|]; [|reflexivity].
    apply negb_true_iff in H. cbn [fd_index]. rewrite H. reflexivity.
Qed.

(* ================================================================ spellings of field specifications *)
Section SpecInd.
  Variable P : spec -> Prop.
  Hypothesis HN : P SNone.
  Hypothesis HL : forall l, P (SList l).
  Hypothesis HD : forall kv, Forall (fun e => P (snd e)) kv -> P (SDict kv).
  Fixpoint spec_ind' (s : spec) : P s :=
    match s with
    | SNone => HN
    | SList l => HL l
    | SDict kv =>
        HD kv ((fix go (kv : list (str * spec)) : Forall (fun e => P (snd e)) kv :=
                  match kv with
                  | [] => Forall_nil _
                  | e :: kv' => Forall_cons e (spec_ind' (snd e)) (go kv')
                  end) kv)
    end.
End SpecInd.

(* the component paths a specification denotes, written from the documentation of the specs:
   a list denotes its names; a dict denotes its keys whose value is empty (None, {}, []) and, for the
   other keys, the key followed by what the value denotes *)
Inductive denotes : spec -> list str -> Prop :=
| den_list l k : In k l -> denotes (SList l) [k]
| den_leaf kv k v : In (k, v) kv -> spec_falsy v = true -> denotes (SDict kv) [k]
| den_sub kv k v p : In (k, v) kv -> spec_falsy v = false -> denotes v p -> denotes (SDict kv) (k :: p).

Definition names (s : spec) (x : str) : Prop := exists p, denotes s p /\ dotted p = x.
Definition same_field_set (s1 s2 : spec) : Prop := forall x, names s1 x <-> names s2 x.

Lemma flatten_dict_go kv :
  (fix go (kv : list (str * spec)) : list (list str) :=
     match kv with
     | [] => []
     | (k, v) :: kv' => map (fun p => k :: p) (flatten_paths v) ++ go kv'
     end) kv = flat_map (fun e => map (fun p => fst e :: p) (flatten_paths (snd e))) kv.
Proof. induction kv as [|[k v] kv IH]; [reflexivity|]. cbn [flat_map fst snd]. rewrite IH. reflexivity. Qed.

Lemma flatten_paths_spec : forall s p,
  In p (flatten_paths s) <-> (if spec_falsy s then p = [] else denotes s p).
Proof.
  induction s as [|l|kv IH] using spec_ind'; intros p.
  - cbn. split; [intros [H|[]]; auto|intros ->; auto].
  - destruct l as [|k l].
    + cbn. split; [intros [H|[]]; auto|intros ->; auto].
    + change (flatten_paths (SList (k :: l))) with (map (fun k => [k]) (k :: l)).
      cbn [spec_falsy]. rewrite in_map_iff. split.
      * intros [k' [<- Hin]]. constructor. exact Hin.
      * intros H. inversion H; subst. eexists; split; [reflexivity|assumption].
  - destruct kv as [|e kv].
    + cbn. split; [intros [H|[]]; auto|intros ->; auto].
    + remember (e :: kv) as kv0 eqn:Ekv.
      assert (Hf : spec_falsy (SDict kv0) = false) by (subst; reflexivity). rewrite Hf.
      assert (Hfl : flatten_paths (SDict kv0) =
                    flat_map (fun e => map (fun p => fst e :: p) (flatten_paths (snd e))) kv0).
      { subst kv0. cbn [flatten_paths]. rewrite <- flatten_dict_go. reflexivity. }
      rewrite Hfl, in_flat_map. clear Hfl Hf Ekv. rewrite Forall_forall in IH. split.
      * intros [[k v] [Hin Hp]]. cbn [fst snd] in Hp. apply in_map_iff in Hp. destruct Hp as [q [<- Hq]].
        apply (IH _ Hin) in Hq. cbn [snd] in Hq. destruct (spec_falsy v) eqn:Ev.
        -- subst q. eapply den_leaf; eauto.
        -- eapply den_sub; eauto.
      * intros H. inversion H as [ | kv' k v Hin Hfa | kv' k v q Hin Hfa Hden]; subst.
        -- exists (k, v). split; [assumption|]. cbn [fst snd]. apply in_map_iff. exists []. split; [reflexivity|].
           apply (IH _ Hin). cbn [snd]. rewrite Hfa. reflexivity.
        -- exists (k, v). split; [assumption|]. cbn [fst snd]. apply in_map_iff. exists q. split; [reflexivity|].
           apply (IH _ Hin). cbn [snd]. rewrite Hfa. assumption.
Qed.

Lemma normalize_dict_go kv :
  (fix go (kv : list (str * spec)) : list (str * spec) :=
     match kv with
     | [] => []
     | (k, v) :: kv' => (k, normalize_nested v) :: go kv'
     end) kv = map (fun e => (fst e, normalize_nested (snd e))) kv.
Proof. induction kv as [|[k v] kv IH]; [reflexivity|]. cbn [map fst snd]. rewrite IH. reflexivity. Qed.

Lemma normalize_nested_dict kv :
  normalize_nested (SDict kv) = SDict (map (fun e => (fst e, normalize_nested (snd e))) kv).
Proof. cbn [normalize_nested]. rewrite normalize_dict_go. reflexivity. Qed.

Lemma mem_dedup' x l : mem_str x (dedup l) = mem_str x l.
Proof.
  induction l as [|y l IH]; [reflexivity|]. cbn [dedup mem_str]. destruct (str_eqb x y) eqn:E; [reflexivity|].
  cbn [orb]. rewrite <- IH. clear IH. induction (dedup l) as [|z l' IH']; [reflexivity|].
  cbn [filter]. destruct (str_eqb y z) eqn:Eyz; cbn [negb].
  - cbn [mem_str]. apply str_eqb_eq in Eyz. subst z. rewrite E. exact IH'.
  - cbn [mem_str]. rewrite IH'. reflexivity.
Qed.

Lemma falsy_normalize s : spec_falsy (normalize_nested s) = spec_falsy s.
Proof.
  destruct s as [|[|k l]|[|[k v] kv]]; try reflexivity.
Qed.

Lemma denotes_normalize : forall s p, denotes (normalize_nested s) p <-> denotes s p.
Proof.
  induction s as [|l|kv IH] using spec_ind'; intros p.
  - cbn. split; intros H; inversion H as [ | ? ? ? Hin | ? ? ? ? Hin]; destruct Hin.
  - cbn [normalize_nested]. split; intros H.
    + inversion H as [ | kv' k v Hin Hfa | kv' k v q Hin Hfa Hden]; subst.
      * apply in_map_iff in Hin. destruct Hin as [k' [Heq Hin]]. inversion Heq; subst.
        constructor. apply mem_str_In. rewrite <- mem_dedup'. apply mem_str_In. exact Hin.
      * apply in_map_iff in Hin. destruct Hin as [k' [Heq Hin]]. inversion Heq; subst. discriminate Hfa.
    + inversion H as [l' k Hin | | ]; subst. eapply den_leaf with (v := SDict []); [|reflexivity].
      apply in_map_iff. exists k. split; [reflexivity|]. apply mem_str_In. rewrite mem_dedup'. apply mem_str_In. exact Hin.
  - rewrite normalize_nested_dict. rewrite Forall_forall in IH. split; intros H.
    + inversion H as [ | kv' k v Hin Hfa | kv' k v q Hin Hfa Hden]; subst.
      * apply in_map_iff in Hin. destruct Hin as [[k' v'] [Heq Hin]]. cbn [fst snd] in Heq. inversion Heq; subst.
        rewrite falsy_normalize in Hfa. eapply den_leaf; eauto.
      * apply in_map_iff in Hin. destruct Hin as [[k' v'] [Heq Hin]]. cbn [fst snd] in Heq. inversion Heq; subst.
        rewrite falsy_normalize in Hfa. eapply den_sub; eauto. apply (IH _ Hin). exact Hden.
    + inversion H as [ | kv' k v Hin Hfa | kv' k v q Hin Hfa Hden]; subst.
      * eapply den_leaf with (v := normalize_nested v); [|rewrite falsy_normalize; exact Hfa].
        apply in_map_iff. exists (k, v). auto.
      * eapply den_sub with (v := normalize_nested v); [|rewrite falsy_normalize; exact Hfa|apply (IH _ Hin); exact Hden].
        apply in_map_iff. exists (k, v). auto.
Qed.

(* membership in the flattened set of a dict specification *)
Lemma mem_flat_dict kv x :
  mem_str x (dedup (map dotted (flatten_paths (SDict kv)))) = true <->
  (names (SDict kv) x \/ (kv = [] /\ x = [])).
Proof.
  rewrite mem_dedup', mem_str_In, in_map_iff. split.
  - intros [p [Hd Hin]]. apply flatten_paths_spec in Hin. destruct kv as [|e kv].
    + cbn in Hin. subst p. right. split; [reflexivity|]. symmetry. exact Hd.
    + left. exists p. split; [exact Hin|exact Hd].
  - intros [[p [Hden Hd]]|[-> ->]].
    + exists p. split; [exact Hd|]. apply flatten_paths_spec. destruct kv as [|e kv]; [|exact Hden].
      inversion Hden as [ | ? ? ? Hin | ? ? ? ? Hin]; destruct Hin.
    + exists []. split; [reflexivity|]. left. reflexivity.
Qed.

Lemma names_list l x : names (SList l) x <-> In x l.
Proof.
  split.
  - intros [p [Hden Hd]]. inversion Hden as [l' k Hin | | ]; subst. exact Hin.
  - intros Hin. exists [x]. split; [constructor; exact Hin|reflexivity].
Qed.

(* ---- nested specifications *)
Definition nested_names (s : spec) : list str := flatten_nested (normalize_nested s).

Lemma mem_nested_names s x :
  mem_str x (nested_names s) = true <-> (names s x \/ (spec_falsy s = true /\ x = [])).
Proof.
  unfold nested_names.
  assert (Hshape : exists kv, normalize_nested s = SDict kv /\ (kv = [] <-> spec_falsy s = true)).
  { destruct s as [|l|kv].
    - exists []. split; [reflexivity|]. split; reflexivity.
    - eexists. split; [reflexivity|]. destruct l; cbn; split; intros H; try reflexivity; discriminate.
    - rewrite normalize_nested_dict. eexists. split; [reflexivity|]. destruct kv; cbn; split; intros H;
        try reflexivity; discriminate. }
  destruct Hshape as [kv [Hn Hempty]].
  assert (Hnames : names (SDict kv) x <-> names s x).
  { rewrite <- Hn. unfold names. split; intros [p [Hden Hd]]; exists p; split; try exact Hd;
      apply denotes_normalize; exact Hden. }
  rewrite Hn. unfold flatten_nested. rewrite mem_flat_dict, Hnames, Hempty. reflexivity.
Qed.

(* ---- object (and sub field) specifications; None means "no specification" and is kept apart *)
Definition object_names (s : spec) : list str :=
  match normalize_object s with Some l => l | None => [] end.

Lemma mem_object_names s x :
  s <> SNone ->
  mem_str x (object_names s) = true <-> (names s x \/ (s = SDict [] /\ x = [])).
Proof.
  intros Hs. destruct s as [|l|kv]; [congruence| |].
  - unfold object_names. cbn [normalize_object]. rewrite mem_dedup', mem_str_In, names_list.
    split; [auto|]. intros [H|[H _]]; [exact H|discriminate H].
  - unfold object_names. cbn [normalize_object]. rewrite mem_flat_dict. split; intros [H|[H1 H2]]; auto.
    + right. split; [subst; reflexivity|exact H2].
    + right. split; [congruence|exact H2].
Qed.

Lemma rsplit1_head_nil : rsplit1_head c_dot [] = []. Proof. reflexivity. Qed.

Lemma mem_prefixes p l :
  mem_str p (prefixes_of l) = true <-> exists x, In x l /\ rsplit1_head c_dot x = p.
Proof.
  unfold prefixes_of. rewrite mem_dedup', mem_str_In, in_map_iff. split; intros [x [H1 H2]]; exists x; auto.
Qed.

Lemma bool_ext (a b : bool) : (a = true <-> b = true) -> a = b.
Proof. destruct a, b; intros [H1 H2]; try reflexivity; [symmetry; apply H1|apply H2]; reflexivity. Qed.

Lemma prefixes_agree l1 l2 :
  (forall x, x <> [] -> mem_str x l1 = mem_str x l2) ->
  forall p, p <> [] -> mem_str p (prefixes_of l1) = mem_str p (prefixes_of l2).
Proof.
  intros H p Hp. apply bool_ext. rewrite !mem_prefixes.
  split; intros [x [Hin Hx]]; exists x; (split; [|exact Hx]);
    assert (Hne : x <> []) by (intros ->; rewrite rsplit1_head_nil in Hx; congruence);
    apply mem_str_In; apply mem_str_In in Hin; [rewrite <- (H x Hne)|rewrite (H x Hne)]; exact Hin.
Qed.

Theorem nested_spellings s1 s2 :
  same_field_set s1 s2 ->
  (forall x, x <> [] -> mem_str x (nested_names s1) = mem_str x (nested_names s2)) /\
  (forall p, p <> [] -> mem_str p (prefixes_of (nested_names s1)) = mem_str p (prefixes_of (nested_names s2))).
Proof.
  intros Hs.
  assert (H : forall x, x <> [] -> mem_str x (nested_names s1) = mem_str x (nested_names s2)).
  { intros x Hx. apply bool_ext. rewrite !mem_nested_names. specialize (Hs x). tauto. }
  split; [exact H|apply prefixes_agree; exact H].
Qed.

Theorem object_spellings s1 s2 :
  same_field_set s1 s2 -> s1 <> SNone -> s2 <> SNone ->
  (forall x, x <> [] -> mem_str x (object_names s1) = mem_str x (object_names s2)) /\
  (forall p, p <> [] -> mem_str p (prefixes_of (object_names s1)) = mem_str p (prefixes_of (object_names s2))).
Proof.
  intros Hs H1 H2.
  assert (H : forall x, x <> [] -> mem_str x (object_names s1) = mem_str x (object_names s2)).
  { intros x Hx. apply bool_ext. rewrite (mem_object_names _ _ H1), (mem_object_names _ _ H2).
    specialize (Hs x). tauto. }
  split; [exact H|apply prefixes_agree; exact H].
Qed.

(* ================================================================ options m fed to the builder *)
(* what the nesting checker and the builder derive from query_builder_options() *)
Definition refused (s : schema) (comps : list str) : bool :=
  mem_str (dotted comps) (ce_nested_prefixes (ev_chk (mk_env (options s)))) ||
  mem_str (dotted comps) (ce_object_prefixes (ev_chk (mk_env (options s)))).
Definition nested_anchor (s : schema) (comps : list str) : option str :=
  try_prefixes (ev_nested_prefixes (mk_env (options s))) [] comps (length comps).

Lemma check_final_options s comps :
  comps <> [] ->
  check_final (ev_chk (mk_env (options s))) comps = if refused s comps then Some XNested else None.
Proof.
  intros Hne. destruct comps as [|c cs]; [congruence|]. unfold check_final, refused.
  destruct (mem_str _ (ce_nested_prefixes _)); [reflexivity|].
  destruct (mem_str _ (ce_object_prefixes _)); [reflexivity|]. cbn [orb].
  change (ce_sub_fields (ev_chk (mk_env (options s)))) with (@None (list str)).
  destruct (Nat.ltb 1 (length (c :: cs))); reflexivity.
Qed.

Theorem build_options s comps x t :
  comps <> [] -> forallb nodot comps = true -> has_wildcard x = false -> spelling comps x t ->
  build (options s) t =
  if refused s comps then RExc XNested
  else ROk (wrap_nested (nested_anchor s comps)
                        (clause (dotted comps) (mem_str (dotted comps) (not_analyzed_fields s)) x)).
Proof.
  intros Hne Hd Hx [[mf [mw [Hf [Hw ->]]]]|Hc].
  - rewrite (build_dotted (options s) mf mw (dotted comps) x eq_refl eq_refl Hf Hw Hx).
    unfold split_nested. rewrite (split_dotted _ Hne Hd). rewrite (check_final_options _ _ Hne).
    destruct (refused s comps); reflexivity.
  - rewrite (build_chain (options s) comps x t eq_refl eq_refl Hx Hc Hd).
    rewrite (check_final_options _ _ Hne). destruct (refused s comps); reflexivity.
Qed.

(* ---- the object specification as the builder and its checker see it *)
Lemma prefixes_dedup p l : mem_str p (prefixes_of (dedup l)) = mem_str p (prefixes_of l).
Proof.
  apply bool_ext. rewrite !mem_prefixes. split; intros [x [Hin Hx]]; exists x; (split; [|exact Hx]);
    apply mem_str_In; apply mem_str_In in Hin; [rewrite <- mem_dedup'|rewrite mem_dedup']; exact Hin.
Qed.

Lemma env_object cfg :
  c_object cfg <> SNone ->
  ev_object (mk_env cfg) = Some (object_names (c_object cfg)) /\
  ce_object_fields (ev_chk (mk_env cfg)) = Some (dedup (object_names (c_object cfg))) /\
  ce_object_prefixes (ev_chk (mk_env cfg)) = prefixes_of (dedup (object_names (c_object cfg))).
Proof.
  intros H. unfold mk_env, mk_chk_env, object_names. cbn [ev_object ev_chk ce_object_fields ce_object_prefixes].
  destruct (c_object cfg) as [|l|kv]; [congruence| |]; cbn [normalize_object spec_of_set]; auto.
Qed.

Theorem object_spellings_env cfg1 cfg2 :
  same_field_set (c_object cfg1) (c_object cfg2) -> c_object cfg1 <> SNone -> c_object cfg2 <> SNone ->
  (forall x, x <> [] -> omem x (ev_object (mk_env cfg1)) = omem x (ev_object (mk_env cfg2))) /\
  (forall x, x <> [] -> omem x (ce_object_fields (ev_chk (mk_env cfg1))) =
                        omem x (ce_object_fields (ev_chk (mk_env cfg2)))) /\
  (forall p, p <> [] -> mem_str p (ce_object_prefixes (ev_chk (mk_env cfg1))) =
                        mem_str p (ce_object_prefixes (ev_chk (mk_env cfg2)))).
Proof.
  intros Hs H1 H2. destruct (object_spellings _ _ Hs H1 H2) as [Hn Hp].
  destruct (env_object cfg1 H1) as [A1 [B1 C1]]. destruct (env_object cfg2 H2) as [A2 [B2 C2]].
  rewrite A1, A2, B1, B2, C1, C2. cbn [omem]. split; [exact Hn|]. split.
  - intros x Hx. rewrite !mem_dedup'. apply Hn. exact Hx.
  - intros p Hp'. rewrite !prefixes_dedup. apply Hp. exact Hp'.
Qed.

(* ================================================================ resolve finds what the walk yields *)
Lemma obj_get_In {A} k (o : list (str * A)) v : obj_get k o = Some v -> In (k, v) o.
Proof.
  induction o as [|[k' v'] o IH]; [discriminate|]. cbn [obj_get].
  destruct (str_eqb k k') eqn:E.
  - intros H. injection H as <-. apply str_eqb_eq in E. subst k'. left. reflexivity.
  - intros H. right. apply IH. exact H.
Qed.

Lemma walk_list_in f parents l n d e :
  In (n, d) l -> In e (f parents n d) -> In e (walk_list f parents l).
Proof.
  induction l as [|[n' d'] l IH]; intros Hin He; [destruct Hin|].
  cbn [walk_list]. apply in_or_app. destruct Hin as [Heq|Hin].
  - inversion Heq; subst. left. exact He.
  - right. apply IH; assumption.
Qed.

Lemma walk_def_head sub parents n d : In (n, d, parents) (walk_def sub parents n d).
Proof. destruct d. left. reflexivity. Qed.

Lemma walk_def_subs parents n d sn sd :
  In (sn, sd) (fd_fields d) -> In (sn, merge_def d sd, parents ++ [(n, d)]) (walk_def true parents n d).
Proof.
  destruct d as [ty idx flds props]. cbn [fd_fields]. intros Hin. cbn [walk_def]. right.
  apply in_or_app. left. apply in_map_iff. exists (sn, sd). split; [reflexivity|exact Hin].
Qed.

Lemma walk_def_container sub parents n ty idx props :
  walk_def sub parents n (FDef ty idx [] props) =
  (n, FDef ty idx [] props, parents) ::
  walk_list (walk_def sub) (parents ++ [(n, FDef ty idx [] props)]) props.
Proof. cbn [walk_def]. destruct sub; reflexivity. Qed.

(* what wf_def says about a field with properties *)
Lemma wf_def_props_go (l : list (str * fdef)) :
  (fix go (l : list (str * fdef)) : bool :=
     match l with
     | [] => true
     | (n, c) :: l' => nonempty_name n && nodot n && wf_def c && go l'
     end) l = true ->
  forall n c, In (n, c) l -> wf_def c = true.
Proof.
  induction l as [|[n' c'] l IH]; intros H n c Hin; [destruct Hin|].
  apply andb_true_iff in H. destruct H as [H Hl]. apply andb_true_iff in H. destruct H as [_ Hc].
  destruct Hin as [Heq|Hin]; [inversion Heq; subst; exact Hc|]. eapply IH; eassumption.
Qed.

Lemma wf_def_container d :
  wf_def d = true -> fd_props d <> [] ->
  fd_fields d = [] /\ forall n c, In (n, c) (fd_props d) -> wf_def c = true.
Proof.
  destruct d as [ty idx flds props]. cbn [fd_props fd_fields]. intros H Hne.
  destruct props as [|x props]; [congruence|]. cbn [wf_def] in H.
  repeat (apply andb_true_iff in H; destruct H as [H ?]).
  split.
  - destruct flds; [reflexivity|discriminate H].
  - apply wf_def_props_go. assumption.
Qed.

Definition last_name (comps : list str) : str := last comps [].

(* the field found by `resolve` is yielded by the walk (with sub-fields), under its own definition — or,
   for a sub-field, under the holder's definition overlaid by its own — and with the same ancestors *)
Lemma resolve_walk : forall comps props anc d anc',
  (forall n c, In (n, c) props -> wf_def c = true) ->
  resolve props anc comps = Some (d, anc') ->
  map fst anc' ++ [last_name comps] = map fst anc ++ comps /\
  (In (last_name comps, d, anc') (walk_properties true anc props) \/
   exists anc0 c p, anc' = anc0 ++ [(c, p)] /\ fd_props p = [] /\
                    In (last_name comps, merge_def p d, anc') (walk_properties true anc props)).
Proof.
  induction comps as [|c cs IH]; intros props anc d anc' Hwf H; [discriminate H|].
  cbn [resolve] in H. destruct (obj_get c props) as [dd|] eqn:Eg; [|discriminate H].
  apply obj_get_In in Eg. pose proof (Hwf _ _ Eg) as Hdd.
  destruct cs as [|s cs'].
  - injection H as <- <-. split; [reflexivity|]. left.
    unfold walk_properties. eapply walk_list_in; [exact Eg|apply walk_def_head].
  - destruct (fd_props dd) as [|pp pps] eqn:Ep.
    + destruct cs' as [|? ?]; [|discriminate H].
      destruct (obj_get s (fd_fields dd)) as [sd|] eqn:Es; [|discriminate H].
      injection H as <- <-. apply obj_get_In in Es. split.
      * rewrite map_app. cbn [map fst]. rewrite <- app_assoc. reflexivity.
      * right. exists anc, c, dd. split; [reflexivity|]. split; [exact Ep|].
        unfold walk_properties. eapply walk_list_in; [exact Eg|]. apply walk_def_subs. exact Es.
    + assert (Hne : fd_props dd <> []) by (rewrite Ep; discriminate).
      destruct (wf_def_container dd Hdd Hne) as [Hf Hsub].
      rewrite <- Ep in H. apply (IH _ _ _ _ Hsub) in H. destruct H as [Hn Hin].
      assert (Hl : last_name (c :: s :: cs') = last_name (s :: cs')) by reflexivity.
      rewrite Hl. split.
      * rewrite Hn. rewrite map_app. cbn [map fst]. rewrite <- app_assoc. reflexivity.
      * assert (Hincl : forall e, In e (walk_properties true (anc ++ [(c, dd)]) (fd_props dd)) ->
                                  In e (walk_properties true anc props)).
        { intros e He. unfold walk_properties. eapply walk_list_in; [exact Eg|].
          destruct dd as [ty idx flds props']. cbn [fd_fields fd_props] in *. subst flds.
          rewrite walk_def_container. right. exact He. }
        destruct Hin as [Hin|[anc0 [c0 [p [Ha [Hp Hin]]]]]].
        -- left. apply Hincl. exact Hin.
        -- right. exists anc0, c0, p. split; [exact Ha|]. split; [exact Hp|]. apply Hincl. exact Hin.
Qed.

Lemma wf_schema_props s props :
  wf_schema s = true -> In props (doc_props s) -> forall n c, In (n, c) props -> wf_def c = true.
Proof.
  unfold wf_schema. rewrite forallb_forall. intros H Hin. specialize (H _ Hin). unfold wf_props in H.
  destruct props as [|x props]; [intros n c []|].
  apply (wf_def_container _ H). cbn [fd_props]. discriminate.
Qed.

Lemma leaf_not_container d : is_leaf_def d = true -> is_container_type d = false.
Proof.
  unfold is_leaf_def. intros H. apply andb_true_iff in H. destruct H as [H _].
  apply andb_true_iff in H. destruct H as [_ H]. apply negb_true_iff in H. exact H.
Qed.

Theorem typing_resolved s comps d anc x t j :
  wf_schema s = true -> coherent s = true -> mapped_leaf s comps d anc -> subfield_ok anc d = true ->
  forallb nodot comps = true -> has_wildcard x = false -> spelling comps x t ->
  build (options s) t = ROk j ->
  exists p, j = wrap_nested p (clause (dotted comps) (negb (analysed_text d)) x).
Proof.
  intros Hwf Hc [props [Hin [Hr Hl]]] Hg Hd Hx Hsp Hb.
  assert (Hne : comps <> []) by (destruct comps; [discriminate Hr|discriminate]).
  rewrite (build_options s _ x t Hne Hd Hx Hsp) in Hb.
  destruct (refused s comps); [discriminate Hb|]. injection Hb as <-.
  exists (nested_anchor s comps). f_equal. f_equal.
  destruct (resolve_walk _ _ _ _ _ (wf_schema_props _ _ Hwf Hin) Hr) as [Hn Hw]. cbn [map app] in Hn.
  assert (Hiter : forall e, In e (walk_properties true [] props) -> In e (iter_fields s true)).
  { intros e He. unfold iter_fields. apply in_flat_map. exists props. split; assumption. }
  destruct Hw as [Hw|[anc0 [c [p [Ha [Hp Hw]]]]]].
  - pose proof (not_analyzed_iff s _ Hc (Hiter _ Hw)) as Hna.
    unfold e_dot, e_name, e_parents, e_def, dot_name in Hna. cbn [fst snd] in Hna.
    rewrite Hn in Hna. rewrite Hna. apply leaf_not_analyzed. apply leaf_not_container. exact Hl.
  - pose proof (not_analyzed_iff s _ Hc (Hiter _ Hw)) as Hna.
    unfold e_dot, e_name, e_parents, e_def, dot_name in Hna. cbn [fst snd] in Hna.
    rewrite Hn in Hna. rewrite Hna.
    assert (Hg' : sub_self_described p d = true).
    { unfold subfield_ok, subfield_holder in Hg. rewrite Ha, rev_unit, Hp in Hg. exact Hg. }
    rewrite (merge_not_analyzed _ _ Hg'). apply leaf_not_analyzed. apply leaf_not_container. exact Hl.
Qed.

(* ================================================================ what nested_fields() computes *)
(* ---- dotted strings *)
Lemma dotted_cons k p : p <> [] -> dotted (k :: p) = k ++ c_dot :: dotted p.
Proof. unfold dotted. destruct p; [congruence|]. reflexivity. Qed.

Lemma dotted_single k : dotted [k] = k. Proof. reflexivity. Qed.

Lemma dotted_app a b : a <> [] -> b <> [] -> dotted (a ++ b) = dotted a ++ c_dot :: dotted b.
Proof.
  induction a as [|x [|y a'] IH]; intros Ha Hb; [congruence| |].
  - cbn [app]. rewrite dotted_cons by exact Hb. reflexivity.
  - change ((x :: y :: a') ++ b) with (x :: ((y :: a') ++ b)).
    rewrite dotted_cons by discriminate. rewrite IH by (try discriminate; exact Hb).
    rewrite (dotted_cons x (y :: a')) by discriminate. rewrite <- app_assoc. reflexivity.
Qed.

(* a is a strict dotted prefix of b *)
Definition sprefix (a b : str) : Prop := exists c, b = a ++ c_dot :: c.

(* ---- the leaves of a dict of dicts, as dotted strings (what flatten yields) *)
Inductive lname : list (str * spec) -> str -> Prop :=
| ln_leaf T k v : In (k, v) T -> sd_kv v = [] -> lname T k
| ln_sub T k v x : In (k, v) T -> lname (sd_kv v) x -> lname T (k ++ c_dot :: x).

Lemma lname_nonempty T x : lname T x -> T <> [].
Proof. intros H. inversion H as [? ? ? Hin|? ? ? ? Hin]; subst; intros ->; destruct Hin. Qed.

(* ---- insertion-ordered dict operations *)
Lemma obj_set_in {A} k (v : A) T k' v' :
  In (k', v') (obj_set k v T) -> (k', v') = (k, v) \/ In (k', v') T.
Proof.
  induction T as [|[k0 v0] T IH]; cbn [obj_set].
  - intros [H|[]]. left. symmetry. exact H.
  - destruct (str_eqb k k0) eqn:E.
    + apply str_eqb_eq in E. subst k0. intros [H|H]; [left; symmetry; exact H|right; right; exact H].
    + intros [H|H]; [right; left; exact H|]. destruct (IH H) as [H'|H']; [left; exact H'|right; right; exact H'].
Qed.

Lemma obj_get_set {A} k (v : A) T : obj_get k (obj_set k v T) = Some v.
Proof.
  induction T as [|[k0 v0] T IH]; cbn [obj_set obj_get].
  - rewrite str_eqb_refl. reflexivity.
  - destruct (str_eqb k k0) eqn:E; cbn [obj_get]; rewrite E; [reflexivity|exact IH].
Qed.

Lemma obj_set_has {A} k (v : A) T : In (k, v) (obj_set k v T).
Proof. apply obj_get_In. apply obj_get_set. Qed.

Lemma obj_set_keep {A} k (v : A) T k' v' :
  In (k', v') T -> (k' <> k \/ obj_get k T <> Some v') -> In (k', v') (obj_set k v T).
Proof.
  induction T as [|[k0 v0] T IH]; intros Hin Hne; [destruct Hin|]. cbn [obj_set obj_get] in *.
  destruct (str_eqb k k0) eqn:E.
  - apply str_eqb_eq in E. subst k0. destruct Hin as [Heq|Hin]; [|right; exact Hin].
    inversion Heq; subst. destruct Hne as [Hne|Hne]; congruence.
  - destruct Hin as [Heq|Hin]; [left; exact Heq|]. right. apply IH; assumption.
Qed.

Lemma obj_set_nonempty {A} k (v : A) T : obj_set k v T <> [].
Proof. destruct T as [|[k0 v0] T]; cbn; [discriminate|]. destruct (str_eqb k k0); discriminate. Qed.

Lemma nf_insert_nonempty names : forall T cum f, nf_insert T cum names f <> [].
Proof.
  induction names as [|n ns IH]; intros T cum f; cbn [nf_insert].
  - destruct cum; apply obj_set_nonempty.
  - destruct (obj_get _ T); [apply obj_set_nonempty|apply IH].
Qed.

Definition getkv (k : str) (T : list (str * spec)) : list (str * spec) :=
  match obj_get k T with Some s => sd_kv s | None => [] end.

(* ---- soundness of one insertion: nothing but the new name appears *)
Lemma lname_set_leaf T f x :
  lname (obj_set f (SDict []) T) x -> lname T x \/ x = f.
Proof.
  intros H. inversion H as [T' k v Hin Hv|T' k v y Hin Hy]; subst.
  - apply obj_set_in in Hin. destruct Hin as [Heq|Hin]; [inversion Heq; subst; right; reflexivity|].
    left. eapply ln_leaf; eassumption.
  - apply obj_set_in in Hin. destruct Hin as [Heq|Hin].
    + inversion Heq; subst. cbn in Hy. apply lname_nonempty in Hy. congruence.
    + left. eapply ln_sub; eassumption.
Qed.

Lemma lname_of_get T key s y : obj_get key T = Some s -> lname (sd_kv s) y -> lname T (key ++ c_dot :: y).
Proof. intros Hg Hy. eapply ln_sub; [apply obj_get_In; exact Hg|exact Hy]. Qed.

Lemma nf_insert_sound names : forall T cum f x,
  lname (nf_insert T cum names f) x -> lname T x \/ x = dotted (cum ++ names ++ [f]).
Proof.
  induction names as [|n ns IH]; intros T cum f x H; cbn [nf_insert] in H.
  - destruct cum as [|c cs].
    + apply lname_set_leaf in H. exact H.
    + remember (dotted (c :: cs)) as key eqn:Ek.
      assert (Hnew : dotted ((c :: cs) ++ [] ++ [f]) = key ++ c_dot :: f).
      { change ((c :: cs) ++ [] ++ [f]) with ((c :: cs) ++ [f]). rewrite dotted_app by discriminate.
        rewrite <- Ek. reflexivity. }
      rewrite Hnew. fold (getkv key T) in H.
      inversion H as [T' k v Hin Hv|T' k v y Hin Hy]; subst T' x.
      * apply obj_set_in in Hin. destruct Hin as [Heq|Hin].
        -- inversion Heq; subst v. cbn [sd_kv] in Hv. exfalso. exact (obj_set_nonempty _ _ _ Hv).
        -- left. eapply ln_leaf; eassumption.
      * apply obj_set_in in Hin. destruct Hin as [Heq|Hin].
        -- inversion Heq; subst k v. cbn [sd_kv] in Hy. apply lname_set_leaf in Hy.
           destruct Hy as [Hy| ->]; [|right; reflexivity]. left.
           unfold getkv in Hy. destruct (obj_get key T) as [s|] eqn:Eg.
           ++ eapply lname_of_get; eassumption.
           ++ apply lname_nonempty in Hy. congruence.
        -- left. eapply ln_sub; eassumption.
  - remember (dotted (cum ++ [n])) as key eqn:Ek.
    assert (Hnew : dotted (cum ++ (n :: ns) ++ [f]) = key ++ c_dot :: dotted (ns ++ [f])).
    { change (cum ++ (n :: ns) ++ [f]) with (cum ++ [n] ++ (ns ++ [f])). rewrite app_assoc.
      rewrite dotted_app; [rewrite <- Ek; reflexivity|destruct cum; discriminate|destruct ns; discriminate]. }
    destruct (obj_get key T) as [s|] eqn:Eg.
    + rewrite Hnew. inversion H as [T' k v Hin Hv|T' k v y Hin Hy]; subst T' x.
      * apply obj_set_in in Hin. destruct Hin as [Heq|Hin].
        -- inversion Heq; subst v. cbn [sd_kv] in Hv. exfalso. exact (nf_insert_nonempty _ _ _ _ Hv).
        -- left. eapply ln_leaf; eassumption.
      * apply obj_set_in in Hin. destruct Hin as [Heq|Hin].
        -- inversion Heq; subst k v. cbn [sd_kv] in Hy. apply IH in Hy. cbn [app] in Hy.
           destruct Hy as [Hy| ->]; [|right; reflexivity]. left. eapply lname_of_get; eassumption.
        -- left. eapply ln_sub; eassumption.
    + apply IH in H. rewrite <- app_assoc in H. exact H.
Qed.

(* ---- completeness of one insertion: the new name is a leaf right after *)
Lemma nf_insert_complete names : forall T cum f,
  lname (nf_insert T cum names f) (dotted (cum ++ names ++ [f])).
Proof.
  induction names as [|n ns IH]; intros T cum f; cbn [nf_insert].
  - destruct cum as [|c cs].
    + cbn [app]. rewrite dotted_single. eapply ln_leaf; [apply obj_set_has|reflexivity].
    + change ((c :: cs) ++ [] ++ [f]) with ((c :: cs) ++ [f]). rewrite dotted_app by discriminate.
      rewrite dotted_single. eapply ln_sub; [apply obj_set_has|]. cbn [sd_kv].
      eapply ln_leaf; [apply obj_set_has|reflexivity].
  - assert (Hnew : dotted (cum ++ (n :: ns) ++ [f]) = dotted (cum ++ [n]) ++ c_dot :: dotted (ns ++ [f])).
    { change (cum ++ (n :: ns) ++ [f]) with (cum ++ [n] ++ (ns ++ [f])). rewrite app_assoc.
      apply dotted_app; [destruct cum; discriminate|destruct ns; discriminate]. }
    destruct (obj_get (dotted (cum ++ [n])) T) as [s|] eqn:Eg.
    + rewrite Hnew. eapply ln_sub; [apply obj_set_has|]. cbn [sd_kv]. apply (IH (sd_kv s) [] f).
    + specialize (IH T (cum ++ [n]) f). rewrite <- app_assoc in IH. exact IH.
Qed.

(* ---- preservation: an insertion removes a leaf only if it passes through it or resets it *)
Lemma in_set_cases {A} key (v' : A) T k v :
  In (k, v) T -> k = key -> obj_get key T = Some v \/ In (k, v) (obj_set key v' T).
Proof.
  intros Hin ->. induction T as [|[k0 v0] T IH]; [destruct Hin|]. cbn [obj_get obj_set].
  destruct (str_eqb key k0) eqn:E.
  - apply str_eqb_eq in E. subst k0. destruct Hin as [Heq|Hin]; [inversion Heq; subst; left; reflexivity|].
    right. right. exact Hin.
  - destruct Hin as [Heq|Hin].
    + inversion Heq; subst. rewrite str_eqb_refl in E. discriminate E.
    + destruct (IH Hin) as [H|H]; [left; exact H|right; right; exact H].
Qed.

Lemma str_dec (a b : str) : {a = b} + {a <> b}.
Proof. apply list_eq_dec. apply N.eq_dec. Qed.

Lemma lname_set_leaf_keep T f x :
  lname T x -> x <> f -> ~ sprefix f x -> lname (obj_set f (SDict []) T) x.
Proof.
  intros H Hne Hnp. inversion H as [T' k v Hin Hv|T' k v y Hin Hy]; subst T' x.
  - destruct (str_dec k f) as [->|Hk]; [congruence|].
    eapply ln_leaf; [apply obj_set_keep; [exact Hin|left; exact Hk]|exact Hv].
  - destruct (str_dec k f) as [->|Hk]; [exfalso; apply Hnp; exists y; reflexivity|].
    eapply ln_sub; [apply obj_set_keep; [exact Hin|left; exact Hk]|exact Hy].
Qed.

Lemma sprefix_under key y z : sprefix y z -> sprefix (key ++ c_dot :: y) (key ++ c_dot :: z).
Proof. intros [c ->]. exists c. exact (app_assoc key (c_dot :: y) (c_dot :: c)). Qed.

Lemma under_inj key (y z : str) : key ++ c_dot :: y = key ++ c_dot :: z -> y = z.
Proof. intros H. apply app_inv_head in H. injection H as H. exact H. Qed.

Lemma nf_insert_keep names : forall T cum f x,
  lname T x ->
  x <> dotted (cum ++ names ++ [f]) ->
  ~ sprefix x (dotted (cum ++ names ++ [f])) -> ~ sprefix (dotted (cum ++ names ++ [f])) x ->
  lname (nf_insert T cum names f) x.
Proof.
  induction names as [|n ns IH]; intros T cum f x H Hne Hp1 Hp2; cbn [nf_insert].
  - destruct cum as [|c cs].
    + cbn [app] in *. rewrite dotted_single in *. apply lname_set_leaf_keep; assumption.
    + remember (dotted (c :: cs)) as key eqn:Ek.
      assert (Hnew : dotted ((c :: cs) ++ [] ++ [f]) = key ++ c_dot :: f).
      { change ((c :: cs) ++ [] ++ [f]) with ((c :: cs) ++ [f]). rewrite dotted_app by discriminate.
        rewrite <- Ek. reflexivity. }
      rewrite Hnew in *. clear Hnew.
      inversion H as [T' k v Hin Hv|T' k v y Hin Hy]; subst T' x.
      * destruct (str_dec k key) as [->|Hk]; [exfalso; apply Hp1; exists f; reflexivity|].
        eapply ln_leaf; [apply obj_set_keep; [exact Hin|left; exact Hk]|exact Hv].
      * destruct (str_dec k key) as [->|Hk];
          [|eapply ln_sub; [apply obj_set_keep; [exact Hin|left; exact Hk]|exact Hy]].
        destruct (in_set_cases key (SDict (obj_set f (SDict [])
                     match obj_get key T with Some s => sd_kv s | None => [] end)) T key v Hin eq_refl)
          as [Hg|Hkeep]; [|eapply ln_sub; [exact Hkeep|exact Hy]].
        rewrite Hg. eapply ln_sub; [apply obj_set_has|]. cbn [sd_kv]. apply lname_set_leaf_keep.
        -- exact Hy.
        -- intros ->. apply Hne. reflexivity.
        -- intros Hs. apply Hp2. apply sprefix_under. exact Hs.
  - remember (dotted (cum ++ [n])) as key eqn:Ek.
    assert (Hnew : dotted (cum ++ (n :: ns) ++ [f]) = key ++ c_dot :: dotted (ns ++ [f])).
    { change (cum ++ (n :: ns) ++ [f]) with (cum ++ [n] ++ (ns ++ [f])). rewrite app_assoc.
      rewrite dotted_app; [rewrite <- Ek; reflexivity|destruct cum; discriminate|destruct ns; discriminate]. }
    destruct (obj_get key T) as [s|] eqn:Eg.
    + rewrite Hnew in *. clear Hnew.
      inversion H as [T' k v Hin Hv|T' k v y Hin Hy]; subst T' x.
      * destruct (str_dec k key) as [->|Hk]; [exfalso; apply Hp1; eexists; reflexivity|].
        eapply ln_leaf; [apply obj_set_keep; [exact Hin|left; exact Hk]|exact Hv].
      * destruct (str_dec k key) as [->|Hk];
          [|eapply ln_sub; [apply obj_set_keep; [exact Hin|left; exact Hk]|exact Hy]].
        destruct (in_set_cases key (SDict (nf_insert (sd_kv s) [] ns f)) T key v Hin eq_refl)
          as [Hg|Hkeep]; [|eapply ln_sub; [exact Hkeep|exact Hy]].
        rewrite Eg in Hg. injection Hg as ->.
        eapply ln_sub; [apply obj_set_has|]. cbn [sd_kv]. apply IH.
        -- exact Hy.
        -- cbn [app]. intros ->. apply Hne. reflexivity.
        -- cbn [app]. intros Hs. apply Hp1. apply sprefix_under. exact Hs.
        -- cbn [app]. intros Hs. apply Hp2. apply sprefix_under. exact Hs.
    + apply IH; try rewrite <- app_assoc; assumption.
Qed.

(* ---- the whole loop of nested_fields *)
Definition relevant (e : entry) : bool := type_is (parent_type (e_parents e)) k_nested.

Lemma nf_step_relevant T e : relevant e = true -> nf_step T e = nf_insert T [] (map fst (e_parents e)) (e_name e).
Proof. unfold nf_step, relevant. intros ->. reflexivity. Qed.
Lemma nf_step_irrelevant T e : relevant e = false -> nf_step T e = T.
Proof. unfold nf_step, relevant. intros ->. reflexivity. Qed.

Lemma fold_sound E : forall T x,
  lname (fold_left nf_step E T) x ->
  lname T x \/ exists e, In e E /\ relevant e = true /\ x = e_dot e.
Proof.
  induction E as [|e E IH]; intros T x H; [left; exact H|]. cbn [fold_left] in H.
  apply IH in H. destruct H as [H|[e' [Hin [Hr Hx]]]].
  - destruct (relevant e) eqn:Er.
    + rewrite (nf_step_relevant _ _ Er) in H. apply nf_insert_sound in H. destruct H as [H|H]; [left; exact H|].
      right. exists e. split; [left; reflexivity|]. split; [exact Er|exact H].
    + rewrite (nf_step_irrelevant _ _ Er) in H. left. exact H.
  - right. exists e'. split; [right; exact Hin|]. split; assumption.
Qed.

Lemma fold_keep E : forall T x,
  lname T x ->
  (forall e, In e E -> relevant e = true -> ~ sprefix x (e_dot e) /\ ~ sprefix (e_dot e) x) ->
  lname (fold_left nf_step E T) x.
Proof.
  induction E as [|e E IH]; intros T x H Hs; [exact H|]. cbn [fold_left]. apply IH.
  - destruct (relevant e) eqn:Er; [|rewrite (nf_step_irrelevant _ _ Er); exact H].
    rewrite (nf_step_relevant _ _ Er). destruct (str_dec x (e_dot e)) as [->|Hne].
    + apply (nf_insert_complete (map fst (e_parents e)) T [] (e_name e)).
    + destruct (Hs e (or_introl eq_refl) Er) as [H1 H2]. apply nf_insert_keep; assumption.
  - intros e' Hin. apply Hs. right. exact Hin.
Qed.

Lemma fold_complete E1 e E2 T :
  relevant e = true ->
  (forall e', In e' E2 -> relevant e' = true ->
              ~ sprefix (e_dot e) (e_dot e') /\ ~ sprefix (e_dot e') (e_dot e)) ->
  lname (fold_left nf_step (E1 ++ e :: E2) T) (e_dot e).
Proof.
  intros Er Hs. rewrite fold_left_app. cbn [fold_left]. apply fold_keep; [|exact Hs].
  rewrite (nf_step_relevant _ _ Er). apply (nf_insert_complete (map fst (e_parents e)) _ [] (e_name e)).
Qed.

(* ---- dicts of dicts, and the link with the denotation of specifications *)
Inductive donly : spec -> Prop :=
| donly_intro kv : (forall k v, In (k, v) kv -> donly v) -> donly (SDict kv).

Lemma donly_kv s : donly s -> s = SDict (sd_kv s).
Proof. intros H. inversion H. reflexivity. Qed.

Lemma donly_in kv k v : donly (SDict kv) -> In (k, v) kv -> donly v.
Proof. intros H Hin. inversion H as [kv' Hall]; subst. eapply Hall. exact Hin. Qed.

Lemma donly_set k v T : donly v -> donly (SDict T) -> donly (SDict (obj_set k v T)).
Proof.
  intros Hv HT. constructor. intros k' v' Hin. apply obj_set_in in Hin.
  destruct Hin as [Heq|Hin]; [inversion Heq; subst; exact Hv|]. eapply donly_in; eassumption.
Qed.

Lemma donly_empty : donly (SDict []). Proof. constructor. intros k v []. Qed.

Lemma donly_get key T s : donly (SDict T) -> obj_get key T = Some s -> donly (SDict (sd_kv s)).
Proof.
  intros HT Hg. apply obj_get_In in Hg. pose proof (donly_in _ _ _ HT Hg) as Hs.
  rewrite <- (donly_kv _ Hs). exact Hs.
Qed.

Lemma nf_insert_donly names : forall T cum f, donly (SDict T) -> donly (SDict (nf_insert T cum names f)).
Proof.
  induction names as [|n ns IH]; intros T cum f HT; cbn [nf_insert].
  - destruct cum as [|c cs].
    + apply donly_set; [apply donly_empty|exact HT].
    + apply donly_set; [|exact HT]. apply donly_set; [apply donly_empty|].
      destruct (obj_get _ T) as [s|] eqn:Eg; [eapply donly_get; eassumption|apply donly_empty].
  - destruct (obj_get _ T) as [s|] eqn:Eg.
    + apply donly_set; [|exact HT]. apply IH. eapply donly_get; eassumption.
    + apply IH. exact HT.
Qed.

Lemma fold_donly E : forall T, donly (SDict T) -> donly (SDict (fold_left nf_step E T)).
Proof.
  induction E as [|e E IH]; intros T HT; [exact HT|]. cbn [fold_left]. apply IH.
  unfold nf_step. destruct (type_is _ _); [apply nf_insert_donly|]; exact HT.
Qed.

Lemma denotes_nonempty s p : denotes s p -> p <> [].
Proof. intros H. inversion H; discriminate. Qed.

Lemma denotes_lname s p : denotes s p -> donly s -> lname (sd_kv s) (dotted p).
Proof.
  induction 1 as [l k Hin|kv k v Hin Hfa|kv k v p Hin Hfa Hden IH]; intros Hd.
  - inversion Hd.
  - cbn [sd_kv]. rewrite dotted_single. eapply ln_leaf; [exact Hin|].
    pose proof (donly_in _ _ _ Hd Hin) as Hv. rewrite (donly_kv _ Hv) in Hfa. cbn in Hfa.
    destruct (sd_kv v); [reflexivity|discriminate Hfa].
  - cbn [sd_kv]. rewrite dotted_cons by (eapply denotes_nonempty; exact Hden).
    eapply ln_sub; [exact Hin|]. apply IH. eapply donly_in; eassumption.
Qed.

Lemma lname_denotes T x : lname T x -> donly (SDict T) -> exists p, denotes (SDict T) p /\ dotted p = x.
Proof.
  induction 1 as [T k v Hin Hv|T k v y Hin Hy IH]; intros Hd.
  - exists [k]. split; [|reflexivity]. eapply den_leaf; [exact Hin|].
    pose proof (donly_in _ _ _ Hd Hin) as Hdv. rewrite (donly_kv _ Hdv), Hv. reflexivity.
  - pose proof (donly_in _ _ _ Hd Hin) as Hdv.
    assert (Hdv' : donly (SDict (sd_kv v))) by (rewrite <- (donly_kv _ Hdv); exact Hdv).
    destruct (IH Hdv') as [p [Hp Hx]]. exists (k :: p). split.
    + eapply den_sub; [exact Hin| |rewrite (donly_kv _ Hdv); exact Hp].
      rewrite (donly_kv _ Hdv). apply lname_nonempty in Hy. destruct (sd_kv v); [congruence|reflexivity].
    + rewrite dotted_cons by (eapply denotes_nonempty; exact Hp). rewrite Hx. reflexivity.
Qed.

Lemma names_lname T x : donly (SDict T) -> (names (SDict T) x <-> lname T x).
Proof.
  intros Hd. split.
  - intros [p [Hp <-]]. exact (denotes_lname _ _ Hp Hd).
  - intros H. apply lname_denotes; assumption.
Qed.

(* ---- s.rsplit(".", 1)[0] of a dotted name whose last component has no dot *)
Lemma split_on_nonempty c s : split_on c s <> [].
Proof.
  induction s as [|x s IH]; cbn [split_on]; [discriminate|].
  destruct (split_on c s); [discriminate|]. destruct (N.eqb x c); discriminate.
Qed.

Lemma split_on_app c a b : split_on c (a ++ c :: b) = split_on c a ++ split_on c b.
Proof.
  induction a as [|y a IH].
  - cbn [app split_on]. rewrite N.eqb_refl. destruct (split_on c b) eqn:E; [|reflexivity].
    exfalso. exact (split_on_nonempty _ _ E).
  - cbn [app split_on]. rewrite IH. destruct (split_on c a) as [|w ws] eqn:E.
    + exfalso. exact (split_on_nonempty _ _ E).
    + cbn [app]. destruct (N.eqb y c); reflexivity.
Qed.

Lemma join_split c s : join [c] (split_on c s) = s.
Proof.
  induction s as [|x s IH]; [reflexivity|]. cbn [split_on].
  destruct (split_on c s) as [|w ws] eqn:E; [exfalso; exact (split_on_nonempty _ _ E)|].
  destruct (N.eqb x c) eqn:Ex.
  - apply N.eqb_eq in Ex. subst x. change (join [c] ([] :: w :: ws)) with (c :: join [c] (w :: ws)).
    rewrite IH. reflexivity.
  - destruct ws as [|w' ws'].
    + cbn [join] in *. rewrite IH. reflexivity.
    + cbn [join] in *. rewrite <- IH. reflexivity.
Qed.

Lemma rsplit1_head_snoc a f : nodot f = true -> rsplit1_head c_dot (a ++ c_dot :: f) = a.
Proof.
  intros Hf. unfold rsplit1_head. rewrite split_on_app, (split_nodot _ Hf), rev_unit.
  destruct (rev (split_on c_dot a)) as [|r rs] eqn:E.
  - exfalso. apply (split_on_nonempty c_dot a). rewrite <- (rev_involutive (split_on c_dot a)), E. reflexivity.
  - rewrite <- E, rev_involutive. apply join_split.
Qed.

(* ---- the builder's nested prefix set for query_builder_options() *)
Definition nested_prefix_set (s : schema) : list str := ev_nested_prefixes (mk_env (options s)).
Definition relevant_entries (s : schema) : list entry := filter relevant (iter_fields s false).

Lemma relevant_parents e : relevant e = true -> e_parents e <> [].
Proof. unfold relevant, parent_type. destruct (e_parents e); [discriminate|discriminate]. Qed.

Definition parent_str (e : entry) : str := dotted (map fst (e_parents e)).

Lemma e_dot_split' e : e_parents e <> [] -> e_dot e = parent_str e ++ c_dot :: e_name e.
Proof.
  intros Hr. unfold e_dot, dot_name, parent_str. rewrite dotted_app; [reflexivity| |discriminate].
  destruct (e_parents e); [congruence|discriminate].
Qed.
Lemma e_dot_split e : relevant e = true -> e_dot e = parent_str e ++ c_dot :: e_name e.
Proof. intros Hr. apply e_dot_split'. apply relevant_parents. exact Hr. Qed.

Lemma nested_names_lname s x :
  x <> [] ->
  (mem_str x (nested_names (nested_fields s)) = true <->
   lname (fold_left nf_step (iter_fields s false) []) x).
Proof.
  intros Hx. rewrite mem_nested_names. unfold nested_fields.
  rewrite (names_lname _ x (fold_donly _ _ donly_empty)). split; [intros [H|[_ H]]; [exact H|congruence]|auto].
Qed.

(* every nested prefix is the parent path of a field whose parent is nested *)
Theorem nested_prefix_sound s p :
  p <> [] -> mem_str p (nested_prefix_set s) = true ->
  exists e, In e (iter_fields s false) /\ relevant e = true /\ rsplit1_head c_dot (e_dot e) = p.
Proof.
  intros Hp H. unfold nested_prefix_set in H.
  change (ev_nested_prefixes (mk_env (options s))) with (prefixes_of (nested_names (nested_fields s))) in H.
  apply mem_prefixes in H. destruct H as [x [Hin Hx]].
  assert (Hne : x <> []) by (intros ->; rewrite rsplit1_head_nil in Hx; congruence).
  apply mem_str_In in Hin. apply (nested_names_lname s x Hne) in Hin.
  apply fold_sound in Hin. destruct Hin as [Hin|[e [He [Hr Hxe]]]].
  - apply lname_nonempty in Hin. congruence.
  - exists e. subst x. auto.
Qed.

(* the parent path of a field whose parent is nested IS a nested prefix when no later such field lies
   strictly below it or is a strict ancestor path of it *)
Theorem nested_prefix_complete s E1 e E2 :
  iter_fields s false = E1 ++ e :: E2 -> relevant e = true -> nodot (e_name e) = true ->
  (forall e', In e' E2 -> relevant e' = true ->
              ~ sprefix (e_dot e) (e_dot e') /\ ~ sprefix (e_dot e') (e_dot e)) ->
  mem_str (parent_str e) (nested_prefix_set s) = true.
Proof.
  intros HE Hr Hn Hs. unfold nested_prefix_set.
  change (ev_nested_prefixes (mk_env (options s))) with (prefixes_of (nested_names (nested_fields s))).
  apply mem_prefixes. exists (e_dot e). split.
  - apply mem_str_In. apply nested_names_lname.
    + rewrite (e_dot_split _ Hr). destruct (parent_str e); discriminate.
    + rewrite HE. apply fold_complete; assumption.
  - rewrite (e_dot_split _ Hr). apply rsplit1_head_snoc. exact Hn.
Qed.

(* ================================================================ the nesting clause *)
(* ---- executable guards on the walk *)
Definition sprefixb (a b : str) : bool := starts_with (a ++ [c_dot]) b.

Lemma starts_with_spec p : forall s, starts_with p s = true <-> exists c, s = p ++ c.
Proof.
  induction p as [|x p IH]; intros s.
  - cbn. split; [intros _; exists s; reflexivity|reflexivity].
  - destruct s as [|y s]; cbn [starts_with].
    + split; [discriminate|intros [c H]; discriminate H].
    + rewrite andb_true_iff, N.eqb_eq, IH. split.
      * intros [-> [c ->]]. exists c. reflexivity.
      * intros [c H]. injection H as -> ->. split; [reflexivity|exists c; reflexivity].
Qed.

Lemma sprefixb_spec a b : sprefixb a b = true <-> sprefix a b.
Proof.
  unfold sprefixb, sprefix. rewrite starts_with_spec.
  split; intros [c ->]; exists c; rewrite <- app_assoc; reflexivity.
Qed.

(* some field with a nested parent whose parent path is pstr survives: no later field with a nested parent
   lies strictly below it or is a strict ancestor path of it *)
Fixpoint survives_in (E : list entry) (pstr : str) : bool :=
  match E with
  | [] => false
  | e :: E2 =>
      (relevant e && str_eqb (parent_str e) pstr && nodot (e_name e) &&
       forallb (fun e' => negb (relevant e') ||
                          (negb (sprefixb (e_dot e) (e_dot e')) && negb (sprefixb (e_dot e') (e_dot e)))) E2)
      || survives_in E2 pstr
  end.

Lemma survives_in_spec E pstr :
  survives_in E pstr = true ->
  exists E1 e E2, E = E1 ++ e :: E2 /\ relevant e = true /\ parent_str e = pstr /\ nodot (e_name e) = true /\
    forall e', In e' E2 -> relevant e' = true ->
               ~ sprefix (e_dot e) (e_dot e') /\ ~ sprefix (e_dot e') (e_dot e).
Proof.
  induction E as [|e E2 IH]; [discriminate|]. cbn [survives_in]. intros H. apply orb_true_iff in H.
  destruct H as [H|H].
  - repeat (apply andb_true_iff in H; destruct H as [H ?]).
    exists [], e, E2. split; [reflexivity|]. split; [assumption|]. split; [apply str_eqb_eq; assumption|].
    split; [assumption|]. intros e' Hin Hr. rewrite forallb_forall in H0. specialize (H0 e' Hin).
    rewrite Hr in H0. cbn [negb orb] in H0. apply andb_true_iff in H0. destruct H0 as [A B].
    apply negb_true_iff in A, B. split; intros Hs; apply sprefixb_spec in Hs; congruence.
  - destruct (IH H) as [E1 [e0 [E3 [-> R]]]]. exists (e :: E1), e0, E3. split; [reflexivity|exact R].
Qed.

(* the type found along a chain of (name, type) when following a list of names *)
Fixpoint last_type_along (ns : list str) (chain : list (str * option str)) : option (option str) :=
  match ns, chain with
  | [n], (n', ty) :: _ => if str_eqb n n' then Some ty else None
  | n :: ns', (n', _) :: chain' => if str_eqb n n' then last_type_along ns' chain' else None
  | _, _ => None
  end.

Definition chain_of (e : entry) : list (str * option str) :=
  map (fun p => (fst p, fd_type (snd p))) (e_parents e) ++ [(e_name e, fd_type (e_def e))].

(* sanity of the walk (true for every well-formed description; checked by computation, see the harness):
   the names on the path of a field whose parent is nested / has the explicit type object are dot-free, and
   wherever the parent path of such a field is an initial part of the path of a walked field, the type found
   there is nested / object *)
Definition obj_parent (e : entry) : bool := type_is (parent_type (e_parents e)) k_object.
Definition sane_for (K : str) (s : schema) (e : entry) : bool :=
  nodot (e_name e) && forallb nodot (map fst (e_parents e)) &&
  forallb (fun e2 => match last_type_along (map fst (e_parents e)) (chain_of e2) with
                     | Some ty => type_is ty K
                     | None => true
                     end) (iter_fields s true).
Definition walk_sane (s : schema) : bool :=
  forallb (fun e => (negb (relevant e) || sane_for k_nested s e) &&
                    (negb (obj_parent e) || sane_for k_object s e))
          (iter_fields s false).

Definition anchor_survives (s : schema) (anc : list (str * fdef)) : bool :=
  match innermost_nested_ancestor anc with
  | None => true
  | Some pstr => survives_in (iter_fields s false) pstr
  end.

(* ---- try_prefixes *)
Lemma try_prefixes_none np comps k :
  (forall j, 1 <= j <= k -> mem_str (dotted (firstn j comps)) np = false) ->
  try_prefixes np [] comps k = None.
Proof.
  induction k as [|k IH]; intros H; [reflexivity|]. cbn [try_prefixes app].
  rewrite (H (S k)) by lia. apply IH. intros j Hj. apply H. lia.
Qed.

Lemma try_prefixes_some np comps k j :
  1 <= j <= k -> mem_str (dotted (firstn j comps)) np = true ->
  (forall j', j < j' <= k -> mem_str (dotted (firstn j' comps)) np = false) ->
  try_prefixes np [] comps k = Some (dotted (firstn j comps)).
Proof.
  induction k as [|k IH]; intros Hj Hm Hn; [lia|]. cbn [try_prefixes app].
  destruct (Nat.eq_dec j (S k)) as [->|Hne].
  - rewrite Hm. reflexivity.
  - rewrite (Hn (S k)) by lia. apply IH; [lia|exact Hm|]. intros j' Hj'. apply Hn. lia.
Qed.

(* ---- innermost nested ancestor *)
Definition nonnested (a : str * fdef) : Prop := type_is (fd_type (snd a)) k_nested = false.

Lemma innermost_from_none anc : forall pre acc, Forall nonnested anc -> innermost_from pre anc acc = acc.
Proof.
  induction anc as [|[n d] anc IH]; intros pre acc H; [reflexivity|]. inversion H as [|? ? Hd Ht]; subst.
  cbn [innermost_from]. unfold nonnested in Hd. cbn [snd] in Hd. rewrite Hd. apply IH. exact Ht.
Qed.

Lemma innermost_from_split a1 : forall pre acc n d a2,
  type_is (fd_type d) k_nested = true -> Forall nonnested a2 ->
  innermost_from pre (a1 ++ (n, d) :: a2) acc = Some (dotted (pre ++ map fst a1 ++ [n])).
Proof.
  induction a1 as [|[n0 d0] a1 IH]; intros pre acc n d a2 Hd H2.
  - cbn [app innermost_from map]. rewrite Hd. apply innermost_from_none. exact H2.
  - cbn [app innermost_from map fst]. rewrite IH by assumption. rewrite <- app_assoc. reflexivity.
Qed.

Lemma last_nested_split anc :
  Forall nonnested anc \/
  exists a1 n d a2, anc = a1 ++ (n, d) :: a2 /\ type_is (fd_type d) k_nested = true /\ Forall nonnested a2.
Proof.
  induction anc as [|[n d] anc IH]; [left; constructor|].
  destruct IH as [H|[a1 [n' [d' [a2 [-> [Hd H2]]]]]]].
  - destruct (type_is (fd_type d) k_nested) eqn:E.
    + right. exists [], n, d, anc. auto.
    + left. constructor; assumption.
  - right. exists ((n, d) :: a1), n', d', a2. auto.
Qed.

(* ---- chains *)
Lemma lta_split c1 : forall n ty c2,
  last_type_along (map fst c1 ++ [n]) (c1 ++ (n, ty) :: c2) = Some ty.
Proof.
  induction c1 as [|[n0 t0] c1 IH]; intros n ty c2.
  - cbn. rewrite str_eqb_refl. reflexivity.
  - cbn [map fst app last_type_along]. rewrite str_eqb_refl.
    destruct (map fst c1 ++ [n]) eqn:E; [destruct (map fst c1); discriminate|]. rewrite <- E. apply IH.
Qed.

Lemma split_at {A} (l : list A) j :
  1 <= j <= length l -> exists c1 x c2, l = c1 ++ x :: c2 /\ length c1 = j - 1.
Proof.
  revert j. induction l as [|a l IH]; intros j Hj; [cbn in Hj; lia|].
  destruct (Nat.eq_dec j 1) as [->|Hne].
  - exists [], a, l. auto.
  - destruct (IH (j - 1)) as [c1 [x [c2 [-> Hl]]]]; [cbn in Hj; lia|].
    exists (a :: c1), x, c2. split; [reflexivity|]. cbn. lia.
Qed.

Lemma in_tail_part {A} (p : list A) : forall q c1 x c2,
  p ++ q = c1 ++ x :: c2 -> length p <= length c1 -> In x q.
Proof.
  induction p as [|a p IH]; intros q c1 x c2 H Hl.
  - cbn in H. subst q. apply in_elt.
  - destruct c1 as [|a' c1]; [cbn in Hl; lia|]. injection H as _ H. eapply IH; [exact H|cbn in Hl; lia].
Qed.

Lemma firstn_split {A B} (f : A -> B) (c1 : list A) x c2 :
  firstn (S (length c1)) (map f (c1 ++ x :: c2)) = map f c1 ++ [f x].
Proof.
  induction c1 as [|a c1 IH]; [reflexivity|]. cbn [length app map firstn]. f_equal. exact IH.
Qed.

Lemma dotted_nonempty c cs : c <> [] -> dotted (c :: cs) <> [].
Proof.
  intros Hc. destruct cs; [exact Hc|]. rewrite dotted_cons by discriminate. destruct c; [congruence|discriminate].
Qed.

Lemma dotted_inj a b :
  a <> [] -> b <> [] -> forallb nodot a = true -> forallb nodot b = true -> dotted a = dotted b -> a = b.
Proof.
  intros Ha Hb Da Db H. rewrite <- (split_dotted a Ha Da), <- (split_dotted b Hb Db), H. reflexivity.
Qed.

Lemma forallb_firstn {A} (f : A -> bool) l j : forallb f l = true -> forallb f (firstn j l) = true.
Proof.
  revert j. induction l as [|a l IH]; intros j H; [destruct j; reflexivity|].
  destruct j; [reflexivity|]. cbn [firstn forallb] in *. apply andb_true_iff in H. destruct H as [H1 H2].
  rewrite H1. apply IH. exact H2.
Qed.

Definition ntype (p : str * fdef) : str * option str := (fst p, fd_type (snd p)).

Lemma merge_type p sd ty : fd_type sd = Some ty -> fd_type (merge_def p sd) = Some ty.
Proof. destruct p, sd. cbn. intros ->. reflexivity. Qed.

Lemma leaf_type d : is_leaf_def d = true -> exists ty, fd_type d = Some ty /\ type_is (Some ty) k_nested = false.
Proof.
  intros H. pose proof (leaf_not_container _ H) as Hc. unfold is_leaf_def in H.
  apply andb_true_iff in H. destruct H as [H _]. apply andb_true_iff in H. destruct H as [H _].
  destruct (fd_type d) as [ty|] eqn:E; [|discriminate]. exists ty. split; [reflexivity|].
  unfold is_container_type in Hc. rewrite E in Hc. apply orb_false_iff in Hc. apply Hc.
Qed.

Lemma tail_not_nested a2 last ty0 n ty :
  Forall nonnested a2 -> type_is (Some ty0) k_nested = false ->
  In (n, ty) (map ntype a2 ++ [(last, Some ty0)]) -> type_is ty k_nested = true -> False.
Proof.
  intros H2 Hl Hin Hty. apply in_app_or in Hin. destruct Hin as [Hin|[Heq|[]]].
  - apply in_map_iff in Hin. destruct Hin as [a [Heq Ha]]. rewrite Forall_forall in H2. specialize (H2 a Ha).
    unfold ntype in Heq. inversion Heq; subst. unfold nonnested in H2. congruence.
  - inversion Heq; subst. congruence.
Qed.

(* a parent path that is an initial part of the path of a walked field sits on an ancestor of that type *)
Lemma prefix_type K s e e2 comps j :
  In e (iter_fields s false) -> e_parents e <> [] -> sane_for K s e = true ->
  In e2 (iter_fields s true) -> map fst (chain_of e2) = comps ->
  forallb nodot comps = true -> 1 <= j <= length comps ->
  rsplit1_head c_dot (e_dot e) = dotted (firstn j comps) ->
  exists c1 n ty c2, chain_of e2 = c1 ++ (n, ty) :: c2 /\ length c1 = j - 1 /\ type_is ty K = true.
Proof.
  intros Hin Hpar Hsane He2 Hc Hd Hj Hh.
  assert (Hlen : length (chain_of e2) = length comps) by (rewrite <- Hc; symmetry; apply map_length).
  destruct (split_at (chain_of e2) j) as [c1 [[n ty] [c2 [Hsp Hl]]]]; [lia|].
  assert (Hfirst : firstn j comps = map fst c1 ++ [n]).
  { rewrite <- Hc, Hsp. replace j with (S (length c1)) by lia. apply (firstn_split fst c1 (n, ty) c2). }
  unfold sane_for in Hsane.
  apply andb_true_iff in Hsane. destruct Hsane as [Hs1 Hs3]. apply andb_true_iff in Hs1. destruct Hs1 as [Hs1 Hs2].
  rewrite forallb_forall in Hs3. specialize (Hs3 e2 He2).
  rewrite (e_dot_split' _ Hpar), (rsplit1_head_snoc _ _ Hs1) in Hh. unfold parent_str in Hh.
  assert (Hnames : map fst (e_parents e) = firstn j comps).
  { apply dotted_inj; [|rewrite Hfirst; destruct (map fst c1); discriminate|exact Hs2|
                       apply forallb_firstn; exact Hd|exact Hh].
    destruct (e_parents e); [congruence|discriminate]. }
  rewrite Hnames, Hfirst, Hsp, lta_split in Hs3.
  exists c1, n, ty, c2. auto.
Qed.

Lemma firstn_dotted_nonempty comps j :
  forallb nonempty_name comps = true -> 1 <= j <= length comps -> dotted (firstn j comps) <> [].
Proof.
  intros Hne Hj. destruct comps as [|c cs]; [cbn in Hj; lia|]. destruct j; [lia|]. cbn [firstn].
  apply dotted_nonempty. cbn in Hne. apply andb_true_iff in Hne. destruct Hne as [Hc _].
  destruct c; [discriminate|discriminate].
Qed.

Lemma walk_sane_at s e :
  walk_sane s = true -> In e (iter_fields s false) ->
  (relevant e = true -> sane_for k_nested s e = true) /\ (obj_parent e = true -> sane_for k_object s e = true).
Proof.
  unfold walk_sane. rewrite forallb_forall. intros H Hin. specialize (H e Hin).
  apply andb_true_iff in H. destruct H as [H1 H2].
  split; intros Hr; [rewrite Hr in H1; exact H1|rewrite Hr in H2; exact H2].
Qed.

(* a nested prefix that is an initial part of the path of a walked field sits on a nested ancestor *)
Lemma prefix_is_nested s e2 comps j :
  walk_sane s = true -> In e2 (iter_fields s true) -> map fst (chain_of e2) = comps ->
  forallb nodot comps = true -> forallb nonempty_name comps = true ->
  1 <= j <= length comps ->
  mem_str (dotted (firstn j comps)) (nested_prefix_set s) = true ->
  exists c1 n ty c2, chain_of e2 = c1 ++ (n, ty) :: c2 /\ length c1 = j - 1 /\ type_is ty k_nested = true.
Proof.
  intros Hsane He2 Hc Hd Hne Hj Hm.
  destruct (nested_prefix_sound s _ (firstn_dotted_nonempty _ _ Hne Hj) Hm) as [e [Hin [Hr Hh]]].
  destruct (walk_sane_at s e Hsane Hin) as [Hs _].
  eapply prefix_type; try eassumption; [apply relevant_parents; exact Hr|apply Hs; exact Hr].
Qed.

Theorem nested_anchor_resolved s comps d anc :
  wf_schema s = true -> mapped_leaf s comps d anc ->
  forallb nodot comps = true -> forallb nonempty_name comps = true ->
  walk_sane s = true -> anchor_survives s anc = true ->
  nested_anchor s comps = innermost_nested_ancestor anc.
Proof.
  intros Hwf [props [Hin [Hr Hl]]] Hd Hne Hsane Hg.
  destruct (resolve_walk _ _ _ _ _ (wf_schema_props _ _ Hwf Hin) Hr) as [Hn Hw]. cbn [map app] in Hn.
  destruct (leaf_type _ Hl) as [ty0 [Hty0 Hnn]].
  assert (He2 : exists e2, In e2 (iter_fields s true) /\
                           chain_of e2 = map ntype anc ++ [(last_name comps, Some ty0)]).
  { assert (Hiter : forall e, In e (walk_properties true [] props) -> In e (iter_fields s true)).
    { intros e He. unfold iter_fields. apply in_flat_map. exists props. split; assumption. }
    destruct Hw as [Hw|[anc0 [c [p [Ha [Hp Hw]]]]]].
    - eexists. split; [apply Hiter; exact Hw|]. unfold chain_of, e_parents, e_name, e_def. cbn [fst snd].
      rewrite Hty0. reflexivity.
    - eexists. split; [apply Hiter; exact Hw|]. unfold chain_of, e_parents, e_name, e_def. cbn [fst snd].
      rewrite (merge_type _ _ _ Hty0). reflexivity. }
  destruct He2 as [e2 [He2 Hchain]].
  assert (Hc : map fst (chain_of e2) = comps).
  { rewrite Hchain, map_app, map_map. cbn [map fst ntype]. exact Hn. }
  assert (Hlen : length comps = S (length anc)).
  { rewrite <- Hn, app_length, map_length. cbn. lia. }
  unfold nested_anchor. fold (nested_prefix_set s). unfold innermost_nested_ancestor.
  destruct (last_nested_split anc) as [Hnone|[a1 [n0 [d0 [a2 [Hsplit [Hd0 H2]]]]]]].
  - rewrite (innermost_from_none _ _ _ Hnone). apply try_prefixes_none. intros j Hj.
    destruct (mem_str _ (nested_prefix_set s)) eqn:Hm; [|reflexivity]. exfalso.
    destruct (prefix_is_nested s e2 comps j Hsane He2 Hc Hd Hne Hj Hm) as [c1 [n [ty [c2 [Hsp [_ Hty]]]]]].
    rewrite Hchain in Hsp.
    eapply (tail_not_nested anc _ ty0 n ty Hnone Hnn); [|exact Hty].
    eapply (in_tail_part [] _ c1 (n, ty) c2); [exact Hsp|cbn; lia].
  - assert (Hi : innermost_from [] anc None = Some (dotted (map fst a1 ++ [n0]))).
    { rewrite Hsplit. apply (innermost_from_split a1 [] None n0 d0 a2 Hd0 H2). }
    rewrite Hi.
    assert (Hfirst : firstn (S (length a1)) comps = map fst a1 ++ [n0]).
    { rewrite <- Hn, Hsplit, firstn_app, map_length, app_length. cbn [length].
      replace (S (length a1) - (length a1 + S (length a2))) with 0 by lia. cbn [firstn]. rewrite app_nil_r.
      apply (firstn_split fst a1 (n0, d0) a2). }
    rewrite <- Hfirst. apply try_prefixes_some.
    + rewrite Hlen, Hsplit, app_length. cbn [length]. lia.
    + rewrite Hfirst. unfold anchor_survives, innermost_nested_ancestor in Hg. rewrite Hi in Hg.
      destruct (survives_in_spec _ _ Hg) as [E1 [e [E2 [HE [Hr' [Hp [Hnd Hs]]]]]]].
      rewrite <- Hp. eapply nested_prefix_complete; eassumption.
    + intros j' Hj'. destruct (mem_str _ (nested_prefix_set s)) eqn:Hm; [|reflexivity]. exfalso.
      destruct (prefix_is_nested s e2 comps j' Hsane He2 Hc Hd Hne ltac:(lia) Hm)
        as [c1 [n [ty [c2 [Hsp [Hl1 Hty]]]]]].
      rewrite Hchain, Hsplit in Hsp.
      assert (Hre : map ntype (a1 ++ (n0, d0) :: a2) ++ [(last_name comps, Some ty0)] =
                    (map ntype a1 ++ [ntype (n0, d0)]) ++ (map ntype a2 ++ [(last_name comps, Some ty0)])).
      { rewrite map_app. cbn [map]. rewrite <- !app_assoc. reflexivity. }
      rewrite Hre in Hsp.
      eapply (tail_not_nested a2 _ ty0 n ty H2 Hnn); [|exact Hty].
      eapply in_tail_part; [exact Hsp|]. rewrite app_length, map_length. cbn [length]. lia.
Qed.

(* ================================================================ the object prefixes; no refusal *)
Lemma obj_parent_parents e : obj_parent e = true -> e_parents e <> [].
Proof. unfold obj_parent, parent_type. destruct (e_parents e); [discriminate|discriminate]. Qed.

Lemma object_prefix_sound s p :
  mem_str p (ce_object_prefixes (ev_chk (mk_env (options s)))) = true ->
  exists e, In e (iter_fields s false) /\ obj_parent e = true /\ rsplit1_head c_dot (e_dot e) = p.
Proof.
  intros H.
  assert (Hno : c_object (options s) <> SNone) by discriminate.
  destruct (env_object (options s) Hno) as [_ [_ Hpre]]. rewrite Hpre in H.
  change (object_names (c_object (options s))) with (dedup (object_fields s)) in H.
  rewrite !prefixes_dedup in H. apply mem_prefixes in H. destruct H as [x [Hin Hx]].
  apply mem_str_In in Hin. apply object_fields_spec in Hin. destruct Hin as [e [He [Hd [Ho _]]]].
  exists e. subst x. auto.
Qed.

Theorem never_refused s comps d anc :
  wf_schema s = true -> mapped_leaf s comps d anc ->
  forallb nodot comps = true -> forallb nonempty_name comps = true -> walk_sane s = true ->
  refused s comps = false.
Proof.
  intros Hwf [props [Hin [Hr Hl]]] Hd Hne Hsane.
  destruct (resolve_walk _ _ _ _ _ (wf_schema_props _ _ Hwf Hin) Hr) as [Hn Hw]. cbn [map app] in Hn.
  destruct (leaf_type _ Hl) as [ty0 [Hty0 Hnn]].
  assert (Hno : type_is (Some ty0) k_object = false).
  { pose proof (leaf_not_container _ Hl) as Hc. unfold is_container_type in Hc. rewrite Hty0 in Hc.
    apply orb_false_iff in Hc. apply Hc. }
  assert (He2 : exists e2, In e2 (iter_fields s true) /\
                           chain_of e2 = map ntype anc ++ [(last_name comps, Some ty0)]).
  { assert (Hiter : forall e, In e (walk_properties true [] props) -> In e (iter_fields s true)).
    { intros e He. unfold iter_fields. apply in_flat_map. exists props. split; assumption. }
    destruct Hw as [Hw|[anc0 [c [p [Ha [Hp Hw]]]]]].
    - eexists. split; [apply Hiter; exact Hw|]. unfold chain_of, e_parents, e_name, e_def. cbn [fst snd].
      rewrite Hty0. reflexivity.
    - eexists. split; [apply Hiter; exact Hw|]. unfold chain_of, e_parents, e_name, e_def. cbn [fst snd].
      rewrite (merge_type _ _ _ Hty0). reflexivity. }
  destruct He2 as [e2 [He2 Hchain]].
  assert (Hc : map fst (chain_of e2) = comps).
  { rewrite Hchain, map_app, map_map. cbn [map fst ntype]. exact Hn. }
  assert (Hlen : length comps = S (length anc)).
  { rewrite <- Hn, app_length, map_length. cbn. lia. }
  assert (Hfull : firstn (length comps) comps = comps) by apply firstn_all.
  (* the element of the chain at the last position is the leaf itself *)
  assert (Hlast : forall K c1 n ty c2,
             chain_of e2 = c1 ++ (n, ty) :: c2 -> length c1 = length comps - 1 -> type_is ty K = true ->
             type_is (Some ty0) K = true).
  { intros K c1 n ty c2 Hsp Hl1 Hty. rewrite Hchain in Hsp.
    assert (Hin' : In (n, ty) [(last_name comps, Some ty0)]).
    { eapply in_tail_part; [exact Hsp|]. rewrite map_length. lia. }
    destruct Hin' as [Heq|[]]. inversion Heq; subst. exact Hty. }
  unfold refused. apply orb_false_iff. split.
  - destruct (mem_str _ _) eqn:Hm; [|reflexivity]. exfalso.
    change (ce_nested_prefixes (ev_chk (mk_env (options s)))) with (nested_prefix_set s) in Hm.
    rewrite <- Hfull in Hm.
    destruct (prefix_is_nested s e2 comps (length comps) Hsane He2 Hc Hd Hne ltac:(lia) Hm)
      as [c1 [n [ty [c2 [Hsp [Hl1 Hty]]]]]].
    pose proof (Hlast _ _ _ _ _ Hsp Hl1 Hty). congruence.
  - destruct (mem_str _ _) eqn:Hm; [|reflexivity]. exfalso.
    apply object_prefix_sound in Hm. destruct Hm as [e [Hine [Ho Hh]]].
    destruct (walk_sane_at s e Hsane Hine) as [_ Hs]. rewrite <- Hfull in Hh.
    destruct (prefix_type k_object s e e2 comps (length comps) Hine (obj_parent_parents _ Ho) (Hs Ho) He2 Hc Hd
                          ltac:(lia) Hh) as [c1 [n [ty [c2 [Hsp [Hl1 Hty]]]]]].
    pose proof (Hlast _ _ _ _ _ Hsp Hl1 Hty). congruence.
Qed.

Lemma typing_mem s comps d anc :
  wf_schema s = true -> coherent s = true -> mapped_leaf s comps d anc -> subfield_ok anc d = true ->
  mem_str (dotted comps) (not_analyzed_fields s) = negb (analysed_text d).
Proof.
  intros Hwf Hc [props [Hin [Hr Hl]]] Hg.
  destruct (resolve_walk _ _ _ _ _ (wf_schema_props _ _ Hwf Hin) Hr) as [Hn Hw]. cbn [map app] in Hn.
  assert (Hiter : forall e, In e (walk_properties true [] props) -> In e (iter_fields s true)).
  { intros e He. unfold iter_fields. apply in_flat_map. exists props. split; assumption. }
  destruct Hw as [Hw|[anc0 [c [p [Ha [Hp Hw]]]]]].
  - pose proof (not_analyzed_iff s _ Hc (Hiter _ Hw)) as Hna.
    unfold e_dot, e_name, e_parents, e_def, dot_name in Hna. cbn [fst snd] in Hna.
    rewrite Hn in Hna. rewrite Hna. apply leaf_not_analyzed. apply leaf_not_container. exact Hl.
  - pose proof (not_analyzed_iff s _ Hc (Hiter _ Hw)) as Hna.
    unfold e_dot, e_name, e_parents, e_def, dot_name in Hna. cbn [fst snd] in Hna.
    rewrite Hn in Hna. rewrite Hna.
    assert (Hg' : sub_self_described p d = true).
    { unfold subfield_ok, subfield_holder in Hg. rewrite Ha, rev_unit, Hp in Hg. exact Hg. }
    rewrite (merge_not_analyzed _ _ Hg'). apply leaf_not_analyzed. apply leaf_not_container. exact Hl.
Qed.

(* the property, under the executable guards: both spellings give exactly the expected JSON *)
Theorem query_resolved s comps d anc x t :
  wf_schema s = true -> coherent s = true -> walk_sane s = true ->
  mapped_leaf s comps d anc -> subfield_ok anc d = true -> anchor_survives s anc = true ->
  forallb nodot comps = true -> forallb nonempty_name comps = true ->
  has_wildcard x = false -> spelling comps x t ->
  build (options s) t = ROk (expected_json comps d anc x).
Proof.
  intros Hwf Hc Hsane Hm Hsub Hanc Hd Hne Hx Hsp.
  assert (Hcs : comps <> []) by (destruct Hm as [props [_ [Hr _]]]; destruct comps; [discriminate Hr|discriminate]).
  rewrite (build_options s comps x t Hcs Hd Hx Hsp).
  rewrite (never_refused s comps d anc Hwf Hm Hd Hne Hsane).
  rewrite (nested_anchor_resolved s comps d anc Hwf Hm Hd Hne Hsane Hanc).
  rewrite (typing_mem s comps d anc Hwf Hc Hm Hsub). reflexivity.
Qed.
