(* C20r — LuceneCheck: the bounds of a two-sided range are not inspected; a wider acceptance theorem.
   This file holds only statements, `exact`-closed theorems, examples and Print Assumptions.
   Model: model/Check.v, model/CheckLenient.v; lemmas: proofs/CheckLenientProofs.v (on top of
   proofs/CheckProofs.v).

   Fact about the code: `LuceneCheck.check_range` is not wrapped by @_check_children and yields
   nothing (in the model: CRange is not in the generated table gen_check_recurses, and the body of
   check_range is `done []`).  So whatever stands as the bounds of a Range — a date with `-`, date
   math with `+` and `/`, a path, even an ill-formed tree — the checker does not look at it.

   C20_accepts_wellformed (props/C20.v) uses the strict predicate `wellformed`, which judges the bounds
   of a range at the current zeal: with zeal, `date:[2012-01-01 TO 2012-12-31]` is not strictly
   well-formed although it is an ordinary query that the checker accepts.  `wellformed_lenient`
   (model/CheckLenient.v) reads the bounds of a two-sided range as VALUES and judges them with zeal 0;
   it is the Python oracle `wellformed(..., lenient=True)` of harness/c20.py, compared with it on
   every case of the correspondence.

   Statements
     C20r_range_bounds_not_inspected     a Range node alone is accepted, for ALL bounds, at every zeal
     C20r_accepts_wellformed_lenient     lenient-well-formed => accepted (errors = [], __call__ = True)
     C20r_lenient_extends_strict         strictly well-formed => lenient-well-formed (at every zeal and
                                         under every parent): the theorem above implies
                                         C20_accepts_wellformed
   Remarks (observations, not part of a statement):
     * the bound of a ONE-sided range (From / To) IS inspected (check_open_range is wrapped by
       @_check_children): `>=2012-01-01` at zeal 1 is rejected, and is not lenient-well-formed
       (example C20r_open_range_bound_inspected). *)
Require Import Base Decimal Tree GenTree GenVisitors GenCheck Visitor Lexer Check CheckLenient TreeInd
        CheckProofs CheckLenientProofs.
Require Import C20.

(* the instance of the lenient predicate for the real character classes *)
Definition wellformed_lenient_ := wellformed_lenient is_word_char is_space.

(* ---- statements *)

(* whatever the bounds are, a two-sided range alone yields no message and is accepted *)
Definition C20r_range_bounds_not_inspected_statement : Prop :=
  forall z m lo hi il ih,
    errors_ z (Range m lo hi il ih) = Done [] /\ call_ z (Range m lo hi il ih) = Done true.

(* acceptance, for the wider notion *)
Definition C20r_accepts_wellformed_lenient_statement : Prop :=
  forall z t, wellformed_lenient_ z None t = true -> errors_ z t = Done [] /\ call_ z t = Done true.

(* the wider notion contains the strict one *)
Definition C20r_lenient_extends_strict_statement : Prop :=
  forall z p t, wellformed_ z p t = true -> wellformed_lenient_ z p t = true.

(* ---- proofs (lemmas live in proofs/CheckLenientProofs.v) *)

Theorem C20r_range_bounds_not_inspected : C20r_range_bounds_not_inspected_statement.
Proof. intros z m lo hi il ih. exact (range_not_inspected is_word_char is_space z m lo hi il ih). Qed.

Theorem C20r_accepts_wellformed_lenient : C20r_accepts_wellformed_lenient_statement.
Proof. intros z t. exact (lenient_accepted_entry is_word_char is_space z t). Qed.

Theorem C20r_lenient_extends_strict : C20r_lenient_extends_strict_statement.
Proof. intros z p t. exact (wellformed_is_lenient is_word_char is_space t z p). Qed.

(* ---- non-vacuity and regression examples (closed terms) *)
Definition s_date : str := [100;97;116;101]%N.                                  (* date *)
Definition s_2012_01_01 : str := [50;48;49;50;45;48;49;45;48;49]%N.             (* 2012-01-01 *)
Definition s_2012_12_31 : str := [50;48;49;50;45;49;50;45;51;49]%N.             (* 2012-12-31 *)

(* date:[2012-01-01 TO 2012-12-31] *)
Definition ex_date_range : item :=
  SearchField meta0 s_date (Range meta0 (W s_2012_01_01) (W s_2012_12_31) true true).

(* with zeal the date range is lenient-well-formed, NOT strictly well-formed, and accepted: the
   wider theorem covers a tree the strict one does not *)
Example C20r_date_range :
  wellformed_lenient_ 1 None ex_date_range = true /\
  wellformed_ 1 None ex_date_range = false /\
  wellformed_ 0 None ex_date_range = true /\
  errors_ 1 ex_date_range = Done [] /\
  call_ 1 ex_date_range = Done true.
Proof. vm_compute. repeat split; reflexivity. Qed.

(* the lenient notion is not "everything below a range goes": a bound must still be a word or a
   phrase (possibly with `-`), and a word bound must not hold a space *)
Example C20r_lenient_still_constrains_bounds :
  wellformed_lenient_ 1 None (Range meta0 (W s_a_b) (W s_b) true true) = false /\
  wellformed_lenient_ 1 None (Range meta0 (Grp KGroup meta0 (W s_a)) (W s_b) true true) = false /\
  wellformed_lenient_ 1 None (Range meta0 (NoneItem meta0) (W s_b) true true) = false /\
  (* ... although the checker accepts all three (C20r_range_bounds_not_inspected) *)
  errors_ 1 (Range meta0 (W s_a_b) (W s_b) true true) = Done [] /\
  errors_ 1 (Range meta0 (NoneItem meta0) (W s_b) true true) = Done [].
Proof. vm_compute. repeat split; reflexivity. Qed.

(* non-vacuity of the distinction: the bound of an OPEN range is inspected.  >=2012-01-01 with zeal
   is not lenient-well-formed and is rejected; without zeal it is well-formed and accepted *)
Example C20r_open_range_bound_inspected :
  let t := ORange KFrom meta0 (W s_2012_01_01) true in
  wellformed_lenient_ 1 None t = false /\
  errors_ 1 t = Done [MInvalidChars] /\
  call_ 1 t = Done false /\
  wellformed_lenient_ 0 None t = true /\
  errors_ 0 t = Done [].
Proof. vm_compute. repeat split; reflexivity. Qed.

(* outside a two-sided range the zealous rules still apply to the lenient notion *)
Example C20r_lenient_depends_on_zeal :
  let t1 := Op KOr meta0 [W s_a; Unary KNot meta0 (W s_b)] in
  let t2 := Op KAnd meta0 [ex_date_range; W s_2012_01_01] in
  wellformed_lenient_ 0 None t1 = true /\
  wellformed_lenient_ 1 None t1 = false /\
  wellformed_lenient_ 0 None t2 = true /\
  wellformed_lenient_ 1 None t2 = false /\
  errors_ 1 t2 = Done [MInvalidChars].
Proof. vm_compute. repeat split; reflexivity. Qed.

(* the strict hypothesis of C20r_lenient_extends_strict is satisfiable on a tree with every class *)
Example C20r_strict_nonvacuous :
  wellformed_ 2 None ex_wellformed = true /\ wellformed_lenient_ 2 None ex_wellformed = true.
Proof. vm_compute. repeat split; reflexivity. Qed.

Print Assumptions C20r_range_bounds_not_inspected.
Print Assumptions C20r_accepts_wellformed_lenient.
Print Assumptions C20r_lenient_extends_strict.
