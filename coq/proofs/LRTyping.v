(* LRTyping.v — no exception other than a ParseError can come out of the LR driver on the GENERATED
   tables (C04, "no foreign exception"): the classical LR stack-typing invariant, established by
   VALIDATION of the tables (computation), in the style of Jourdan–Pottier–Leroy's LR validator.

   Invariant: the state stack is a path of the automaton from state 0, and the value pushed with each
   transition has the kind of the transition's symbol (`kind_okb`).  The validator (`cell_ok`, run
   over every state and lookahead) checks, by bounded backward search over predecessor states
   (`path_check`), that a prescribed reduction names an existing production, finds its right-hand
   side on the stack and a goto at its base, that `Accept` only happens on $end in a state entered
   by `expression`, and that $end is never shifted; two more facts say that state 0 has no incoming
   transition and that all transitions into a state carry the same symbol.  `all_actions_ok` shows once per production that the semantic action accepts
   arguments of the kinds of its right-hand side and returns a value of the kind of its left-hand
   side.  Everything about the tables is discharged by vm_compute on gen/GenParser.v, so a table or
   grammar change re-checks (or breaks) it. *)
Require Import Base Decimal Tree GenTree GenParser Lexer Print Actions LR Parser LRTermination.
From Coq Require Import Lia.

(* ---- symbols *)
Definition all_syms : list sym := map ST all_toks ++ map SN all_nonterms.
Lemma all_syms_complete X : In X all_syms.
Proof.
  unfold all_syms. apply in_or_app. destruct X as [t|n].
  - left. apply in_map, all_toks_complete.
  - right. apply in_map, all_nonterms_complete.
Qed.

Definition sym_code (X : sym) : nat :=
  match X with
  | ST T_TERM => 0 | ST T_PHRASE => 1 | ST T_REGEX => 2 | ST T_APPROX => 3 | ST T_BOOST => 4
  | ST T_MINUS => 5 | ST T_PLUS => 6 | ST T_COLUMN => 7 | ST T_LPAREN => 8 | ST T_RPAREN => 9
  | ST T_LBRACKET => 10 | ST T_RBRACKET => 11 | ST T_LESSTHAN => 12 | ST T_GREATERTHAN => 13
  | ST T_AND_OP => 14 | ST T_NOT => 15 | ST T_OR_OP => 16 | ST T_TO => 17 | ST T_EOF => 18
  | SN N_expression => 19 | SN N_unary_expression => 20 | SN N_possibly_negative_term => 21
  | SN N_phrase_or_possibly_negative_term => 22 | SN N_phrase_or_term => 23
  end.
Definition sym_eqb (X Y : sym) : bool := Nat.eqb (sym_code X) (sym_code Y).
Lemma sym_eqb_eq X Y : sym_eqb X Y = true -> X = Y.
Proof.
  unfold sym_eqb. intros H. apply Nat.eqb_eq in H.
  destruct X as [[]|[]], Y as [[]|[]]; try reflexivity; discriminate H.
Qed.

(* ---- the automaton read off the tables *)
Definition trans (t : nat) (X : sym) : option nat :=
  match X with
  | ST la => match gen_action t la with Shift n => Some n | _ => None end
  | SN n => gen_goto t n
  end.

(* the transitions into s *)
Definition incoming (s : nat) : list (nat * sym) :=
  filter (fun e => match trans (fst e) (snd e) with Some s' => Nat.eqb s' s | None => false end)
         (list_prod all_states all_syms).

(* the symbol every transition into s carries (None for the initial state) *)
Definition sym_of (s : nat) : option sym := match incoming s with e :: _ => Some (snd e) | [] => None end.

(* ---- kinds of values *)
Definition meta_has_pos (m : meta) : bool := match m_pos m with Some _ => true | None => false end.
Definition item_nt_ok (i : item) : bool :=
  match i with NoneItem _ => false | Op _ _ [] => false | _ => true end.

(* TERM/PHRASE/REGEX tokens carry a Word/Phrase/Regex; the other tokens a TokenValue whose value is
   a string (None allowed for APPROX/BOOST only) and, for APPROX/BOOST, whose pos is set (the error
   message for a malformed number prints it); a nonterminal carries an item that is not NoneItem and
   not an operation without operand *)
Definition kind_okb (X : sym) (v : symval) : bool :=
  match X with
  | ST t =>
      match t with
      | T_TERM => match v with VItem (Term KWord _ _) => true | _ => false end
      | T_PHRASE => match v with VItem (Term KPhrase _ _) => true | _ => false end
      | T_REGEX => match v with VItem (Term KRegex _ _) => true | _ => false end
      | T_APPROX | T_BOOST => match v with VTok _ _ m => meta_has_pos m | _ => false end
      | _ => match v with VTok _ (Some _) _ => true | _ => false end
      end
  | SN _ => match v with VItem i => item_nt_ok i | VTok _ _ _ => false end
  end.
Definition kind_ok (X : sym) (v : symval) : Prop := kind_okb X v = true.

Lemma token_value_kind t : kind_ok (ST (tk_type t)) (token_value t).
Proof. unfold kind_ok, token_value. destruct (tk_type t); reflexivity. Qed.

(* ---- the validator *)
Fixpoint path_check (lhs : nonterm) (rrhs : list sym) (s : nat) : bool :=
  match rrhs with
  | [] => match gen_goto s lhs with Some _ => true | None => false end
  | X :: rest =>
      match incoming s with
      | [] => false
      | e :: inc => forallb (fun e => sym_eqb (snd e) X && path_check lhs rest (fst e)) (e :: inc)
      end
  end.

Definition tok_is_eof (t : tok) : bool := match t with T_EOF => true | _ => false end.
Definition accept_state_ok (s : nat) : bool :=
  match incoming s with
  | [] => false
  | e :: inc => forallb (fun e => sym_eqb (snd e) (SN N_expression)) (e :: inc)
  end.
Definition cell_ok (s : nat) (la : tok) : bool :=
  match gen_action s la with
  | Shift _ => negb (tok_is_eof la)
  | Reduce p => match prod_of p with
                | Some (lhs, rhs, _) => path_check lhs (rev rhs) s
                | None => false
                end
  | Accept => tok_is_eof la && accept_state_ok s
  | ActErr => true
  end.
Definition initial_state_has_no_entry : bool := match incoming 0 with [] => true | _ => false end.
Definition entry_symbols_consistent : bool :=
  forallb (fun s => match sym_of s with
                    | Some X => forallb (fun e => sym_eqb (snd e) X) (incoming s)
                    | None => true end) all_states.
Definition cells_valid : bool := forallb (fun s => forallb (cell_ok s) all_toks) all_states.

(* the three validation facts, computed on the generated tables *)
Lemma cells_valid_ok : forallb (fun s => forallb (cell_ok s) all_toks) all_states = true.
Proof. vm_compute. reflexivity. Qed.
Lemma initial_state_has_no_entry_ok : initial_state_has_no_entry = true.
Proof. vm_compute. reflexivity. Qed.
Lemma entry_symbols_consistent_ok : entry_symbols_consistent = true.
Proof. vm_compute. reflexivity. Qed.

Lemma cells_ok s la : cell_ok s la = true.
Proof.
  destruct (le_lt_dec gen_nstates s) as [Hs|Hs].
  { unfold cell_ok. rewrite gen_action_oob by exact Hs. reflexivity. }
  pose proof cells_valid_ok as F.
  rewrite forallb_forall in F. specialize (F s (all_states_complete s Hs)).
  rewrite forallb_forall in F. exact (F la (all_toks_complete la)).
Qed.

Lemma incoming_0 : incoming 0 = [].
Proof. vm_compute. reflexivity. Qed.

Lemma trans_in_range t X s : trans t X = Some s -> t < gen_nstates.
Proof.
  intros H. destruct (le_lt_dec gen_nstates t) as [Ht|Ht]; [|exact Ht]. exfalso.
  destruct X as [la|n]; simpl in H.
  - rewrite gen_action_oob in H by exact Ht. discriminate.
  - rewrite gen_goto_oob in H by exact Ht. discriminate.
Qed.

Lemma in_incoming t X s : trans t X = Some s -> In (t, X) (incoming s).
Proof.
  intros H. unfold incoming. apply filter_In. split.
  - apply in_prod; [apply all_states_complete; eapply trans_in_range; exact H|apply all_syms_complete].
  - simpl. rewrite H. apply Nat.eqb_refl.
Qed.

(* ---- the invariant *)
Inductive stack_ok : list nat -> list symval -> Prop :=
| so_nil : stack_ok [0] []
| so_cons s t X v ss vs :
    stack_ok (t :: ss) vs -> trans t X = Some s -> kind_ok X v -> stack_ok (s :: t :: ss) (v :: vs).

Local Opaque incoming.

Lemma path_check_cons lhs X rest s :
  path_check lhs (X :: rest) s =
    match incoming s with
    | [] => false
    | e :: inc => forallb (fun e => sym_eqb (snd e) X && path_check lhs rest (fst e)) (e :: inc)
    end.
Proof. reflexivity. Qed.

(* a successful backward check finds the right-hand side on the stack, with a goto at its base *)
Lemma path_sound lhs : forall rrhs s ss vs,
  stack_ok (s :: ss) vs -> path_check lhs rrhs s = true ->
  length rrhs <= length vs /\
  Forall2 kind_ok rrhs (firstn (length rrhs) vs) /\
  exists t ss' g, skipn (length rrhs) (s :: ss) = t :: ss' /\
                  stack_ok (t :: ss') (skipn (length rrhs) vs) /\ gen_goto t lhs = Some g.
Proof.
  induction rrhs as [|X rest IH]; intros s ss vs Hst Hpc.
  - simpl in *. split; [lia|]. split; [constructor|].
    destruct (gen_goto s lhs) as [g|] eqn:Hg; [|discriminate]. exists s, ss, g. auto.
  - rewrite path_check_cons in Hpc. inversion Hst as [|s0 t X' v ss0 vs0 Hst' Htr Hk]; subst.
    + rewrite incoming_0 in Hpc. discriminate.
    + destruct (incoming s) as [|e inc] eqn:Hinc; [discriminate|]. rewrite <- Hinc in Hpc.
      rewrite forallb_forall in Hpc. specialize (Hpc _ (in_incoming _ _ _ Htr)). simpl in Hpc.
      apply andb_true_iff in Hpc. destruct Hpc as [Hx Hrest]. apply sym_eqb_eq in Hx. subst X'.
      destruct (IH _ _ _ Hst' Hrest) as [Hlen [Hf2 [t' [ss' [g [Hsk [Hst'' Hg]]]]]]].
      split; [simpl; lia|]. split; [simpl; constructor; assumption|].
      exists t', ss', g. simpl. auto.
Qed.

Lemma Forall2_rev {A B} (R : A -> B -> Prop) l1 l2 : Forall2 R l1 l2 -> Forall2 R (rev l1) (rev l2).
Proof.
  induction 1 as [|x y l1 l2 Hxy H IH]; simpl; [constructor|].
  apply Forall2_app; [exact IH|constructor; [exact Hxy|constructor]].
Qed.

(* ---- the semantic actions accept the kinds of their right-hand sides *)
Definition action_res_ok (r : res (symval * list gev)) : Prop :=
  match r with
  | Ok (VItem i, _) => item_nt_ok i = true
  | Ok (VTok _ _ _, _) => False
  | Err (EOther _) => False
  | Err _ => True
  end.
Definition prod_action_ok (pr : nonterm * list sym * action_name) : Prop :=
  forall args, Forall2 kind_ok (snd (fst pr)) args -> action_res_ok (run_action (snd pr) args).

Lemma binary_ok k a opv b : item_nt_ok b = true -> action_res_ok (binary k a opv b).
Proof.
  intros Hb. unfold binary.
  set (opsA := if match a with Op k' _ _ => opk_eqb k k' | _ => false end then children a else [a]).
  assert (HB : exists b0 brest,
            (if match b with Op k' _ _ => opk_eqb k k' | _ => false end then children b else [b]) = b0 :: brest).
  { destruct b; try (eexists; eexists; reflexivity).
    destruct (opk_eqb k k0); [|eexists; eexists; reflexivity].
    simpl. destruct ops; [discriminate|eexists; eexists; reflexivity]. }
  destruct HB as [b0 [brest HB]]. rewrite HB.
  destruct (htm_pos _ false false) as [pos size]. simpl.
  destruct opsA; reflexivity.
Qed.

Lemma number_error_ok v m : meta_has_pos m = true -> action_res_ok (Err (number_error v m)).
Proof. unfold meta_has_pos, number_error. destruct (m_pos m); [intros _; exact I|discriminate]. Qed.

Ltac inv_f2 := repeat match goal with
  | H : Forall2 _ (_ :: _) _ |- _ => inversion H; subst; clear H
  | H : Forall2 _ [] _ |- _ => inversion H; subst; clear H
  end.

(* the shape of a value of a given kind *)
Definition kind_shape (X : sym) (v : symval) : Prop :=
  match X with
  | ST T_TERM => exists m s, v = VItem (Term KWord m s)
  | ST T_PHRASE => exists m s, v = VItem (Term KPhrase m s)
  | ST T_REGEX => exists m s, v = VItem (Term KRegex m s)
  | ST T_APPROX | ST T_BOOST => exists l d m, v = VTok l d m /\ meta_has_pos m = true
  | ST _ => exists l x m, v = VTok l (Some x) m
  | SN _ => exists i, v = VItem i /\ item_nt_ok i = true
  end.
Lemma kind_ok_shape X v : kind_ok X v -> kind_shape X v.
Proof.
  unfold kind_ok. intros H. destruct X as [t|n]; simpl in *.
  - destruct t; destruct v as [i|l val m]; try discriminate H;
      try (destruct i as [[]| | | | | | | | | |]; try discriminate H);
      try (destruct val; try discriminate H); eauto.
  - destruct v as [i|l val m]; [|discriminate H]. eauto.
Qed.

Ltac kind_split :=
  repeat match goal with H : kind_ok _ _ |- _ => apply kind_ok_shape in H; simpl in H end;
  repeat match goal with
  | H : exists _, _ |- _ => destruct H
  | H : _ /\ _ |- _ => destruct H
  end; subst.

Lemma all_actions_ok : Forall prod_action_ok gen_prods.
Proof.
  unfold gen_prods.
  repeat (apply Forall_cons; [|]); [..|apply Forall_nil];
    (intros args HF; simpl in HF; inv_f2; kind_split; cbn [snd fst]; unfold run_action;
     try (apply binary_ok; assumption);
     try (simpl; assumption);
     try exact eq_refl).
  all: try (match goal with |- action_res_ok (match ?d with Some _ => _ | None => _ end) =>
              destruct d as [ds|]; [|exact eq_refl] end;
            match goal with |- action_res_ok (match ?x with Some _ => _ | None => _ end) =>
              destruct x; [exact eq_refl|apply number_error_ok; assumption] end).
Qed.

Lemma prod_action_ok_of p lhs rhs a :
  prod_of p = Some (lhs, rhs, a) ->
  forall args, Forall2 kind_ok rhs args -> action_res_ok (run_action a args).
Proof.
  intros H. destruct p as [|p']; [discriminate|]. simpl in H. apply nth_error_In in H.
  pose proof all_actions_ok as F. rewrite Forall_forall in F. exact (F _ H).
Qed.

(* ---- the driver keeps the invariant and never fails with a foreign exception *)
Definition typed (c : config) : Prop := stack_ok (c_states c) (c_vals c).

Definition stepres_ok (r : stepres) : Prop :=
  match r with
  | Next c' => typed c'
  | Final (Ok i) _ => item_nt_ok i = true
  | Final (Err (EOther _)) _ => False
  | Final (Err _) _ => True
  end.

Lemma typed_top c : typed c -> exists s ss, c_states c = s :: ss.
Proof. unfold typed. intros H. inversion H; eauto. Qed.

Lemma shift_typed c s ss n :
  typed c -> c_states c = s :: ss -> gen_action s (la_of (c_toks c)) = Shift n -> stepres_ok (do_shift c n).
Proof.
  unfold typed, do_shift. intros Ht Hs Ha.
  destruct (c_toks c) as [|t rest] eqn:Htoks.
  - (* $end is never shifted *)
    pose proof (cells_ok s T_EOF) as Hc. unfold cell_ok in Hc. simpl in Ha. rewrite Ha in Hc. discriminate.
  - simpl. unfold typed. simpl. rewrite Hs in *. simpl in Ha.
    eapply so_cons with (X := ST (tk_type t)); [exact Ht| |apply token_value_kind].
    simpl. rewrite Ha. reflexivity.
Qed.

Lemma reduce_typed c s ss p :
  typed c -> c_states c = s :: ss -> gen_action s (la_of (c_toks c)) = Reduce p ->
  stepres_ok (do_reduce gen_tables c p).
Proof.
  unfold typed. intros Ht Hs Ha.
  pose proof (cells_ok s (la_of (c_toks c))) as Hc. unfold cell_ok in Hc. rewrite Ha in Hc.
  destruct (prod_of p) as [[[lhs rhs] a]|] eqn:Hp; [|discriminate].
  rewrite Hs in Ht.
  destruct (path_sound lhs _ _ _ _ Ht Hc) as [Hlen [Hf2 [t [ss' [g [Hsk [Hst Hg]]]]]]].
  rewrite rev_length in *.
  unfold do_reduce. destruct p as [|p']; [discriminate|]. simpl pred. simpl tb_prods. simpl tb_goto.
  simpl in Hp. rewrite Hp. cbv zeta.
  assert (Hl : Nat.ltb (length (c_vals c)) (length rhs) = false) by (apply Nat.ltb_ge; exact Hlen).
  rewrite Hl.
  apply Forall2_rev in Hf2. rewrite rev_involutive in Hf2.
  pose proof (prod_action_ok_of (S p') lhs rhs a Hp _ Hf2) as Hact.
  destruct (run_action a (rev (firstn (length rhs) (c_vals c)))) as [[v d]|e].
  - rewrite Hs, Hsk. simpl hd. rewrite Hg. simpl. unfold typed. simpl.
    eapply so_cons with (X := SN lhs); [exact Hst|exact Hg|].
    unfold kind_ok. simpl. destruct v as [i|]; [exact Hact|destruct Hact].
  - simpl. destruct e; try exact I. destruct Hact.
Qed.

Lemma accept_typed lexerr c s ss :
  typed c -> c_states c = s :: ss -> gen_action s (la_of (c_toks c)) = Accept ->
  stepres_ok (do_accept lexerr c).
Proof.
  unfold typed. intros Ht Hs Ha.
  pose proof (cells_ok s (la_of (c_toks c))) as Hc. unfold cell_ok in Hc. rewrite Ha in Hc.
  apply andb_true_iff in Hc. destruct Hc as [_ Hc]. unfold accept_state_ok in Hc.
  rewrite Hs in Ht. inversion Ht as [|s0 t X v ss0 vs0 Hst' Htr Hk Es Ev]; subst.
  - rewrite incoming_0 in Hc. discriminate.
  - destruct (incoming s) as [|e inc] eqn:Hinc; [discriminate|]. rewrite <- Hinc in Hc.
    rewrite forallb_forall in Hc. specialize (Hc _ (in_incoming _ _ _ Htr)). simpl in Hc.
    apply sym_eqb_eq in Hc. subst X.
    apply kind_ok_shape in Hk. destruct Hk as [i [Hv Hi]]. subst v.
    unfold do_accept. rewrite <- Ev. exact Hi.
Qed.

Lemma step_typed lexerr c : typed c -> stepres_ok (step gen_tables lexerr c).
Proof.
  intros Ht. destruct (typed_top c Ht) as [s [ss Hs]].
  rewrite step_eq. simpl tb_action. rewrite Hs. simpl hd.
  assert (Hmain : stepres_ok
            match gen_action s (la_of (c_toks c)) with
            | Shift n => do_shift c n
            | Reduce p => do_reduce gen_tables c p
            | Accept => do_accept lexerr c
            | ActErr => Final (Err (syntax_error (hd_error (c_toks c)))) []
            end).
  { destruct (gen_action s (la_of (c_toks c))) eqn:Ha.
    - eapply shift_typed; eassumption.
    - eapply reduce_typed; eassumption.
    - eapply accept_typed; eassumption.
    - simpl. destruct (hd_error (c_toks c)); exact I. }
  destruct (c_toks c); [destruct lexerr; [exact I|]|]; exact Hmain.
Qed.

Definition result_ok (r : res item) : Prop :=
  match r with
  | Ok i => item_nt_ok i = true
  | Err (EOther _) => False
  | Err _ => True
  end.

Lemma run_typed lexerr : forall fuel c, typed c ->
  match run gen_tables lexerr fuel c with Done r _ => result_ok r | OutOfFuel => True end.
Proof.
  induction fuel as [|f IH]; intros c Ht; simpl; [exact I|].
  pose proof (step_typed lexerr c Ht) as Hs.
  destruct (step gen_tables lexerr c) as [c'|r evs]; [apply IH; exact Hs|].
  simpl in Hs. destruct r as [i|[| |n]]; exact Hs.
Qed.

(* whatever the input, the parser's outcome is a real tree (not NoneItem, not an operation without
   operand), a ParseSyntaxError or an IllegalCharacterError *)
Theorem parse_result_ok s r : parse s = Some r -> result_ok r.
Proof.
  unfold parse, parse_full, parse_with. destruct (lex s) as [toks e].
  pose proof (run_typed e (parse_fuel toks)
                (init_config toks match toks with [] => [GDrop s] | _ :: _ => [] end) so_nil) as H.
  destruct (run gen_tables e (parse_fuel toks) _) as [r0 evs|]; [|discriminate].
  intros E. inversion E; subst. exact H.
Qed.

Theorem parse_only_parse_errors s r :
  parse s = Some r -> match r with Err (EOther _) => False | _ => True end.
Proof.
  intros H. apply parse_result_ok in H. destruct r as [i|[| |n]]; try exact I. exact H.
Qed.

(* acceptance only happens on $end: the returned tree stands for the whole token stream *)
Lemma accept_only_at_end s la : gen_action s la = Accept -> la = T_EOF.
Proof.
  intros Ha. pose proof (cells_ok s la) as Hc. unfold cell_ok in Hc. rewrite Ha in Hc.
  apply andb_true_iff in Hc. destruct Hc as [Hc _]. destruct la; try discriminate. reflexivity.
Qed.
