(* CheckLenientProofs.v — lemmas about the lenient notion of well-formed tree (model: CheckLenient.v). *)
Require Import Base Decimal Tree GenTree GenVisitors Visitor Check CheckLenient TreeInd CheckProofs.
From Coq Require Import Lia.

(* ---------------------------------------------------------------- generated-table facts *)

(* check_range exists, and is NOT among the methods wrapped by @_check_children: this is the
   obligation that breaks when the decorator is added to check_range *)
Lemma handler_range : handler CRange = Some CRange.
Proof. vm_compute. reflexivity. Qed.

Lemma range_not_recursed : mem_cls CRange gen_check_recurses = false.
Proof. vm_compute. reflexivity. Qed.

Lemma zealous_0 : zealous 0 = false.
Proof. reflexivity. Qed.

Section LenientFacts.
  Variable isw isp : char -> bool.

  Notation check := (check isw isp).
  Notation wellformed := (wellformed isw isp).
  Notation wellformed_lenient := (wellformed_lenient isw isp).

  (* ---- (a) the bounds of a two-sided range are not inspected *)

  Lemma check_range_done z m lo hi il ih ps : check z (Range m lo hi il ih) ps = done [].
  Proof.
    rewrite check_unfold. change (cls_of (Range m lo hi il ih)) with CRange.
    rewrite handler_range. unfold recurses. rewrite range_not_recursed. reflexivity.
  Qed.

  Local Arguments isinstance : simpl never.
  Local Arguments isinstance_any : simpl never.
  Local Arguments field_name_ok : simpl never.
  Local Arguments valid_field_name : simpl never.
  Local Arguments last_isinstance : simpl never.
  Local Arguments has_space : simpl never.
  Local Arguments has_invalid_char : simpl never.
  Local Arguments zealous : simpl never.
  Local Arguments parent_is : simpl never.

  Ltac split_andb :=
    repeat match goal with
           | H : _ && _ = true |- _ => apply andb_prop in H; destruct H
           | H : negb _ = true |- _ => apply negb_true_iff in H
           end.

  (* ---- (b) acceptance *)

  Definition lenient_accepted_at (z : Z) (t : item) : Prop :=
    forall ps, wellformed_lenient z (last_opt ps) t = true -> check z t ps = done [].

  Lemma wellformed_lenient_accepted z : forall t, lenient_accepted_at z t.
  Proof.
    induction t using item_ind'; intros ps Hwf.
    4: { apply check_range_done. }
    all: rewrite check_unfold, handler_concrete.
    - (* Term *)
      destruct k; simpl in *; [|reflexivity|reflexivity].
      split_andb. rewrite H, H0. reflexivity.
    - (* SearchField *)
      simpl in *. split_andb.
      rewrite (valid_field_name_ok _ _ H), field_expr_fields_value, H1. simpl.
      rewrite (IHt (ps ++ [CSearchField])); [reflexivity|]. rewrite last_opt_snoc. exact H0.
    - (* Grp *)
      destruct k; simpl in *; split_andb.
      + rewrite last_isinstance_searchfield, H. simpl.
        rewrite (IHt (ps ++ [CGroup])); [reflexivity|]. rewrite last_opt_snoc. exact H0.
      + rewrite last_isinstance_searchfield, H. simpl.
        rewrite (IHt (ps ++ [CFieldGroup])); [reflexivity|]. rewrite last_opt_snoc. exact H0.
    - (* Fuzzy *)
      simpl in *. split_andb. rewrite isinstance_word, H, H0. reflexivity.
    - (* Proximity *)
      simpl in *. split_andb. rewrite isinstance_phrase, H. reflexivity.
    - (* Boost *)
      simpl in *.
      rewrite (IHt (ps ++ [CBoost])); [reflexivity|]. rewrite last_opt_snoc. exact Hwf.
    - (* Op *)
      assert (Hw : walk (check z) (ps ++ [cls_of_opk k]) ops = done []).
      { apply walk_all_done. simpl in Hwf. rewrite forallb_forall in Hwf.
        rewrite Forall_forall in H. apply Forall_forall. intros c Hc.
        apply (H c Hc). rewrite last_opt_snoc. apply Hwf. exact Hc. }
      destruct k; simpl; simpl in Hw; rewrite Hw; reflexivity.
    - (* Unary *)
      assert (Hc : check z t (ps ++ [cls_of_unk k]) = done []).
      { apply IHt. rewrite last_opt_snoc. simpl in Hwf. split_andb. assumption. }
      destruct k; simpl in *; split_andb.
      + rewrite Hc. reflexivity.
      + rewrite Hc. unfold not_operator. rewrite last_isinstance_or.
        rewrite andb_true_r in H. rewrite H. reflexivity.
      + rewrite Hc. unfold not_operator. rewrite last_isinstance_or.
        rewrite andb_true_r in H. rewrite H. reflexivity.
    - (* ORange *)
      assert (Hc : check z t (ps ++ [cls_of_ork k]) = done []).
      { apply IHt. rewrite last_opt_snoc. simpl in Hwf. split_andb. assumption. }
      destruct k; simpl in *; rewrite Hc; reflexivity.
    - (* NoneItem *)
      discriminate.
  Qed.

  (* ---- (c) the lenient notion extends the strict one *)

  (* zeal enters `wellformed` only through `zealous` tests that EXCLUDE constructs: what is strictly
     well-formed at some zeal is strictly well-formed at zeal 0 *)
  Lemma wellformed_zeal0 z : forall t p, wellformed z p t = true -> wellformed 0 p t = true.
  Proof.
    induction t using item_ind'; intros p Hwf; simpl in *.
    - destruct k; [|reflexivity|reflexivity].
      split_andb. rewrite H, ?zealous_0. reflexivity.
    - split_andb. rewrite H, H1, (IHt _ H0). reflexivity.
    - destruct k; split_andb; rewrite H, (IHt _ H0); reflexivity.
    - split_andb. rewrite H, H2, (IHt1 _ H1), (IHt2 _ H0). reflexivity.
    - split_andb. rewrite H, H0, (IHt _ H1). reflexivity.
    - split_andb. rewrite H, (IHt _ H0). reflexivity.
    - apply IHt. exact Hwf.
    - rewrite forallb_forall in *. rewrite Forall_forall in H. intros c Hc.
      apply (H c Hc). apply Hwf. exact Hc.
    - split_andb. rewrite ?zealous_0, (IHt _ H0). reflexivity.
    - split_andb. rewrite H, (IHt _ H0). reflexivity.
    - discriminate.
  Qed.

  Lemma wellformed_is_lenient : forall t z p, wellformed z p t = true -> wellformed_lenient z p t = true.
  Proof.
    induction t using item_ind'; intros z p Hwf; simpl in *.
    - exact Hwf.
    - split_andb. rewrite H, H1, (IHt _ _ H0). reflexivity.
    - destruct k; split_andb; rewrite H, (IHt _ _ H0); reflexivity.
    - split_andb.
      rewrite H, H2, (IHt1 _ _ (wellformed_zeal0 _ _ _ H1)), (IHt2 _ _ (wellformed_zeal0 _ _ _ H0)).
      reflexivity.
    - split_andb. rewrite H, H0, (IHt _ _ H1). reflexivity.
    - split_andb. rewrite H, (IHt _ _ H0). reflexivity.
    - apply IHt. exact Hwf.
    - rewrite forallb_forall in *. rewrite Forall_forall in H. intros c Hc.
      apply (H c Hc). apply Hwf. exact Hc.
    - split_andb. rewrite H, (IHt _ _ H0). reflexivity.
    - split_andb. rewrite H, (IHt _ _ H0). reflexivity.
    - discriminate.
  Qed.

  (* ---- the two entry points, errors() and __call__ *)

  Lemma range_not_inspected z m lo hi il ih :
    errors isw isp z (Range m lo hi il ih) = Done [] /\
    call isw isp z (Range m lo hi il ih) = Done true.
  Proof.
    rewrite errors_done, call_done, (check_range_done z m lo hi il ih []). split; reflexivity.
  Qed.

  Lemma lenient_accepted_entry z t :
    wellformed_lenient z None t = true ->
    errors isw isp z t = Done [] /\ call isw isp z t = Done true.
  Proof.
    intros Hwf. rewrite errors_done, call_done, (wellformed_lenient_accepted z t [] Hwf).
    split; reflexivity.
  Qed.

End LenientFacts.
