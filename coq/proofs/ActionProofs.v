(* ActionProofs.v — every semantic action keeps the text of its parts, up to its ghost events. *)
Require Import Base Decimal Tree GenTree GenParser Lexer Print Actions TreeInd.
From Coq Require Import Lia.

Definition ev_trivial (e : gev) : Prop :=
  match e with GDrop x => x = [] | GRespell a b => a = b end.
Definition all_trivial (l : list gev) : Prop := Forall ev_trivial l.

Definition not_none (i : item) : Prop := match i with NoneItem _ => False | _ => True end.
Definition val_ok (v : symval) : Prop := match v with VItem i => not_none i | VTok _ _ _ => True end.

Lemma print_true_split i : not_none i -> print true i = head_of i ++ print false i ++ tail_of i.
Proof. destruct i; simpl; intros H; try reflexivity. destruct H. Qed.

Lemma print_false_set_meta i m : print false (set_meta i m) = print false i.
Proof. destruct i; reflexivity. Qed.

Lemma not_none_set_meta i m : not_none i -> not_none (set_meta i m).
Proof. destruct i; simpl; auto. Qed.

Lemma print_add_head i s : not_none i -> print true (add_head i s) = s ++ print true i.
Proof.
  intros H. unfold add_head, set_head. rewrite print_true_split by (apply not_none_set_meta; exact H).
  rewrite (print_true_split i H). unfold head_of, tail_of. rewrite meta_set_meta, print_false_set_meta.
  simpl. rewrite <- !app_assoc. reflexivity.
Qed.

Lemma print_add_tail i s : not_none i -> print true (add_tail_i i s) = print true i ++ s.
Proof.
  intros H. unfold add_tail_i, set_tail. rewrite print_true_split by (apply not_none_set_meta; exact H).
  rewrite (print_true_split i H). unfold head_of, tail_of. rewrite meta_set_meta, print_false_set_meta.
  simpl. rewrite <- !app_assoc. reflexivity.
Qed.

Lemma not_none_add_head i s : not_none i -> not_none (add_head i s).
Proof. intros H. apply not_none_set_meta. exact H. Qed.
Lemma not_none_add_tail i s : not_none i -> not_none (add_tail_i i s).
Proof. intros H. apply not_none_set_meta. exact H. Qed.

Lemma all_trivial_app a b : all_trivial (a ++ b) <-> all_trivial a /\ all_trivial b.
Proof. unfold all_trivial. apply Forall_app. Qed.

Lemma all_trivial_drops l : all_trivial (drops l) <-> Forall (fun x => x = []) l.
Proof.
  unfold all_trivial, drops. induction l as [|x l IH]; simpl; split; intro H.
  - constructor.
  - constructor.
  - apply Forall_cons_iff in H. destruct H as [H1 H2]. constructor; [exact H1|apply IH; exact H2].
  - apply Forall_cons_iff in H. destruct H as [H1 H2]. constructor; [exact H1|apply IH; exact H2].
Qed.

(* join over a concatenation of two non-empty operand lists *)
Lemma join_app sep : forall a b, a <> [] -> b <> [] -> join sep (a ++ b) = join sep a ++ sep ++ join sep b.
Proof.
  induction a as [|x a IH]; intros b Ha Hb; [congruence|].
  destruct a as [|y a].
  - simpl. destruct b; [congruence|reflexivity].
  - change ((x :: y :: a) ++ b) with (x :: (y :: a) ++ b).
    assert (E : forall l, l <> [] -> join sep (x :: l) = x ++ sep ++ join sep l).
    { intros l Hl. destruct l; [congruence|reflexivity]. }
    rewrite E by (destruct a; discriminate). rewrite IH by (auto; discriminate).
    rewrite (E (y :: a)) by discriminate. rewrite <- !app_assoc. reflexivity.
Qed.

Lemma join_cons_head sep x l s :
  join sep ((s ++ x) :: l) = s ++ join sep (x :: l).
Proof. destruct l; simpl; rewrite <- ?app_assoc; reflexivity. Qed.

Lemma opk_eqb_eq a b : opk_eqb a b = true -> a = b.
Proof. destruct a, b; simpl; congruence. Qed.

Lemma print_false_op k m ops :
  print false (Op k m ops) = join (op_text k) (map (print true) ops).
Proof. reflexivity. Qed.

Definition opt_text (o : option symval) : str := match o with Some v => full_text v | None => [] end.

(* create_operation keeps the text *)
Lemma binary_text k a opv b v evs :
  binary k a opv b = Ok (v, evs) -> all_trivial evs -> not_none a -> not_none b ->
  Forall not_none (children b) ->
  full_text v = print true a ++ opt_text opv ++ print true b /\ val_ok v.
Proof.
  unfold binary. intros H Htriv Ha Hb Hcb.
  set (a_same := match a with Op k' _ _ => opk_eqb k k' | _ => false end) in *.
  set (b_same := match b with Op k' _ _ => opk_eqb k k' | _ => false end) in *.
  set (opsA := if a_same then children a else [a]) in *.
  destruct (if b_same then children b else [b]) as [|b0 brest] eqn:HopsB; [discriminate|].
  destruct (htm_pos _ false false) as [pos size].
  inversion H; subst; clear H.
  apply all_trivial_app in Htriv. destruct Htriv as [Hd Hr].
  apply all_trivial_drops in Hd. rewrite !Forall_app in Hd. destruct Hd as [HdA [HdB [HdO HdE]]].
  split; [|exact I].
  simpl. unfold wrap. simpl. rewrite app_nil_r.
  set (op_tail := match opv with Some o => sv_tail o | None => [] end) in *.
  assert (Hb0 : not_none b0).
  { destruct b_same; [|inversion HopsB; subst; exact Hb].
    rewrite HopsB in Hcb. inversion Hcb; assumption. }
  assert (HR : join (op_text k) (map (print true) (add_head b0 op_tail :: brest)) = op_tail ++ print true b).
  { simpl map. rewrite print_add_head by exact Hb0. rewrite join_cons_head. f_equal.
    destruct b_same eqn:Hbs.
    - subst b_same. destruct b; try discriminate. apply opk_eqb_eq in Hbs. subst k0.
      simpl in HopsB. subst ops. inversion HdB as [|? ? Hh Ht']; subst. inversion Ht' as [|? ? Ht'' _]; subst.
      unfold head_of, tail_of in *. simpl in *. unfold wrap. rewrite Hh, Ht''. simpl. rewrite app_nil_r.
      reflexivity.
    - inversion HopsB; subst. reflexivity. }
  assert (HL : join (op_text k) (map (print true) opsA) = print true a).
  { subst opsA. destruct a_same eqn:Has.
    - subst a_same. destruct a; try discriminate. apply opk_eqb_eq in Has. subst k0.
      inversion HdA as [|? ? Hh Ht']; subst. inversion Ht' as [|? ? Ht'' _]; subst.
      unfold head_of, tail_of in *. simpl in *. unfold wrap. rewrite Hh, Ht''. simpl. rewrite app_nil_r.
      reflexivity.
    - simpl. reflexivity. }
  assert (Hop : opt_text opv = op_text k ++ op_tail).
  { destruct opv as [[i|l vv m]|].
    - inversion HdO as [|? ? Hx _]. discriminate.
    - inversion HdO as [|? ? Hh _]; subst. inversion Hr as [|? ? Hre _]; subst. simpl in Hre.
      simpl. rewrite Hh, Hre. reflexivity.
    - inversion Hr as [|? ? Hre _]; subst. simpl in Hre. rewrite <- Hre. reflexivity. }
  change (op_str (cls_of_opk k)) with (op_text k).
  rewrite map_app.
  destruct opsA as [|o1 opsA'] eqn:HA.
  - (* the left operand vanished: then the operator text is empty (ghost) *)
    apply Forall_cons_iff in HdE. destruct HdE as [He _].
    change (map (print true) [] ++ map (print true) (add_head b0 op_tail :: brest))
      with (map (print true) (add_head b0 op_tail :: brest)).
    rewrite HR. simpl in HL. rewrite <- HL. simpl.
    rewrite Hop, He. reflexivity.
  - rewrite join_app by discriminate. rewrite HL, HR. f_equal.
    rewrite Hop, <- app_assoc. reflexivity.
Qed.

Definition children_ok (v : symval) : Prop :=
  match v with VItem i => Forall not_none (children i) | VTok _ _ _ => True end.

Lemma children_add_head i s : children (add_head i s) = children i.
Proof. unfold add_head, set_head. apply children_set_meta. Qed.
Lemma children_add_tail i s : children (add_tail_i i s) = children i.
Proof. unfold add_tail_i, set_tail. apply children_set_meta. Qed.

Lemma binary_children k a opv b v evs :
  binary k a opv b = Ok (v, evs) -> not_none a -> not_none b ->
  Forall not_none (children a) -> Forall not_none (children b) -> children_ok v.
Proof.
  unfold binary. intros H Ha Hb Hca Hcb.
  destruct (if match b with Op k' _ _ => opk_eqb k k' | _ => false end then children b else [b])
    as [|b0 brest] eqn:HopsB; [discriminate|].
  destruct (htm_pos _ false false) as [pos size]. inversion H; subst; clear H.
  simpl. apply Forall_app. split.
  - destruct (match a with Op k' _ _ => opk_eqb k k' | _ => false end); [exact Hca|constructor; auto].
  - assert (Hall : Forall not_none (b0 :: brest)).
    { rewrite <- HopsB. destruct (match b with Op k' _ _ => opk_eqb k k' | _ => false end); [exact Hcb|constructor; auto]. }
    inversion Hall; subst. constructor; [apply not_none_add_head; assumption|assumption].
Qed.

(* OP expr *)
Lemma unary_ht_text mk l vv m x printed v evs :
  unary_ht mk (VTok l vv m) x printed = (v, evs) -> all_trivial evs -> not_none x ->
  (forall m' y, print true (mk m' y) = m_head m' ++ printed ++ print true y ++ m_tail m') ->
  (forall m' y, not_none (mk m' y)) ->
  (forall m' y, children (mk m' y) = [y]) ->
  full_text v = full_text (VTok l vv m) ++ print true x /\ val_ok v /\ children_ok v.
Proof.
  unfold unary_ht. intros H Ht Hx Hp Hn Hc. inversion H; subst; clear H.
  apply Forall_cons_iff in Ht. destruct Ht as [Hl _]. simpl in Hl. subst printed.
  split; [|split].
  - simpl. rewrite Hp, print_add_head by exact Hx. simpl. rewrite app_nil_r, <- !app_assoc. reflexivity.
  - apply Hn.
  - simpl. rewrite Hc. constructor; [apply not_none_add_head; exact Hx|constructor].
Qed.

(* expr OP *)
Lemma post_unary_ht_text mk l vv m x printed v evs :
  post_unary_ht mk x (VTok l vv m) [GRespell l printed] = (v, evs) -> all_trivial evs -> not_none x ->
  (forall m' y, print true (mk m' y) = m_head m' ++ print true y ++ printed ++ m_tail m') ->
  (forall m' y, not_none (mk m' y)) ->
  (forall m' y, children (mk m' y) = [y]) ->
  full_text v = print true x ++ full_text (VTok l vv m) /\ val_ok v /\ children_ok v.
Proof.
  unfold post_unary_ht. intros H Ht Hx Hp Hn Hc. inversion H; subst; clear H.
  apply Forall_cons_iff in Ht. destruct Ht as [Hl _]. simpl in Hl. subst printed.
  split; [|split].
  - simpl. rewrite Hp, print_add_tail by exact Hx. simpl. rewrite <- !app_assoc. reflexivity.
  - apply Hn.
  - simpl. rewrite Hc. constructor; [apply not_none_add_tail; exact Hx|constructor].
Qed.

Ltac inv_ok H := inversion H; subst; clear H.
Ltac norm_app := repeat (rewrite <- app_assoc || rewrite <- app_comm_cons || rewrite app_nil_r || rewrite app_nil_l).

Lemma forall2_vals (P : symval -> Prop) a b : Forall P [a; b] -> P a /\ P b.
Proof. intros H. inversion H as [|? ? Ha H']; subst. inversion H'; subst. auto. Qed.

Local Opaque htm_pos.

(* every action keeps the text of its parts when its ghost events are trivial *)
Theorem run_action_text a args v evs :
  run_action a args = Ok (v, evs) -> all_trivial evs ->
  Forall val_ok args -> Forall children_ok args ->
  full_text v = concat (map full_text args) /\ val_ok v /\ children_ok v.
Proof.
  intros H Ht Hok Hch.
  assert (Hunit : forall x, args = [x] -> v = x -> full_text v = concat (map full_text args) /\ val_ok v /\ children_ok v).
  { intros x E1 E2. subst. simpl. rewrite app_nil_r. inversion Hok; inversion Hch; subst. auto. }
  destruct a; simpl in H;
    repeat match type of H with
    | match ?l with [] => _ | _ :: _ => _ end = _ => destruct l as [|? ?]; try discriminate
    | match ?x with VItem _ => _ | VTok _ _ _ => _ end = _ => destruct x; try discriminate
    | match ?o with Some _ => _ | None => _ end = _ => destruct o eqn:?; try discriminate
    | match ?i with Term _ _ _ => _ | _ => _ end = _ => destruct i; try discriminate
    end;
    try (inv_ok H; eapply Hunit; reflexivity).
  all: repeat match goal with
       | Hx : Forall val_ok (_ :: _) |- _ => apply Forall_cons_iff in Hx; destruct Hx as [? Hx]
       | Hx : Forall children_ok (_ :: _) |- _ => apply Forall_cons_iff in Hx; destruct Hx as [? Hx]
       end.
  all: simpl val_ok in *; simpl children_ok in *.
  - (* or *)
    destruct (binary_text _ _ _ _ _ _ H Ht) as [Hb1 Hb2]; auto.
    split; [simpl; rewrite Hb1; simpl; rewrite app_nil_r, <- !app_assoc; reflexivity|].
    split; [exact Hb2|]. eapply binary_children; eauto.
  - (* and *)
    destruct (binary_text _ _ _ _ _ _ H Ht) as [Hb1 Hb2]; auto.
    split; [simpl; rewrite Hb1; simpl; rewrite app_nil_r, <- !app_assoc; reflexivity|].
    split; [exact Hb2|]. eapply binary_children; eauto.
  - (* implicit *)
    destruct (binary_text _ _ _ _ _ _ H Ht) as [Hb1 Hb2]; auto.
    split; [simpl; rewrite Hb1; simpl; rewrite app_nil_r; reflexivity|].
    split; [exact Hb2|]. eapply binary_children; eauto.
  - (* plus *) match type of H with Ok ?e = Ok _ => assert (Hu : e = (v, evs)) by congruence end.
    destruct (unary_ht_text _ _ _ _ _ _ _ _ Hu Ht) as [Hu1 [Hu2 Hu3]]; auto;
      try (intros; simpl; unfold wrap; rewrite <- ?app_assoc; reflexivity); try (intros; exact I).
    split; [simpl; rewrite Hu1; simpl; rewrite app_nil_r, <- !app_assoc; reflexivity|auto].
  - (* minus *) match type of H with Ok ?e = Ok _ => assert (Hu : e = (v, evs)) by congruence end.
    destruct (unary_ht_text _ _ _ _ _ _ _ _ Hu Ht) as [Hu1 [Hu2 Hu3]]; auto;
      try (intros; simpl; unfold wrap; rewrite <- ?app_assoc; reflexivity); try (intros; exact I).
    split; [simpl; rewrite Hu1; simpl; rewrite app_nil_r, <- !app_assoc; reflexivity|auto].
  - (* not *) match type of H with Ok ?e = Ok _ => assert (Hu : e = (v, evs)) by congruence end.
    destruct (unary_ht_text _ _ _ _ _ _ _ _ Hu Ht) as [Hu1 [Hu2 Hu3]]; auto;
      try (intros; simpl; unfold wrap; rewrite <- ?app_assoc; reflexivity); try (intros; exact I).
    split; [simpl; rewrite Hu1; simpl; rewrite app_nil_r, <- !app_assoc; reflexivity|auto].
  - (* grouping *)
    inv_ok H. apply Forall_cons_iff in Ht. destruct Ht as [Hl Ht]. apply Forall_cons_iff in Ht.
    destruct Ht as [Hr _]. simpl in Hl, Hr. subst.
    split; [|split; [exact I|]].
    + simpl. unfold wrap. simpl. rewrite print_add_tail by (apply not_none_add_head; assumption).
      rewrite print_add_head by assumption. rewrite app_nil_r, <- !app_assoc. reflexivity.
    + simpl. constructor; [apply not_none_add_tail, not_none_add_head; assumption|constructor].
  - (* range *)
    inv_ok H. apply Forall_cons_iff in Ht. destruct Ht as [Hl Ht]. apply Forall_cons_iff in Ht.
    destruct Ht as [Hto Ht]. apply Forall_cons_iff in Ht. destruct Ht as [Hr _]. simpl in Hl, Hto, Hr. subst.
    split; [|split; [exact I|]].
    + simpl. unfold wrap. simpl.
      rewrite !print_add_tail by (apply not_none_add_head; assumption).
      rewrite !print_add_head by assumption. simpl. norm_app. reflexivity.
    + simpl. constructor; [apply not_none_add_tail, not_none_add_head; assumption|].
      constructor; [apply not_none_add_tail, not_none_add_head; assumption|constructor].
  - (* possibly negative: MINUS phrase_or_term *)
    match type of H with Ok ?e = Ok _ => assert (Hu : e = (v, evs)) by congruence end.
    destruct (unary_ht_text _ _ _ _ _ _ _ _ Hu Ht) as [Hu1 [Hu2 Hu3]]; auto;
      try (intros; simpl; unfold wrap; rewrite <- ?app_assoc; reflexivity); try (intros; exact I).
    split; [simpl; rewrite Hu1; simpl; rewrite app_nil_r, <- !app_assoc; reflexivity|auto].
  - (* lessthan *)
    match type of H with Ok ?e = Ok _ => assert (Hu : e = (v, evs)) by congruence end.
    destruct (unary_ht_text _ _ _ _ _ _ _ _ Hu Ht) as [Hu1 [Hu2 Hu3]]; auto;
      try (intros; simpl; unfold wrap; rewrite <- ?app_assoc; reflexivity); try (intros; exact I).
    split; [simpl; rewrite Hu1; simpl; rewrite app_nil_r, <- !app_assoc; reflexivity|auto].
  - (* greaterthan *)
    match type of H with Ok ?e = Ok _ => assert (Hu : e = (v, evs)) by congruence end.
    destruct (unary_ht_text _ _ _ _ _ _ _ _ Hu Ht) as [Hu1 [Hu2 Hu3]]; auto;
      try (intros; simpl; unfold wrap; rewrite <- ?app_assoc; reflexivity); try (intros; exact I).
    split; [simpl; rewrite Hu1; simpl; rewrite app_nil_r, <- !app_assoc; reflexivity|auto].
  - (* field search *)
    inv_ok H. apply Forall_cons_iff in Ht. destruct Ht as [Hd1 Ht]. apply Forall_cons_iff in Ht.
    destruct Ht as [Hd2 Ht]. apply Forall_cons_iff in Ht. destruct Ht as [Hr _]. simpl in Hr, Hd1, Hd2. subst.
    assert (Hfg : forall e, not_none e ->
              not_none (match e with Grp KGroup m1 x => Grp KFieldGroup (clone_meta_nameless m1) x | _ => e end)
              /\ print true (match e with Grp KGroup m1 x => Grp KFieldGroup (clone_meta_nameless m1) x | _ => e end)
                 = print true e).
    { intros e He. destruct e; auto. destruct k0; auto. }
    destruct (Hfg i) as [Hn Hp]; [assumption|].
    split; [|split; [exact I|]].
    + simpl. unfold wrap. simpl. rewrite print_add_head by exact Hn. rewrite Hp.
      unfold head_of, tail_of, sv_head in *. simpl in *. rewrite Hd1, Hd2. simpl. norm_app. reflexivity.
    + simpl. constructor; [apply not_none_add_head; exact Hn|constructor].
  - (* proximity, explicit *)
    destruct (int_of_lexeme s); [|discriminate].
    match type of H with Ok ?e = Ok _ => assert (Hu : e = (v, evs)) by congruence end.
    destruct (post_unary_ht_text _ _ _ _ _ _ _ _ Hu Ht) as [Hu1 [Hu2 Hu3]]; auto;
      try (intros; simpl; unfold wrap; norm_app; reflexivity); try (intros; exact I).
    split; [simpl; rewrite Hu1; simpl; norm_app; reflexivity|auto].
  - (* proximity, implicit *)
    match type of H with Ok ?e = Ok _ => assert (Hu : e = (v, evs)) by congruence end.
    destruct (post_unary_ht_text _ _ _ _ _ _ _ _ Hu Ht) as [Hu1 [Hu2 Hu3]]; auto;
      try (intros; simpl; unfold wrap; norm_app; reflexivity); try (intros; exact I).
    split; [simpl; rewrite Hu1; simpl; norm_app; reflexivity|auto].
  - (* boost, explicit *)
    destruct (dec_of_lexeme s); [|discriminate].
    match type of H with Ok ?e = Ok _ => assert (Hu : e = (v, evs)) by congruence end.
    destruct (post_unary_ht_text _ _ _ _ _ _ _ _ Hu Ht) as [Hu1 [Hu2 Hu3]]; auto;
      try (intros; simpl; unfold wrap; norm_app; reflexivity); try (intros; exact I).
    split; [simpl; rewrite Hu1; simpl; norm_app; reflexivity|auto].
  - (* boost, implicit *)
    match type of H with Ok ?e = Ok _ => assert (Hu : e = (v, evs)) by congruence end.
    destruct (post_unary_ht_text _ _ _ _ _ _ _ _ Hu Ht) as [Hu1 [Hu2 Hu3]]; auto;
      try (intros; simpl; unfold wrap; norm_app; reflexivity); try (intros; exact I).
    split; [simpl; rewrite Hu1; simpl; norm_app; reflexivity|auto].
  - (* fuzzy, explicit *)
    destruct (dec_of_lexeme s); [|discriminate].
    match type of H with Ok ?e = Ok _ => assert (Hu : e = (v, evs)) by congruence end.
    destruct (post_unary_ht_text _ _ _ _ _ _ _ _ Hu Ht) as [Hu1 [Hu2 Hu3]]; auto;
      try (intros; simpl; unfold wrap; norm_app; reflexivity); try (intros; exact I).
    split; [simpl; rewrite Hu1; simpl; norm_app; reflexivity|auto].
  - (* fuzzy, implicit *)
    match type of H with Ok ?e = Ok _ => assert (Hu : e = (v, evs)) by congruence end.
    destruct (post_unary_ht_text _ _ _ _ _ _ _ _ Hu Ht) as [Hu1 [Hu2 Hu3]]; auto;
      try (intros; simpl; unfold wrap; norm_app; reflexivity); try (intros; exact I).
    split; [simpl; rewrite Hu1; simpl; norm_app; reflexivity|auto].
  - (* TO as a term *)
    inv_ok H. apply Forall_cons_iff in Ht. destruct Ht as [Hl _]. simpl in Hl. subst.
    split; [|split; [exact I|constructor]].
    simpl. unfold wrap. simpl. norm_app. reflexivity.
Qed.
