"""C03 — parsed structure follows the documented grammar and precedence, independent of layout."""
import lib
import parsegen as PG


def erased_term(T, n):
    """Gallina literal of the layout-free tree (every meta reset)"""
    import copy
    n = copy.deepcopy(n)

    def strip(x):
        x.pos = x.size = None
        x.head = x.tail = ""
        if hasattr(x, "_luqum_name"):
            delattr(x, "_luqum_name")
        for c in x.children:
            strip(c)
    strip(n)
    return lib.g_item(n)


F4_CORPUS = ["a AND b -c", "a OR b +c d", "(a AND b -c) d", "a AND b TO", "x a AND b -c AND d -e OR f g",
             "a OR b AND c -d^2 (e OR f +g)", "a AND b -c -d e", "a AND NOT b -c", "f:(a OR b -c)", "a OR b TO^2 c",
             "a AND b +[1 TO 2]", "NOT a OR b -\"c d\"~2"]


def correspond(model_ok, res):
    from luqum.parser import parser
    import luqum.tree as T
    r = lib.rng("C03")
    quick = lib.tier() == "quick"
    g = PG.QGen(r, bad_numbers=0.02)
    strings = []
    # exhaustive token-type sequences (canonical lexemes, one blank between tokens)
    strings += list(PG.token_sequences(3 if quick else 4))
    n = 300 if quick else 3000
    for _ in range(n):
        strings.append(PG.layout(r, g.expr(r.randrange(0, 4)), minimal=True))
    # structured corpus (prefix chains x operand kinds x contexts); a seeded third of it in the quick tier
    sc = PG.structured_corpus()
    strings += sc if not quick else r.sample(sc, len(sc) // 3)
    strings += list(PG.MALFORMED)          # the shared corpus of malformed and odd-but-legal queries
    # inputs of finding F4's class (the witnesses of C03e.v and relatives): every one must be accepted, be
    # recognised by the F4 predicate and get a tree that differs from the dictated one (C03e_f4_always_differs)
    strings += list(F4_CORPUS)
    # layout variants: the same token sequence with two different layouts
    pairs = []
    for _ in range(150 if quick else 1500):
        lex = g.expr(r.randrange(0, 4))
        a, b = PG.layout(r, lex, p_sep=0.2), PG.layout(r, lex, p_sep=0.95)
        pairs.append((a, b))
    results = [PG.impl_parse(s, parser.parse) for s in strings]
    kinds = {}
    cases, f4cases, idx = [], [], []
    seen = set()
    for i, (s, (k, v)) in enumerate(zip(strings, results)):
        kinds[k] = kinds.get(k, 0) + 1
        if k == "other":
            res.failures.append(({"input": s, "why": "exception that is not a ParseError: " + v}, None))
            continue
        exp = "(Some %s)" % erased_term(T, v) if k == "ok" else "(@None item)"
        cases.append("(%s, %s)" % (lib.g_str(s), exp))
        idx.append(i)
        if k == "ok" and len(s) > 4:
            seen.add(s)
    # layout independence on the implementation.  Two renderings of one lexeme list are layout variants only
    # if they really tokenise alike (adjacent lexemes may fuse: "T12" ":" "2024…" written without blanks is ONE
    # time-like word); pairs whose token (type, lexeme) sequences differ are not judged.
    def keys(s):
        import luqum.parser as P
        lx = P.lexer.clone()
        lx.input(s)
        out = []
        try:
            while True:
                t = lx.token()
                if t is None:
                    return out
                out.append((t.type, s[t.lexpos:t.lexpos + (t.value.size if hasattr(t.value, "size") and t.value.size is not None else 0)]))
        except Exception:
            return None
    judged = 0
    for a, b in pairs:
        ka_, kb_ = keys(a), keys(b)
        if ka_ is None or ka_ != kb_:
            continue
        judged += 1
        ka, va = PG.impl_parse(a, parser.parse)
        kb, vb = PG.impl_parse(b, parser.parse)
        if ka != kb or (ka == "ok" and not (va == vb)):
            res.failures.append(({"a": a, "b": b, "why": "two layouts of one token sequence parse differently"}, None))
    res.cases = len(strings) + len(pairs)
    res.nontrivial = len(seen)
    res.rule = ("every token-type sequence up to length 3 (4 thorough) with canonical lexemes; grammar-directed "
                "queries with minimal layout; pairs of layouts of one token sequence; non-trivial = distinct "
                "accepted input longer than 4 chars")
    res.samples = strings[-5:] + [list(pairs[0])]
    res.distribution = {"outcomes": kinds, "layout_pairs": len(pairs), "layout_pairs_judged": judged}
    # clause (b), independent of the model: AND OR NOT TO are the only reserved words, and only as whole,
    # unescaped tokens; everything else between two words is a third word of an implicit operation
    plain = ["&&", "||", "!", "and", "or", "not", "to", "And", "AND1", "xAND", "\\AND", "ANDNOT", "AND_", "&", "|",
             "OR.", "N0T", "\\OR", "T0", "nOT", "XOR", "ET", "&&&", "AND&&"]
    for w in plain:
        k, v = PG.impl_parse("a %s b" % w, parser.parse)
        ok = (k == "ok" and type(v) is T.UnknownOperation and len(v.children) == 3
              and all(type(c) is T.Word for c in v.children) and v.children[1].value == w)
        if not ok:
            res.failures.append(({"input": "a %s b" % w, "implementation": repr(v) if k == "ok" else k,
                                  "why": "%r is not a reserved word: it should be a plain term between two terms" % w},
                                 None))
    for w, cls in (("AND", T.AndOperation), ("OR", T.OrOperation)):
        k, v = PG.impl_parse("a %s b" % w, parser.parse)
        if not (k == "ok" and type(v) is cls and len(v.children) == 2):
            res.failures.append(({"input": "a %s b" % w, "why": "reserved word not read as the operator"}, None))
    if not model_ok:
        res.model_error = "model did not build"
        return
    try:
        bad = PG.run_parse_cases("C03p", strings, results)
        for i in bad:
            res.disagreements.append({"input": strings[i], "implementation": results[i][0]})
        imports = PG.PARSE_IMPORTS + " Erase Grammar"
        # the documented grammar (reference parser) against the IMPLEMENTATION's tree
        defs = ("Definition keys (s : str) := map tok_key (fst (lex s)).\n"
                "Definition chk (c : str * option item) : bool :=\n"
                "  match snd (lex (fst c)) with\n"
                "  | Some _ => match snd c with None => true | Some _ => false end\n"
                "  | None => match spec_parse (keys (fst c)), snd c with\n"
                "            | Some t, Some t' => item_beq t t' | None, None => true | _, _ => false end\n"
                "  end.")
        canary = "([97]%N, @None item)"
        badspec = lib.eval_cases("C03s", imports, defs, cases + [canary], "chk", shard=150)
        assert len(cases) in badspec, "canary not detected"
        badspec = [i for i in badspec if i < len(cases)]
        f4 = set()
        if badspec:
            defs2 = ("Definition chk (s : str) : bool := negb (f4_input (map tok_key (fst (lex s)))).")
            sub = [lib.g_str(strings[idx[i]]) for i in badspec]
            isf4 = lib.eval_cases("C03f", imports, defs2, sub, "chk", shard=150)
            f4 = set(badspec[j] for j in isf4)
        # is the guard of C03d_grammar_outside_f4 the narrowest?  Every accepted input in F4's class should get a
        # tree that differs from the dictated one (measured, not a violation of C03 if it does not)
        cand = [j for j in range(len(cases)) if results[idx[j]][0] == "ok"
                and any(c in strings[idx[j]] for c in ("+", "-", "TO"))]
        if cand:
            defs3 = ("Definition chk (s : str) : bool := negb (f4_input (map tok_key (fst (lex s)))).")
            inf4 = lib.eval_cases("C03g", imports, defs3, [lib.g_str(strings[idx[j]]) for j in cand], "chk", shard=150)
            inf4 = [cand[j] for j in inf4]
            agreeing = [strings[idx[j]] for j in inf4 if j not in set(badspec)]
            res.distribution["f4_class_inputs_accepted"] = len(inf4)
            res.distribution["f4_class_inputs_agreeing_with_spec"] = len(agreeing)
            res.distribution["f4_class_agreeing_samples"] = agreeing[:5]
        for i in badspec:
            s = strings[idx[i]]
            k, v = results[idx[i]]
            res.failures.append(({"input": s, "implementation": (repr(v) if k == "ok" else k),
                                  "why": "the tree is not the one the documented grammar dictates"},
                                 "F4" if i in f4 else None))
    except Exception as e:
        res.model_error = "%s: %s" % (type(e).__name__, e)


SPEC = {
    "id": "C03",
    "targets": ["props/C03.vo"],
    "model_targets": ["model/Parser.vo", "model/TreeEq.vo", "model/Erase.vo", "model/Grammar.vo"],
    "module": "C03",
    "theorems": ["C03_layout_independent", "C03_layout_independent_trees", "C03_reserved_words", "C03_inclusiveness", "C03_grammar_refuted"],
    "more": [{"module": "C03c", "target": "props/C03c.vo",
              "theorems": ["C03c_precedence", "C03c_precedence_parse", "C03c_precedence_explicit", "C03c_grammar_trees",
                           "C03c_grammar_trees_parse", "C03c_grammar_trees_value"]},
             {"module": "C03d", "target": "props/C03d.vo",
              "theorems": ["C03d_grammar_trees", "C03d_grammar_trees_parse", "C03d_grammar_trees_value",
                           "C03d_extends_C03c", "C03d_spec_total", "C03d_sign_table_facts",
                           "C03d_unguarded_refuted", "C03d_guard_is_f4_complement",
                           "C03d_trees_are_the_grammar", "C03d_accepted_derivable", "C03d_accepted_is_query",
                           "C03d_rejects_non_queries", "C03d_grammar_outside_f4"]},
             {"module": "C03e", "target": "props/C03e.vo",
              "theorems": ["C03e_no_binary_before_sign", "C03e_never_f4_pattern", "C03e_f4_always_differs",
                           "C03e_f4_never_agrees", "C03e_measured_count_is_zero", "C03e_f4_tree",
                           "C03e_f4_tree_parse", "C03e_machine_under_guard", "C03e_f4_class_accepted",
                           "C03e_same_language", "C03e_agrees_iff_outside_f4"]},
             {"module": "Lrespace", "target": "props/Lrespace.vo",
              "theorems": ["L_respace", "L_respace_parse", "L_respace_accept", "L_respace_glued",
                           "L_respace_glued_accept", "L_respace_token", "L_respace_no_sep_condition_refuted"]}],
    "correspond": correspond,
    "statement": "(a) for ANY LR tables, inputs with the same (type, lexeme) token sequence have equal trees up to "
                 "layout (or errors of the same class); (b) reserved words are operators only as whole lexemes, "
                 "bracket kind and =/no = decide inclusiveness; (c) agreement with the documented grammar "
                 "(reference parser Grammar.v): for EVERY input the lexer accepts and that is outside finding F4's "
                 "class (Grammar.f4_input = false), the parser returns a tree iff the documented grammar derives the "
                 "token sequence, and then the tree is the dictated one (C03d_grammar_outside_f4); the unguarded "
                 "statement is refuted by F4 (a AND b -c), and the guard is the narrowest possible: INSIDE F4's class "
                 "every input is accepted by both parsers and the returned tree always differs from the dictated one "
                 "(C03e_f4_class_accepted, C03e_f4_always_differs) — it is the value of an executable "
                 "operator-precedence machine that attaches a juxtaposed operand starting with + - TO to the "
                 "innermost open operand (C03e_f4_tree, for every query of the documented grammar, no guard); the "
                 "two parsers accept the same inputs (C03e_same_language) and agree exactly outside F4's class "
                 "(C03e_agrees_iff_outside_f4)",
    "level_text": "Coq proof of layout independence for any tables (lock-step simulation of two LR runs) and of the "
                  "lexical clauses on the lexer model; clause (c) — the tree is the one the documented grammar "
                  "dictates — is proved for every input outside F4's class and refuted on F4: C03c.v/C03d.v, symbolic "
                  "execution of the driver on the generated tables by structural induction over syntax trees of the "
                  "documented grammar (three operator levels, prefixes, fields, groups, fuzzy/proximity/boost, TO, open "
                  "and bracketed ranges with every bound form, signed operands in juxtaposition under the guard "
                  "f4free = complement of F4's predicate), table entries as computed facts; the converse by an "
                  "LR-stack invariant carrying derivations (accepted => derivable by the generated productions with "
                  "the tree as semantic value), language inclusion of the PLY grammar in the documented one, and "
                  "completeness of the syntax-tree type w.r.t. the reference parser.  That the guard is the narrowest "
                  "(every accepted input in F4's class gets a different tree) is a theorem too (C03e.v / F4Proofs.v): "
                  "a table fact (no state reduces E OR E / E AND E / E E with lookahead + - TO) carried through a run "
                  "by an LR-stack invariant shows that a returned tree never contains F4's pattern, which the dictated "
                  "tree of an F4-class input contains by definition; and a second symbolic execution of the driver, "
                  "without the guard, against an operator-precedence machine describes the tree parse returns there "
                  "and shows that parse accepts every query of the documented grammar.  The measurement on every "
                  "token-type sequence up to length 3 (4 thorough) and on generated queries stays as a cross-check of "
                  "model against implementation (distribution.f4_class_inputs_agreeing_with_spec, expected 0 = "
                  "C03e_measured_count_is_zero).",
    "trusted_base": [
        "Coq 8.16.1 kernel (vm_compute for witnesses and correspondence; no native_compute); no axioms",
        "gen/gen_parser.py: live PLY tables, token rules, reserved words",
        "hand-written models Lexer.v, LR.v, Actions.v tied by differential correspondence; Grammar.v is the "
        "specification (reference parser written from the documentation)",
    ],
    "assumptions": ["no defaulted LR states (generated fact)"],
}
