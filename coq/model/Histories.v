(* Histories.v — what survives between two parse calls, and the two entry points (C04, purity).

   luqum keeps state across calls in exactly two places (luqum/head_tail.py, luqum/parser.py,
   luqum/thread.py; PLY's LRParser builds fresh stacks on every call):
     * the PLY lexer object: `lexdata`/`lexpos` (reset by `lexer.input(s)`) and the attribute
       `_luqum_headtail` holding the HeadTailLexer instance ("tracker": pending head + last token);
     * there are two lexer objects: the module-level `luqum.parser.lexer` (used by
       `luqum.parser.parse`, which is also `parser.parse`) and its clone stored in
       `luqum.thread.thread_local.lexer`, made by `lexer.clone()` on the first `luqum.thread.parse`
       of a thread; `clone()` is a shallow copy, so the clone starts with a REFERENCE to the same
       tracker object.
   Trackers therefore live in a heap and lexers hold indices into it.  `HeadTailLexer.handle` is
   modelled literally, per raw token: the tracker is re-created when `resets` says so (generated tie:
   gen_tracker_scope = TrackerOnTokenLexerResetAtPos0, i.e. `token.lexpos == 0`), otherwise READ from
   the lexer attribute — AttributeError if there is none.  The pure `Lexer.head_tail_fold` used by
   `Parser.parse` is what this stateful version computes when it starts from nothing; that the two
   agree after ANY history is the theorem of proofs/HistoriesProofs.v.

   Tokens are lexed eagerly here while PLY pulls them one at a time; this only changes which state
   is LEFT behind when a parse stops early, and the purity theorem holds for every starting state,
   not only the reachable ones.  Executable definitions only. *)
Require Import Base Decimal Tree GenParser Lexer Actions LR Parser.

(* ---- a HeadTailLexer instance *)
(* `last_elt` is a reference to a token object: none, the most recent non-separator token of the
   current call (head of the accumulator below), or a token object of an earlier call *)
Inductive last_ref := LNone | LCur | LOld.
Record tracker := mkTr { tr_head : option str; tr_last : last_ref }.
Definition fresh_tracker : tracker := mkTr None LNone.
(* a new call starts, or another token becomes the most recent one *)
Definition age (t : tracker) : tracker :=
  mkTr (tr_head t) (match tr_last t with LCur => LOld | x => x end).

Definition heap := list tracker.
Fixpoint upd {A} (i : nat) (f : A -> A) (l : list A) : list A :=
  match l, i with
  | [], _ => []
  | x :: l', O => f x :: l'
  | x :: l', S i' => x :: upd i' f l'
  end.

(* ---- when HeadTailLexer.handle makes a new instance *)
Inductive reset_rule :=
| ResetAtPos0            (* the code: `if token.lexpos == 0` *)
| ResetAtPos0NonSep.     (* a plausible WRONG variant: "... and token.type != 'SEPARATOR'" *)

Definition is_sep (r : rawtok) : bool := match rk_kind r with RSep => true | RTok _ => false end.
Definition resets (rr : reset_rule) (r : rawtok) : bool :=
  match rr with
  | ResetAtPos0 => Nat.eqb (rk_pos r) 0
  | ResetAtPos0NonSep => Nat.eqb (rk_pos r) 0 && negb (is_sep r)
  end.

(* state while one input is tokenised: the heap, the lexer's attribute, the tokens handed to the
   parser so far (reversed), and a ghost flag: a token object of an EARLIER call was mutated *)
Record lexst := mkLs { ls_heap : heap; ls_attr : option nat; ls_racc : list token; ls_stale : bool }.

(* HeadTailLexer.handle_token on the instance at idx *)
Definition handle_token (st : lexst) (idx : nat) (r : rawtok) : lexst :=
  match nth_error (ls_heap st) idx with
  | None => st                 (* dangling reference: references only come from allocation *)
  | Some tr =>
      match rk_kind r with
      | RSep =>
          if Nat.eqb (rk_pos r) 0 then        (* self.head = token.value *)
            mkLs (upd idx (fun t => mkTr (Some (rk_lexeme r)) (tr_last t)) (ls_heap st))
                 (ls_attr st) (ls_racc st) (ls_stale st)
          else                                (* self.last_elt.value.tail += token.value *)
            match tr_last tr with
            | LNone => st
            | LCur => match ls_racc st with
                      | lastt :: racc' =>
                          mkLs (ls_heap st) (ls_attr st) (add_tail lastt (rk_lexeme r) :: racc') (ls_stale st)
                      | [] => st
                      end
            | LOld => mkLs (ls_heap st) (ls_attr st) (ls_racc st) true
            end
      | RTok t =>
          let h := match tr_head tr with Some h => h | None => [] end in
          (* token.value.head = head; self.head = None; self.last_elt = token *)
          mkLs (upd idx (fun _ => mkTr None LCur) (map age (ls_heap st))) (ls_attr st)
               (mkTok t (rk_lexeme r) (rk_pos r) h [] :: ls_racc st) (ls_stale st)
      end
  end.

(* HeadTailLexer.handle; None = AttributeError from getattr(token.lexer, LEXER_ATTR) *)
Definition handle (rr : reset_rule) (st : lexst) (r : rawtok) : option lexst :=
  if resets rr r then
    let idx := length (ls_heap st) in
    Some (handle_token (mkLs (ls_heap st ++ [fresh_tracker]) (Some idx) (ls_racc st) (ls_stale st)) idx r)
  else
    match ls_attr st with
    | Some idx => Some (handle_token st idx r)
    | None => None
    end.

(* all raw tokens in order; true = stopped by AttributeError *)
Fixpoint handle_all (rr : reset_rule) (st : lexst) (raws : list rawtok) : lexst * bool :=
  match raws with
  | [] => (st, false)
  | r :: raws' =>
      match handle rr st r with
      | None => (st, true)
      | Some st' => handle_all rr st' raws'
      end
  end.

(* ---- lexer objects, the world, one call *)
Record lexer_obj := mkLx { lx_data : str; lx_pos : nat; lx_attr : option nat }.
Record World := mkW {
  w_heap : heap;
  w_main : lexer_obj;                 (* luqum.parser.lexer *)
  w_thread : option lexer_obj;        (* luqum.thread.thread_local.lexer, absent before first use *)
  w_stale : bool                      (* ghost: some call mutated a token of an earlier call *)
}.
Definition w0 : World := mkW [] (mkLx [] 0 None) None false.

Inductive entry := Module | Thread.   (* luqum.parser.parse = parser.parse  |  luqum.thread.parse *)

Definition attr_error : perr := EOther 9.     (* AttributeError: not a ParseError *)

Definition observe (o : outcome) : option (res item) :=
  match o with Done r _ => Some r | OutOfFuel => None end.

(* the LR driver of Parser.parse_with on given tokens *)
Definition run_tokens (s : str) (toks : list token) (e : option (nat * str)) : outcome :=
  let ev0 := match toks with [] => [GDrop s] | _ => [] end in
  run gen_tables e (parse_fuel toks) (init_config toks ev0).

Definition call_result (s : str) (toks : list token) (e : option (nat * str)) (attr_err : bool)
  : option (res item) :=
  if attr_err then
    (* the token source raises AttributeError at the point where it would otherwise have run out of
       tokens: LR.step reports an exception of the token source as EIllegal, only the class differs *)
    match run_tokens s toks (Some (0, [])) with
    | Done (Err (EIllegal _)) _ => Some (Err attr_error)
    | o => observe o
    end
  else observe (run_tokens s toks e).

Definition parse_call (rr : reset_rule) (w : World) (en : entry) (s : str) : option (res item) * World :=
  (* which lexer object; `lexer.clone()` copies every field, the tracker reference included *)
  let lx := match en with
            | Module => w_main w
            | Thread => match w_thread w with Some l => l | None => w_main w end
            end in
  (* lexer.input(s): lexdata = s, lexpos = 0; the attribute stays.  Tokens of earlier calls stop
     being "the current call's tokens". *)
  let st0 := mkLs (map age (w_heap w)) (lx_attr lx) [] false in
  let '(raws, e) := lex_raw (S (length s)) [] 0 s in
  let '(st1, attr_err) := handle_all rr st0 raws in
  let toks := rev (ls_racc st1) in
  let lx' := mkLx s (match e with Some (p, _) => p | None => length s end) (ls_attr st1) in
  (call_result s toks e attr_err,
   mkW (ls_heap st1)
       (match en with Module => lx' | Thread => w_main w end)
       (match en with Module => w_thread w | Thread => Some lx' end)
       (w_stale w || ls_stale st1)).

Inductive op := ParseCall (en : entry) (s : str).

Fixpoint exec_with (rr : reset_rule) (w : World) (ops : list op) : list (option (res item)) :=
  match ops with
  | [] => []
  | ParseCall en s :: ops' => let '(r, w') := parse_call rr w en s in r :: exec_with rr w' ops'
  end.
Fixpoint world_after (rr : reset_rule) (w : World) (ops : list op) : World :=
  match ops with
  | [] => w
  | ParseCall en s :: ops' => world_after rr (snd (parse_call rr w en s)) ops'
  end.

(* the code as it is *)
Definition exec : World -> list op -> list (option (res item)) := exec_with ResetAtPos0.
