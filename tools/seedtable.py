#!/venv/bin/python
"""rewrite the seeded-changes table of DESIGN.md from seeded/*/meta.json and notes.md"""
import glob, json, os, re
HERE = os.path.dirname(os.path.dirname(os.path.abspath(__file__)))
rows = ["", "| change | what it does / needs | caught by | how |", "|---|---|---|---|"]
for d in sorted(glob.glob(os.path.join(HERE, "seeded", "*-*"))):
    m = json.load(open(os.path.join(d, "meta.json")))
    notes = ""
    p = os.path.join(d, "notes.md")
    if os.path.exists(p):
        txt = [l.strip() for l in open(p).read().splitlines() if l.strip() and not l.startswith("#")]
        notes = " ".join(txt)[:230].replace("|", "/")
    if m.get("summary_text"):
        notes = m["summary_text"]
    if os.path.basename(d).startswith("benign"):
        loud = [c["check"] for c in m["checks"] if c["violation_lines"]]
        rows.append("| %s | %s | all of %s | %s |" % (
            os.path.basename(d), notes, ", ".join(c["check"] for c in m["checks"]) if len(m["checks"]) < 20 else "C01–C20",
            "silent (behaviour-preserving change: no check may alarm)" if not loud else "FALSE ALARM: " + ", ".join(loud)))
        continue
    for c in m["checks"]:
        if c["violation_lines"] == 0 and m.get("confirmed", {}).get("demo_exit_patched") == 0:
            rows.append("| %s | %s | ./check %s | silent, rightly: %s |" % (
                os.path.basename(d), notes, c["check"], m.get("history", "the change no longer breaks the property")))
            continue
        how = "VIOLATION with a failing input" if c["violation_lines"] and "no-failing-input-found" not in c["first"] \
            else ("VIOLATION no-failing-input-found (obligation broken)" if c["violation_lines"] else "MISSED")
        if m.get("history"):
            how += " — " + m["history"].split(";")[0]
        rows.append("| %s | %s | ./check %s | %s |" % (os.path.basename(d), notes, c["check"], how))
# summary above the table
tot = {"breaking": 0, "input": 0, "nfi": 0, "silent_right": 0, "undetected": 0, "first_missed": 0, "first_nfi": 0,
       "benign": 0, "benign_loud": 0}
for d in sorted(glob.glob(os.path.join(HERE, "seeded", "*-*"))):
    m = json.load(open(os.path.join(d, "meta.json")))
    if os.path.basename(d).startswith("benign"):
        tot["benign"] += 1
        tot["benign_loud"] += any(c["violation_lines"] for c in m["checks"])
        continue
    tot["breaking"] += 1
    c = m["checks"][0]
    h = m.get("history", "")
    if c["violation_lines"] == 0 and m.get("confirmed", {}).get("demo_exit_patched") == 0:
        tot["silent_right"] += 1
    elif c["violation_lines"] == 0:
        tot["undetected"] += 1
    elif "no-failing-input-found" in c["first"]:
        tot["nfi"] += 1
    else:
        tot["input"] += 1
    hl = h.lower()
    if "missed" in hl[:40] or "first run missed" in hl:
        tot["first_missed"] += 1
    elif hl.startswith("at first only") or "first run: only the tie" in hl or "first run: tie" in hl:
        tot["first_nfi"] += 1
summary = ("\n**Totals** (recomputed from `seeded/*/meta.json` by `tools/seedtable.py`): %(breaking)d breaking changes over "
           "nine rounds — %(input)d reported as `VIOLATION` with a concrete failing input, %(nfi)d as `VIOLATION … "
           "no-failing-input-found` (an obligation broke and the search found nothing new), %(silent_right)d rightly "
           "silent (the change stopped being a breakage after a `fix:` commit), %(undetected)d not detected. "
           "%(first_missed)d of them were MISSED by the checks as they stood when the change arrived and %(first_nfi)d "
           "were caught without a failing input at first; every such case led to a strengthening recorded in the row "
           "(generators, corpora, oracles, histories). %(benign)d behaviour-preserving changes: %(benign_loud)d raise an "
           "alarm now.\n" % tot)
table = summary + "\n".join(rows) + "\n"
p = os.path.join(HERE, "DESIGN.md")
s = open(p).read()
if "SEEDED_TABLE" in s and "<!-- SEEDED_TABLE_BEGIN -->" not in s:
    s = s.replace("SEEDED_TABLE", "<!-- SEEDED_TABLE_BEGIN -->\n" + table + "<!-- SEEDED_TABLE_END -->")
else:
    s = re.sub(r"<!-- SEEDED_TABLE_BEGIN -->.*?<!-- SEEDED_TABLE_END -->",
               lambda _: "<!-- SEEDED_TABLE_BEGIN -->\n" + table + "<!-- SEEDED_TABLE_END -->", s, flags=re.S)
open(p, "w").write(s)
print(len(rows) - 3, "rows")
