"""C13 — auto_head_tail makes a programmatic tree print to a query that parses back to it.

Correspondence: AutoHeadTail()(tree) against the model `AutoHeadTail.aht` (full output tree, `item_beq`;
IndexError <-> None), the classification predicates `expressible`, `f4_pattern`, `f15_pattern` of the model
against their Python twins below, and the model's round trip `Parser.parse (print true (aht t))` against the
real `parser.parse(str(auto_head_tail(t)))`.

Oracle (model-independent), on the implementation's behaviour:
  * the result equals the input (luqum's ==),
  * node by node (same shape, same class, same pos/size, same value/name/flags/degree): every head and tail
    is unchanged, or was "" and is now " "; a non-empty head/tail is never altered,
  * a second application changes nothing (full structural comparison),
  * the argument is untouched (snapshot before / after),
  * on trees whose shape the grammar can express and whose heads/tails are blank text (layout-free trees AND
    trees with partial layout, e.g. parsed queries edited by hand): parser.parse(str(auto_head_tail(t))) == t.
    Failures are classified by executable predicates on the INPUT (F4, F15); anything else is a violation.

The proved round trip (props/C13x.v, `C13x_round_trip_partial`, which subsumes props/C13r.v's
`C13_round_trip_partial`): the guard `AhtRoundTripMore.rt_ok2` (= `AhtRoundTrip.rt_ok` + bracketed ranges + signed
operands in juxtaposition outside F4) is evaluated ON THE MODEL for every case that has a result, and every case
inside the guard must round-trip on the implementation (`chk_rt`, with canaries: an in-guard tree whose recorded
outcome is corrupted must be reported, once for a tree of the old guard and once for a tree that only the new
guard contains); how many generated trees are inside each guard is measured (`rt_ok_cases`, `rt_ok2_cases`,
`rt_ok2_only_cases` = inside rt_ok2 but not rt_ok, with ranges / with signed juxtaposition), with further canaries
(trees known to be inside must be counted), and `rt_ok => rt_ok2` (theorem C13x_subsumes_C13r) is re-checked case
by case.

Inputs: single calls on fresh trees (corpus, random, grammar-shaped); parsed queries edited by hand (operands
appended / inserted / replaced by layout-free nodes, .expr/.a/.low/.high reassigned, hand-made parents), so
that positioned composite nodes have children without head/tail; call HISTORIES: 2-3 consecutive calls of the
module-level `auto_head_tail` on ONE root object edited in place between the calls, nothing else touching the
transformer in between (`call` records, `judge` runs the oracle afterwards); every step is compared with the
model on the tree as it is at that moment and judged against a deep copy taken right before the call.
"""
import copy
import re
from decimal import Decimal

import lib
import gentree
from runner import CorrResult  # noqa: F401

# ------------------------------------------------------------------ lexeme classes (luqum's own regexes)

_RX = {}


def rx():
    if not _RX:
        import luqum.parser as P
        _RX["term"] = re.compile(P.TERM_RE, re.VERBOSE)
        _RX["phrase"] = re.compile(P.PHRASE_RE, re.VERBOSE)
        _RX["regex"] = re.compile(P.REGEX_RE, re.VERBOSE)
        _RX["reserved"] = dict(P.reserved)
    return _RX


def full(kind, v):
    m = rx()[kind].match(v)
    return bool(m) and m.end() == len(v)


def is_word_lexeme(v, allow_to):
    """a TERM lexeme that is not a reserved word (the word TO is a term outside ranges)"""
    if not full("term", v):
        return False
    if v in rx()["reserved"]:
        return allow_to and rx()["reserved"][v] == "TO"
    return True


def nonneg_dec(d):
    if isinstance(d, bool):
        return False
    if isinstance(d, int):
        return d >= 0
    return isinstance(d, Decimal) and d.is_finite() and not d.is_signed()


# ------------------------------------------------------------------ the shapes the grammar can express

def expressible(T, t, level=0):
    """level 0: any expression; 1: operand of an implicit operation; 2: operand of OR; 3: operand of AND /
    unary_expression"""
    k = type(t)
    if k is T.UnknownOperation:
        return level <= 0 and len(t.children) >= 2 and all(expressible(T, c, 1) for c in t.children)
    if k is T.OrOperation:
        return level <= 1 and len(t.children) >= 2 and all(expressible(T, c, 2) for c in t.children)
    if k is T.AndOperation:
        return level <= 2 and len(t.children) >= 2 and all(expressible(T, c, 3) for c in t.children)
    return unary_ok(T, t)


def leaf_ok(T, t, allow_to):
    k = type(t)
    if k is T.Word:
        return is_word_lexeme(t.value, allow_to)
    if k is T.Phrase:
        return full("phrase", t.value)
    return False


def bound_ok(T, t):
    if type(t) is T.Prohibit:
        return leaf_ok(T, t.a, False)
    return leaf_ok(T, t, False)


def boostable(T, t):
    return type(t) in (T.Word, T.Phrase, T.Regex, T.Fuzzy, T.Proximity, T.Boost, T.Group, T.Range, T.From, T.To)


def unary_ok(T, t):
    k = type(t)
    if k is T.Word:
        return is_word_lexeme(t.value, True)
    if k is T.Phrase:
        return full("phrase", t.value)
    if k is T.Regex:
        return full("regex", t.value)
    if k is T.Fuzzy:
        return type(t.term) is T.Word and is_word_lexeme(t.term.value, False) and \
            (t._implicit_degree or nonneg_dec(t.degree))
    if k is T.Proximity:
        return type(t.term) is T.Phrase and full("phrase", t.term.value) and \
            (t._implicit_degree or (isinstance(t.degree, int) and t.degree >= 0))
    if k is T.Boost:
        return boostable(T, t.expr) and unary_ok(T, t.expr) and (t.implicit_force or nonneg_dec(t.force))
    if k in (T.Plus, T.Not, T.Prohibit):
        return unary_ok(T, t.a)
    if k is T.Group:
        return expressible(T, t.expr, 0)
    if k is T.SearchField:
        if not is_word_lexeme(t.name, False):
            return False
        if type(t.expr) is T.FieldGroup:
            return expressible(T, t.expr.expr, 0)
        return type(t.expr) is not T.Group and unary_ok(T, t.expr)
    if k is T.Range:
        return bound_ok(T, t.low) and bound_ok(T, t.high)
    if k in (T.From, T.To):
        return leaf_ok(T, t.a, False)
    return False      # FieldGroup elsewhere, BoolOperation, NoneItem


def layout_free(t):
    return all(n.head == "" and n.tail == "" and n.pos is None and n.size is None
               for _, n in gentree.all_nodes(t))


# ------------------------------------------------------------------ known findings, as predicates on the input

def leftmost(T, t):
    k = type(t)
    if k is T.Word:
        return "TO" if t.value == "TO" else "TERM"
    if k is T.Plus:
        return "PLUS"
    if k is T.Prohibit:
        return "MINUS"
    if k in (T.Boost, T.Fuzzy, T.Proximity) or isinstance(t, T.BaseOperation):
        return leftmost(T, t.children[0]) if t.children else "OTHER"
    return "OTHER"


def f4_pattern(T, t):
    """an implicit operation has an AND/OR operation as operand, directly followed by an operand whose first
    token is PLUS, MINUS or the word TO"""
    for _, n in gentree.all_nodes(t):
        if type(n) is T.UnknownOperation:
            for a, b in zip(n.children, n.children[1:]):
                if type(a) in (T.AndOperation, T.OrOperation) and leftmost(T, b) in ("PLUS", "MINUS", "TO"):
                    return True
    return False


def printed(aht, t):
    try:
        return str(aht(copy.deepcopy(t)))
    except Exception:
        return ""


def f15_pattern(T, aht, t):
    """lexeme fusion at a joint where auto_head_tail adds no blank: the TERM rule does not stop at the colon
    of a field (time syntax), or `<` / `>` (exclusive) is followed by a word starting with `=`"""
    for _, n in gentree.all_nodes(t):
        if type(n) is T.SearchField:
            s = n.name + ":" + printed(aht, n.expr)
            m = rx()["term"].match(s)
            if m and m.end() > len(n.name):
                return True
        if type(n) in (T.From, T.To) and n.include is False and type(n.a) is T.Word and n.a.value.startswith("="):
            return True
    return False


# ------------------------------------------------------------------ generator of grammar-shaped trees

G_WORDS = ["a", "b", "foo", "x1", "*", "w?ld*", "TO", "1", "30", "45", "2024-01-01", "é", "ba\\ r", "T12", "xT12",
           "T12:30", "=a", "a=", "a+b", "a-b", "a<b", "12", "NOTx", "ANDx", "and", "\\AND", "a/b", "a\"b", "a'b",
           "1.5", ".", "&&", "!", "\\+a", "\\-", "T12:30:45", "00", "=", "==", "to", "x\\:y"]
G_PHRASES = ['"a"', '"a b"', '""', '"x \\" y"', '"l1\nl2"', '"*"', '"AND"', '"a:b"', '"TO"', '"30"']
G_REGEXES = ['/a/', '/a.*b/', '//', '/a b/', '/a\\/b/', '/"/']
G_FIELDS = ["f", "title", "a.b", "xT12", "T12", "T12:30", "1", "é", "a\\:b", "*", "30", "f_1", "yT00", "T12:30:45"]
G_DEG = [None, None, "1", "2", "0.5", ".5", "2.0", "007", "10", "100", "0.0000001", "1.50", 1, 2, 0,
         Decimal("1.50"), Decimal("0.1"), "1234567890123456789012345678901"]
G_PROX = [None, 1, 2, 0, 10, "3", "007"]


class GrammarGen:
    """layout-free trees derivable from the grammar (every one satisfies `expressible`)"""

    def __init__(self, r, T):
        self.r, self.T = r, T

    def word(self, allow_to=True):
        while True:
            w = self.r.choice(G_WORDS)
            if allow_to or w != "TO":
                return self.T.Word(w)

    def phrase(self):
        return self.T.Phrase(self.r.choice(G_PHRASES))

    def pt(self):
        return self.word(False) if self.r.random() < 0.7 else self.phrase()

    def bound(self):
        b = self.pt()
        return self.T.Prohibit(b) if self.r.random() < 0.2 else b

    def boostable(self, d):
        T, r = self.T, self.r
        k = r.choice(["word", "word", "phrase", "regex", "fuzzy", "prox", "boost", "group", "range", "from", "to"])
        if d <= 0 and k in ("boost", "group"):
            k = "word"
        return self.unary(d, k)

    def unary(self, d, k=None):
        T, r = self.T, self.r
        if k is None:
            k = r.choice(["word", "word", "word", "phrase", "regex", "fuzzy", "prox", "boost", "plus", "prohibit",
                          "not", "group", "range", "from", "to", "field", "field"])
            if d <= 0 and k in ("boost", "plus", "prohibit", "not", "group", "field"):
                k = "word"
        if k == "word":
            return self.word()
        if k == "phrase":
            return self.phrase()
        if k == "regex":
            return T.Regex(r.choice(G_REGEXES))
        if k == "fuzzy":
            return T.Fuzzy(self.word(False), r.choice(G_DEG))
        if k == "prox":
            return T.Proximity(self.phrase(), r.choice(G_PROX))
        if k == "boost":
            return T.Boost(self.boostable(d - 1), r.choice(G_DEG))
        if k in ("plus", "prohibit", "not"):
            return {"plus": T.Plus, "prohibit": T.Prohibit, "not": T.Not}[k](self.unary(d - 1))
        if k == "group":
            return T.Group(self.expr(d - 1))
        if k == "range":
            return T.Range(self.bound(), self.bound(), r.random() < 0.5, r.random() < 0.5)
        if k in ("from", "to"):
            return {"from": T.From, "to": T.To}[k](self.pt(), r.random() < 0.5)
        if k == "field":
            name = r.choice(G_FIELDS)
            if r.random() < 0.25:
                return T.SearchField(name, T.FieldGroup(self.expr(d - 1)))
            while True:
                e = self.unary(d - 1)
                if type(e) is not T.Group:
                    return T.SearchField(name, e)
        raise AssertionError(k)

    def operands(self, f, d):
        return [f(d) for _ in range(self.r.choice([2, 2, 2, 3, 4]))]

    def and_(self, d):
        return self.T.AndOperation(*self.operands(self.unary, d))

    def or_operand(self, d):
        return self.and_(d) if self.r.random() < 0.3 else self.unary(d)

    def or_(self, d):
        return self.T.OrOperation(*self.operands(self.or_operand, d))

    def unk_operand(self, d):
        x = self.r.random()
        return self.or_(d) if x < 0.2 else self.and_(d) if x < 0.45 else self.unary(d)

    def expr(self, d):
        x = self.r.random()
        if x < 0.3:
            return self.unary(d)
        if x < 0.5:
            return self.and_(d)
        if x < 0.7:
            return self.or_(d)
        return self.T.UnknownOperation(*self.operands(self.unk_operand, d))


def corpus(T):
    W, P = T.Word, T.Phrase
    return [
        # index errors and degenerate operations
        T.AndOperation(), T.OrOperation(), T.BoolOperation(), T.UnknownOperation(),
        T.Group(T.AndOperation()), T.UnknownOperation(W("a"), T.OrOperation()),
        T.AndOperation(W("a")), T.OrOperation(W("a", head="\t")), T.BoolOperation(W("a", tail="  ")),
        T.UnknownOperation(W("a")),
        # partial layout
        T.AndOperation(W("a", tail="  "), W("b", head="\n"), W("c")),
        T.AndOperation(W("a"), W("b", head="\t", tail=""), W("c", head="", tail="\t")),
        T.Not(W("a", head="  ")), T.Not(W("a")), T.Range(W("a", tail="\t"), W("b")),
        T.Range(W("a"), W("b", head="  "), False, True),
        T.UnknownOperation(W("a", tail="\n"), W("b"), W("c", tail="x")),
        # F4, F15
        T.UnknownOperation(T.AndOperation(W("a"), W("b")), T.Prohibit(W("c"))),
        T.UnknownOperation(T.OrOperation(W("a"), W("b")), T.Plus(W("c"))),
        T.UnknownOperation(T.AndOperation(W("a"), W("b")), W("TO")),
        T.UnknownOperation(T.AndOperation(W("a"), W("b")), T.Boost(W("TO"), 2)),
        T.Group(T.UnknownOperation(W("x"), T.AndOperation(W("a"), W("b")), T.AndOperation(T.Prohibit(W("c")), W("d")))),
        T.SearchField("xT12", W("30")), T.SearchField("T12:30", W("45")),
        T.SearchField("xT12", T.SearchField("30", W("45"))), T.SearchField("xT12", T.Fuzzy(W("30"), 2)),
        T.To(W("=a"), False), T.From(W("=a"), False), T.From(W("=a"), True), T.To(P('"=a"'), False),
        # expressible shapes
        W("a"), W("TO"), T.AndOperation(W("a"), W("b")), T.OrOperation(T.AndOperation(W("a"), W("b")), W("c")),
        T.UnknownOperation(T.OrOperation(W("a"), W("b")), T.AndOperation(W("c"), W("d")), W("e")),
        T.Plus(T.Plus(W("a"))), T.Not(T.Group(W("a"))), T.Not(T.Not(W("a"))),
        T.Boost(T.Group(T.AndOperation(W("a"), W("b"))), 2), T.SearchField("f", T.Boost(T.Group(W("a")), 2)),
        T.SearchField("f", T.FieldGroup(T.UnknownOperation(W("a"), W("b")))),
        T.Boost(T.To(W("a")), 2), T.Boost(T.Range(T.Prohibit(W("a")), P('"b"')), None),
        T.Fuzzy(W("a")), T.Proximity(P('"a b"')), T.Boost(T.Boost(W("a"), None), "1.50"),
        # shapes the grammar cannot express
        T.Boost(T.AndOperation(W("a"), W("b")), 2), T.Fuzzy(P('"a"'), 2), T.Proximity(W("a"), 2),
        W("a b"), W("AND"), T.Range(W("TO"), W("b")), T.AndOperation(W("a"), T.AndOperation(W("b"), W("c"))),
        T.AndOperation(T.OrOperation(W("a"), W("b")), W("c")), T.Boost(T.Plus(W("a")), 2),
        T.SearchField("f", T.Group(W("a"))), T.FieldGroup(W("a")), T.Fuzzy(W("a"), -1), T.Boost(W("a"), -2),
        T.NoneItem(), T.Group(T.NoneItem()), T.SearchField("TO", W("a")), T.Fuzzy(W("TO"), 1),
        T.To(T.Boost(W("a"), 2)), T.SearchField("a b", W("c")), T.BoolOperation(W("a"), W("b")),
    ]


# ------------------------------------------------------------------ oracle helpers

def node_facts(T, n):
    """everything of a node except head, tail and children"""
    k = type(n)
    f = [k.__name__, n.pos, n.size, len(n.children)]
    if isinstance(n, T.Term):
        f.append(n.value)
    if k is T.SearchField:
        f.append(n.name)
    if k is T.Range:
        f += [n.include_low, n.include_high]
    if isinstance(n, T.BaseApprox):
        f += [str(n.degree), n._implicit_degree]
    if k is T.Boost:
        f += [str(n.force), n.implicit_force]
    if k in (T.From, T.To):
        f.append(n.include)
    return f


def snapshot(T, t):
    return [(p, node_facts(T, n), n.head, n.tail, getattr(n, "_luqum_name", None)) for p, n in gentree.all_nodes(t)]


def only_fills_empty(T, before, after):
    """None, or the reason why `after` is not `before` with some empty heads/tails turned into one blank"""
    a, b = list(gentree.all_nodes(before)), list(gentree.all_nodes(after))
    if [p for p, _ in a] != [p for p, _ in b]:
        return "shape changed"
    for (p, x), (_, y) in zip(a, b):
        if node_facts(T, x) != node_facts(T, y):
            return "node %r changed: %r -> %r" % (p, node_facts(T, x), node_facts(T, y))
        for what, u, v in (("head", x.head, y.head), ("tail", x.tail, y.tail)):
            if not (v == u or (u == "" and v == " ")):
                return "%s of %r changed from %r to %r" % (what, p, u, v)
    # ... and only WHERE a separator is needed: the slots the rule designates (Python mirror of
    # AhtSlotProofs.head_needed_in / tail_needed_in, written on the classes of the INPUT)
    parent = {}
    for p, x in a:
        for i, _c in enumerate(x.children):
            parent[p + (i,)] = (x, i, len(x.children))
    for (p, x), (_, y) in zip(a, b):
        if p not in parent:
            need_h = need_t = False               # the root gets nothing
        else:
            par, i, n = parent[p]
            k = type(par)
            if k in (T.AndOperation, T.OrOperation, T.BoolOperation):
                need_h, need_t = (i > 0 or n == 1), (i < n - 1 or n == 1)
            elif k is T.UnknownOperation:
                need_h, need_t = False, i < n - 1
            elif k is T.Not:
                need_h, need_t = True, False
            elif k is T.Range:
                need_h, need_t = i == 1, i == 0
            else:
                need_h = need_t = False
        for what, u, v, need in (("head", x.head, y.head, need_h), ("tail", x.tail, y.tail, need_t)):
            if u == "" and v != "" and not need:
                return "a blank was put in the empty %s of %r (under %s) where no separator is needed" % (
                    what, p, type(parent[p][0]).__name__ if p in parent else "nothing: it is the root")
            if u == "" and v == "" and need:
                return "the empty %s of %r (under %s) needs a separator and got none" % (
                    what, p, type(parent[p][0]).__name__)
    return None


def ws_layout(t):
    """every head and tail is blank text (what the parser produces); pos/size are free"""
    return all((n.head == "" or n.head.isspace()) and (n.tail == "" or n.tail.isspace())
               for _, n in gentree.all_nodes(t))


# ------------------------------------------------------------------ in-place edits (histories, parsed trees)

def node_at(t, path):
    for i in path:
        t = t.children[i]
    return t


def apply_edit(T, root, edit):
    """edit = (path, op, index, node): in-place modification of the node at `path` (the root object is kept)"""
    path, op, i, new = edit
    n = node_at(root, path)
    cs = list(n.children)
    if op == "append":
        cs.append(new)
    elif op == "insert":
        cs.insert(i, new)
    elif op == "replace":
        cs[i] = new
    elif op == "remove":
        del cs[i]
    elif op == "wrap-not":
        cs[i] = T.Not(cs[i])
    elif op == "wrap-group":
        cs[i] = T.Group(cs[i])
    elif op == "wrap-and":
        cs[i] = T.Group(T.AndOperation(cs[i], new))
    else:
        raise AssertionError(op)
    n.children = cs       # generic setter: .expr / .a / .low,.high / .term / operands


def describe_edit(edit):
    path, op, i, new = edit
    return "%s at %r index %r%s" % (op, list(path), i, "" if new is None else " with " + gentree.describe(new)[:200])


def fresh_like(T, gg, r, old, parent):
    """a layout-free node that may stand where `old` stands under `parent` (a guess; the caller checks)"""
    k = type(parent)
    if k is T.Range:
        return gg.bound()
    if k in (T.From, T.To):
        return gg.pt()
    if k is T.Fuzzy:
        return gg.word(False)
    if k is T.Proximity:
        return gg.phrase()
    if k is T.Boost:
        return gg.boostable(1)
    if k in (T.Group, T.FieldGroup):
        return gg.expr(1)
    if k is T.SearchField:
        return T.FieldGroup(gg.expr(1)) if r.random() < 0.2 else gg.unary(1, r.choice(["word", "phrase", "range", "not"]))
    return gg.unary(1)


def random_edit(T, gg, r, root):
    """one random in-place edit somewhere in the tree (root included); None if the tree has no inner node"""
    inner = [(p, n) for p, n in gentree.all_nodes(root) if n.children]
    if not inner:
        return None
    path, n = r.choice(inner)
    nc = len(n.children)
    i = r.randrange(nc)
    if isinstance(n, T.BaseOperation):
        op = r.choice(["append", "append", "insert", "replace", "remove" if nc > 2 else "append", "wrap-not",
                       "wrap-group", "wrap-and"])
    else:
        op = r.choice(["replace", "replace", "replace", "wrap-group" if type(n) in (T.Plus, T.Not, T.Prohibit) else
                       "replace"])
    new = None
    if op in ("append", "insert", "replace", "wrap-and"):
        new = fresh_like(T, gg, r, n.children[i], n)
    return (path, op, i, new)


def edit_keeping_shape(T, gg, r, root, tries=8):
    """a random edit, preferring one after which the tree is still a shape the grammar can express (tested on
    a deep copy; after `tries` failures any edit is taken: those trees still feed the other oracles)"""
    edit = None
    for _ in range(tries):
        edit = random_edit(T, gg, r, root)
        if edit is None:
            return None
        trial = copy.deepcopy(root)
        try:
            apply_edit(T, trial, (edit[0], edit[1], edit[2], copy.deepcopy(edit[3])))
        except ValueError:
            continue
        if expressible(T, trial):
            return edit
    return edit


PARSED_QUERIES = ["a OR b", "a AND b", "a b", "a OR (b AND c)", "f:(a b)", "a AND NOT b", "f:[1 TO 5] g:{a TO b}",
                  "NOT a", "  a   AND\tb  ", "x:(+a -b) OR NOT (c AND d)", "[a TO b]", "(a OR b) AND c",
                  'foo:(a OR "b c") AND x~ AND y^1.50', "a OR b OR c", "+a -b c", "NOT (a b)", "f:[* TO 10}"]


def parsed_corpus(T, parser):
    """the hand edits of a parsed query that leave positioned composite nodes with children lacking layout"""
    W, P = T.Word, T.Phrase
    out = []

    def first_op(t):
        while not isinstance(t, T.BaseOperation):
            t = t.children[0]
        return t
    for q in ("a OR b", "a AND b", "a b", "f:(a b)", "a OR b OR c"):
        t = parser.parse(q)
        o = first_op(t)
        o.children = list(o.children) + [W("z")]
        out.append((t, "parsed %r + operand" % q))
        t = parser.parse(q)
        o = first_op(t)
        o.children = [T.Prohibit(W("y"))] + list(o.children)
        out.append((t, "parsed %r + first operand" % q))
    t = parser.parse("a AND NOT b")
    t.children[1].children = [P('"x y"')]
    out.append((t, "parsed NOT, operand replaced"))
    t = parser.parse("NOT b")
    t.children = [W("c")]
    out.append((t, "parsed NOT root, operand replaced"))
    t = parser.parse("f:[1 TO 5] g:{a TO b}")
    t.children[0].expr.children = [W("2"), W("*")]
    t.children[1].expr.children = [W("c", tail="  "), P('"d"')]
    out.append((t, "parsed ranges, bounds replaced"))
    t = parser.parse("[1 TO 5]")
    t.children = [W("2"), t.children[1]]
    out.append((t, "parsed range root, low replaced"))
    # control: hand-made parents around parsed sub-trees
    out.append((T.Group(T.OrOperation(parser.parse("a"), parser.parse('"b c"'), T.Not(parser.parse("d")))),
                "hand-made parents around parsed operands"))
    out.append((T.AndOperation(parser.parse("(a OR b)"), T.Not(parser.parse("c"))), "hand-made AND of parsed"))
    return out


def correspond(model_ok, res):
    import luqum.tree as T
    from luqum.parser import parser
    from luqum.auto_head_tail import auto_head_tail as aht     # the module-level instance, as users call it
    r = lib.rng("C13")
    quick = lib.tier() == "quick"
    n_rand, n_gram, n_hist, n_parsed = (240, 600, 160, 260) if quick else (2400, 6000, 1600, 2600)
    g_layout = gentree.Gen(r, T, layout=0.35, odd=0.2, positions=0.2)
    g_free = gentree.Gen(r, T, layout=0.0, odd=0.1)
    gg = GrammarGen(r, T)

    cases, payloads = [], []
    rt_cases, rt_payloads = [], []       # (input, implementation's round trip) for the proved guard rt_ok2
    rt_feat = []                         # (has a Range node, has a signed operand in juxtaposition) per rt case
    seen = set()
    dist = {"kind": {}, "aht_raises": 0, "expressible_layout_free": 0, "expressible_blank_layout": 0,
            "roundtrip_holds": 0, "f4": 0, "f15": 0, "unmodelled": 0, "filled_somewhere": 0,
            "history_steps": 0, "positioned_parent_of_bare_child": 0, "rt_ok_cases": 0, "rt_ok2_cases": 0,
            "rt_ok2_only_cases": 0, "rt_ok2_only_with_range": 0, "rt_ok2_only_with_signed_juxtaposition": 0}

    def call(tree):
        """ONE call of auto_head_tail and nothing else that could touch the transformer: the input is serialised
        and deep-copied before, the argument snapshotted before and after.  Judged later by `judge`."""
        rec = {"desc": gentree.describe(tree)[:1500]}
        try:
            rec["before"] = lib.g_item(tree)
        except lib.Unmodelled:
            rec["before"] = None
        rec["snap"] = snapshot(T, tree)
        rec["keep"] = copy.deepcopy(tree)
        rec["out"], rec["err"] = None, None
        if len(rec["desc"]) % 29 == 3:
            # a call that cannot complete (a tree deeper than the recursion limit) on the module-level instance,
            # right before this one: nothing of it may be seen by the calls that follow
            gentree.aborted_call(aht, T)
        try:
            rec["out"] = aht(tree)
        except IndexError:
            rec["err"] = "IndexError"
        except Exception as e:     # any other exception is outside the model
            rec["err"] = repr(e)
        rec["snap_after"] = snapshot(T, tree)
        return rec

    def judge(rec, kind, extra):
        """model case + the oracle on one recorded call (may call auto_head_tail freely)"""
        keep, out = rec["keep"], rec["out"]
        pay = dict(extra, tree=rec["desc"], kind=kind, gallina=(rec["before"] or "")[:4000])
        if rec["before"] is None:
            dist["unmodelled"] += 1
            return
        dist["kind"][kind] = dist["kind"].get(kind, 0) + 1
        if rec["err"] not in (None, "IndexError"):
            res.failures.append((dict(pay, why="auto_head_tail raised %s" % rec["err"]), None))
            return
        if rec["snap_after"] != rec["snap"]:
            res.failures.append((dict(pay, why="the argument was modified"), None))
        exp = expressible(T, keep)
        exp_free = exp and layout_free(keep)
        exp_ws = exp and ws_layout(keep)
        f4, f15 = f4_pattern(T, keep), f15_pattern(T, aht, keep)
        if any(n.pos is not None and n.children and any(c.head == "" and c.tail == "" for c in n.children)
               for _, n in gentree.all_nodes(keep)):
            dist["positioned_parent_of_bare_child"] += 1
        rt = None
        if out is None:
            dist["aht_raises"] += 1
            # "equal to the input" presupposes a result; the theorems state the guard: an AND/OR/Bool operation
            # without operand.  An expressible tree never raises.
            if exp:
                res.failures.append((dict(pay, why="auto_head_tail raised IndexError on an expressible tree"), None))
            expected = "None"
        else:
            if not (out == keep):
                res.failures.append((dict(pay, why="result != input: result is %s" % gentree.describe(out)[:600]),
                                     None))
            why = only_fills_empty(T, keep, out)
            if why:
                res.failures.append((dict(pay, why=why), None))
            elif snapshot(T, out) != [(p, f, h, tl, None) for p, f, h, tl, _ in rec["snap"]]:
                dist["filled_somewhere"] += 1
            try:
                again = aht(out)
                if snapshot(T, again) != snapshot(T, out):
                    res.failures.append((dict(pay, why="not idempotent"), None))
            except Exception as e:
                res.failures.append((dict(pay, why="second application raised %r" % (e,)), None))
            s = str(out)
            try:
                back = parser.parse(s)
                rt = bool(back == keep)
                rt_why = "parses to %s" % gentree.describe(back)[:600]
            except Exception as e:
                rt, rt_why = False, "parser raised %r" % (e,)
            if exp_ws:
                # layout-free trees, and trees with partial layout whose heads/tails are blank text (parsed
                # queries edited by hand): the printed result must parse back to the input
                dist["expressible_layout_free" if exp_free else "expressible_blank_layout"] += 1
                if rt:
                    dist["roundtrip_holds"] += 1
                else:
                    fid = "F4" if f4 else "F15" if f15 else None
                    key = "f4" if f4 else "f15" if f15 else "unclassified"
                    dist[key] = dist.get(key, 0) + 1
                    res.failures.append((dict(pay, why="round trip fails: %r %s" % (s, rt_why)), fid))
            try:
                expected = "(Some %s)" % lib.g_item(out)
            except lib.Unmodelled:
                dist["unmodelled"] += 1
                return
        cases.append("(%s, %s, (%s, %s, %s), %s)" % (
            rec["before"], expected, lib.g_bool(exp_free), lib.g_bool(f4), lib.g_bool(f15),
            "None" if rt is None else "(Some %s)" % lib.g_bool(rt)))
        payloads.append(pay)
        if rt is not None:
            rt_cases.append("(%s, %s)" % (rec["before"], lib.g_bool(rt)))
            rt_payloads.append(dict(pay, why="inside the proved guard rt_ok2 (C13x_round_trip_partial) but the "
                                             "implementation's round trip fails: %r %s" % (s, rt_why)))
            rt_feat.append((any(type(n) is T.Range for _, n in gentree.all_nodes(keep)),
                            any(type(n) is T.UnknownOperation and
                                any(leftmost(T, b) in ("PLUS", "MINUS", "TO") for b in n.children[1:])
                                for _, n in gentree.all_nodes(keep))))
        if rec["desc"] not in seen and gentree.count_nodes(keep) > 1:
            seen.add(rec["desc"])

    # ---- 1. single calls on fresh trees
    trees = [(t, "corpus") for t in corpus(T)]
    trees += [(g_layout.tree(r.randrange(0, 5)), "partial-layout") for _ in range(n_rand)]
    trees += [(g_free.tree(r.randrange(0, 4)), "layout-free-any-shape") for _ in range(n_rand // 2)]
    trees += [(gg.expr(r.randrange(0, 4)), "grammar-shaped") for _ in range(n_gram)]
    for tree, kind in trees:
        judge(call(tree), kind, {})

    # ---- 2. parsed queries edited by hand: positioned nodes with layout around nodes without
    def parsed_tree():
        """a parsed query (None if the text is not accepted): the printed form of a grammar-shaped tree, or a
        fixed query, sometimes with wider blanks"""
        if r.random() < 0.3:
            s = r.choice(PARSED_QUERIES)
        else:
            try:
                s = str(aht(gg.expr(r.randrange(1, 4))))
            except Exception:
                return None, None
        if r.random() < 0.4:
            s = "".join(r.choice([" ", "  ", "\t", " \n"]) if c == " " else c for c in s)
        try:
            return parser.parse(s), s
        except Exception:
            return None, s

    for tree, label in parsed_corpus(T, parser):
        judge(call(tree), "parsed-edited-corpus", {"built": label})
    made = 0
    while made < n_parsed:
        tree, src = parsed_tree()
        if tree is None:
            continue
        made += 1
        edits = []
        for _ in range(r.choice([1, 1, 2, 3])):
            e = edit_keeping_shape(T, gg, r, tree)
            if e is None:
                break
            try:
                apply_edit(T, tree, e)
            except ValueError:
                continue
            edits.append(describe_edit(e))
        if r.random() < 0.2:      # hand-made parents around the (edited) parsed tree
            tree = r.choice([lambda x: T.Group(x), lambda x: T.Not(T.Group(x)),
                             lambda x: T.OrOperation(T.Group(x), gg.unary(1)),
                             lambda x: T.UnknownOperation(gg.word(), T.Group(x))])(tree)
            edits.append("wrapped in hand-made parents")
        judge(call(tree), "parsed-edited", {"parsed_from": src, "edits": edits})

    # ---- 3. call histories on ONE root object edited in place between consecutive calls
    def history_start():
        x = r.random()
        if x < 0.4:
            return gg.expr(r.randrange(1, 4)), "grammar-shaped"
        if x < 0.6:
            return g_layout.tree(r.randrange(1, 4)), "partial-layout"
        if x < 0.8:
            t, _ = parsed_tree()
            return (t, "parsed") if t is not None else (gg.expr(2), "grammar-shaped")
        try:
            return aht(gg.expr(r.randrange(1, 4))), "result-of-auto_head_tail"
        except Exception:
            return gg.expr(2), "grammar-shaped"

    fixed_histories = []
    for mk in (lambda: T.OrOperation(T.Word("foo"), T.Word("bar")),
               lambda: T.Group(T.AndOperation(T.Word("a"), T.Word("b"))),
               lambda: T.Not(T.Word("a")), lambda: T.Range(T.Word("a"), T.Word("b")),
               lambda: aht(T.OrOperation(T.Word("foo"), T.Word("bar")))):
        fixed_histories.append(mk())
    for hi in range(n_hist + len(fixed_histories)):
        if hi < len(fixed_histories):
            root, origin = fixed_histories[hi], "fixed"
        else:
            root, origin = history_start()
        steps = r.choice([2, 2, 3])
        recs, log = [], ["start (%s): %s" % (origin, gentree.describe(root)[:600])]
        for si in range(steps):
            if si:
                if hi < len(fixed_histories) and isinstance(node_at(root, ()), T.BaseOperation):
                    e = ((), "append", 0, T.Not(T.Word("baz")))
                else:
                    e = edit_keeping_shape(T, gg, r, root)
                if e is not None:
                    try:
                        apply_edit(T, root, e)
                        log.append("edit in place: " + describe_edit(e))
                    except ValueError:
                        log.append("edit refused by the children setter")
                else:
                    log.append("no edit (leaf)")
            # consecutive calls on the same root object: nothing else runs between them
            recs.append((call(root), list(log)))
            log.append("call %d of auto_head_tail(root)" % (si + 1))
        for si, (rec, lg) in enumerate(recs):
            dist["history_steps"] += 1
            judge(rec, "history-step-%d" % (si + 1), {"history": lg})

    res.cases = len(cases)
    res.nontrivial = len(seen)
    res.rule = ("fixed corpus (degenerate operations, partial layout, F4/F15 witnesses, inexpressible shapes) + "
                "random trees of every class with partial layout + layout-free random trees + layout-free trees "
                "derived from the grammar with nasty lexemes + parsed queries edited by hand (operands appended / "
                "replaced by layout-free nodes, hand-made parents) + histories of 2-3 consecutive calls on one root "
                "edited in place between the calls; non-trivial = distinct tree with more than one node")
    res.samples = [p["tree"] for p in payloads[10:18]]
    res.distribution = dist
    if not model_ok:
        res.model_error = "model did not build"
        return res
    defs = (
        "Definition chk (c : item * option item * (bool * bool * bool) * option bool) : bool :=\n"
        "  let '(t, out, (ex, f4, f15), rt) := c in\n"
        "  (match aht t, out with\n"
        "   | None, None => true\n"
        "   | Some a, Some b => item_beq a b\n"
        "   | _, _ => false end)\n"
        "  && Bool.eqb (layout_freeb t && expressibleb t) ex\n"
        "  && Bool.eqb (f4_patternb t) f4 && Bool.eqb (f15_patternb t) f15\n"
        "  && match rt with None => true | Some b => Bool.eqb (roundtripb t) b end.")
    # canary: corrupt the expected output of one case that has an output (flip a class)
    ci = next(i for i, c in enumerate(cases) if ", (Some (Op KAnd " in c)
    canary = cases[ci].replace(", (Some (Op KAnd ", ", (Some (Op KOr ", 1)
    allc = cases + [canary]
    try:
        bad = lib.eval_cases("C13", "Base Decimal Tree TreeEq AutoHeadTail", defs, allc, "chk", shard=40)
    except Exception as e:
        res.model_error = str(e)
        return res
    if len(cases) not in bad:
        res.model_error = "canary not detected: the comparison is vacuous"
    for i in bad:
        if i < len(cases):
            res.disagreements.append(payloads[i])

    # ---- the proved round trip: inside the guard rt_ok2 (evaluated on the model) the implementation round-trips
    inside = T.AndOperation(T.Word("a"), T.Group(T.OrOperation(T.Word("b"), T.Phrase('"c d"'))))
    # inside rt_ok2 only: ranges with every bound form, signed operands in juxtaposition (not F4)
    inside2 = T.UnknownOperation(
        T.SearchField("f", T.Boost(T.Range(T.Prohibit(T.Word("1")), T.Phrase('"b c"'), False, True), 2)),
        T.Prohibit(T.Range(T.Word("*"), T.Prohibit(T.Word("5")))), T.Plus(T.Word("x")), T.Word("TO"))
    g_inside, g_inside2 = lib.g_item(inside), lib.g_item(inside2)
    mods_rt = "Base Decimal Tree TreeEq AutoHeadTail AhtRoundTrip AhtRoundTripMore"
    defs_rt = ("Definition chk_rt (c : item * bool) : bool := let '(t, b) := c in negb (rt_ok2 t) || b.\n"
               "Definition chk_out2 (c : item * bool) : bool := let '(t, _) := c in negb (rt_ok2 t).\n"
               "Definition chk_out (c : item * bool) : bool := let '(t, _) := c in negb (rt_ok t).")
    n_rt = len(rt_cases)
    try:
        # canaries 1, 2: an in-guard tree recorded as NOT round-tripping must be reported (old guard / new part)
        bad_rt = lib.eval_cases("C13", mods_rt, defs_rt,
                                rt_cases + ["(%s, false)" % g_inside, "(%s, false)" % g_inside2], "chk_rt", shard=120)
        # which cases are inside the guards (canaries 3, 4: the in-guard trees must be counted; canary 5: the
        # tree with ranges and signed operands must NOT be counted as inside the old guard)
        in_rt2 = lib.eval_cases("C13", mods_rt, defs_rt,
                                rt_cases + ["(%s, true)" % g_inside, "(%s, true)" % g_inside2], "chk_out2", shard=120)
        in_rt = lib.eval_cases("C13", mods_rt, defs_rt,
                               rt_cases + ["(%s, true)" % g_inside, "(%s, true)" % g_inside2], "chk_out", shard=120)
    except Exception as e:
        res.model_error = str(e)
        return res
    if n_rt not in bad_rt or n_rt + 1 not in bad_rt or n_rt not in in_rt2 or n_rt + 1 not in in_rt2 \
            or n_rt not in in_rt or n_rt + 1 in in_rt:
        res.model_error = "canary not detected: the rt_ok2 comparison is vacuous"
    old_in = set(i for i in in_rt if i < n_rt)
    new_in = set(i for i in in_rt2 if i < n_rt)
    dist["rt_ok_cases"] = len(old_in)
    dist["rt_ok2_cases"] = len(new_in)
    only = sorted(new_in - old_in)
    dist["rt_ok2_only_cases"] = len(only)
    dist["rt_ok2_only_with_range"] = len([i for i in only if rt_feat[i][0]])
    dist["rt_ok2_only_with_signed_juxtaposition"] = len([i for i in only if rt_feat[i][1]])
    if dist["rt_ok_cases"] < 20:
        res.model_error = "only %d generated trees are inside the guard rt_ok" % dist["rt_ok_cases"]
    if dist["rt_ok2_only_with_range"] < 10 or dist["rt_ok2_only_with_signed_juxtaposition"] < 5:
        res.model_error = ("the new part of the guard rt_ok2 is hardly exercised: %d generated trees with a range, %d "
                           "with a signed operand in juxtaposition" %
                           (dist["rt_ok2_only_with_range"], dist["rt_ok2_only_with_signed_juxtaposition"]))
    for i in sorted(old_in - new_in):      # theorem C13x_subsumes_C13r, case by case
        res.disagreements.append(dict(rt_payloads[i], why="inside rt_ok but outside rt_ok2 (C13x_subsumes_C13r)"))
    for i in bad_rt:
        if i < n_rt:
            res.failures.append((rt_payloads[i], None))
    return res


SPEC = {
    "id": "C13",
    "targets": ["props/C13.vo"],
    "model_targets": ["model/AutoHeadTail.vo", "model/TreeEq.vo", "model/AhtRoundTrip.vo", "model/AhtRoundTripMore.vo"],
    "module": "C13",
    "theorems": ["C13_fails_exactly", "C13_equal_to_input", "C13_only_fills_empty", "C13_fills_where_needed",
                 "C13_idempotent",
                 "C13_roundtrip_refuted", "C13_roundtrip_noF4_refuted", "C13_roundtrip_partial"],
    # the round trip for every image of the grammar, any depth (guard model/AhtRoundTrip.v rt_ok;
    # proofs/AhtRoundTripProofs.v; concluded with C03c_grammar_trees)
    "more": [{"module": "C13r", "target": "props/C13r.vo",
              "theorems": ["C13_round_trip_partial", "C13_round_trip_tokens", "C13r_expressible_guard_refuted",
                           "C13r_numeral_guard"]},
             # the same for the wider guard model/AhtRoundTripMore.v rt_ok2 (+ bracketed ranges, + signed operands in
             # juxtaposition outside F4; proofs/AhtRoundTripMoreProofs.v; concluded with C03d_grammar_trees_parse)
             {"module": "C13x", "target": "props/C13x.vo",
              "theorems": ["C13x_round_trip_partial", "C13x_round_trip_tokens", "C13x_subsumes_C13r",
                           "C13x_implies_C13r", "C13x_guard_excludes_f4"]}],
    "correspond": correspond,
    "statement": "auto_head_tail raises exactly on an AND/OR/Bool operation without operand (C13_fails_exactly); "
                 "otherwise its result equals the input (C13_equal_to_input, under the constructor invariant "
                 "`all_nodes eq_stable t`: an implicit degree / force has its default value; needed: Example "
                 "C13_equal_needs_constructor_invariant, f = Fuzzy(Word('a')); f.degree = Decimal(2), replayed), only "
                 "empty heads/tails became one blank and nothing else changed (C13_only_fills_empty, under "
                 "`well_formed t` = all_nodes wf_node, the full constructor invariant, which implies eq_stable; needed: Example "
                 "C13_only_fills_needs_constructor_invariant, same value), and the blanks go exactly where a separator "
                 "is needed (C13_fills_where_needed, NO guard: at every position of the input, the head / tail is a "
                 "blank iff it was empty and the slot is designated, and is unchanged otherwise; designated = head of "
                 "every operand but the first and tail of every operand but the last of an AND/OR/Bool operation "
                 "(both for a single operand), tail of every operand but the last of an implicit operation, head of "
                 "the operand of NOT, tail of the low and head of the high bound of a range; NOT designated: the "
                 "root, inside a group's parentheses, after `field:`, before `~`/`^`, after `+` `-` `<` `>`, next to "
                 "range brackets), it is idempotent (C13_idempotent) and leaves its "
                 "argument untouched (snapshot, implementation only); for layout-free trees the grammar can express "
                 "the printed result parses back to the input: refuted (C13_roundtrip_refuted: F4; "
                 "C13_roundtrip_noF4_refuted: F15), proved in C13.v for flat AND/OR of plain words "
                 "(C13_roundtrip_partial); PROVED (C13x.v, C13x_round_trip_partial, which "
                 "subsumes C13r.v's C13_round_trip_partial: C13x_subsumes_C13r) for "
                 "every tree inside the executable guard rt_ok2, any depth and width: operations with >= 2 operands "
                 "nested as the parser nests them (an operation directly under a same-or-higher-precedence operation, "
                 "NOT, +, -, a field or ^ is wrapped in a Group; a FieldGroup exactly under a field), words / phrases / "
                 "regexes / field names that are single lexemes (words not AND/OR/NOT), ~ on a word or phrase, ^ on "
                 "what BOOST takes as a whole, degrees that print as [0-9.] numerals reading back to the same number, "
                 "bracketed ranges (either bracket kind on either side) whose bounds are a single-lexeme word that is "
                 "not reserved (numbers and `*` included; not TO), a single-lexeme phrase, or Prohibit of one of "
                 "these (`[-1 TO 5]`; Word('-1') is no TERM lexeme and parses back as Prohibit(Word('1'))), "
                 "in an implicit operation no operand starting with + - TO directly after an AND/OR operation (exactly "
                 "not-F4, node by node: `a +b`, `-a -b TO`, `a -b OR c` are inside; C13x_guard_excludes_f4), no "
                 "lexeme fusion at `<`/`>` or at a field's colon (contains not-F15; `year:2020` is inside); each guard "
                 "component has a computed witness replayed on the implementation (re-association without the Group is "
                 "not a luqum defect). Validated by correspondence only: BoolOperation, degrees that are not canonical "
                 "numerals (Decimal('1.0')), trees with partial layout",
    "trusted_base": [
        "Coq 8.16.1 kernel (vm_compute used for table facts, witnesses and correspondence; no native_compute)",
        "no axioms (Print Assumptions: closed under the global context)",
        "gen/translate.py: class MROs, _equality_attrs, AutoHeadTail method table, operator strings, LR tables, "
        "lexer character classes",
        "hand-written models coq/model/AutoHeadTail.v (transformer), Eq.v (clone_item, __eq__), Print.v, "
        "Lexer.v/LR.v/Actions.v/Parser.v (parser), tied by differential correspondence on every run",
        "value-based tree model: a Python object shared between two positions is not modelled",
        "the round trip clause outside the guard rt_ok2 (C13x.v) is validated by correspondence only; inside it the "
        "theorem stands on C03d_grammar_trees_parse (LR driver on the generated tables) and on the lexer model",
        "executable guards coq/model/AhtRoundTripMore.v rt_ok2 and coq/model/AhtRoundTrip.v rt_ok, evaluated on the "
        "model for every generated tree and compared with the implementation's round trip",
    ],
    "assumptions": ["trees contain only luqum.tree classes with attributes as the constructors leave them "
                    "(wf_node: implicit degree/force at its default, force normalised)",
                    "a tree on which auto_head_tail raises (an AND/OR/Bool operation without operand) has no result"],
}
