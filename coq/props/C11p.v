(* C11p — automatic head/tail on a parsed query: THE END-TO-END THEOREM under C01's guard.
   Only statements, `exact`-closed theorems (short glue), non-vacuity examples and Print Assumptions.
   Lemmas: proofs/TokenLayoutProofs.v (token-granular lossless theorem + "filling blanks is a re-spacing"), on
   top of proofs/RespaceProofs.v (L-respace), proofs/AutoHeadTailProofs.v (`daht_fills`: auto_head_tail only
   changes empty heads / tails into one blank) and proofs/LayoutProofs.v.

   Clauses of the property text (C11, transformer = auto_head_tail)      statements here
     "printing the result and parsing it again gives a tree with the     C11_aht_partial_statement   PROVED for every
      same boolean meaning ... as the transformed tree"                    parsed query without ghost event (C01's
                                                                           guard; the witness of C11.C11_aht_refuted,
                                                                           `-xT12 :30`, has one: F1)
   What it stands on
     C01_token_layout_statement   PROVED for ANY LR tables: a parse without ghost event returns a tree whose layout
                                  (`vt`: leading blank, then (lexeme, separator) pairs, mirroring Print.print) is,
                                  token by token, the layout of the query's tokens — the token-granular form of C01
     C11_fills_partial_statement  PROVED: ANY tree obtained from the parsed one by setting some empty heads / tails to
                                  one blank (AutoHeadTailProofs.fills) prints to a text that lexes to the query's
                                  tokens, is accepted, and parses to a tree equal up to layout *)
Require Import Base Decimal Tree TreeEq GenTree Eq EqSpec Print TreeInd GenParser Lexer Actions LR Parser Erase Respace.
Require Import Traverse Resolver OpenRange AutoHeadTail Meaning.
Require Import EqProofs ActionProofs LRProofs LayoutProofs TraverseProofs AutoHeadTailProofs PrettyProofs MeaningProofs.
Require Import RespaceProofs RespaceParse BridgeProofs TokenLayoutProofs.
Require Import C01 C11.

(* ---- the token-granular lossless theorem, any tables *)
Definition C01_token_layout_statement : Prop :=
  forall tb s t evs, parse_with tb s = Done (Ok t) evs -> all_trivial evs -> snd (lex s) = None ->
    fst (lex s) <> [] /\
    vt t = (fhead (fst (lex s)), map (fun k => (tk_lexeme k, tk_tail k)) (fst (lex s))).
Theorem C01_token_layout : C01_token_layout_statement.
Proof. exact parse_with_layout. Qed.

(* `vt` is the printed form, cut into lexemes and separators *)
Definition C01_layout_spells_statement : Prop := forall t, flat (vt t) = print true t.
Theorem C01_layout_spells : C01_layout_spells_statement.
Proof. exact flat_vt. Qed.

(* ---- filling empty heads / tails of a parsed tree is a re-spacing of the query *)
Definition C11_fills_partial_statement : Prop :=
  forall s t x, parse s = Some (Ok t) -> no_event s -> fills t x ->
    same_tokens (print true x) s /\
    exists t2, parse (print true x) = Some (Ok t2) /\ Erase.erase t2 = Erase.erase t.
Theorem C11_fills_partial : C11_fills_partial_statement.
Proof.
  intros s t x Hp Hne Hf. destruct (fills_same_tokens s t x Hp Hne Hf) as [H1 H2].
  destruct (parse_ok_lexes s t Hp) as [He _].
  assert (Hs : same_tokens (print true x) s).
  { split; [symmetry; exact H1|]. split; intros _; assumption. }
  split; [exact Hs|]. destruct Hs as [Hk Hn].
  pose proof (parse_layout_independent gen_tables s (print true x) Hk Hn) as H.
  unfold parse, parse_full in *. destruct (parse_with gen_tables s) as [r1 e1|]; [|discriminate].
  destruct (parse_with gen_tables (print true x)) as [r2 e2|]; [|contradiction]. simpl in H.
  inversion Hp; subst. destruct r2 as [t2|[m|m|n]]; simpl in H; try discriminate.
  exists t2. split; [reflexivity|]. injection H as Her. symmetry. exact Her.
Qed.

(* ---- C11 for auto_head_tail, under C01's guard *)
Definition C11_aht_partial_statement : Prop :=
  forall s t t', parse s = Some (Ok t) -> no_event s -> aht t = Some t' -> reprints_same_meaning t'.
Theorem C11_aht_partial : C11_aht_partial_statement.
Proof.
  intros s t t' Hp Hne Ha. apply (C11_aht_modulo_lexing s t t' Hp Ha).
  destruct (aht_some t t' Ha) as [_ ->].
  exact (proj1 (C11_fills_partial s t (daht t) Hp Hne (daht_fills t (parse_wf s t Hp)))).
Qed.

(* ---- non-vacuity *)
(* "(a)AND(b OR c)~-less": `(a)AND(b OR f:c)^2 -d` has no event, auto_head_tail really adds blanks (around AND and
   before the prohibited word), and the theorem applies *)
Definition ex_tight2 : str := [40;97;41;65;78;68;40;98;32;79;82;32;102;58;99;41;94;50;32;45;100]%N.
Example C11p_aht_nonvacuous :
  no_event ex_tight2 /\
  exists t t', parse ex_tight2 = Some (Ok t) /\ aht t = Some t' /\
               print true t' = [40;97;41;32;65;78;68;32;40;98;32;79;82;32;102;58;99;41;94;50;32;45;100]%N /\
               print true t' <> ex_tight2 /\ reprints_same_meaning t'.
Proof.
  assert (Hne : no_event ex_tight2) by (vm_compute; reflexivity).
  split; [exact Hne|]. eexists. eexists.
  split; [vm_compute; reflexivity|]. split; [vm_compute; reflexivity|].
  split; [vm_compute; reflexivity|]. split; [vm_compute; discriminate|].
  eapply (C11_aht_partial ex_tight2); [vm_compute; reflexivity|exact Hne|vm_compute; reflexivity].
Qed.
(* the layout of its tree is the layout of its tokens *)
Example C11p_layout_example :
  match parse ex_tight2 with
  | Some (Ok t) => vt t
  | _ => lempty
  end = ([], [([40], []); ([97], []); ([41], []); ([65;78;68], []); ([40], []); ([98], [32]); ([79;82], [32]);
              ([102], []); ([58], []); ([99], []); ([41], []); ([94;50], [32]); ([45], []); ([100], [])])%N.
Proof. vm_compute. reflexivity. Qed.
(* the guard excludes the witness of C11.C11_aht_refuted *)
Example C11p_guard_excludes_witness : ~ no_event f1_query.
Proof. intros H. vm_compute in H. discriminate. Qed.

Print Assumptions C01_token_layout.
Print Assumptions C01_layout_spells.
Print Assumptions C11_fills_partial.
Print Assumptions C11_aht_partial.
Print Assumptions C11p_aht_nonvacuous.
