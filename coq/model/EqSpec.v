(* EqSpec.v — specification vocabulary of property C09 (hand-written, independent of the generated
   `_equality_attrs` tables and of Eq.v's generic algorithm).  Executable definitions only.

   fingerprint : the "meaning-bearing content" of a tree, one clause per class, written by hand:
                 class tag, term value, field name, inclusiveness booleans, numeric degree / force
                 (the canonical decimal `dec_canon`, Z for Proximity), ordered child fingerprints.
                 No meta (pos, size, head, tail, name), no implicit flag.
   erase       : the same tree with every meta reset to meta0 and every implicit flag to false.
   reinit      : what the constructor stores for the node's own degree / force when it is handed what
                 clone_item hands it (None for an implicit value, the stored value otherwise).
   wf_node     : the invariant every luqum constructor establishes on the node's own attributes. *)
Require Import Base Decimal Tree Eq.

Inductive fp :=
| FTerm (k : termk) (v : str)
| FField (n : str) (e : fp)
| FGroup (k : groupk) (e : fp)
| FRange (il ih : bool) (lo hi : fp)
| FFuzzy (d : dec) (t : fp)            (* d canonical: numeric value *)
| FProximity (d : Z) (t : fp)
| FBoost (f : dec) (e : fp)            (* f canonical: numeric value *)
| FOp (k : opk) (ops : list fp)
| FUnary (k : unk) (a : fp)
| FORange (k : ork) (incl : bool) (a : fp)
| FNone.

Fixpoint fingerprint (t : item) : fp :=
  match t with
  | Term k _ v => FTerm k v
  | SearchField _ n e => FField n (fingerprint e)
  | Grp k _ e => FGroup k (fingerprint e)
  | Range _ lo hi il ih => FRange il ih (fingerprint lo) (fingerprint hi)
  | Fuzzy _ x d _ => FFuzzy (dec_canon d) (fingerprint x)
  | Proximity _ x d _ => FProximity d (fingerprint x)
  | Boost _ e f _ => FBoost (dec_canon f) (fingerprint e)
  | Op k _ ops => FOp k (map fingerprint ops)
  | Unary k _ a => FUnary k (fingerprint a)
  | ORange k _ a i => FORange k i (fingerprint a)
  | NoneItem _ => FNone
  end.

Fixpoint erase (t : item) : item :=
  match t with
  | Term k _ v => Term k meta0 v
  | SearchField _ n e => SearchField meta0 n (erase e)
  | Grp k _ e => Grp k meta0 (erase e)
  | Range _ lo hi il ih => Range meta0 (erase lo) (erase hi) il ih
  | Fuzzy _ x d _ => Fuzzy meta0 (erase x) d false
  | Proximity _ x d _ => Proximity meta0 (erase x) d false
  | Boost _ e f _ => Boost meta0 (erase e) f false
  | Op k _ ops => Op k meta0 (map erase ops)
  | Unary k _ a => Unary k meta0 (erase a)
  | ORange k _ a i => ORange k meta0 (erase a) i
  | NoneItem _ => NoneItem meta0
  end.

(* the "is the degree / force implicit" display flag, for the classes that have one *)
Definition implicit_of (t : item) : option bool :=
  match t with
  | Fuzzy _ _ _ i | Proximity _ _ _ i | Boost _ _ _ i => Some i
  | _ => None
  end.

(* pos, size, head, tail *)
Definition layout_of (t : item) : option Z * option Z * str * str :=
  (m_pos (meta_of t), m_size (meta_of t), m_head (meta_of t), m_tail (meta_of t)).

(* the node's own attributes after a trip through its constructor, as clone_item calls it:
   degree=None / force=None for an implicit value (the default is recomputed), the stored value
   otherwise (Boost normalises it again; Fuzzy keeps a Decimal as it is; Proximity: int(int)) *)
Definition reinit (x : item) : item :=
  match x with
  | Fuzzy m t _ true => Fuzzy m t dec_half true
  | Proximity m t _ true => Proximity m t 1%Z true
  | Boost m e _ true => Boost m e dec_one true
  | Boost m e f false => Boost m e (dec_normalize f) false
  | _ => x
  end.

(* the invariant the constructors establish: an implicit degree / force has its default value, an
   explicit Boost force is normalised (a fixpoint of dec_normalize).  It can only be broken by
   assigning the attribute after construction. *)
Definition wf_node (x : item) : Prop :=
  match x with
  | Fuzzy _ _ d true => d = dec_half
  | Proximity _ _ d true => d = 1%Z
  | Boost _ _ f true => f = dec_one
  | Boost _ _ f false => dec_normalize f = f
  | _ => True
  end.

(* the exact conditions under which the clone compares equal to / prints like the original *)
Definition implicit_is_default (x : item) : Prop :=
  match x with
  | Fuzzy _ _ d true => dec_canon d = dec_canon dec_half
  | Proximity _ _ d true => d = 1%Z
  | Boost _ _ f true => dec_canon f = dec_canon dec_one
  | _ => True
  end.

Definition force_prints_normalized (x : item) : Prop :=
  match x with
  | Boost _ _ f false => dec_to_fstr (dec_normalize f) = dec_to_fstr f
  | _ => True
  end.

(* P holds at every node of the tree *)
Inductive everywhere (P : item -> Prop) : item -> Prop :=
| everywhere_node : forall t, P t -> Forall (everywhere P) (children t) -> everywhere P t.

(* z is a deep clone of x: clone_item of the node, given deep clones of the children through the
   `children` setter (what a TreeTransformer's generic_visit does) *)
Inductive deep_clone : item -> item -> Prop :=
| deep_clone_node : forall x y cs,
    clone_item x = Some y -> Forall2 deep_clone (children x) cs -> deep_clone x (rebuild y cs).

(* wf_node as a boolean (EqProofs.wf_nodeb_spec), evaluated on real objects by the correspondence *)
Definition wf_nodeb (x : item) : bool :=
  match x with
  | Fuzzy _ _ d true => dec_struct_eqb d dec_half
  | Proximity _ _ d true => Z.eqb d 1
  | Boost _ _ f true => dec_struct_eqb f dec_one
  | Boost _ _ f false => dec_struct_eqb (dec_normalize f) f
  | _ => true
  end.
