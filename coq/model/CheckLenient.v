(* CheckLenient.v — a wider notion of "well-formed tree" for property C20.
   Executable definitions only (no proofs).

   `LuceneCheck.check_range` is not wrapped by @_check_children and yields nothing: the bounds of a
   two-sided Range are never inspected by the checker.  `Check.wellformed` is strict: it judges the
   bounds of a Range at the current zeal, so with zeal a date bound such as 2012-01-01 (it holds
   a `-`) is not strictly well-formed, although the checker accepts the range.

   `wellformed_lenient` is the same recursion as `Check.wellformed`, except in the Range case:
   the bounds are VALUES (dates, date math, paths, signed numbers), not terms of the query, and are
   judged with zeal 0 (so the zealous rules do not apply below a two-sided range).  It mirrors
   the Python oracle `wellformed(T, t, zeal, parent, lenient=True)` of harness/c20.py. *)
Require Import Base Decimal Tree GenTree GenVisitors GenCheck Visitor Check.

Section CheckLenient.
  Variable is_word_char : char -> bool.     (* re: \w on one character *)
  Variable is_space : char -> bool.         (* re: \s on one character *)

  Fixpoint wellformed_lenient (zeal : Z) (p : option cls) (t : item) : bool :=
    match t with
    | Term KWord _ v =>
        negb (has_space is_space v) && negb (zealous zeal && has_invalid_char v)
    | Term KPhrase _ _ | Term KRegex _ _ => true
    | SearchField _ n e =>
        valid_field_name is_word_char n && value_expr e &&
        wellformed_lenient zeal (Some CSearchField) e
    | Grp KGroup _ e =>
        negb (parent_is p CSearchField) && wellformed_lenient zeal (Some CGroup) e
    | Grp KFieldGroup _ e =>
        parent_is p CSearchField && wellformed_lenient zeal (Some CFieldGroup) e
    | Range _ lo hi _ _ =>
        (* the only difference with Check.wellformed: zeal 0 for the two bounds *)
        range_bound lo && range_bound hi &&
        wellformed_lenient 0 (Some CRange) lo && wellformed_lenient 0 (Some CRange) hi
    | Fuzzy _ x d _ => is_word x && wellformed_lenient zeal (Some CFuzzy) x && negb (dsign d)
    | Proximity _ x _ _ => is_phrase x && wellformed_lenient zeal (Some CProximity) x
    | Boost _ e _ _ => wellformed_lenient zeal (Some CBoost) e
    | Op k _ ops => forallb (wellformed_lenient zeal (Some (cls_of_opk k))) ops
    | Unary k _ a =>
        negb (zealous zeal && is_negation t && parent_is p COrOperation) &&
        wellformed_lenient zeal (Some (cls_of_unk k)) a
    | ORange k _ a _ => range_bound a && wellformed_lenient zeal (Some (cls_of_ork k)) a
    | NoneItem _ => false
    end.

End CheckLenient.
