(* Meaning.v — the boolean meaning of a query tree (specification vocabulary of property C11,
   hand-written; not a model of luqum code).  Executable definitions only.

   The meaning is read off the FINGERPRINT of the tree (EqSpec.fingerprint: class tags, term values,
   field names, inclusiveness flags, canonical numeric degrees / forces, ordered children — no
   layout, no name, no implicit flag), so that two trees with the same fingerprint — in particular
   two trees that are `==` for luqum, or equal up to layout — have the same meaning by definition.

   atoms     a leaf together with the context it is read in.  Leaves: Word / Phrase / Regex (value),
             Range (both bounds, both inclusiveness flags), From / To (bound, inclusiveness), Fuzzy and
             Proximity (the term and the degree), NoneItem.  Context: the chain of enclosing field
             names and boosts, outermost first (a boost changes scoring only: it is kept as part of
             the atoms below it, so that losing or moving one is seen).
   sem       And = all operands, Or = any operand, Unknown = And when the default operator is AND
             (dflt = true) and Or when it is OR, Not / Prohibit = complement, Plus / Group /
             FieldGroup transparent, SearchField and Boost extend the context, BoolOperation = the
             Lucene / Elasticsearch boolean query (`+x` must, `-x` must not, others should; with at
             least one should clause and no must clause one should clause has to match). *)
Require Import Base Decimal Tree TreeEq Eq EqSpec.

Inductive ctxel := CxField (n : str) | CxBoost (f : dec).
Definition atom := (list ctxel * fp)%type.

(* ---------------------------------------------------------------- the meaning *)

Definition is_plus (c : fp) : bool := match c with FUnary KPlus _ => true | _ => false end.
Definition is_prohibit (c : fp) : bool := match c with FUnary KProhibit _ => true | _ => false end.
Definition is_plain (c : fp) : bool := negb (is_plus c || is_prohibit c).

(* the boolean query reading, given the value of every clause read as an ordinary operand
   (so a must-not clause `-x` has value "not x") *)
Definition bool_reading (f : fp -> bool) (ops : list fp) : bool :=
  forallb (fun c => if is_plain c then true else f c) ops &&
  (if existsb is_plain ops && negb (existsb is_plus ops)
   then existsb (fun c => is_plain c && f c) ops else true).

Fixpoint fsem (d : bool) (v : atom -> bool) (cx : list ctxel) (t : fp) {struct t} : bool :=
  match t with
  | FField n e => fsem d v (cx ++ [CxField n]) e
  | FBoost f e => fsem d v (cx ++ [CxBoost f]) e
  | FGroup _ e => fsem d v cx e
  | FUnary KPlus a => fsem d v cx a
  | FUnary _ a => negb (fsem d v cx a)
  | FOp KAnd ops => forallb (fsem d v cx) ops
  | FOp KOr ops => existsb (fsem d v cx) ops
  | FOp KUnknown ops => if d then forallb (fsem d v cx) ops else existsb (fsem d v cx) ops
  | FOp KBool ops => bool_reading (fsem d v cx) ops
  | FTerm _ _ | FRange _ _ _ _ | FFuzzy _ _ | FProximity _ _ | FORange _ _ _ | FNone => v (cx, t)
  end.

(* dflt: the default operator is AND (true) / OR (false); v: which atoms a document satisfies *)
Definition sem (dflt : bool) (v : atom -> bool) (t : item) : bool := fsem dflt v [] (fingerprint t).

(* the atoms of a tree, in document order (with repetitions) *)
Fixpoint fatoms (cx : list ctxel) (t : fp) {struct t} : list atom :=
  match t with
  | FField n e => fatoms (cx ++ [CxField n]) e
  | FBoost f e => fatoms (cx ++ [CxBoost f]) e
  | FGroup _ e => fatoms cx e
  | FUnary _ a => fatoms cx a
  | FOp _ ops => flat_map (fatoms cx) ops
  | FTerm _ _ | FRange _ _ _ _ | FFuzzy _ _ | FProximity _ _ | FORange _ _ _ | FNone => [(cx, t)]
  end.
Definition atoms (t : item) : list atom := fatoms [] (fingerprint t).

(* ---------------------------------------------------------------- deciding "same meaning" *)

Fixpoint fp_eqb (a b : fp) {struct a} : bool :=
  match a, b with
  | FTerm k v, FTerm k' v' => termk_beq k k' && str_eqb v v'
  | FField n e, FField n' e' => str_eqb n n' && fp_eqb e e'
  | FGroup k e, FGroup k' e' => groupk_beq k k' && fp_eqb e e'
  | FRange il ih lo hi, FRange il' ih' lo' hi' =>
      Bool.eqb il il' && Bool.eqb ih ih' && fp_eqb lo lo' && fp_eqb hi hi'
  | FFuzzy d x, FFuzzy d' x' => dec_struct_eqb d d' && fp_eqb x x'
  | FProximity d x, FProximity d' x' => Z.eqb d d' && fp_eqb x x'
  | FBoost f e, FBoost f' e' => dec_struct_eqb f f' && fp_eqb e e'
  | FOp k ops, FOp k' ops' =>
      opk_beq k k' &&
      (fix go (l l' : list fp) : bool :=
         match l, l' with
         | [], [] => true
         | c :: r, c' :: r' => fp_eqb c c' && go r r'
         | _, _ => false
         end) ops ops'
  | FUnary k x, FUnary k' x' => unk_beq k k' && fp_eqb x x'
  | FORange k i x, FORange k' i' x' => ork_beq k k' && Bool.eqb i i' && fp_eqb x x'
  | FNone, FNone => true
  | _, _ => false
  end.

Definition ctxel_eqb (a b : ctxel) : bool :=
  match a, b with
  | CxField n, CxField n' => str_eqb n n'
  | CxBoost f, CxBoost f' => dec_struct_eqb f f'
  | _, _ => false
  end.

Definition atom_eqb (a b : atom) : bool := list_eqb ctxel_eqb (fst a) (fst b) && fp_eqb (snd a) (snd b).

Definition mem_atom (a : atom) (l : list atom) : bool := existsb (atom_eqb a) l.

(* the valuation "exactly the atoms of l are satisfied" *)
Definition val_of (l : list atom) : atom -> bool := fun a => mem_atom a l.

Fixpoint dedup (l : list atom) : list atom :=
  match l with
  | [] => []
  | a :: l' => if mem_atom a l' then dedup l' else a :: dedup l'
  end.

Fixpoint sublists (l : list atom) : list (list atom) :=
  match l with
  | [] => [[]]
  | a :: l' => let r := sublists l' in r ++ map (cons a) r
  end.

(* the truth tables of a and b agree, for both default operators, on every valuation of the atoms
   that occur in either (2^n rows: meant for small trees) *)
Definition meaning_eqb (a b : item) : bool :=
  forallb (fun l => Bool.eqb (sem true (val_of l) a) (sem true (val_of l) b) &&
                    Bool.eqb (sem false (val_of l) a) (sem false (val_of l) b))
          (sublists (dedup (atoms a ++ atoms b))).

(* ---------------------------------------------------------------- the executable statement of C11 *)
Require Import GenParser Lexer Print Actions LR Parser Traverse Resolver OpenRange AutoHeadTail.

(* the shipped transformers and their options, as data (add_head is an argument here; the property
   is stated for its default, one blank) *)
Inductive tname :=
| TCopy                                              (* visitor.TreeTransformer().visit *)
| TAht                                               (* auto_head_tail *)
| TResolve (tg : option opk) (ah : str)              (* UnknownOperationResolver(resolve_to, add_head) *)
| TOpenRange (mg : bool) (ah : str)                  (* OpenRangeTransformer(merge_ranges, add_head) *)
| TResolveOpen (tg : option opk) (mg : bool) (ah : str).   (* the documented composition *)

Definition then_ (f g : item -> option item) (t : item) : option item :=
  match f t with Some t1 => g t1 | None => None end.

Definition run_t (T : tname) : item -> option item :=
  match T with
  | TCopy => copy
  | TAht => aht
  | TResolve tg ah => resolve tg ah
  | TOpenRange mg ah => open_range mg ah
  | TResolveOpen tg mg ah => then_ (resolve tg ah) (open_range mg ah)
  end.

(* parser.parse(str(T(t))) compared with T(t) by truth table *)
Inductive verdict := VSame | VDiffer | VRejected | VRaised.
Definition verdict_eqb (a b : verdict) : bool :=
  match a, b with
  | VSame, VSame | VDiffer, VDiffer | VRejected, VRejected | VRaised, VRaised => true
  | _, _ => false
  end.

Definition c11_verdict (T : tname) (t : item) : verdict :=
  match run_t T t with
  | None => VRaised
  | Some t' =>
      match parse (print true t') with
      | Some (Ok t2) => if meaning_eqb t2 t' then VSame else VDiffer
      | _ => VRejected
      end
  end.
