(* Lrespace — the lexer theorem behind every "modulo lexing" clause (C11 copy/aht, C13 round trip, C18):
   RE-SPACING A QUERY THAT DOES NOT REMOVE A SEPARATOR PRESERVES ITS TOKEN SEQUENCE.
   This file holds only statements, `exact`-closed theorems (short glue), examples and
   Print Assumptions.  Definitions: model/Respace.v; lemmas: proofs/RespaceProofs.v; lexer: model/Lexer.v;
   layout independence of the LR driver: proofs/LayoutProofs.v.

   statements here
     L_respace_statement          proved in full (no guard was needed): if `lex s = (toks, None)`, toks <> [],
                                  and toks' has the same (type, lexeme) sequence, blank heads/tails, a head on
                                  the first token only, and a non-empty tail wherever the original has one
                                  between two tokens, then `lex (render toks')` has the same (type, lexeme)
                                  sequence and no lexical error
     L_respace_parse_statement    ... hence `render toks'` and `s` have the same parse outcome up to layout,
                                  for ANY tables
     L_respace_accept_statement   ... with the generated tables: an accepted query stays accepted and parses to a
                                  tree equal up to layout
     L_respace_glued_statement    chunked form: the tokens cut into groups, the chunks glued by non-empty blank
                                  separators (the shape of the pretty-printer's output); _accept: with parse
     L_respace_token_statement    the per-token lemma the proof stands on
     L_respace_no_sep_condition_statement   REFUTED: condition (b) (separators are kept) cannot be dropped:
                                  `xT12 :30` -> `xT12:30` (time rule) and `a b` -> `ab` *)
Require Import Base Decimal Tree GenTree GenParser Lexer Actions LR Parser Erase Respace.
Require Import LexerProofs LayoutProofs RespaceProofs RespaceParse.

(* ---- the hypotheses on the new token list *)
Definition respacing_of (toks toks' : list token) : Prop :=
  map tok_key toks' = map tok_key toks      (* same (type, lexeme) sequence *)
  /\ layout_ws toks' = true                  (* heads, tails are blank; (a) only the first token has a head *)
  /\ seps_kept toks toks' = true.            (* (b) a separator between two tokens is not removed *)

(* ---- main theorem *)
Definition L_respace_statement : Prop :=
  forall s toks toks', lex s = (toks, None) -> toks <> [] -> respacing_of toks toks' ->
    map tok_key (fst (lex (render toks'))) = map tok_key toks /\ snd (lex (render toks')) = None.
Theorem L_respace : L_respace_statement.
Proof. intros s toks toks' Hl Hne [Hk [Hw Hs]]. exact (L_respace_main s toks toks' Hl Hne Hk Hw Hs). Qed.

(* ---- corollary: same parse outcome up to layout, for any tables *)
Definition L_respace_parse_statement : Prop :=
  forall tb s toks toks', lex s = (toks, None) -> toks <> [] -> respacing_of toks toks' ->
    outcome_sim (parse_with tb s) (parse_with tb (render toks')).
Theorem L_respace_parse : L_respace_parse_statement.
Proof.
  intros tb s toks toks' Hl Hne Hr. destruct (L_respace s toks toks' Hl Hne Hr) as [Hk He].
  apply parse_layout_independent.
  - rewrite Hl. simpl. symmetry. exact Hk.
  - rewrite Hl. simpl. split; intros _; [exact He|reflexivity].
Qed.

(* ---- corollary with the generated tables: any re-spacing of an accepted query that does not remove a
   separator is accepted and parses to a tree equal up to layout (`parse s = Some (Ok t)` alone implies that
   s has no lexical error and at least one token: proofs/RespaceParse.v) *)
Definition L_respace_accept_statement : Prop :=
  forall s t toks', parse s = Some (Ok t) -> respacing_of (fst (lex s)) toks' ->
    exists t', parse (render toks') = Some (Ok t') /\ erase t' = erase t.
Theorem L_respace_accept : L_respace_accept_statement.
Proof.
  intros s t toks' Hp Hr. destruct (parse_ok_lexes s t Hp) as [He Hne].
  destruct (lex s) as [toks e] eqn:Hl. simpl in *. subst e.
  pose proof (L_respace_parse gen_tables s toks toks' Hl Hne Hr) as H.
  unfold parse, parse_full in *. destruct (parse_with gen_tables s) as [r1 e1|]; [|discriminate].
  destruct (parse_with gen_tables (render toks')) as [r2 e2|]; [|contradiction]. simpl in H.
  inversion Hp; subst. destruct r2 as [t2|[m|m|n]]; simpl in H; try discriminate.
  exists t2. split; [reflexivity|]. inversion H. reflexivity.
Qed.

(* ---- chunked form (the shape of a pretty-printer's output): the tokens of s are cut into non-empty
   consecutive groups; a chunk is the text a group covers in s without the tail of its last token
   (`group_text`); the chunks glued by non-empty blank separators (`wglued`), after a blank head, lex to
   the tokens of s *)
Definition L_respace_glued_statement : Prop :=
  forall s toks groups h p', lex s = (toks, None) -> toks <> [] ->
    toks = concat groups -> Forall (fun g => g <> []) groups ->
    all_space h = true -> wglued (map group_text groups) p' ->
    map tok_key (fst (lex (h ++ p'))) = map tok_key toks /\ snd (lex (h ++ p')) = None.
Theorem L_respace_glued : L_respace_glued_statement.
Proof. exact L_respace_glued_main. Qed.

Definition L_respace_glued_accept_statement : Prop :=
  forall s t groups h p', parse s = Some (Ok t) ->
    fst (lex s) = concat groups -> Forall (fun g => g <> []) groups ->
    all_space h = true -> wglued (map group_text groups) p' ->
    exists t', parse (h ++ p') = Some (Ok t') /\ erase t' = erase t.
Theorem L_respace_glued_accept : L_respace_glued_accept_statement.
Proof.
  intros s t groups h p' Hp Hcat Hg Hh Hgl. destruct (parse_ok_lexes s t Hp) as [He Hne].
  destruct (lex s) as [toks e] eqn:Hl. simpl in *. subst e.
  destruct (L_respace_glued s toks groups h p' Hl Hne Hcat Hg Hh Hgl) as [Hk Hn].
  assert (H : outcome_sim (parse_with gen_tables s) (parse_with gen_tables (h ++ p'))).
  { apply parse_layout_independent.
    - rewrite Hl. simpl. symmetry. exact Hk.
    - rewrite Hl. simpl. split; intros _; [exact Hn|reflexivity]. }
  unfold parse, parse_full in *. destruct (parse_with gen_tables s) as [r1 e1|]; [|discriminate].
  destruct (parse_with gen_tables (h ++ p')) as [r2 e2|]; [|contradiction]. simpl in H.
  inversion Hp; subst. destruct r2 as [t2|[m|m|n]]; simpl in H; try discriminate.
  exists t2. split; [reflexivity|]. inversion H. reflexivity.
Qed.

(* ---- the per-token lemma: the token (k, l) lexed at `l ++ r` after the reversed prefix rp is lexed at
   `l ++ r'` after rp' whenever (1) the non-blank prefix of r' is a prefix of r (`la`), (2) a backslash
   at the start of r begins an escape (true when the original lexes on: `lex_one_esc_ok`), and (3) if the
   token is lexed by the TERM rule, neither prefix ends in `T` or `T` + digit (`safe`: the look-behind
   (?<=T\d{2}) cannot reach outside the token) *)
Definition L_respace_token_statement : Prop :=
  forall rp rp' l r r' k,
    lex_one rp (l ++ r) = Some (RTok k, l, r) ->
    (lex_term rp (l ++ r) <> None -> safe rp /\ safe rp') ->
    la r r' = true -> esc_ok r = true ->
    lex_one rp' (l ++ r') = Some (RTok k, l, r').
Theorem L_respace_token : L_respace_token_statement.
Proof. exact lex_one_respace. Qed.

(* ---- condition (b) cannot be dropped *)
Definition L_respace_no_sep_condition_statement : Prop :=
  forall s toks toks', lex s = (toks, None) -> toks <> [] ->
    map tok_key toks' = map tok_key toks -> layout_ws toks' = true ->
    map tok_key (fst (lex (render toks'))) = map tok_key toks.

(* `xT12 :30` : TERM xT12, COLUMN, TERM 30;  without the blank: one time-like TERM `xT12:30` *)
Definition q_time : str := [120;84;49;50;32;58;51;48]%N.
Definition q_time_toks : list token := Eval vm_compute in fst (lex q_time).
Example q_time_lexes : lex q_time = (q_time_toks, None) /\
  map tok_key q_time_toks = [(T_TERM, [120;84;49;50]); (T_COLUMN, [58]); (T_TERM, [51;48])]%N.
Proof. vm_compute. auto. Qed.
Theorem L_respace_no_sep_condition_refuted : ~ L_respace_no_sep_condition_statement.
Proof.
  intros H. destruct q_time_lexes as [Hl _].
  specialize (H q_time q_time_toks (respace_with q_time_toks [] [[]; []; []]) Hl).
  assert (E : map tok_key (fst (lex (render (respace_with q_time_toks [] [[]; []; []])))) =
              map tok_key q_time_toks).
  { apply H; [discriminate|reflexivity|reflexivity]. }
  vm_compute in E. discriminate.
Qed.
Example q_time_fused :
  map tok_key (fst (lex (render (respace_with q_time_toks [] [[]; []; []])))) = [(T_TERM, [120;84;49;50;58;51;48])]%N
  /\ seps_kept q_time_toks (respace_with q_time_toks [] [[]; []; []]) = false.
Proof. vm_compute. auto. Qed.

(* ---- non-vacuity *)
(* the same query, blank kept (as newline + tab), blanks added everywhere else and at both ends:
   satisfies the hypotheses; the theorem gives the conclusion, which also computes *)
Definition q_time' : list token := respace_with q_time_toks [32;32]%N [[10;9]; [160]; [12288;32]]%N.
Example L_respace_ex_time :
  respacing_of q_time_toks q_time' /\
  render q_time' = [32;32; 120;84;49;50; 10;9; 58; 160; 51;48; 12288;32]%N /\
  map tok_key (fst (lex (render q_time'))) = map tok_key q_time_toks.
Proof.
  split; [repeat split; vm_compute; reflexivity|]. split; [vm_compute; reflexivity|].
  destruct q_time_lexes as [Hl _]. apply (L_respace q_time q_time_toks q_time' Hl); [discriminate|].
  repeat split; vm_compute; reflexivity.
Qed.

(* a query with every delicate rule: an escaped blank inside a TERM, APPROX, `>=`, a PHRASE with an escaped
   quote, a REGEX with an escaped slash, BOOST, a full time TERM followed by COLUMN and a digit, a
   reserved word:   a\ b~2 >=x PHRASE(x\dquote y) /r\/e/^1.5 T12:30:45:5 AND(y)   *)
Definition q_all : str :=
  [97;92;32;98;126;50;32;62;61;120;32;34;120;92;34;121;34;32;47;114;92;47;101;47;94;49;46;53;32;
   84;49;50;58;51;48;58;52;53;58;53;32;65;78;68;40;121;41]%N.
Definition q_all_toks : list token := Eval vm_compute in fst (lex q_all).
Example q_all_lexes : lex q_all = (q_all_toks, None) /\
  map (fun t => (tk_type t, tk_tail t)) q_all_toks =
    [(T_TERM, []); (T_APPROX, [32]); (T_GREATERTHAN, []); (T_TERM, [32]); (T_PHRASE, [32]); (T_REGEX, []);
     (T_BOOST, [32]); (T_TERM, []); (T_COLUMN, []); (T_TERM, [32]); (T_AND_OP, []); (T_LPAREN, []);
     (T_TERM, []); (T_RPAREN, [])]%N.
Proof. vm_compute. auto. Qed.
(* every adjacent pair pulled apart, every blank replaced by newline + blank *)
Definition q_all' : list token :=
  respace_with q_all_toks [] [[9]; [10;32]; [32]; [10;32]; [10;32]; [32]; [10;32]; [32]; [32]; [10;32]; [32]; [32]; [32]; []]%N.
Example L_respace_ex_all :
  respacing_of q_all_toks q_all' /\ map tok_key (fst (lex (render q_all'))) = map tok_key q_all_toks
  /\ snd (lex (render q_all')) = None.
Proof.
  assert (Hr : respacing_of q_all_toks q_all') by (repeat split; vm_compute; reflexivity).
  split; [exact Hr|]. destruct q_all_lexes as [Hl _].
  apply (L_respace q_all q_all_toks q_all' Hl); [discriminate|exact Hr].
Qed.
(* chunked form on q_all: groups of sizes 2,2,1,2,3,1,3; chunks glued by newline + blanks *)
Definition q_all_groups : list (list token) := cut [2;2;1;2;3;1;3] q_all_toks.
Definition q_all_glued : str := join [10;32;32]%N (map group_text q_all_groups).
Example L_respace_ex_glued :
  q_all_toks = concat q_all_groups /\ Forall (fun g => g <> []) q_all_groups /\
  wglued (map group_text q_all_groups) q_all_glued /\
  map tok_key (fst (lex ([32] ++ q_all_glued)%N)) = map tok_key q_all_toks.
Proof.
  assert (H1 : q_all_toks = concat q_all_groups) by reflexivity.
  assert (H2 : Forall (fun g => g <> []) q_all_groups) by (repeat constructor; discriminate).
  assert (H3 : wglued (map group_text q_all_groups) q_all_glued).
  { apply wglued_join; [discriminate|reflexivity|discriminate]. }
  split; [exact H1|]. split; [exact H2|]. split; [exact H3|].
  destruct q_all_lexes as [Hl _].
  apply (L_respace_glued q_all q_all_toks q_all_groups [32]%N q_all_glued Hl); auto. discriminate.
Qed.

(* the accept corollary applies to a parsed query (C18's example: f:(a OR b) AND NOT PHRASE(c d)~2), re-spaced *)
Definition q_ok : str :=
  [102;58;40;97;32;79;82;32;98;41;32;65;78;68;32;78;79;84;32;34;99;32;100;34;126;50]%N.
Definition q_ok' : list token :=
  respace_with (fst (lex q_ok)) [10]%N [[32]; [32]; [10]; [10;32]; [9]; []; [32;32]; [10]; [32]; []; [32]]%N.
Example L_respace_ex_accept :
  (exists t, parse q_ok = Some (Ok t)) /\ respacing_of (fst (lex q_ok)) q_ok' /\
  (exists t t', parse q_ok = Some (Ok t) /\ parse (render q_ok') = Some (Ok t') /\ erase t' = erase t).
Proof.
  assert (Hp : exists t, parse q_ok = Some (Ok t)) by (eexists; vm_compute; reflexivity).
  assert (Hr : respacing_of (fst (lex q_ok)) q_ok') by (repeat split; vm_compute; reflexivity).
  split; [exact Hp|]. split; [exact Hr|]. destruct Hp as [t Hp].
  destruct (L_respace_accept q_ok t q_ok' Hp Hr) as [t' [H1 H2]]. eauto.
Qed.
(* the hypotheses of the per-token lemma hold at the TERM of `( xT12 :30`: after `( ` / `(` *)
Example L_respace_ex_token :
  lex_one [32;40]%N ([120;84;49;50] ++ [32;58;51;48])%N = Some (RTok T_TERM, [120;84;49;50], [32;58;51;48])%N /\
  qsafe [32;40]%N = true /\ qsafe [40]%N = true /\ la [32;58;51;48]%N [10;58;51;48]%N = true /\
  esc_ok [32;58;51;48]%N = true /\ la [32;58;51;48]%N [58;51;48]%N = false.
Proof. vm_compute. repeat split; reflexivity. Qed.

Print Assumptions L_respace.
Print Assumptions L_respace_parse.
Print Assumptions L_respace_accept.
Print Assumptions L_respace_glued.
Print Assumptions L_respace_glued_accept.
Print Assumptions L_respace_token.
Print Assumptions L_respace_no_sep_condition_refuted.
