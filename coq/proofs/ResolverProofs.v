(* ResolverProofs.v — lemmas about UnknownOperationResolver (model: Resolver.v), and the vocabulary
   of the C10 statements: [resolution] (what a resolved tree is), [node_res]/[later_operand] (node by
   node, by path), [sem] (boolean reading), [std_attrs], [no_andor], [clean]. *)
Require Import Base Decimal Tree GenTree GenVisitors Visitor Eq Resolver TreeInd.
Require EqProofs.
From Coq Require Import Lia.

Lemma vis_unfold tg ah t ctx ps pre s :
  vis tg ah t ctx ps pre s =
  match pre_act tg t ctx ps s with
  | (ctx1, s1, op) =>
      match walk (vis tg ah) ctx1 (ps ++ [(pre, cls_of t)]) pre 0 (children t) s1 with
      | None => None
      | Some (cs', s2) =>
          match finish ah t op cs' with
          | None => None
          | Some r => Some (r, s2)
          end
      end
  end.
Proof. destruct t; reflexivity. Qed.

Definition is_unknown (t : item) : bool := match t with Op KUnknown _ _ => true | _ => false end.
Definition is_andor (t : item) : bool := match t with Op KAnd _ _ | Op KOr _ _ => true | _ => false end.

Lemma action_of_spec t :
  action_of (cls_of t) = if is_unknown t then AResolve else if is_andor t then ATrack else AGeneric.
Proof. destruct t as [[]| | []| | | | |[]|[]|[]|]; vm_compute; reflexivity. Qed.

Definition clone_node (t : item) : item :=
  let m' := clone_meta (meta_of t) in
  match t with
  | Term k _ v => Term k m' v
  | SearchField _ n _ => SearchField m' n none_item
  | Grp k _ _ => Grp k m' none_item
  | Range _ _ _ il ih => Range m' none_item none_item il ih
  | Fuzzy _ _ d impl => if impl then Fuzzy m' none_item dec_half true else Fuzzy m' none_item d false
  | Proximity _ _ d impl => if impl then Proximity m' none_item 1%Z true else Proximity m' none_item d false
  | Boost _ _ f impl => if impl then Boost m' none_item dec_one true else Boost m' none_item (dec_normalize f) false
  | Op k _ _ => Op k m' []
  | Unary k _ _ => Unary k m' none_item
  | ORange k _ _ i => ORange k m' none_item i
  | NoneItem _ => NoneItem m'
  end.

Lemma clone_item_node t : clone_item t = Some (clone_node t).
Proof.
  destruct t as [k m v|m n e|k m e|m lo hi il ih|m x d i|m x d i|m e f i|k m ops|k m a|k m a i|m];
    try destruct k; try destruct i; reflexivity.
Qed.

(* keep [simpl] from unfolding the decimal arithmetic on a variable *)
Local Opaque dec_normalize.

(* ---------------------------------------------------------------- specification vocabulary *)
Definition allowed (tg : option opk) (k : opk) : Prop :=
  match tg with Some k0 => k = k0 | None => k = KAnd \/ k = KOr end.

Inductive resolution (tg : option opk) (ah : str) : item -> item -> Prop :=
| Res_unknown : forall m ops k cs',
    allowed tg k -> Forall2 (resolution tg ah) ops cs' ->
    resolution tg ah (Op KUnknown m ops) (Op k (clone_meta m) (add_heads ah cs'))
| Res_copy : forall t c cs' r,
    is_unknown t = false -> Forall2 (resolution tg ah) (children t) cs' ->
    clone_item t = Some c -> set_children c cs' = Some r ->
    resolution tg ah t r.

(* ---------------------------------------------------------------- store invariant *)
Definition val_ok (c : cls) : Prop := c = CAndOperation \/ c = COrOperation.
Definition dict_ok (d : ldict) : Prop := Forall (fun e => val_ok (snd e)) d.
Definition store_ok (s : store) : Prop := Forall dict_ok s.

Lemma store_upd_ok s r f : store_ok s -> (forall d, dict_ok d -> dict_ok (f d)) -> store_ok (store_upd s r f).
Proof.
  intros Hs Hf. revert r. induction Hs as [|d s Hd Hs IH]; intros r; simpl; [constructor|].
  destruct r; constructor; auto. apply IH.
Qed.

Lemma ensure_ok ctx s r s1 : ensure ctx s = (r, s1) -> store_ok s -> store_ok s1.
Proof.
  unfold ensure. destruct ctx; intros H; inversion H; subst; auto.
  intros Hs. apply Forall_app. split; [exact Hs|]. repeat constructor.
Qed.

Lemma store_get_ok s r : store_ok s -> dict_ok (store_get s r).
Proof.
  unfold store_get. intros Hs. revert r. induction Hs as [|d s Hd Hs IH]; intros [|r]; simpl; auto; constructor.
Qed.

Lemma dict_get_ok d k c : dict_ok d -> dict_get d k = Some c -> val_ok c.
Proof.
  unfold dict_get. intros Hd. destruct (find _ d) as [e|] eqn:Hf; [|discriminate].
  intros H; inversion H; subst. apply find_some in Hf. destruct Hf as [Hin _].
  unfold dict_ok in Hd. rewrite Forall_forall in Hd. apply Hd. exact Hin.
Qed.

(* what the node's own handler decides *)
Definition op_ok (tg : option opk) (t : item) (op : option cls) : Prop :=
  match op with
  | None => is_unknown t = false
  | Some c => is_unknown t = true /\ exists k, c = cls_of_opk k /\ allowed tg k
  end.

Lemma pre_act_spec tg t ctx ps s ctx1 s1 op :
  pre_act tg t ctx ps s = (ctx1, s1, op) -> store_ok s -> store_ok s1 /\ op_ok tg t op.
Proof.
  unfold pre_act. rewrite action_of_spec.
  destruct (is_unknown t) eqn:Hu.
  - destruct tg as [k|].
    + intros H; inversion H; subst. intros Hs. split; [exact Hs|]. simpl. split; [exact Hu|].
      exists k. split; reflexivity.
    + destruct (ensure ctx s) as [r s0] eqn:He. intros H; inversion H; subst. intros Hs.
      pose proof (ensure_ok _ _ _ _ He Hs) as Hs1. split; [exact Hs1|]. simpl. split; [exact Hu|].
      destruct (dict_get (store_get s1 r) (first_nonop_parent ps)) as [c|] eqn:Hg.
      * destruct (dict_get_ok _ _ _ (store_get_ok _ r Hs1) Hg) as [Hc|Hc]; subst c;
          [exists KAnd|exists KOr]; simpl; auto.
      * exists KAnd. simpl. auto.
  - destruct (is_andor t) eqn:Ha.
    + destruct tg as [k|].
      * intros H; inversion H; subst. intros Hs. split; [exact Hs|exact Hu].
      * destruct (ensure ctx s) as [r s0] eqn:He. intros H; inversion H; subst. intros Hs.
        split; [|exact Hu]. apply store_upd_ok; [eapply ensure_ok; eauto|].
        intros d Hd. constructor; [|exact Hd]. simpl.
        destruct t as [| | | | | | |[]| | |]; try discriminate; [left|right]; reflexivity.
    + intros H; inversion H; subst. intros Hs. split; [exact Hs|exact Hu].
Qed.

Lemma finish_resolution tg ah t op cs' r :
  op_ok tg t op -> Forall2 (resolution tg ah) (children t) cs' -> finish ah t op cs' = Some r ->
  resolution tg ah t r.
Proof.
  intros Hop HF Hfin. destruct op as [c|]; simpl in *.
  - destruct Hop as [Hu [k [Hc Hal]]]. subst c.
    destruct t as [| | | | | | |[] m ops| | |]; try discriminate. simpl in HF.
    destruct k; simpl in Hfin; inversion Hfin; subst; constructor; assumption.
  - destruct (clone_item t) as [c|] eqn:Hc; [|discriminate].
    eapply Res_copy; eauto.
Qed.

Section Run.
  Variables (tg : option opk) (ah : str).

  Definition run_ok (t : item) : Prop :=
    forall ctx ps pre s r s', store_ok s -> vis tg ah t ctx ps pre s = Some (r, s') ->
      resolution tg ah t r /\ store_ok s'.

  Lemma walk_resolution ctx ps pre : forall l i s cs' s',
    Forall run_ok l -> store_ok s -> walk (vis tg ah) ctx ps pre i l s = Some (cs', s') ->
    Forall2 (resolution tg ah) l cs' /\ store_ok s'.
  Proof.
    induction l as [|c l IH]; intros i s cs' s' HF Hs H; simpl in H.
    - inversion H; subst. split; [constructor|exact Hs].
    - inversion HF as [|? ? Hc HFl]; subst.
      destruct (vis tg ah c ctx ps (pre ++ [i]) s) as [[c' s1]|] eqn:Hv; [|discriminate].
      destruct (walk (vis tg ah) ctx ps pre (S i) l s1) as [[cs1 s2]|] eqn:Hw; [|discriminate].
      inversion H; subst; clear H.
      destruct (Hc _ _ _ _ _ _ Hs Hv) as [Hr Hs1].
      destruct (IH _ _ _ _ HFl Hs1 Hw) as [HF2 Hs2].
      split; [constructor; assumption|exact Hs2].
  Qed.

  Lemma vis_resolution : forall t, run_ok t.
  Proof.
    apply item_children_ind. intros t IH ctx ps pre s r s' Hs H.
    rewrite vis_unfold in H.
    destruct (pre_act tg t ctx ps s) as [[ctx1 s1] op] eqn:Hp.
    destruct (pre_act_spec _ _ _ _ _ _ _ _ Hp Hs) as [Hs1 Hop].
    destruct (walk (vis tg ah) ctx1 (ps ++ [(pre, cls_of t)]) pre 0 (children t) s1) as [[cs' s2]|] eqn:Hw;
      [|discriminate].
    destruct (finish ah t op cs') as [r0|] eqn:Hf; [|discriminate].
    inversion H; subst; clear H.
    destruct (walk_resolution _ _ _ _ _ _ _ _ IH Hs1 Hw) as [HF Hs2].
    split; [|exact Hs2]. eapply finish_resolution; eauto.
  Qed.
End Run.

Theorem resolve_resolution tg ah t r : resolve tg ah t = Some r -> resolution tg ah t r.
Proof.
  unfold resolve. destruct (valid_target tg); [|discriminate].
  destruct (vis tg ah t None [] [] []) as [[r0 s']|] eqn:Hv; [|discriminate].
  intros H; inversion H; subst. eapply vis_resolution; [|exact Hv]. constructor.
Qed.

(* ---------------------------------------------------------------- totality *)
Lemma set_children_clone_some t cs :
  length cs = length (children t) -> exists r, set_children (clone_node t) cs = Some r.
Proof.
  destruct t as [k m v|m n e|k m e|m lo hi il ih|m x d i|m x d i|m e f i|k m ops|k m a|k m a i|m].
  all: simpl.
  all: intros Hl.
  all: try destruct i.
  all: simpl.
  all: try (eexists; reflexivity).
  all: try (destruct cs as [|? cs]; simpl in Hl; try discriminate).
  all: try (destruct cs as [|? cs]; simpl in Hl; try discriminate).
  all: try (destruct cs as [|? cs]; simpl in Hl; try discriminate).
  all: eauto.
Qed.

Lemma finish_some tg ah t op cs' :
  op_ok tg t op -> length cs' = length (children t) -> exists r, finish ah t op cs' = Some r.
Proof.
  intros Hop Hl. destruct op as [c|]; simpl in *.
  - destruct Hop as [_ [k [Hc _]]]. subst c. destruct k; simpl; eauto.
  - rewrite clone_item_node. apply set_children_clone_some. exact Hl.
Qed.

Section Total.
  Variables (tg : option opk) (ah : str).

  Definition total_at (t : item) : Prop :=
    forall ctx ps pre s, store_ok s -> exists r s', vis tg ah t ctx ps pre s = Some (r, s').

  Lemma walk_total ctx ps pre : forall l i s,
    Forall total_at l -> store_ok s ->
    exists cs' s', walk (vis tg ah) ctx ps pre i l s = Some (cs', s') /\ length cs' = length l.
  Proof.
    induction l as [|c l IH]; intros i s HF Hs; simpl.
    - eauto.
    - inversion HF as [|? ? Hc HFl]; subst.
      destruct (Hc ctx ps (pre ++ [i]) s Hs) as [c' [s1 Hv]]. rewrite Hv.
      destruct (vis_resolution tg ah c _ _ _ _ _ _ Hs Hv) as [_ Hs1].
      destruct (IH (S i) s1 HFl Hs1) as [cs1 [s2 [Hw Hl]]]. rewrite Hw.
      eexists _, _. split; [reflexivity|]. simpl. f_equal. exact Hl.
  Qed.

  Lemma vis_total : forall t, total_at t.
  Proof.
    apply item_children_ind. intros t IH ctx ps pre s Hs.
    rewrite vis_unfold.
    destruct (pre_act tg t ctx ps s) as [[ctx1 s1] op] eqn:Hp.
    destruct (pre_act_spec _ _ _ _ _ _ _ _ Hp Hs) as [Hs1 Hop].
    destruct (walk_total ctx1 (ps ++ [(pre, cls_of t)]) pre _ 0 s1 IH Hs1) as [cs' [s2 [Hw Hl]]].
    rewrite Hw. destruct (finish_some _ ah _ _ _ Hop Hl) as [r Hf]. rewrite Hf. eauto.
  Qed.
End Total.

Theorem resolve_total tg ah t : valid_target tg = true -> exists r, resolve tg ah t = Some r.
Proof.
  intros Hv. unfold resolve. rewrite Hv.
  destruct (vis_total tg ah t None [] [] []) as [r [s' H]]; [constructor|]. rewrite H. eauto.
Qed.

(* ---------------------------------------------------------------- node by node (paths) *)
Fixpoint later_operand (t : item) (p : path) : bool :=
  match p with
  | [] => false
  | i :: p' =>
      match p' with
      | [] => is_unknown t && (1 <=? i)
      | _ => match nth_error (children t) i with Some c => later_operand c p' | None => false end
      end
  end.

(* n' (a node of the result) against n (the node of the input at the same path); pfx is what was
   put in front of its head *)
Definition node_res (tg : option opk) (pfx : str) (n n' : item) : Prop :=
  (if is_unknown n then exists k, allowed tg k /\ cls_of n' = cls_of_opk k
   else exists c, clone_item n = Some c /\ cls_of n' = cls_of c /\
                  forall a, get_attr n' a = get_attr c a) /\
  is_unknown n' = false /\
  length (children n') = length (children n) /\
  m_pos (meta_of n') = m_pos (meta_of n) /\ m_size (meta_of n') = m_size (meta_of n) /\
  m_tail (meta_of n') = m_tail (meta_of n) /\ m_name (meta_of n') = None /\
  head_of n' = pfx ++ head_of n /\
  match n, n' with
  | Fuzzy _ _ _ i, Fuzzy _ _ _ i' | Proximity _ _ _ i, Proximity _ _ _ i' | Boost _ _ _ i, Boost _ _ _ i' => i' = i
  | _, _ => True
  end.

Definition rel_at (tg : option opk) (pfx : str) (a b : option item) : Prop :=
  match a, b with
  | Some n, Some n' => node_res tg pfx n n'
  | None, None => True
  | _, _ => False
  end.

Lemma node_res_set_head tg ah n n' :
  node_res tg [] n n' -> node_res tg ah n (set_head n' (ah ++ head_of n')).
Proof.
  unfold node_res, set_head, head_of. intros [H1 [H2 [H3 [H4 [H5 [H6 [H7 [H8 H9]]]]]]]].
  rewrite cls_set_meta, children_set_meta, meta_set_meta. simpl in *. rewrite H8.
  repeat split; auto.
  - destruct (is_unknown n); [exact H1|]. destruct H1 as [c [Hc [Hk Ha]]]. exists c.
    repeat split; auto. intros a. rewrite <- Ha. destruct n'; reflexivity.
  - destruct n'; simpl in *; auto.
  - destruct n; destruct n'; simpl in *; auto.
Qed.

Lemma subtree_set_head t h p : p <> [] -> subtree_at (set_head t h) p = subtree_at t p.
Proof. destruct p; [congruence|]. intros _. simpl. unfold set_head. rewrite children_set_meta. reflexivity. Qed.

Lemma set_children_children c cs r : set_children c cs = Some r ->
  children r = cs /\ meta_of r = meta_of c /\ cls_of r = cls_of c /\ (forall a, get_attr r a = get_attr c a) /\
  length cs = length (children c) \/ (exists k m l, c = Op k m l /\ r = Op k m cs).
Proof.
  destruct c; simpl; intros H;
    try (right; eexists _, _, _; split; [reflexivity|]; inversion H; reflexivity);
    left; do 3 (try (destruct cs as [|? cs]; try discriminate));
    inversion H; subst; repeat split; reflexivity.
Qed.

Section Pointwise.
  Variables (tg : option opk) (ah : str).
  Hypothesis Hvalid : valid_target tg = true.
  Definition pfx_at (t : item) (p : path) : str := if later_operand t p then ah else [].

  Definition pointwise (t : item) : Prop :=
    forall r, resolution tg ah t r -> forall p, rel_at tg (pfx_at t p) (subtree_at t p) (subtree_at r p).

  Lemma children_pointwise : forall l cs', Forall pointwise l -> Forall2 (resolution tg ah) l cs' ->
    forall i, match nth_error l i, nth_error cs' i with
              | Some c, Some c' => forall p, rel_at tg (pfx_at c p) (subtree_at c p) (subtree_at c' p)
              | None, None => True
              | _, _ => False end.
  Proof.
    intros l cs' HF H2. induction H2 as [|c c' l cs' Hr H2 IH]; intros i.
    - destruct i; exact I.
    - inversion HF as [|? ? Hc HFl]; subst. destruct i; simpl; [intros p; apply Hc; exact Hr|apply IH; exact HFl].
  Qed.

  Lemma nth_add_heads cs i :
    nth_error (add_heads ah cs) i =
    match nth_error cs i with
    | Some c => Some (if 1 <=? i then set_head c (ah ++ head_of c) else c)
    | None => None
    end.
  Proof.
    destruct cs as [|c0 cs]; [destruct i; reflexivity|]. destruct i; simpl; [reflexivity|].
    rewrite nth_error_map. destruct (nth_error cs i); reflexivity.
  Qed.

  Lemma Forall2_length' {A B} (R : A -> B -> Prop) l l' : Forall2 R l l' -> length l' = length l.
  Proof. induction 1; simpl; congruence. Qed.

  Lemma add_heads_length cs : length (add_heads ah cs) = length cs.
  Proof. destruct cs; simpl; [reflexivity|]. rewrite map_length. reflexivity. Qed.

  Lemma resolution_pointwise : forall t, pointwise t.
  Proof.
    apply item_children_ind. intros t IH r Hr p.
    inversion Hr as [m ops k cs' Hal HF2|t0 c cs' r0 Hu HF2 Hc Hs]; subst.
    - (* unknown operation *)
      destruct p as [|i p].
      + unfold pfx_at, rel_at. simpl. unfold node_res, head_of. simpl.
        rewrite add_heads_length, (Forall2_length' _ _ _ HF2).
        repeat split; auto. * exists k. auto. * destruct k; try reflexivity.
          destruct tg as [k0|]; simpl in Hal; [|destruct Hal; discriminate]. subst k0. discriminate.
      + simpl in IH. pose proof (children_pointwise _ _ IH HF2 i) as Hi.
        simpl. rewrite nth_add_heads.
        destruct (nth_error ops i) as [c|] eqn:Hn; destruct (nth_error cs' i) as [c'|] eqn:Hn'; try contradiction;
          [|unfold rel_at; exact I].
        destruct p as [|j p].
        * specialize (Hi []). unfold pfx_at in *.
          cbn [later_operand is_unknown andb subtree_at rel_at] in *.
          destruct (1 <=? i); cbn [subtree_at rel_at]; [apply node_res_set_head|]; exact Hi.
        * replace (pfx_at (Op KUnknown m ops) (i :: j :: p)) with (pfx_at c (j :: p))
            by (unfold pfx_at; simpl; rewrite Hn; reflexivity).
          destruct (1 <=? i); [rewrite subtree_set_head by discriminate|]; apply Hi.
    - (* copied node *)
      rewrite clone_item_node in Hc. inversion Hc; subst c; clear Hc.
      assert (Hch : children r = cs' /\ meta_of r = clone_meta (meta_of t) /\ cls_of r = cls_of (clone_node t)
                    /\ forall a, get_attr r a = get_attr (clone_node t) a).
      { destruct (set_children_children _ _ _ Hs) as [[H1 [H2 [H3 [H4 _]]]]|[k [m [l [He Hr']]]]].
        - repeat split; auto. rewrite H2. destruct t as [| | | |? ? ? []|? ? ? []|? ? ? []| | | |]; reflexivity.
        - subst r. destruct t as [| | | |? ? ? []|? ? ? []|? ? ? []| | | |]; try discriminate.
          simpl in He. inversion He; subst. repeat split; reflexivity. }
      destruct Hch as [Hch [Hm [Hk Ha]]].
      destruct p as [|i p].
      + unfold pfx_at, rel_at. simpl. unfold node_res, head_of. rewrite Hu, Hm, Hch, (Forall2_length' _ _ _ HF2).
        repeat split; auto.
        * exists (clone_node t). rewrite clone_item_node. auto.
        * destruct r as [| | | | | | |[]| | |]; try reflexivity. simpl in Hk.
          destruct t as [[]| |[]| |? ? ? []|? ? ? []|? ? ? []|[]|[]|[]|]; simpl in Hk, Hu; try discriminate.
        * destruct t as [| | | |? ? ? []|? ? ? []|? ? ? []| | | |]; simpl in *;
            do 3 (try (destruct cs' as [|? cs']; try discriminate)); inversion Hs; subst; auto.
      + pose proof (children_pointwise _ _ IH HF2 i) as Hi.
        simpl. rewrite Hch.
        destruct (nth_error (children t) i) as [c|] eqn:Hn; destruct (nth_error cs' i) as [c'|] eqn:Hn'; try contradiction;
          [|unfold rel_at; exact I].
        destruct p as [|j p].
        * specialize (Hi []). unfold pfx_at in *.
          cbn [later_operand andb subtree_at rel_at] in *. rewrite Hu. exact Hi.
        * replace (pfx_at t (i :: j :: p)) with (pfx_at c (j :: p))
            by (unfold pfx_at; simpl; rewrite Hn; reflexivity).
          apply Hi.
  Qed.
End Pointwise.

(* ---------------------------------------------------------------- Lucene mode, no explicit operator *)
Definition no_andor (t : item) : Prop := forall p n, subtree_at t p = Some n -> is_andor n = false.
Definition empty_store (s : store) : Prop := Forall (fun d => d = []) s.

Lemma no_andor_children t : no_andor t -> Forall no_andor (children t).
Proof.
  intros H. apply Forall_forall. intros c Hin. apply In_nth_error in Hin. destruct Hin as [i Hi].
  intros p n Hp. apply (H (i :: p)). simpl. rewrite Hi. exact Hp.
Qed.

Lemma empty_store_get s r : empty_store s -> store_get s r = [].
Proof.
  unfold store_get. intros Hs. revert r. induction Hs as [|d s Hd Hs IH]; intros [|r]; simpl; auto.
Qed.

Section Default.
  Variable ah : str.

  Definition default_at (t : item) : Prop :=
    forall ctx ps pre s r s', no_andor t -> empty_store s -> vis None ah t ctx ps pre s = Some (r, s') ->
      empty_store s' /\ forall ctx2 ps2 pre2 s2, vis (Some KAnd) ah t ctx2 ps2 pre2 s2 = Some (r, s2).

  Lemma walk_default ctx ps pre : forall l i s cs' s',
    Forall default_at l -> Forall no_andor l -> empty_store s ->
    walk (vis None ah) ctx ps pre i l s = Some (cs', s') ->
    empty_store s' /\ forall ctx2 ps2 pre2 i2 s2, walk (vis (Some KAnd) ah) ctx2 ps2 pre2 i2 l s2 = Some (cs', s2).
  Proof.
    induction l as [|c l IH]; intros i s cs' s' HF HN Hs H; simpl in H.
    - inversion H; subst. split; [exact Hs|reflexivity].
    - inversion HF as [|? ? Hc HFl]; inversion HN as [|? ? Hnc HNl]; subst.
      destruct (vis None ah c ctx ps (pre ++ [i]) s) as [[c' s1]|] eqn:Hv; [|discriminate].
      destruct (walk (vis None ah) ctx ps pre (S i) l s1) as [[cs1 s2]|] eqn:Hw; [|discriminate].
      inversion H; subst; clear H.
      destruct (Hc _ _ _ _ _ _ Hnc Hs Hv) as [Hs1 Hv2].
      destruct (IH _ _ _ _ HFl HNl Hs1 Hw) as [Hs2 Hw2].
      split; [exact Hs2|]. intros. simpl. rewrite Hv2, Hw2. reflexivity.
  Qed.

  Lemma vis_default : forall t, default_at t.
  Proof.
    apply item_children_ind. intros t IH ctx ps pre s r s' Hno Hs H.
    rewrite vis_unfold in H.
    assert (Ha : is_andor t = false) by (apply (Hno [] t); reflexivity).
    assert (Hp : exists ctx1 s1 op, pre_act None t ctx ps s = (ctx1, s1, op) /\ empty_store s1 /\
                 forall ctx2 ps2 s2, pre_act (Some KAnd) t ctx2 ps2 s2 = (ctx2, s2, op)).
    { unfold pre_act. rewrite action_of_spec, Ha. destruct (is_unknown t).
      - destruct (ensure ctx s) as [r1 s1] eqn:He.
        assert (Hs1 : empty_store s1).
        { unfold ensure in He. destruct ctx; inversion He; subst; auto.
          apply Forall_app. split; [exact Hs|repeat constructor]. }
        eexists _, _, _. split; [reflexivity|]. split; [exact Hs1|].
        intros. rewrite (empty_store_get _ _ Hs1). reflexivity.
      - eexists _, _, _. split; [reflexivity|]. split; [exact Hs|]. reflexivity. }
    destruct Hp as [ctx1 [s1 [op [Hp [Hs1 Hp2]]]]]. rewrite Hp in H.
    destruct (walk (vis None ah) ctx1 (ps ++ [(pre, cls_of t)]) pre 0 (children t) s1) as [[cs' s2]|] eqn:Hw;
      [|discriminate].
    destruct (finish ah t op cs') as [r0|] eqn:Hf; [|discriminate].
    inversion H; subst; clear H.
    destruct (walk_default _ _ _ _ _ _ _ _ IH (no_andor_children _ Hno) Hs1 Hw) as [Hs2 Hw2].
    split; [exact Hs2|]. intros. rewrite vis_unfold, Hp2, Hw2, Hf. reflexivity.
  Qed.
End Default.

Theorem resolve_default_and ah t : no_andor t -> resolve None ah t = resolve (Some KAnd) ah t.
Proof.
  intros Hno. unfold resolve. simpl.
  destruct (vis None ah t None [] [] []) as [[r s']|] eqn:Hv.
  - destruct (vis_default ah t _ _ _ _ _ _ Hno (Forall_nil _) Hv) as [_ H2]. rewrite H2. reflexivity.
  - destruct (vis_total None ah t None [] [] []) as [r [s' H]]; [constructor|]. congruence.
Qed.

(* ---------------------------------------------------------------- boolean reading *)
Definition all_attrs : list attr := [AValue; AName; AIncludeLow; AIncludeHigh; ADegree; AForce; AInclude].
Definition nkey := (cls * list (option attrval))%type.
Definition key_of (n : item) : nkey := (cls_of n, map (get_attr n) all_attrs).

Record interp := mkInterp {
  i_atom : list nkey -> nkey -> list bool -> bool;   (* enclosing non-boolean nodes, own content, sub-meanings *)
  i_bool : list (cls * bool) -> bool;                (* BoolOperation: operands' class and meaning *)
  i_unknown : list (cls * bool) -> bool;             (* an UnknownOperation left unread *)
  i_unary : unk -> bool -> bool }.

Definition shift (d : path -> opk) (i : nat) : path -> opk := fun q => d (i :: q).
Definition eff_cls (d : path -> opk) (t : item) : cls :=
  match t with Op KUnknown _ _ => cls_of_opk (d []) | _ => cls_of t end.

Definition sem_list (f : (path -> opk) -> list nkey -> item -> bool) (d : path -> opk) (ctx : list nkey) :=
  fix go (i : nat) (l : list item) : list (cls * bool) :=
    match l with
    | [] => []
    | c :: l' => (eff_cls (shift d i) c, f (shift d i) ctx c) :: go (S i) l'
    end.

Definition combine (I : interp) (k : opk) (rs : list (cls * bool)) : bool :=
  match k with
  | KAnd => forallb snd rs
  | KOr => existsb snd rs
  | KBool => i_bool I rs
  | KUnknown => i_unknown I rs
  end.

Definition node_sem (I : interp) (d : path -> opk) (ctx : list nkey) (t : item) (rs : list (cls * bool)) : bool :=
  match t with
  | Op k _ _ => combine I (match k with KUnknown => d [] | _ => k end) rs
  | Grp _ _ _ => match rs with [(_, b)] => b | _ => false end
  | Unary k _ _ => match rs with [(_, b)] => i_unary I k b | _ => false end
  | _ => i_atom I ctx (key_of t) (map snd rs)
  end.

Definition ctx_for (t : item) (ctx : list nkey) : list nkey :=
  match t with Op _ _ _ | Grp _ _ _ | Unary _ _ _ => ctx | _ => key_of t :: ctx end.

Fixpoint sem (I : interp) (d : path -> opk) (ctx : list nkey) (t : item) : bool :=
  let via (cs : list item) := node_sem I d ctx t (sem_list (sem I) d (ctx_for t ctx) 0 cs) in
  match t with
  | Term _ _ _ | NoneItem _ => via []
  | SearchField _ _ e | Grp _ _ e | Boost _ e _ _ => via [e]
  | Fuzzy _ x _ _ | Proximity _ x _ _ => via [x]
  | Unary _ _ a | ORange _ _ a _ => via [a]
  | Range _ lo hi _ _ => via [lo; hi]
  | Op _ _ ops => via ops
  end.

Lemma sem_unfold I d ctx t :
  sem I d ctx t = node_sem I d ctx t (sem_list (sem I) d (ctx_for t ctx) 0 (children t)).
Proof. destruct t; reflexivity. Qed.

(* the operator found in the result at a path *)
Definition chosen (r : item) : path -> opk :=
  fun p => match subtree_at r p with Some (Op k _ _) => k | _ => KAnd end.

Definition std_node (n : item) : Prop :=
  match n with
  | Fuzzy _ _ d true => d = dec_half
  | Proximity _ _ d true => d = 1%Z
  | Boost _ _ f true => f = dec_one
  | Boost _ _ f false => dec_normalize f = f
  | _ => True
  end.
Definition std_attrs (t : item) : Prop := forall p n, subtree_at t p = Some n -> std_node n.

Lemma std_attrs_children t : std_attrs t -> Forall std_attrs (children t).
Proof.
  intros H. apply Forall_forall. intros c Hin. apply In_nth_error in Hin. destruct Hin as [i Hi].
  intros p n Hp. apply (H (i :: p)). simpl. rewrite Hi. exact Hp.
Qed.

Section Sem.
  Variable I : interp.

  Lemma sem_list_ext (f : (path -> opk) -> list nkey -> item -> bool) ctx : forall l i d d',
    Forall (fun c => forall d d' ctx, (forall q, d q = d' q) -> f d ctx c = f d' ctx c) l ->
    (forall q, d q = d' q) -> sem_list f d ctx i l = sem_list f d' ctx i l.
  Proof.
    induction l as [|c l IH]; intros i d d' HF He; simpl; [reflexivity|].
    inversion HF as [|? ? Hc HFl]; subst.
    rewrite (IH (S i) d d' HFl He). f_equal. f_equal.
    - unfold eff_cls, shift. destruct c as [| | | | | | |[]| | |]; try reflexivity. rewrite He. reflexivity.
    - apply Hc. intros q. unfold shift. apply He.
  Qed.

  Lemma sem_ext : forall t d d' ctx, (forall q, d q = d' q) -> sem I d ctx t = sem I d' ctx t.
  Proof.
    apply (item_children_ind (fun t => forall d d' ctx, (forall q, d q = d' q) -> sem I d ctx t = sem I d' ctx t)).
    intros t IH d d' ctx He. rewrite !sem_unfold.
    rewrite (sem_list_ext (sem I) (ctx_for t ctx) (children t) 0 d d' IH He).
    destruct t as [| | | | | | |[]| | |]; simpl; try reflexivity. rewrite He. reflexivity.
  Qed.

  Lemma sem_set_head d ctx c h : sem I d ctx (set_head c h) = sem I d ctx c.
  Proof. rewrite !sem_unfold. destruct c; reflexivity. Qed.

  Lemma chosen_set_head c h q : chosen (set_head c h) q = chosen c q.
  Proof.
    unfold chosen. destruct q as [|j q]; [destruct c; reflexivity|].
    rewrite subtree_set_head by discriminate. reflexivity.
  Qed.

  (* what the induction needs of one operand c and its image c'' *)
  Definition sem_ok (c c'' : item) : Prop :=
    (forall d0 ctx, sem I d0 ctx c'' = sem I (chosen c'') ctx c) /\
    is_unknown c'' = false /\ eff_cls (chosen c'') c = cls_of c''.

  Lemma sem_ok_set_head c c' h : sem_ok c c' -> sem_ok c (set_head c' h).
  Proof.
    intros [H1 [H2 H3]]. split; [|split].
    - intros d0 ctx. rewrite sem_set_head, H1. apply sem_ext. intros q. symmetry. apply chosen_set_head.
    - destruct c'; exact H2.
    - assert (He : eff_cls (chosen (set_head c' h)) c = eff_cls (chosen c') c).
      { unfold eff_cls. destruct c as [| | | | | | |[]| | |]; try reflexivity.
        rewrite chosen_set_head. reflexivity. }
      rewrite He, H3. unfold set_head. rewrite cls_set_meta. reflexivity.
  Qed.

  Lemma sem_list_res ctx d0 dr : forall l cs'' i,
    Forall2 sem_ok l cs'' ->
    (forall j c'', nth_error cs'' j = Some c'' -> forall q, dr ((i + j) :: q) = chosen c'' q) ->
    sem_list (sem I) d0 ctx i cs'' = sem_list (sem I) dr ctx i l.
  Proof.
    intros l cs'' i H2. revert i. induction H2 as [|c c'' l cs'' [H1 [Hu Hk]] H2 IH]; intros i Hd; simpl; [reflexivity|].
    rewrite (IH (S i)).
    - f_equal. f_equal.
      + assert (He : eff_cls (shift dr i) c = eff_cls (chosen c'') c).
        { unfold eff_cls, shift. destruct c as [| | | | | | |[]| | |]; try reflexivity.
          rewrite <- (Hd 0 c'' eq_refl []). rewrite Nat.add_0_r. reflexivity. }
        rewrite He, Hk. unfold eff_cls. destruct c'' as [| | | | | | |[]| | |]; try reflexivity. discriminate.
      + rewrite H1. apply sem_ext. intros q. unfold shift. rewrite <- (Hd 0 c'' eq_refl q), Nat.add_0_r. reflexivity.
    - intros j c2 Hn q. replace (S i + j) with (i + S j) by lia. apply Hd. exact Hn.
  Qed.

  Lemma add_heads_sem_ok ah : forall l cs', Forall2 sem_ok l cs' -> Forall2 sem_ok l (add_heads ah cs').
  Proof.
    intros l cs' H. destruct H as [|c c' l cs' Hc H]; simpl; constructor; [exact Hc|].
    induction H; simpl; constructor; [apply sem_ok_set_head; assumption|assumption].
  Qed.

  Lemma copy_node_sem t cs' r :
    set_children (clone_node t) cs' = Some r -> std_node t -> is_unknown t = false ->
    children r = cs' /\ is_unknown r = false /\ cls_of r = cls_of t /\
    (forall ctx, ctx_for r ctx = ctx_for t ctx) /\
    (forall d d' ctx rs, node_sem I d ctx r rs = node_sem I d' ctx t rs).
  Proof.
    destruct t as [k m v|m n e|k m e|m lo hi il ih|m x d i|m x d i|m e f i|k m ops|k m a|k m a i|m];
      simpl; intros Hs Hstd Hu; try destruct i; simpl in Hs;
      try (destruct k; try discriminate; inversion Hs; subst; repeat split; reflexivity);
      do 3 (try (destruct cs' as [|? cs']; try discriminate));
      inversion Hs; subst; repeat split; try reflexivity;
      try (intros; unfold ctx_for, node_sem, key_of; simpl; rewrite ?Hstd; reflexivity).
  Qed.

  Lemma eff_cls_known d t : is_unknown t = false -> eff_cls d t = cls_of t.
  Proof. destruct t as [| | | | | | |[]| | |]; try reflexivity. discriminate. Qed.

  Lemma resolution_sem tg ah : valid_target tg = true ->
    forall t r, resolution tg ah t r -> std_attrs t -> sem_ok t r.
  Proof.
    intros Hvalid.
    apply (item_children_ind (fun t => forall r, resolution tg ah t r -> std_attrs t -> sem_ok t r)).
    intros t IH r Hr Hstd.
    assert (HF : forall cs', Forall2 (resolution tg ah) (children t) cs' -> Forall2 sem_ok (children t) cs').
    { pose proof (std_attrs_children _ Hstd) as Hsc. revert IH Hsc. generalize (children t).
      intros l IH Hsc cs' H2. induction H2 as [|c c' l cs' Hc H2 IH2]; constructor.
      - inversion IH; inversion Hsc; subst. auto.
      - inversion IH; inversion Hsc; subst. apply IH2; assumption. }
    inversion Hr as [m ops k cs' Hal HF2|t0 c cs' r0 Hu HF2 Hc Hs]; subst.
    - simpl in HF. pose proof (add_heads_sem_ok ah _ _ (HF _ HF2)) as Hok.
      assert (Hk : k <> KUnknown).
      { destruct tg as [k0|]; simpl in Hal; [|destruct Hal; subst; discriminate].
        subst k0. intros ->. discriminate. }
      split; [|split].
      + intros d0 ctx. rewrite !sem_unfold.
        cbn [node_sem ctx_for children].
        replace (chosen (Op k (clone_meta m) (add_heads ah cs')) []) with k by reflexivity.
        replace (match k with KUnknown => d0 [] | _ => k end) with k by (destruct k; congruence).
        f_equal. apply sem_list_res; [exact Hok|].
        intros j c2 Hn q. unfold chosen. cbn [subtree_at children Nat.add]. rewrite Hn. reflexivity.
      + destruct k; try reflexivity. exfalso. apply Hk. reflexivity.
      + reflexivity.
    - rewrite clone_item_node in Hc. inversion Hc; subst c; clear Hc.
      destruct (copy_node_sem _ _ _ Hs (Hstd [] t eq_refl) Hu) as [Hch [Hur [Hcl [Hctx Hnode]]]].
      split; [|split].
      + intros d0 ctx. rewrite !sem_unfold, Hctx, Hch, (Hnode d0 (chosen r) ctx). f_equal.
        apply sem_list_res; [apply HF; exact HF2|].
        intros j c2 Hn q. unfold chosen. cbn [subtree_at Nat.add]. rewrite Hch, Hn. reflexivity.
      + exact Hur.
      + rewrite eff_cls_known by exact Hu. symmetry. exact Hcl.
  Qed.
End Sem.

Theorem resolve_same_meaning tg ah t r :
  resolve tg ah t = Some r -> std_attrs t ->
  forall I d0 ctx, sem I d0 ctx r = sem I (chosen r) ctx t.
Proof.
  intros H Hstd I d0 ctx.
  assert (Hv : valid_target tg = true) by (unfold resolve in H; destruct (valid_target tg); [reflexivity|discriminate]).
  apply (resolution_sem I tg ah Hv t r (resolve_resolution _ _ _ _ H) Hstd).
Qed.

(* ---------------------------------------------------------------- resolving again *)
Definition clean_node (n : item) : Prop := is_unknown n = false /\ m_name (meta_of n) = None /\ std_node n.
Definition clean (r : item) : Prop := forall p n, subtree_at r p = Some n -> clean_node n.

Lemma clean_children r : clean r -> Forall clean (children r).
Proof.
  intros H. apply Forall_forall. intros c Hin. apply In_nth_error in Hin. destruct Hin as [i Hi].
  intros p n Hp. apply (H (i :: p)). simpl. rewrite Hi. exact Hp.
Qed.

Lemma clone_back r : clean_node r -> set_children (clone_node r) (children r) = Some r.
Proof.
  intros [_ [Hn Hs]].
  destruct r as [k m v|m n e|k m e|m lo hi il ih|m x d i|m x d i|m e f i|k m ops|k m a|k m a i|m];
    destruct m as [p sz h tl nm]; simpl in Hn; subst nm; try destruct i; simpl in Hs; simpl;
    unfold clone_meta; simpl; rewrite ?Hs; reflexivity.
Qed.

Lemma pre_act_known tg r ctx ps s :
  is_unknown r = false -> exists ctx1 s1, pre_act tg r ctx ps s = (ctx1, s1, None).
Proof.
  intros Hu. unfold pre_act. rewrite action_of_spec, Hu.
  destruct (is_andor r); [destruct tg; [|destruct (ensure ctx s)]|]; eauto.
Qed.

Section Again.
  Variables (tg : option opk) (ah : str).

  Definition fix_at (r : item) : Prop :=
    clean r -> forall ctx ps pre s, exists s', vis tg ah r ctx ps pre s = Some (r, s').

  Lemma walk_fix ctx ps pre : forall l i s, Forall fix_at l -> Forall clean l ->
    exists s', walk (vis tg ah) ctx ps pre i l s = Some (l, s').
  Proof.
    induction l as [|c l IH]; intros i s HF HC; simpl; [eauto|].
    inversion HF as [|? ? Hc HFl]; inversion HC as [|? ? Hcc HCl]; subst.
    destruct (Hc Hcc ctx ps (pre ++ [i]) s) as [s1 Hv]. rewrite Hv.
    destruct (IH (S i) s1 HFl HCl) as [s2 Hw]. rewrite Hw. eauto.
  Qed.

  Lemma vis_fix : forall r, fix_at r.
  Proof.
    apply item_children_ind. intros r IH Hc ctx ps pre s.
    pose proof (Hc [] r eq_refl) as Hn.
    rewrite vis_unfold.
    destruct (pre_act_known tg r ctx ps s (proj1 Hn)) as [ctx1 [s1 Hp]]. rewrite Hp.
    destruct (walk_fix ctx1 (ps ++ [(pre, cls_of r)]) pre _ 0 s1 IH (clean_children _ Hc)) as [s2 Hw].
    rewrite Hw. unfold finish. rewrite clone_item_node, (clone_back _ Hn). eauto.
  Qed.
End Again.

(* every node of a result is clean, whatever the input held: the copy recomputes the default of an
   implicit degree / force and normalises an explicit boost force, and normalising is idempotent.
   No constructor invariant is needed on the input. *)
Lemma node_res_clean_any tg pfx n n' : node_res tg pfx n n' -> clean_node n'.
Proof.
  intros [H1 [H2 [_ [_ [_ [_ [H7 [_ H9]]]]]]]]. split; [exact H2|]. split; [exact H7|].
  destruct (is_unknown n) eqn:Hu.
  - destruct H1 as [k [_ Hk]]. destruct n' as [[]| |[]| | | | |[]|[]|[]|]; try exact I; destruct k; discriminate.
  - destruct H1 as [c [Hc [Hk Ha]]]. rewrite clone_item_node in Hc. inversion Hc; subst c; clear Hc.
    destruct n' as [k' m' v'|m' n0 e'|k' m' e'|m' lo' hi' il' ih'|m' x' d' i'|m' x' d' i'|m' e' f' i'|k' m' ops'|k' m' a'|k' m' a' i'|m'];
      try exact I;
      destruct n as [k m v|m n1 e|k m e|m lo hi il ih|m x d i|m x d i|m e f i|k m ops|k m a|k m a i|m];
      try destruct k; try destruct i; simpl in Hk; try discriminate; simpl in H9; subst; simpl in *.
    + specialize (Ha ADegree). simpl in Ha. inversion Ha. reflexivity.
    + exact I.
    + specialize (Ha ADegree). simpl in Ha. inversion Ha. reflexivity.
    + exact I.
    + specialize (Ha AForce). simpl in Ha. inversion Ha. reflexivity.
    + specialize (Ha AForce). simpl in Ha. inversion Ha. apply EqProofs.dec_normalize_idem.
Qed.

(* the guarded form used by other files *)
Lemma node_res_clean tg pfx n n' : node_res tg pfx n n' -> std_node n -> clean_node n'.
Proof. intros H _. exact (node_res_clean_any _ _ _ _ H). Qed.

Theorem resolve_idempotent_unguarded tg ah tg' ah' t r :
  resolve tg ah t = Some r -> valid_target tg' = true -> resolve tg' ah' r = Some r.
Proof.
  intros H Hv'.
  assert (Hv : valid_target tg = true) by (unfold resolve in H; destruct (valid_target tg); [reflexivity|discriminate]).
  pose proof (resolution_pointwise tg ah Hv t r (resolve_resolution _ _ _ _ H)) as Hpw.
  assert (Hc : clean r).
  { intros p n' Hp. specialize (Hpw p). rewrite Hp in Hpw. destruct (subtree_at t p) as [n|] eqn:Ht; [|contradiction].
    eapply node_res_clean_any; exact Hpw. }
  unfold resolve. rewrite Hv'. destruct (vis_fix tg' ah' r Hc None [] [] []) as [s' Hx]. rewrite Hx. reflexivity.
Qed.

(* the former statement (constructor invariant on the input): a corollary *)
Theorem resolve_idempotent tg ah tg' ah' t r :
  resolve tg ah t = Some r -> std_attrs t -> valid_target tg' = true -> resolve tg' ah' r = Some r.
Proof. intros H _. exact (resolve_idempotent_unguarded tg ah tg' ah' t r H). Qed.

(* ---------------------------------------------------------------- content of the copied nodes *)
(* the default copy keeps every content attribute of a node exactly when the node is as the
   constructors build it: [std_node] is the narrowest guard of "every other node keeps its content" *)
Lemma clone_attrs_iff n :
  (forall a, get_attr (clone_node n) a = get_attr n a) <-> std_node n.
Proof.
  split.
  - intros Ha.
    destruct n as [k m v|m n e|k m e|m lo hi il ih|m x d i|m x d i|m e f i|k m ops|k m a|k m a i|m];
      try exact I; destruct i; simpl; try exact I.
    + specialize (Ha ADegree). simpl in Ha. inversion Ha. reflexivity.
    + specialize (Ha ADegree). simpl in Ha. inversion Ha. reflexivity.
    + specialize (Ha AForce). simpl in Ha. inversion Ha. reflexivity.
    + specialize (Ha AForce). simpl in Ha. inversion Ha as [Hf]. rewrite Hf. exact Hf.
  - intros Hs a.
    destruct n as [k m v|m n e|k m e|m lo hi il ih|m x d i|m x d i|m e f i|k m ops|k m a0|k m a0 i|m];
      try destruct i; destruct a; simpl in *; rewrite ?Hs; reflexivity.
Qed.

(* at every path: a node that is not an implicit operation keeps its class, and keeps its content
   attributes iff it is [std_node] *)
Theorem resolve_content tg ah t r : resolve tg ah t = Some r ->
  forall p n n', subtree_at t p = Some n -> subtree_at r p = Some n' -> is_unknown n = false ->
    cls_of n' = cls_of n /\ ((forall a, get_attr n' a = get_attr n a) <-> std_node n).
Proof.
  intros H p n n' Hn Hn' Hu.
  assert (Hv : valid_target tg = true) by (unfold resolve in H; destruct (valid_target tg); [reflexivity|discriminate]).
  pose proof (resolution_pointwise tg ah Hv t r (resolve_resolution _ _ _ _ H) p) as Hpw.
  rewrite Hn, Hn' in Hpw. destruct Hpw as [H1 _]. rewrite Hu in H1.
  destruct H1 as [c [Hc [Hk Ha]]]. rewrite clone_item_node in Hc. inversion Hc; subst c; clear Hc.
  split.
  - rewrite Hk. destruct n as [| | | |? ? ? []|? ? ? []|? ? ? []| | | |]; reflexivity.
  - rewrite <- clone_attrs_iff. split; intros Hx a; [rewrite <- Ha|rewrite Ha]; apply Hx.
Qed.

(* ---------------------------------------------------------------- glue for the statements *)
Lemma by_children (P : item -> Prop) t :
  P t -> Forall (fun c => forall p n, subtree_at c p = Some n -> P n) (children t) ->
  forall p n, subtree_at t p = Some n -> P n.
Proof.
  intros Ht HF p n Hp. destruct p as [|i p]; simpl in Hp; [inversion Hp; subst; exact Ht|].
  destruct (nth_error (children t) i) as [c|] eqn:Hn; [|discriminate].
  rewrite Forall_forall in HF. apply (HF c (nth_error_In _ _ Hn) p n Hp).
Qed.

Lemma std_attrs_intro t : std_node t -> Forall std_attrs (children t) -> std_attrs t.
Proof. intros H HF. unfold std_attrs. apply by_children; assumption. Qed.

Lemma no_andor_intro t : is_andor t = false -> Forall no_andor (children t) -> no_andor t.
Proof. intros H HF. unfold no_andor. apply (by_children (fun n => is_andor n = false)); assumption. Qed.

Lemma cls_is_op n k : cls_of n = cls_of_opk k -> exists m ops, n = Op k m ops.
Proof.
  destruct n as [[]| |[]| | | | |k' m ops|[]|[]|]; destruct k; try discriminate;
    destruct k'; try discriminate; eauto.
Qed.

(* what the default copy of a node keeps *)
Lemma clone_keeps n c : clone_item n = Some c ->
  cls_of c = cls_of n /\ m_pos (meta_of c) = m_pos (meta_of n) /\ m_size (meta_of c) = m_size (meta_of n) /\
  m_head (meta_of c) = m_head (meta_of n) /\ m_tail (meta_of c) = m_tail (meta_of n) /\
  m_name (meta_of c) = None /\ (std_node n -> forall a, get_attr c a = get_attr n a).
Proof.
  rewrite clone_item_node. intros H; inversion H; subst c; clear H.
  destruct n as [k m v|m n e|k m e|m lo hi il ih|m x d i|m x d i|m e f i|k m ops|k m a|k m a i|m];
    try destruct i; simpl; repeat split; try reflexivity; intros Hs a; destruct a; simpl; rewrite ?Hs; reflexivity.
Qed.

Section SemOn.
  Variable I : interp.

  Definition agree_on (t : item) (d d' : path -> opk) : Prop :=
    forall q n, subtree_at t q = Some n -> is_unknown n = true -> d q = d' q.

  Lemma sem_list_ext_on ctx : forall l i d d',
    Forall (fun c => forall d d' ctx, agree_on c d d' -> sem I d ctx c = sem I d' ctx c) l ->
    (forall j c, nth_error l j = Some c -> agree_on c (shift d (i + j)) (shift d' (i + j))) ->
    sem_list (sem I) d ctx i l = sem_list (sem I) d' ctx i l.
  Proof.
    induction l as [|c l IH]; intros i d d' HF He; simpl; [reflexivity|].
    inversion HF as [|? ? Hc HFl]; subst.
    pose proof (He 0 c eq_refl) as H0. rewrite Nat.add_0_r in H0.
    rewrite (IH (S i) d d' HFl).
    - f_equal. f_equal.
      + unfold eff_cls. destruct c as [| | | | | | |[]| | |]; try reflexivity.
        rewrite (H0 [] _ eq_refl eq_refl). reflexivity.
      + apply Hc. exact H0.
    - intros j c2 Hn. replace (S i + j) with (i + S j) by lia. apply He. exact Hn.
  Qed.

  Lemma sem_ext_on : forall t d d' ctx, agree_on t d d' -> sem I d ctx t = sem I d' ctx t.
  Proof.
    apply (item_children_ind (fun t => forall d d' ctx, agree_on t d d' -> sem I d ctx t = sem I d' ctx t)).
    intros t IH d d' ctx He. rewrite !sem_unfold.
    rewrite (sem_list_ext_on (ctx_for t ctx) (children t) 0 d d' IH).
    - destruct t as [| | | | | | |[]| | |]; simpl; try reflexivity. rewrite (He [] _ eq_refl eq_refl). reflexivity.
    - intros j c Hn q n Hq Hu. unfold shift. simpl. apply (He (j :: q) n); [|exact Hu]. simpl. rewrite Hn. exact Hq.
  Qed.
End SemOn.

Theorem resolve_same_meaning_explicit k ah t r :
  resolve (Some k) ah t = Some r -> std_attrs t ->
  forall I d0 ctx, sem I d0 ctx r = sem I (fun _ => k) ctx t.
Proof.
  intros H Hstd I d0 ctx. rewrite (resolve_same_meaning _ _ _ _ H Hstd I d0 ctx).
  apply sem_ext_on. intros q n Hq Hu.
  assert (Hv : valid_target (Some k) = true) by (unfold resolve in H; destruct (valid_target (Some k)); [reflexivity|discriminate]).
  pose proof (resolution_pointwise _ ah Hv t r (resolve_resolution _ _ _ _ H) q) as Hpw.
  rewrite Hq in Hpw. destruct (subtree_at r q) as [n'|] eqn:Hr; [|contradiction].
  destruct Hpw as [H1 _]. rewrite Hu in H1. destruct H1 as [k' [Hal Hk]]. simpl in Hal. subst k'.
  destruct (cls_is_op _ _ Hk) as [m [ops Hn]]. unfold chosen. rewrite Hr, Hn. reflexivity.
Qed.

