(* MeaningProofs.v — lemmas for property C11:
   A. the meaning depends on the fingerprint only: luqum-equal trees, trees equal up to layout, a tree
      and its layout-erased form have the same meaning;
   B. every tree the parser returns (ANY LR tables) satisfies the constructor invariant `wf_node` at every
      node (an implicit degree / force has its default value, an explicit boost force is normalised) —
      an invariant of the semantic actions, pattern of PrettyProofs.parse_ops_nonempty;
   C. the default copy of a parsed tree prints the query back (under C01's guard) and re-parses to the
      very same tree;
   D. the truth-table comparison `meaning_eqb` is sound and complete for "same meaning". *)
Require Import Base Decimal Tree TreeEq GenTree Eq EqSpec Print TreeInd EqProofs Meaning.
Require Import GenParser Lexer Actions LR Parser Erase LRProofs Traverse TraverseProofs.
From Coq Require Import Lia.

(* ================================================================ A. sem respects equality *)

Lemma sem_fingerprint d v a b : fingerprint a = fingerprint b -> sem d v a = sem d v b.
Proof. unfold sem. intros H. rewrite H. reflexivity. Qed.

Lemma atoms_fingerprint a b : fingerprint a = fingerprint b -> atoms a = atoms b.
Proof. unfold atoms. intros H. rewrite H. reflexivity. Qed.

(* luqum's == *)
Theorem sem_item_eqb d v a b : item_eqb a b = true -> sem d v a = sem d v b.
Proof. intros H. apply sem_fingerprint. apply eq_iff_fingerprint. exact H. Qed.

Lemma fingerprint_layout_erase : forall a, fingerprint (Erase.erase a) = fingerprint a.
Proof.
  induction a using item_ind'; simpl; try congruence.
  f_equal. rewrite map_map. induction H as [|c l Hc _ IH]; simpl; [reflexivity|]. rewrite Hc, IH. reflexivity.
Qed.

Theorem sem_erase d v a : sem d v (Erase.erase a) = sem d v a.
Proof. apply sem_fingerprint, fingerprint_layout_erase. Qed.

Theorem sem_same_erase d v a b : Erase.erase a = Erase.erase b -> sem d v a = sem d v b.
Proof.
  intros H. rewrite <- (sem_erase d v a), <- (sem_erase d v b), H. reflexivity.
Qed.

Lemma same_erase_item_eqb a b : Erase.erase a = Erase.erase b -> item_eqb a b = true.
Proof.
  intros H. apply eq_iff_fingerprint.
  rewrite <- (fingerprint_layout_erase a), <- (fingerprint_layout_erase b), H. reflexivity.
Qed.

(* ================================================================ B. parsed trees are well formed *)

Fixpoint all_wfb (t : item) : bool :=
  TraverseProofs.wf_nodeb t &&
  match t with
  | Op _ _ ops => forallb all_wfb ops
  | SearchField _ _ e | Grp _ _ e | Boost _ e _ _ => all_wfb e
  | Fuzzy _ x _ _ | Proximity _ x _ _ => all_wfb x
  | Unary _ _ a | ORange _ _ a _ => all_wfb a
  | Range _ lo hi _ _ => all_wfb lo && all_wfb hi
  | Term _ _ _ | NoneItem _ => true
  end.

Lemma all_wfb_unfold t : all_wfb t = TraverseProofs.wf_nodeb t && forallb all_wfb (children t).
Proof. destruct t; cbn [all_wfb children forallb]; rewrite ?andb_true_r; reflexivity. Qed.

Lemma all_wfb_here t : all_wfb t = true -> TraverseProofs.wf_nodeb t = true.
Proof. rewrite all_wfb_unfold. intros H. apply andb_prop in H. apply H. Qed.

Lemma all_wfb_children t : all_wfb t = true -> forallb all_wfb (children t) = true.
Proof. rewrite all_wfb_unfold. intros H. apply andb_prop in H. apply H. Qed.

Lemma all_wfb_all_nodes : forall p t n, all_wfb t = true -> subtree_at t p = Some n -> all_wfb n = true.
Proof.
  induction p as [|i p IH]; intros t n Hw Hs; simpl in Hs.
  - inversion Hs; subst. exact Hw.
  - destruct (nth_error (children t) i) as [c|] eqn:Hc; [|discriminate].
    apply (IH c n); [|exact Hs].
    pose proof (all_wfb_children t Hw) as Hall. rewrite forallb_forall in Hall.
    apply Hall. eapply nth_error_In. exact Hc.
Qed.

Theorem all_wfb_spec t : all_wfb t = true -> all_nodes TraverseProofs.wf_node t.
Proof.
  intros Hw p n Hs. apply TraverseProofs.wf_nodeb_ok. apply all_wfb_here. eapply all_wfb_all_nodes; eassumption.
Qed.

Definition wf_val (v : symval) : Prop :=
  match v with VItem i => all_wfb i = true | VTok _ _ _ => True end.

Lemma wfn_set_meta i m : TraverseProofs.wf_nodeb (set_meta i m) = TraverseProofs.wf_nodeb i.
Proof. destruct i; reflexivity. Qed.
Lemma wf_set_meta i m : all_wfb (set_meta i m) = all_wfb i.
Proof. destruct i; reflexivity. Qed.
Lemma wf_add_head i s : all_wfb (add_head i s) = all_wfb i.
Proof. apply wf_set_meta. Qed.
Lemma wf_add_tail i s : all_wfb (add_tail_i i s) = all_wfb i.
Proof. apply wf_set_meta. Qed.

Lemma wf_operands k (x : item) :
  all_wfb x = true ->
  forallb all_wfb (if match x with Op k' _ _ => opk_eqb k k' | _ => false end then children x else [x]) = true.
Proof.
  intros Hx. destruct x; try (cbn [forallb]; rewrite Hx; reflexivity).
  destruct (opk_eqb k k0).
  - apply (all_wfb_children _ Hx).
  - cbn [forallb]. rewrite Hx. reflexivity.
Qed.

Local Opaque htm_pos.

Lemma binary_wf k a opv b v evs :
  binary k a opv b = Ok (v, evs) -> all_wfb a = true -> all_wfb b = true -> wf_val v.
Proof.
  unfold binary. intros H Ha Hb.
  pose proof (wf_operands k b Hb) as HB.
  destruct (if match b with Op k' _ _ => opk_eqb k k' | _ => false end then children b else [b])
    as [|b0 brest] eqn:HopsB; [discriminate|].
  destruct (htm_pos _ false false) as [pos size]. inversion H; subst; clear H.
  simpl. rewrite forallb_app. rewrite (wf_operands k a Ha). simpl in HB. simpl.
  rewrite wf_add_head. exact HB.
Qed.

Lemma dec_struct_eqb_refl' d : dec_struct_eqb d d = true.
Proof. apply TraverseProofs.dec_struct_eqb_refl. Qed.

Theorem run_action_wf a args v evs :
  run_action a args = Ok (v, evs) -> Forall wf_val args -> wf_val v.
Proof.
  intros H Hok.
  assert (Hunit : forall x, args = [x] -> v = x -> wf_val v).
  { intros x E1 E2. subst. inversion Hok; subst. assumption. }
  destruct a; simpl in H;
    repeat match type of H with
    | match ?l with [] => _ | _ :: _ => _ end = _ => destruct l as [|? ?]; try discriminate
    | match ?x with VItem _ => _ | VTok _ _ _ => _ end = _ => destruct x; try discriminate
    | match ?o with Some _ => _ | None => _ end = _ => destruct o eqn:?; try discriminate
    | match ?i with Term _ _ _ => _ | _ => _ end = _ => destruct i; try discriminate
    end;
    try (inversion H; subst; clear H; eapply Hunit; reflexivity).
  all: repeat match goal with
       | Hx : Forall wf_val (_ :: _) |- _ => apply Forall_cons_iff in Hx; destruct Hx as [? Hx]
       end.
  all: simpl wf_val in *.
  all: try (eapply binary_wf; eassumption).
  all: try (inversion H; subst; clear H; cbn [all_wfb TraverseProofs.wf_nodeb wf_val];
            rewrite ?wf_add_tail, ?wf_add_head, ?EqProofs.dec_normalize_idem, ?dec_struct_eqb_refl';
            try assumption; try reflexivity).
  - (* range *)
    repeat match goal with Hx : all_wfb _ = true |- _ => rewrite Hx; clear Hx end. reflexivity.
  - (* field search *)
    rewrite andb_true_l.
    match goal with |- all_wfb (match ?e with Grp _ _ _ => _ | _ => _ end) = true =>
      destruct e as [| |[]| | | | | | | |] end; assumption.
Qed.

Lemma token_value_wf t : wf_val (token_value t).
Proof. unfold token_value. destruct (tk_type t); simpl; auto. Qed.

Section AnyTablesWf.
  Variable tb : tables.

  Ltac break H := repeat match type of H with
    | match ?x with _ => _ end = _ => destruct x eqn:?; try discriminate
    | (if ?b then _ else _) = _ => destruct b eqn:?; try discriminate
    end.

  Lemma step_wf lexerr c c' :
    step tb lexerr c = Next c' -> Forall wf_val (c_vals c) -> Forall wf_val (c_vals c').
  Proof.
    unfold step, do_shift, do_reduce, do_accept. intros H HI.
    destruct (c_toks c) as [|t rest] eqn:Htoks; simpl in H; break H; inversion H; subst; clear H; simpl.
    - constructor; [|apply Forall_skipn; exact HI].
      eapply run_action_wf; [eassumption|]. apply Forall_rev, Forall_firstn, HI.
    - constructor; [apply token_value_wf|exact HI].
    - constructor; [|apply Forall_skipn; exact HI].
      eapply run_action_wf; [eassumption|]. apply Forall_rev, Forall_firstn, HI.
  Qed.

  Lemma step_final_wf lexerr c t evs :
    step tb lexerr c = Final (Ok t) evs -> Forall wf_val (c_vals c) -> all_wfb t = true.
  Proof.
    unfold step, do_shift, do_reduce, do_accept. intros H HI.
    destruct (c_toks c) as [|tk rest] eqn:Htoks; simpl in H; break H; inversion H; subst; clear H;
      inversion HI; subst; assumption.
  Qed.

  Lemma run_wf lexerr : forall fuel c t evs,
    run tb lexerr fuel c = Done (Ok t) evs -> Forall wf_val (c_vals c) -> all_wfb t = true.
  Proof.
    induction fuel as [|f IH]; intros c t evs H HI; simpl in H; [discriminate|].
    destruct (step tb lexerr c) as [c'|r evs1] eqn:Hs.
    - eapply IH; [exact H|]. eapply step_wf; eassumption.
    - inversion H; subst. eapply step_final_wf; eassumption.
  Qed.

  (* whatever the action / goto tables *)
  Theorem parse_with_wf s t evs : parse_with tb s = Done (Ok t) evs -> all_wfb t = true.
  Proof.
    unfold parse_with. destruct (lex s) as [toks e]. intros Hr. eapply run_wf; [exact Hr|]. constructor.
  Qed.
End AnyTablesWf.

Theorem parse_wfb s t : parse s = Some (Ok t) -> all_wfb t = true.
Proof.
  unfold parse, parse_full. destruct (parse_with gen_tables s) as [r evs|] eqn:Hr; [|discriminate].
  intros H. inversion H; subst. eapply parse_with_wf. exact Hr.
Qed.

Theorem parse_wf s t : parse s = Some (Ok t) -> all_nodes TraverseProofs.wf_node t.
Proof. intros H. apply all_wfb_spec. eapply parse_wfb. exact H. Qed.

(* ================================================================ C. the default copy of a parsed tree *)

Theorem copy_parsed_prints_same s t c :
  parse s = Some (Ok t) -> copy t = Some c -> print true c = print true t /\ item_eqb c t = true.
Proof.
  intros Hp Hc. pose proof (parse_wf s t Hp) as Hwf.
  rewrite copy_dcopy in Hc. inversion Hc; subst. split.
  - apply dcopy_print. eapply all_nodes_impl; [|exact Hwf]. intros n Hn. apply (wf_node_stable n Hn).
  - apply dcopy_eq. eapply all_nodes_impl; [|exact Hwf]. intros n Hn. apply (wf_node_stable n Hn).
Qed.

(* ================================================================ D. the truth-table comparison *)

Section FpInd.
  Variable P : fp -> Prop.
  Hypothesis HTerm : forall k v, P (FTerm k v).
  Hypothesis HField : forall n e, P e -> P (FField n e).
  Hypothesis HGroup : forall k e, P e -> P (FGroup k e).
  Hypothesis HRange : forall il ih lo hi, P lo -> P hi -> P (FRange il ih lo hi).
  Hypothesis HFuzzy : forall d t, P t -> P (FFuzzy d t).
  Hypothesis HProx : forall d t, P t -> P (FProximity d t).
  Hypothesis HBoost : forall f e, P e -> P (FBoost f e).
  Hypothesis HOp : forall k ops, Forall P ops -> P (FOp k ops).
  Hypothesis HUnary : forall k a, P a -> P (FUnary k a).
  Hypothesis HORange : forall k i a, P a -> P (FORange k i a).
  Hypothesis HNone : P FNone.

  Fixpoint fp_ind' (t : fp) : P t :=
    match t with
    | FTerm k v => HTerm k v
    | FField n e => HField n e (fp_ind' e)
    | FGroup k e => HGroup k e (fp_ind' e)
    | FRange il ih lo hi => HRange il ih lo hi (fp_ind' lo) (fp_ind' hi)
    | FFuzzy d t => HFuzzy d t (fp_ind' t)
    | FProximity d t => HProx d t (fp_ind' t)
    | FBoost f e => HBoost f e (fp_ind' e)
    | FOp k ops =>
        HOp k ops ((fix go (l : list fp) : Forall P l :=
                      match l with
                      | [] => Forall_nil P
                      | c :: l' => Forall_cons c (fp_ind' c) (go l')
                      end) ops)
    | FUnary k a => HUnary k a (fp_ind' a)
    | FORange k i a => HORange k i a (fp_ind' a)
    | FNone => HNone
    end.
End FpInd.

Lemma fp_eqb_eq : forall a b, fp_eqb a b = true -> a = b.
Proof.
  induction a using fp_ind'; intros b Hb; destruct b; simpl in Hb; try discriminate;
    repeat match goal with
    | Hx : _ && _ = true |- _ => apply andb_prop in Hx; destruct Hx
    end;
    repeat match goal with
    | Hx : str_eqb _ _ = true |- _ => apply str_eqb_eq in Hx
    | Hx : Bool.eqb _ _ = true |- _ => apply Bool.eqb_prop in Hx
    | Hx : dec_struct_eqb _ _ = true |- _ => apply TraverseProofs.dec_struct_eqb_eq in Hx
    | Hx : Z.eqb _ _ = true |- _ => apply Z.eqb_eq in Hx
    | Hx : fp_eqb ?x _ = true, IH : forall b, fp_eqb ?x b = true -> _ |- _ => apply IH in Hx
    end; subst; try reflexivity.
  - destruct k, k0; try discriminate; reflexivity.
  - destruct k, k0; try discriminate; reflexivity.
  - assert (ops = ops0); [|destruct k, k0; try discriminate; subst; reflexivity].
    match goal with Hx : _ ops ops0 = true |- _ => revert ops0 Hx end. clear -H.
    induction H as [|c l Hc _ IH]; intros [|c' l'] Hx; try discriminate; [reflexivity|].
    apply andb_prop in Hx. destruct Hx as [H1 H2]. rewrite (Hc _ H1), (IH _ H2). reflexivity.
  - destruct k, k0; try discriminate; reflexivity.
  - destruct k, k0; try discriminate; reflexivity.
Qed.

Lemma fp_eqb_refl : forall a, fp_eqb a a = true.
Proof.
  induction a using fp_ind'; simpl;
    rewrite ?str_eqb_refl, ?Bool.eqb_reflx, ?TraverseProofs.dec_struct_eqb_refl, ?Z.eqb_refl; simpl;
    repeat match goal with IH : fp_eqb _ _ = true |- _ => rewrite IH; clear IH end; simpl; try reflexivity;
    try (destruct k; reflexivity).
  replace (opk_beq k k) with true by (destruct k; reflexivity). simpl.
  induction H as [|c l Hc _ IH]; [reflexivity|]. rewrite Hc, IH. reflexivity.
Qed.

Lemma ctxel_eqb_eq a b : ctxel_eqb a b = true <-> a = b.
Proof.
  destruct a, b; simpl; split; intros H; try discriminate.
  - apply str_eqb_eq in H. congruence.
  - inversion H; subst. apply str_eqb_refl.
  - apply TraverseProofs.dec_struct_eqb_eq in H. congruence.
  - inversion H; subst. apply TraverseProofs.dec_struct_eqb_refl.
Qed.

Lemma atom_eqb_eq a b : atom_eqb a b = true <-> a = b.
Proof.
  destruct a as [c x], b as [c' x']. unfold atom_eqb. simpl. split.
  - intros H. apply andb_prop in H. destruct H as [H1 H2].
    apply (list_eqb_eq ctxel_eqb ctxel_eqb_eq) in H1. apply fp_eqb_eq in H2. congruence.
  - intros H. inversion H; subst. rewrite fp_eqb_refl.
    rewrite (proj2 (list_eqb_eq ctxel_eqb ctxel_eqb_eq c' c') eq_refl). reflexivity.
Qed.

Lemma mem_atom_In a l : mem_atom a l = true <-> In a l.
Proof.
  unfold mem_atom. rewrite existsb_exists. split.
  - intros [x [Hx He]]. apply atom_eqb_eq in He. subst. exact Hx.
  - intros H. exists a. split; [exact H|]. apply atom_eqb_eq. reflexivity.
Qed.

Lemma dedup_In a l : In a (dedup l) <-> In a l.
Proof.
  induction l as [|x l IH]; simpl; [tauto|].
  destruct (mem_atom x l) eqn:E.
  - rewrite IH. split; [auto|]. intros [->|H]; [apply mem_atom_In; exact E|exact H].
  - simpl. rewrite IH. tauto.
Qed.

Lemma filter_in_sublists (f : atom -> bool) : forall l, In (filter f l) (sublists l).
Proof.
  induction l as [|a l IH]; simpl; [auto|]. apply in_or_app.
  destruct (f a); [right; apply in_map; exact IH|left; exact IH].
Qed.

Lemma forallb_ext_in {A} (f g : A -> bool) l : (forall x, In x l -> f x = g x) -> forallb f l = forallb g l.
Proof.
  induction l as [|a l IH]; simpl; intros H; [reflexivity|]. rewrite (H a), IH; auto.
Qed.
Lemma existsb_ext_in {A} (f g : A -> bool) l : (forall x, In x l -> f x = g x) -> existsb f l = existsb g l.
Proof.
  induction l as [|a l IH]; simpl; intros H; [reflexivity|]. rewrite (H a), IH; auto.
Qed.

(* the meaning only looks at the atoms of the tree *)
Lemma fsem_ext d v v' : forall t cx,
  (forall x, In x (fatoms cx t) -> v x = v' x) -> fsem d v cx t = fsem d v' cx t.
Proof.
  induction t using fp_ind'; intros cx Hv; simpl in *; try (apply Hv; left; reflexivity); auto.
  - (* operations *)
    assert (E : forall c, In c ops -> fsem d v cx c = fsem d v' cx c).
    { intros c Hc. rewrite Forall_forall in H. apply (H c Hc). intros x Hx. apply Hv.
      apply in_flat_map. exists c. auto. }
    destruct k.
    + apply forallb_ext_in. exact E.
    + apply existsb_ext_in. exact E.
    + destruct d; [apply forallb_ext_in|apply existsb_ext_in]; exact E.
    + unfold bool_reading. f_equal.
      * apply forallb_ext_in. intros c Hc. rewrite (E c Hc). reflexivity.
      * destruct (existsb is_plain ops && negb (existsb is_plus ops)); [|reflexivity].
        apply existsb_ext_in. intros c Hc. rewrite (E c Hc). reflexivity.
  - destruct k; rewrite (IHt cx Hv); reflexivity.
Qed.

Lemma sem_ext d v v' t : (forall x, In x (atoms t) -> v x = v' x) -> sem d v t = sem d v' t.
Proof. apply fsem_ext. Qed.

Theorem meaning_eqb_correct a b : meaning_eqb a b = true <-> forall d v, sem d v a = sem d v b.
Proof.
  unfold meaning_eqb. split.
  - intros H d v. rewrite forallb_forall in H.
    set (L := dedup (atoms a ++ atoms b)) in *.
    specialize (H (filter v L) (filter_in_sublists v L)).
    assert (Hag : forall x, In x L -> v x = val_of (filter v L) x).
    { intros x Hx. unfold val_of. destruct (v x) eqn:E.
      - symmetry. apply mem_atom_In. apply filter_In. auto.
      - symmetry. destruct (mem_atom x (filter v L)) eqn:E2; [|reflexivity].
        apply mem_atom_In, filter_In in E2. destruct E2; congruence. }
    assert (Ha : sem d v a = sem d (val_of (filter v L)) a).
    { apply sem_ext. intros x Hx. apply Hag. apply dedup_In. apply in_or_app. auto. }
    assert (Hb : sem d v b = sem d (val_of (filter v L)) b).
    { apply sem_ext. intros x Hx. apply Hag. apply dedup_In. apply in_or_app. auto. }
    rewrite Ha, Hb. apply andb_prop in H. destruct H as [H1 H2].
    destruct d; apply Bool.eqb_prop; assumption.
  - intros H. apply forallb_forall. intros l _. rewrite !H, !Bool.eqb_reflx. reflexivity.
Qed.
