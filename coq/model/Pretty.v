(* Pretty.v — luqum.pretty.Prettifier: _get_chains, _count_chars, _apply_stick, _concatenates,
   __call__.  Executable definitions only.

   Python values                              model
     str chunk / _STICK_MARKER / list          chain  = CStr s | CStick | CSub l
     (chunk, n) pairs built by _count_chars    wchain = WStr s n | WStick n | WSub l n
     the `elements` list of _concatenates      list elem  (EStr s | EStick)
     exceptions                                pres: PAssert (the assertion of _apply_stick),
                                               PNoneSplit (AttributeError: `None.split`, the
                                               generator's final `yield last` with last = None),
                                               PAttr (AttributeError on element.expr / .name / .op;
                                               dead with the generated class tables: see pretty_tie) *)
Require Import Base Decimal Tree GenTree Visitor Print.

Inductive chain := CStr (s : str) | CStick | CSub (l : list chain).

(* ------------------------------------------------------------------ _get_chains *)

(* the isinstance cascade of _get_chains, through the generated MROs *)
Inductive ekind := EOp | EGroup | EField | ESimple.
Definition kind_of (c : cls) : ekind :=
  if isinstance c CBaseOperation then EOp
  else if isinstance c CBaseGroup then EGroup
  else if isinstance c CSearchField then EField
  else ESimple.

(* `not isinstance(parent, BaseOperation) or element.op == parent.op` ; parent = None at the root.
   None = AttributeError (a BaseOperation parent without `op`) *)
Definition same_level (parent : option cls) (op : str) : option bool :=
  match parent with
  | None => Some true
  | Some pc =>
      if isinstance pc CBaseOperation then
        match gen_op pc with Some pop => Some (str_eqb op pop) | None => None end
      else Some true
  end.

(* what is yielded between two children: the stick marker when inline_ops, then the operator when
   it is a non-empty string (`if element.op:`) *)
Definition between (inl : bool) (op : str) : list chain :=
  (if inl then [CStick] else []) ++ (match op with [] => [] | _ => [CStr op] end).

(* the loop over element.children of the two operation branches *)
Definition ops_walk (f : item -> option (list chain)) (inl : bool) (op : str) :=
  fix go (l : list item) : option (list chain) :=
    match l with
    | [] => Some []
    | c :: l' =>
        match f c with
        | None => None
        | Some a =>
            match go l' with
            | None => None
            | Some b => Some (a ++ (match l' with [] => [] | _ => between inl op end) ++ b)
            end
        end
    end.

Definition s_lparen : str := [c_lparen].
Definition s_rparen : str := [c_rparen].

(* list(self._get_chains(element, parent)) ; None = AttributeError *)
Fixpoint get_chains (inl : bool) (parent : option cls) (t : item) {struct t} : option (list chain) :=
  let c := cls_of t in
  let rec := get_chains inl (Some c) in
  match kind_of c with
  | EOp =>
      match gen_op c with
      | None => None                                   (* element.op *)
      | Some op =>
          let body :=
            match t with
            | Term _ _ _ | NoneItem _ => ops_walk rec inl op []
            | SearchField _ _ e | Grp _ _ e | Boost _ e _ _ => ops_walk rec inl op [e]
            | Fuzzy _ x _ _ | Proximity _ x _ _ => ops_walk rec inl op [x]
            | Unary _ _ a | ORange _ _ a _ => ops_walk rec inl op [a]
            | Range _ lo hi _ _ => ops_walk rec inl op [lo; hi]
            | Op _ _ ops => ops_walk rec inl op ops
            end in
          match same_level parent op, body with
          | Some true, Some b => Some b                (* same level, this is just associativity *)
          | Some false, Some b => Some [CSub b]        (* another operation, raise level *)
          | _, _ => None
          end
      end
  | EGroup =>
      match t with
      | SearchField _ _ e | Grp _ _ e | Boost _ e _ _ =>        (* the classes with an `expr` attribute *)
          match rec e with
          | Some b => Some ([CStr s_lparen; CSub b] ++ (if inl then [CStick] else []) ++ [CStr s_rparen])
          | None => None
          end
      | _ => None
      end
  | EField =>
      match t with
      | SearchField _ n e =>                                    (* the class with `name` and `expr` *)
          match rec e with
          | Some b => Some (CStr (n ++ [c_colon]) :: CStick :: b)
          | None => None
          end
      | _ => None
      end
  | ESimple => Some [CStr (print false t)]                      (* str(element) *)
  end.

(* tie obligation on the generated tables: every concrete class that is a BaseOperation has an `op`,
   and the classes the isinstance cascade sends to the group / field branches are the ones that
   have the attributes these branches read *)
Definition pretty_tie : bool :=
  forallb (fun c =>
    match kind_of c with
    | EOp => match gen_op c with Some _ => true | None => false end
    | EGroup => cls_eqb c CGroup || cls_eqb c CFieldGroup
    | EField => cls_eqb c CSearchField
    | ESimple => true
    end) concrete_classes.

(* ------------------------------------------------------------------ _count_chars *)

Inductive wchain := WStr (s : str) (n : Z) | WStick (n : Z) | WSub (l : list wchain) (n : Z).
Definition wcount (w : wchain) : Z := match w with WStr _ n | WStick n | WSub _ n => n end.

(* sum(n + 1 for c, n in with_counts) - 1 *)
Definition sum_counts (wl : list wchain) : Z :=
  (fold_right (fun w acc => wcount w + 1 + acc) 0 wl - 1)%Z.

Fixpoint count_chars (c : chain) : wchain :=
  match c with
  | CStr s => WStr s (Z.of_nat (length s))
  | CStick => WStick 0                                  (* len(_STICK_MARKER) == 0 *)
  | CSub l => let wl := map count_chars l in WSub wl (sum_counts wl)
  end.

(* ------------------------------------------------------------------ _apply_stick *)

Inductive pres (A : Type) := POk (a : A) | PAssert | PNoneSplit | PAttr.
Arguments POk {A}. Arguments PAssert {A}. Arguments PNoneSplit {A}. Arguments PAttr {A}.

Inductive elem := EStr (s : str) | EStick.

(* generator state: None = `last is None`; Some (last, sticking).  The result is what the consumer
   (`c.split("\n")` on every yielded value) sees: the yielded strings, or the first exception —
   the assertion when a marker comes while last is None, or AttributeError on the final
   `yield last` when last is still None (elements was empty) *)
Fixpoint apply_stick_from (st : option (str * bool)) (l : list elem) : pres (list str) :=
  match l with
  | [] => match st with None => PNoneSplit | Some (x, _) => POk [x] end
  | EStick :: l' =>
      match st with
      | None => PAssert
      | Some (x, _) => apply_stick_from (Some (x, true)) l'
      end
  | EStr cur :: l' =>
      match st with
      | None => apply_stick_from (Some (cur, false)) l'
      | Some (x, true) => apply_stick_from (Some (x ++ [c_space] ++ cur, false)) l'
      | Some (x, false) =>
          match apply_stick_from (Some (cur, false)) l' with
          | POk r => POk (x :: r)
          | PAssert => PAssert | PNoneSplit => PNoneSplit | PAttr => PAttr
          end
      end
  end.
Definition apply_stick (l : list elem) : pres (list str) := apply_stick_from None l.

(* ------------------------------------------------------------------ _concatenates *)

(* str.split("\n") *)
Fixpoint split_nl (s : str) : list str :=
  match s with
  | [] => [[]]
  | c :: s' =>
      if N.eqb c c_nl then [] :: split_nl s'
      else match split_nl s' with x :: r => (c :: x) :: r | [] => [[c]] end
  end.

Record pcfg := mkPcfg { p_indent : Z; p_max_len : Z; p_inline : bool }.

(* self.prefix = " " * self.indent *)
Definition prefix_of (cfg : pcfg) : str := repeat c_space (Z.to_nat (p_indent cfg)).

(* the list comprehension building `elements`: inner lists are concatenated first, left to right
   (f = the recursive call of _concatenates on an inner list) *)
Definition elems_of (f : wchain -> pres str) :=
  fix go (l : list wchain) : pres (list elem) :=
    match l with
    | [] => POk []
    | w :: l' =>
        let rest (e : elem) :=
          match go l' with
          | POk r => POk (e :: r)
          | PAssert => PAssert | PNoneSplit => PNoneSplit | PAttr => PAttr
          end in
        match w with
        | WStr s _ => rest (EStr s)
        | WStick _ => rest EStick
        | WSub _ _ =>
            match f w with
            | POk s => rest (EStr s)
            | PAssert => PAssert | PNoneSplit => PNoneSplit | PAttr => PAttr
            end
        end
    end.

(* the body of _concatenates(chain_with_counts = l, char_counts = n, level, in_one_liner = iol);
   f = _concatenates itself on an inner (list, count) pair *)
Definition conc_body (cfg : pcfg) (f : wchain -> Z -> bool -> pres str)
    (l : list wchain) (n : Z) (level : Z) (iol : bool) : pres str :=
  let one_liner := iol || (n <? p_max_len cfg - p_indent cfg * level)%Z in
  let new_level := if one_liner then level else (level + 1)%Z in
  match elems_of (fun w => f w new_level one_liner) l with
  | POk els =>
      match apply_stick els with
      | POk strs =>
          let prefix := if negb (level =? 0)%Z && negb iol then prefix_of cfg else [] in
          let join_char := if one_liner then [c_space] else c_nl :: prefix in
          POk (prefix ++ join join_char (flat_map split_nl strs))
      | PAssert => PAssert | PNoneSplit => PNoneSplit | PAttr => PAttr
      end
  | PAssert => PAssert | PNoneSplit => PNoneSplit | PAttr => PAttr
  end.

(* the recursion is on the nested (list, count) pair WSub l n; the two other cases are never
   called (elems_of calls f on WSub only) *)
Fixpoint conc_w (cfg : pcfg) (w : wchain) (level : Z) (iol : bool) {struct w} : pres str :=
  match w with
  | WSub l n => conc_body cfg (conc_w cfg) l n level iol
  | WStr s _ => POk s
  | WStick _ => PAssert
  end.

Definition concatenates (cfg : pcfg) (l : list wchain) (n : Z) (level : Z) (iol : bool) : pres str :=
  conc_body cfg (conc_w cfg) l n level iol.

(* ------------------------------------------------------------------ __call__ *)

Definition pretty_res (cfg : pcfg) (t : item) : pres str :=
  match get_chains (p_inline cfg) None t with
  | None => PAttr
  | Some chains =>
      (* chain_with_counts, total = self._count_chars(chains) *)
      let wl := map count_chars chains in
      concatenates cfg wl (sum_counts wl) 0 false
  end.

Definition pretty (cfg : pcfg) (t : item) : option str :=
  match pretty_res cfg t with POk s => Some s | _ => None end.
