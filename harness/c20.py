"""C20 — LuceneCheck is total, consistent, and finds an ill-formed construct anywhere.

Correspondence: model (coq/model/Check.v: errors / call / wellformed / has_defect) against
luqum.check.LuceneCheck on (a) a fixed corpus, (b) random trees with every item class at the root
and odd shapes (gentree.Gen), (c) well-formed trees, (d) well-formed-ish contexts with ONE defect of
each kind of the property plugged at a random depth; zeal in {0, 1, 2, -1}.  Messages are compared by
kind (fixed part of the format string) and order, exceptions by class.

Oracle (independent of the model, evaluated on the implementation): no exception; __call__ ==
(errors == []); tree unmodified; well-formed => no message; plugged defect => its message is present
and __call__ is False.

\\w and \\s are the generated Unicode classes (gen/GenChars.v through Lexer.is_word_char / is_space);
names and values with non-ASCII characters are generated too.
"""
import copy
from decimal import Decimal

import lib
import gentree
from runner import CorrResult

PREFIXES = [
    ("Unknown item type ", "MUnknownItem"),
    ("field expression is not valid : ", "MFieldExpr"),
    ("Group misuse, after SearchField you should use Group :", "MGroupMisuse"),   # a no-break space follows
    ("FieldGroup misuse, it must be used after SearchField :", "MFieldGroupMisuse"),
    ("A single term value can't hold a space ", "MSpace"),
    ("Invalid characters in term value: ", "MInvalidChars"),
    ("invalid degree ", "MNegDegree"),
    ("Fuzzy should be on a single term in ", "MFuzzyNotWord"),
    ("Proximity can be only on a phrase in ", "MProxNotPhrase"),
    ("Prohibit or Not really means 'AND NOT' ", "MNotInOr"),
]
FIELD_NAME_SUFFIX = " is not a valid field name"
EXN = {"IndexError": "IndexError", "AttributeError": "AttributeError"}

DEFECT_MSG = {
    "DSpaceInWord": "MSpace", "DFuzzyNonWord": "MFuzzyNotWord", "DProxNonPhrase": "MProxNotPhrase",
    "DNegFuzzy": "MNegDegree", "DBadFieldName": "MFieldName", "DNonValueFieldExpr": "MFieldExpr",
    "DMisplacedGroup": "MGroupMisuse", "DMisplacedFieldGroup": "MFieldGroupMisuse",
}


def kind_of(msg):
    for p, k in PREFIXES:
        if msg.startswith(p):
            return k
    if msg.endswith(FIELD_NAME_SUFFIX):
        return "MFieldName"
    return None       # a message the model has no kind for (reported as a disagreement by the caller)


# ---------------------------------------------------------------- the property's vocabulary, in Python

def is_space(c):
    return c.isspace()


def is_word_char(c):
    return c.isalnum() or c == "_"


def valid_field_name(n):
    return len(n) > 0 and all(is_word_char(c) for c in n)


def value_expr(T, e):
    return type(e) in (T.Word, T.Phrase, T.Regex, T.Fuzzy, T.Proximity, T.Boost, T.FieldGroup, T.Range, T.From, T.To)


def range_bound(T, e):
    return type(e) in (T.Word, T.Phrase) or (type(e) is T.Prohibit and type(e.a) in (T.Word, T.Phrase))


def wellformed(T, t, zeal, parent=None, lenient=False):
    """lenient: the bounds of a two-sided range are VALUES (dates, date math, paths, signed numbers), not terms of
    the query: the zealous rule on + / - in a word does not apply to them (Python oracle only; the Coq predicate
    `wellformed` is the strict one)"""
    k = type(t)
    z = bool(zeal)
    if lenient:
        def wellformed_(T_, t_, zeal_, parent_=None):
            return wellformed(T_, t_, zeal_, parent_, lenient=True)
    else:
        wellformed_ = wellformed
    if k is T.Word:
        return (not any(is_space(c) for c in t.value)) and not (z and any(c in "+/-" for c in t.value))
    if k in (T.Phrase, T.Regex):
        return True
    if k is T.SearchField:
        return valid_field_name(t.name) and value_expr(T, t.expr) and wellformed_(T, t.expr, zeal, k)
    if k is T.Group:
        return parent is not T.SearchField and wellformed_(T, t.expr, zeal, k)
    if k is T.FieldGroup:
        return parent is T.SearchField and wellformed_(T, t.expr, zeal, k)
    if k is T.Range:
        zb = 0 if lenient else zeal
        return (range_bound(T, t.low) and range_bound(T, t.high) and wellformed_(T, t.low, zb, k)
                and wellformed_(T, t.high, zb, k))
    if k is T.Fuzzy:
        return (type(t.term) is T.Word and wellformed_(T, t.term, zeal, k)
                and not t.degree.is_signed())
    if k is T.Proximity:
        return type(t.term) is T.Phrase and wellformed_(T, t.term, zeal, k)
    if k is T.Boost:
        return wellformed_(T, t.expr, zeal, k)
    if k in (T.AndOperation, T.OrOperation, T.UnknownOperation, T.BoolOperation):
        return all(wellformed_(T, c, zeal, k) for c in t.operands)
    if k in (T.Plus, T.Not, T.Prohibit):
        if z and k in (T.Not, T.Prohibit) and parent is T.OrOperation:
            return False
        return wellformed_(T, t.a, zeal, k)
    if k in (T.From, T.To):
        return range_bound(T, t.a) and wellformed_(T, t.a, zeal, k)
    return False          # NoneItem, anything else


# ---------------------------------------------------------------- generators

class WF:
    """random well-formed trees (for a given zeal)"""
    WORDS = ["a", "b", "foo", "x1", "*", "w?ld*", "TO", "1", "2024_01", "a.b", "a:b", "\u00e9t\u00e9",
             "\u65e5\u672c", "\u20ac5", "\u0663",
             # words a numeric library reads as special values, escapes
             "nan", "NaN", "sNaN", "inf", "Infinity", "1e999", "0x10", "a\\b", "a\\\\", "x\\*"]
    PITFALL_WORDS = ["a-b", "+x", "1/2", "2024-01-01"]
    PHRASES = ['"a"', '"a b"', '""', '"l1\nl2"', '"x - y"']
    REGEXES = ["/a/", "/a b/", "//"]
    NAMES = ["f", "title", "f_1", "x9", "_", "0", "\u00e9", "na\u00efve", "\u65e5\u672c", "\u0663", "\u00b5"]
    DEGS = [None, "1", "0.5", 2, Decimal("1.50"), "0", Decimal("0.0")]

    def __init__(self, r, T, zeal):
        self.r, self.T, self.z = r, T, bool(zeal)

    def word(self):
        ws = self.WORDS if self.z else self.WORDS + self.PITFALL_WORDS
        return self.T.Word(self.r.choice(ws))

    def phrase(self):
        return self.T.Phrase(self.r.choice(self.PHRASES))

    def bound(self):
        return self.word() if self.r.random() < 0.7 else self.phrase()

    def range_bound(self):
        # ordinary bounds of a two-sided range, whatever the zeal: dates, date math, paths, signed numbers
        if self.r.random() < 0.4:
            return self.T.Word(self.r.choice(self.PITFALL_WORDS + ["2012-12-31", "now-1d", "now+1d/d", "a/c", "+5", "-5", "*"]))
        return self.bound()

    def value(self, depth):
        T, r = self.T, self.r
        k = r.choice(["word", "phrase", "fuzzy", "prox", "boost", "fgroup", "range", "regex", "from", "to"]) \
            if depth > 0 else r.choice(["word", "phrase", "fuzzy", "prox", "range", "regex", "from", "to"])
        if k == "range":
            b = lambda: self.range_bound() if r.random() < 0.8 else T.Prohibit(self.bound())  # noqa
            return T.Range(b(), b(), r.random() < 0.5, r.random() < 0.5)
        if k == "regex":
            return T.Regex(r.choice(self.REGEXES))
        if k in ("from", "to"):
            return (T.From if k == "from" else T.To)(self.bound(), r.random() < 0.5)
        if k == "word":
            return self.word()
        if k == "phrase":
            return self.phrase()
        if k == "fuzzy":
            return T.Fuzzy(self.word(), r.choice(self.DEGS))
        if k == "prox":
            return T.Proximity(self.phrase(), r.choice([None, 1, 2, 0, "3"]))
        if k == "boost":
            return T.Boost(self.expr(depth - 1, T.Boost), r.choice(["1", "2.5", None, 0]))
        return T.FieldGroup(self.expr(depth - 1, T.FieldGroup))

    def expr(self, depth, parent=None):
        T, r = self.T, self.r
        if depth <= 0:
            return r.choice([self.word, self.word, self.phrase,
                             lambda: T.Regex(r.choice(self.REGEXES))])()
        kinds = ["word", "phrase", "regex", "field", "range", "fuzzy", "prox", "boost", "and", "or",
                 "unk", "bool", "plus", "from", "to", "and", "or"]
        if parent is not T.SearchField:
            kinds.append("group")
        if not (self.z and parent is T.OrOperation):
            kinds += ["not", "prohibit"]
        k = r.choice(kinds)
        if k == "word":
            return self.word()
        if k == "phrase":
            return self.phrase()
        if k == "regex":
            return T.Regex(r.choice(self.REGEXES))
        if k == "field":
            return T.SearchField(r.choice(self.NAMES), self.value(depth - 1))
        if k == "group":
            return T.Group(self.expr(depth - 1, T.Group))
        if k == "range":
            return T.Range(self.range_bound(), self.range_bound(), r.random() < 0.5, r.random() < 0.5)
        if k in ("fuzzy", "prox", "boost"):
            v = self.value(1 if k != "boost" else depth)
            while type(v).__name__.lower()[:4] != k[:4]:
                v = self.value(1 if k != "boost" else depth)
            return v
        if k in ("and", "or", "unk", "bool"):
            c = {"and": T.AndOperation, "or": T.OrOperation, "unk": T.UnknownOperation,
                 "bool": T.BoolOperation}[k]
            return c(*[self.expr(depth - 1, c) for _ in range(r.randrange(0, 4))])
        if k in ("plus", "not", "prohibit"):
            c = {"plus": T.Plus, "not": T.Not, "prohibit": T.Prohibit}[k]
            return c(self.expr(depth - 1, c))
        c = T.From if k == "from" else T.To
        return c(self.bound(), r.random() < 0.5)


def make_defect(r, T, wf, kind, hidden=False):
    """one ill-formed construct of the given kind, otherwise well-formed inside.  hidden = a field name made
    of word characters and one final newline (the shape `$` used to let through; regression)"""
    if kind == "DSpaceInWord":
        return T.Word(r.choice(["a b", "a\tb", " ", "x\n", "a\x1cb", "a\x0bb", "a\u3000b", "a\u00a0b",
                                "\u0085", "a\u2028", "\u00e9 \u00e9",
                                # a blank after backslashes is still a blank in the value
                                "foo\\ bar", "foo\\\\ bar", "a\\\tb", "\\ ", "a\\\\\\ b"]))
    if kind == "DFuzzyNonWord":
        return T.Fuzzy(r.choice([lambda: wf.phrase(), lambda: T.Group(wf.word()),
                                 lambda: T.Regex("/a/"), lambda: T.Fuzzy(wf.word())])(),
                       r.choice([None, "1"]))
    if kind == "DProxNonPhrase":
        return T.Proximity(r.choice([lambda: wf.word(), lambda: T.Group(wf.phrase()),
                                     lambda: T.AndOperation(wf.phrase(), wf.phrase())])(),
                           r.choice([None, 2]))
    if kind == "DNegFuzzy":
        return T.Fuzzy(wf.word(), r.choice([-1, Decimal("-0.5"), Decimal("-0"), "-2", Decimal("-1E-400"), Decimal("-1E+5000"),
                                            Decimal("-123E+4400")]))
    if kind == "DBadFieldName":
        name = r.choice(["f\n", "title\n", "_\n", "\u00e9\n"]) if hidden else \
            r.choice(["a.b", "", "x y", "a-b", "f\n\n", "\n", "a\nb", " f", "f:", "n.o.h", "a\u00a0b",
                      "\u20ac", "f\u3000", "\u00e9-"])
        return T.SearchField(name, wf.value(1))
    if kind == "DNonValueFieldExpr":
        return T.SearchField(r.choice(WF.NAMES), r.choice([
            lambda: T.AndOperation(wf.word(), wf.word()), lambda: T.OrOperation(),
            lambda: T.Group(wf.word()), lambda: T.Not(wf.word()), lambda: T.Plus(wf.word()),
            lambda: T.SearchField("g", wf.word()), lambda: T.NoneItem(),
            lambda: T.UnknownOperation(wf.phrase())])())
    if kind == "DMisplacedGroup":
        return T.Group(wf.expr(1, T.Group))
    if kind == "DMisplacedFieldGroup":
        return T.FieldGroup(wf.expr(1, T.FieldGroup))
    raise AssertionError(kind)


def plug_random(r, T, wf, depth, kind, hidden=False):
    """build a tree with `depth` context frames (fields, groups, field groups, boosts, operations,
    prefixes; siblings well-formed) around one defect.  Returns (tree, defect node, parent class)."""
    frames = ["field", "group", "fgroup", "boost", "and", "or", "unk", "bool", "plus", "not", "prohibit"]
    if kind == "DMisplacedGroup" and depth == 0:
        depth = 1
    box = {}

    def build(level, parent):
        if level == 0:
            d = make_defect(r, T, wf, kind, hidden)
            box["d"], box["p"] = d, parent
            return d
        f = r.choice(frames)
        if level == 1 and kind == "DMisplacedGroup":
            f = "field"
        while level == 1 and kind == "DMisplacedFieldGroup" and f == "field":
            f = r.choice(frames)
        if f == "field":
            return T.SearchField(r.choice(WF.NAMES), build(level - 1, T.SearchField))
        if f == "group":
            return T.Group(build(level - 1, T.Group))
        if f == "fgroup":
            return T.FieldGroup(build(level - 1, T.FieldGroup))
        if f == "boost":
            return T.Boost(build(level - 1, T.Boost), r.choice(["2", None]))
        if f in ("and", "or", "unk", "bool"):
            c = {"and": T.AndOperation, "or": T.OrOperation, "unk": T.UnknownOperation,
                 "bool": T.BoolOperation}[f]
            before = [wf.expr(r.randrange(0, 2), c) for _ in range(r.randrange(0, 3))]
            after = [wf.expr(r.randrange(0, 2), c) for _ in range(r.randrange(0, 3))]
            return c(*(before + [build(level - 1, c)] + after))
        c = {"plus": T.Plus, "not": T.Not, "prohibit": T.Prohibit}[f]
        return c(build(level - 1, c))

    tree = build(depth, None)
    return tree, box["d"], box["p"], depth


# ---------------------------------------------------------------- shared sub-objects

def unshare(n):
    """an equal tree in which every position holds its own node object (copy.deepcopy would keep the
    sharing, so each occurrence is copied separately)"""
    c = copy.copy(n)
    c.children = [unshare(x) for x in n.children]
    return c


def shared_paths(tree):
    """paths at which one and the same node object occurs more than once: [[path, path, ...], ...]"""
    occ = {}
    for p, n in gentree.all_nodes(tree):
        occ.setdefault(id(n), []).append(list(p))
    return sorted(v for v in occ.values() if len(v) > 1)


SHARE_FRAMES = ["and", "or", "unk", "bool", "group", "boost", "plus", "not", "prohibit", "field", "infield"]


def share_wrap(T, x, path):
    W = T.Word
    for f in path:
        if f in ("and", "or", "unk", "bool"):
            c = {"and": T.AndOperation, "or": T.OrOperation, "unk": T.UnknownOperation,
                 "bool": T.BoolOperation}[f]
            x = c(W("w1"), x) if f in ("and", "bool") else c(x, W("w2"))
        elif f == "group":
            x = T.Group(x)
        elif f == "boost":
            x = T.Boost(x, 2)
        elif f in ("plus", "not", "prohibit"):
            x = {"plus": T.Plus, "not": T.Not, "prohibit": T.Prohibit}[f](x)
        elif f == "field":
            x = T.SearchField("g", x)
        else:
            x = T.SearchField("other", T.FieldGroup(T.AndOperation(W("w5"), x)))
    return x


SHARE_KINDS = ["fieldgroup", "group", "not", "prohibit", "plain", "wfsub"] + sorted(DEFECT_MSG)


def shared_tree(r, T, wf, kind, valid_first, path1, path2):
    """a tree in which ONE node object sits at two positions.  For the parent-dependent constructs one
    occurrence is well placed and the other is not; the other kinds are the same at both places."""
    W = T.Word
    if kind == "fieldgroup":
        sh = T.FieldGroup(T.OrOperation(W("foo"), T.Phrase('"bar baz"')))
        good, bad = T.SearchField("title", sh), sh
    elif kind == "group":
        sh = T.Group(T.OrOperation(W("foo"), W("bar")))
        good, bad = sh, T.SearchField("title", sh)
    elif kind in ("not", "prohibit"):
        sh = (T.Not if kind == "not" else T.Prohibit)(W("b"))
        good, bad = T.AndOperation(W("a"), sh), T.OrOperation(W("a"), sh)
    elif kind == "plain":
        sh = wf.word()
        good = bad = sh
    elif kind == "wfsub":
        sh = wf.expr(2, T.AndOperation)
        good = bad = sh
    else:
        sh = make_defect(r, T, wf, kind)
        good = bad = sh
    first, second = (good, bad) if valid_first else (bad, good)
    top = r.choice([T.AndOperation, T.OrOperation, T.UnknownOperation, T.BoolOperation])
    return top(share_wrap(T, first, path1), share_wrap(T, second, path2))


def share_randomly(r, T, tree):
    """make one node object of a generated tree occur at a second, disjoint position; returns True when
    it could be done"""
    nodes = [(p, n) for p, n in gentree.all_nodes(tree) if p]
    r.shuffle(nodes)
    for pa, a in nodes[:6]:
        for pb, b in nodes:
            k = min(len(pa), len(pb))
            if a is b or pa[:k] == pb[:k]:
                continue        # same position, or one inside the other
            parent = tree
            for i in pb[:-1]:
                parent = parent.children[i]
            cs = list(parent.children)
            cs[pb[-1]] = a
            parent.children = cs
            return True
    return False


# ---------------------------------------------------------------- Gallina printers

def g_kinds(ks):
    return lib.g_list(ks)


def g_cls_opt(T, c):
    return "None" if c is None else "(Some C%s)" % c.__name__


def plain(o):
    """JSON-able, comparable form of an outcome of `observe`"""
    return [o[0], repr(o[1]) if o[0] == "raised" else o[1]]


def observe_on(chk, tree):
    """(errors outcome, call outcome) of an EXISTING checker instance"""
    try:
        e = ("done", chk.errors(tree))
    except Exception as ex:   # noqa
        e = ("raised", ex)
    try:
        c = ("done", chk(tree))
    except Exception as ex:   # noqa
        c = ("raised", ex)
    return e, c


def observe(check_mod, tree, zeal):
    """run errors() and __call__ on (copies of) the tree; returns (errors outcome, call outcome) where an
    outcome is ('done', value) or ('raised', exception)"""
    chk = check_mod.LuceneCheck(zeal=zeal)
    try:
        e = ("done", chk.errors(tree))
    except Exception as ex:   # noqa
        e = ("raised", ex)
    try:
        c = ("done", chk(tree))
    except Exception as ex:   # noqa
        c = ("raised", ex)
    return e, c


def correspond(model_ok, res):
    import luqum.tree as T
    import luqum.check as check_mod
    r = lib.rng("C20")
    scale = 1 if lib.tier() == "quick" else 10
    W, P = T.Word, T.Phrase
    cases = []        # (tree, zeal, plugged or None) ; plugged = (defect node, parent class, kind, hidden, frames)

    # ---- fixed corpus
    corpus = [
        T.Not(W("a")), T.Prohibit(W("a")), T.Plus(W("a")), P('"a"'), T.Regex("/a/"), T.From(W("1")),
        T.To(P('"a b"'), False), T.From(W("1 2")), T.NoneItem(), T.SearchField("f", T.NoneItem()),
        T.SearchField("f", T.Range(W("1"), W("2"))), T.SearchField("f", T.Regex("/a/")),
        T.SearchField("f", T.From(W("1"))), T.SearchField("f\n", W("a")), T.SearchField("f\n\n", W("a")),
        T.SearchField("", W("a")), T.SearchField("\u00e9\n", W("\u00e9")), T.SearchField("\u00e9", W("a\u00a0b")),
        T.SearchField("a\u00a0b", W("\u65e5\u672c")), W("a\u0085b"), W("a\u3000"), T.SearchField("\u0663_", P('"\u3000"')), T.SearchField("a.b", W("a")), T.SearchField("f", P('"a"')),
        T.SearchField("f", T.Group(W("a"))), T.SearchField("f", T.FieldGroup(W("a"))),
        T.FieldGroup(W("a")), T.Group(T.FieldGroup(W("a"))), T.Group(W("a")),
        T.SearchField("f", T.Boost(T.Group(W("a")), 2)), T.SearchField("f", T.SearchField("g", W("a"))),
        T.Proximity(P('"a b"'), 2), T.Proximity(W("a"), 2), T.Fuzzy(W("a"), Decimal("-0")),
        T.Fuzzy(W("a"), Decimal("-0.5")), T.Fuzzy(W("a"), -1), T.Fuzzy(P('"a"')), T.Fuzzy(T.Fuzzy(W("a b"))),
        T.Fuzzy(W("a"), Decimal("-1E-400")), T.Fuzzy(W("a"), Decimal("1E+400")),
        T.Fuzzy(W("a"), Decimal("-1E+5000")), T.Fuzzy(W("a"), Decimal("1E+5000")),   # beyond the int->str limit
        W("a\x1cb"), W("a b"), W("a-b"), W("+"), W("a/b"), W(""), W(" -"),
        T.Range(W("a b"), W("c")), T.Range(T.Not(W("a")), T.NoneItem()),
        T.OrOperation(W("a"), T.Not(W("b"))), T.OrOperation(W("a"), T.Prohibit(W("b-c"))),
        T.OrOperation(W("a"), T.Plus(T.Not(W("b")))), T.OrOperation(W("a"), T.Group(T.Not(W("b")))),
        T.AndOperation(W("a"), T.Not(W("b"))), T.BoolOperation(T.Not(W("b"))),
        T.Not(T.OrOperation(T.Not(W("a")))), T.OrOperation(), T.AndOperation(),
        T.AndOperation(W("a"), P('"b"'), W("c d")),
        T.Boost(T.Range(W("a b"), W("c")), 1), T.Boost(W("a b"), None),
        T.SearchField("date", T.Range(W("2012-01-01"), W("2012-12-31"))), T.Range(W("*"), W("now-1d"), False, False),
        T.SearchField("path", T.Range(W("a/b"), W("a/c"))), T.AndOperation(W("x"), T.Group(T.Range(W("-5"), W("+5")))),
        T.Not(T.SearchField("d", T.Boost(T.Range(W("now-1d/d"), P('"2012-01-01 00:00"')), 2))),
        # bounds spelled like special values of a numeric library, reversed and equal bounds, mixed kinds
        T.Range(W("1"), W("nan")), T.SearchField("price", T.Range(W("1"), W("NaN"))), T.Range(W("inf"), W("-inf")),
        T.Range(W("sNaN"), W("Infinity")), T.Range(W("1e999"), W("0x10")), T.Range(W("5"), W("1")), T.Range(W("1"), W("1")),
        T.Range(W("b"), W("a")), T.Range(W("*"), W("*")), T.Range(P('"b"'), W("1")), T.Range(W("1.5"), W("1,5")),
        T.AndOperation(T.SearchField("price", T.Range(W("1"), W("nan"))), W("x")),
        T.To(T.SearchField("x y", T.Group(W("a b")))),
        T.OrOperation(T.Group(T.AndOperation(T.SearchField("title", P('"foo bar"')),
                                             T.SearchField("body", P('"quick fox"')))),
                      T.SearchField("title", W("fox"))),
    ]
    for t in corpus:
        for z in (0, 1, 2, -1):
            cases.append((copy.deepcopy(t), z, None))

    # ---- random trees of every class, odd shapes
    g = gentree.Gen(r, T, layout=0.1, odd=0.25, max_ops=4)
    for _ in range(200 * scale):
        cases.append((g.tree(r.randrange(0, 5)), r.choice([0, 0, 1, 2, -1]), None))

    # ---- well-formed trees
    for _ in range(120 * scale):
        z = r.choice([0, 1, 2])
        cases.append((WF(r, T, z).expr(r.randrange(0, 5)), z, None))

    # ---- one defect plugged at a random depth
    kinds = sorted(DEFECT_MSG)
    for i in range(240 * scale):
        z = r.choice([0, 1, 2])
        kind = kinds[i % len(kinds)]
        hidden = kind == "DBadFieldName" and r.random() < 0.25
        tree, d, p, nframes = plug_random(r, T, WF(r, T, z), r.randrange(0, 7), kind, hidden)
        # positions are independent optional attributes: none, both, 0 / 0, pos alone, size alone — on the defect
        # and on the root (a checker that locates its messages must cope with all of them)
        for nd in (d, tree):
            x = r.random()
            if x < 0.15:
                nd.pos, nd.size = r.randrange(0, 9), r.randrange(0, 9)
            elif x < 0.25:
                nd.pos, nd.size = 0, 0
            elif x < 0.4:
                nd.pos, nd.size = r.randrange(0, 9), None
            elif x < 0.5:
                nd.pos, nd.size = None, r.randrange(0, 9)
        cases.append((tree, z, (d, p, kind, hidden, nframes)))

    # ---- ONE node object at two positions (the model and lib.g_item read each occurrence separately)
    n_struct = 0
    for kind in SHARE_KINDS:
        for valid_first in (True, False):
            for _ in range(5 * scale):
                z = r.choice([0, 1, 2])
                p1 = [r.choice(SHARE_FRAMES) for _ in range(r.choice([0, 0, 1, 2, 3]))]
                p2 = [r.choice(SHARE_FRAMES) for _ in range(r.choice([0, 0, 1, 2, 3]))]
                cases.append((shared_tree(r, T, WF(r, T, z), kind, valid_first, p1, p2), z, None))
                n_struct += 1
    n_rand_shared = 0
    for _ in range(80 * scale):
        t = g.tree(r.randrange(2, 5))
        if share_randomly(r, T, t):
            cases.append((t, r.choice([0, 1, 2]), None))
            n_rand_shared += 1

    # ---- run the implementation, evaluate the oracle, serialise
    reused = {}       # zeal -> one LuceneCheck instance used for every case of that zeal, in order
    history = {}
    gcases, payloads = [], []
    dist = {"root_class": {}, "zeal": {}, "defect_kind": {}, "plug_frames": {}, "outcome": {}}
    seen = set()
    unmodelled = 0
    for tree, z, plugged in cases:
        desc = gentree.describe(tree)
        payload = {"tree": desc[:1500], "zeal": z}
        try:
            before = lib.g_item(tree)
        except lib.Unmodelled as e:
            unmodelled += 1
            res.notes.append("unmodelled input skipped: %s" % e)
            continue
        wf_py = wellformed(T, tree, z)
        wfl_py = wellformed(T, tree, z, None, lenient=True)
        e, c = observe(check_mod, tree, z)

        # -- oracle: sharing of node objects must not matter (equal tree, every position its own object)
        sp = shared_paths(tree)
        if sp:
            dist["shared_objects"] = dist.get("shared_objects", 0) + 1
            twin = unshare(tree)
            assert not shared_paths(twin) and lib.g_item(twin) == before
            e2, c2 = observe(check_mod, twin, z)
            if plain(e) != plain(e2) or plain(c) != plain(c2):
                res.failures.append((dict(payload, clause="an ill-formed construct is reported at any position "
                                          "(the verdict must not depend on node objects being shared)",
                                          recipe="build the tree below with fresh nodes, then put the node object "
                                                 "of the first path of each group at the other paths of the group",
                                          same_object_at=sp, shared=[plain(e), plain(c)],
                                          unshared=[plain(e2), plain(c2)]), None))

        # -- oracle: a checker instance that has been used before (rejecting trees through __call__, which
        #    abandons the generator) answers as a fresh one
        rc = reused.setdefault(z, check_mod.LuceneCheck(zeal=z))
        hist = history.setdefault(z, [])
        if len(hist) % 50 == 20:
            # a call that cannot complete (a tree deeper than the recursion limit), then the history goes on
            hist.append("checker.errors(<3000-level tree>) -> %s" % gentree.aborted_call(rc.errors, T))
        try:
            rcall = ("done", rc(tree))
        except Exception as ex:   # noqa
            rcall = ("raised", ex)
        try:
            rerr = ("done", rc.errors(tree))
        except Exception as ex:   # noqa
            rerr = ("raised", ex)
        if plain(rcall) != plain(c) or plain(rerr) != plain(e):
            res.failures.append((dict(payload, clause="same answer from a checker instance used before",
                                      history=["checker = LuceneCheck(zeal=%d)" % z] + hist[-6:],
                                      reused=[plain(rerr), plain(rcall)], fresh=[plain(e), plain(c)]), None))
        hist.append("checker(%s); checker.errors(<same>)" % desc[:300])
        after = lib.g_item(tree)
        dist["root_class"][type(tree).__name__] = dist["root_class"].get(type(tree).__name__, 0) + 1
        dist["zeal"][str(z)] = dist["zeal"].get(str(z), 0) + 1

        # -- oracle: the property's clauses on the implementation
        if e[0] == "raised" or c[0] == "raised":
            ex = e[1] if e[0] == "raised" else c[1]
            res.failures.append((dict(payload, clause="never raises", exception=repr(ex)), None))
        else:
            if c[1] is not (len(e[1]) == 0):
                res.failures.append((dict(payload, clause="__call__ is True exactly when errors() is empty",
                                          call=repr(c[1]), errors=e[1][:5]), None))
            if not isinstance(e[1], list) or not all(isinstance(m, str) for m in e[1]):
                res.failures.append((dict(payload, clause="errors() is a list of messages"), None))
            if wf_py and e[1]:
                res.failures.append((dict(payload, clause="a well-formed tree is accepted", errors=e[1][:5]),
                                     None))
            elif e[1] and wellformed(T, tree, z, None, lenient=True):
                res.failures.append((dict(payload, clause="a well-formed tree is accepted (the bounds of a range are "
                                          "values: dates, date math, paths and signed numbers are ordinary bounds at "
                                          "every zeal)", errors=e[1][:5]), None))
            if wellformed(T, tree, z, None, lenient=True):
                dist["wellformed_lenient"] = dist.get("wellformed_lenient", 0) + 1
            if plugged:
                d, p, kind, hidden, _ = plugged
                ks = [kind_of(m) for m in e[1]]
                if DEFECT_MSG[kind] not in ks or c[1] is not False:
                    res.failures.append((dict(payload, clause="an ill-formed construct is reported",
                                              defect=kind, construct=gentree.describe(d)[:300],
                                              errors=e[1][:5]), None))
        if after != before:
            res.failures.append((dict(payload, clause="the tree is not modified"), None))

        # -- expected values for the model
        def g_out(o, conv):
            if o[0] == "raised":
                n = type(o[1]).__name__
                return "(Raised %s)" % EXN[n] if n in EXN else None
            return "(Done %s)" % conv(o[1])
        if e[0] != "raised" and any(kind_of(m) is None for m in e[1]):
            res.disagreements.append(dict(payload, why="error message of a kind the model does not know",
                                          errors=repr(e[1])[:400]))
            continue
        ge = g_out(e, lambda l: g_kinds([kind_of(m) for m in l]))
        gc = g_out(c, lambda b: lib.g_bool(b))
        if ge is None or gc is None:
            res.disagreements.append(dict(payload, why="exception class the model cannot produce",
                                          errors=repr(e[1]), call=repr(c[1])))
            continue
        if plugged:
            d, p, kind, hidden, nframes = plugged
            gp = "(Plug %s %s %s)" % (g_cls_opt(T, p), lib.g_item(d), kind)
            dist["defect_kind"][kind] = dist["defect_kind"].get(kind, 0) + 1
            dist["plug_frames"][str(nframes)] = dist["plug_frames"].get(str(nframes), 0) + 1
        else:
            gp = "NoPlug"
        gcases.append("(mk %s %s %s %s %s %s %s)" % (lib.g_Z(z), before, ge, gc, lib.g_bool(wf_py),
                                                     lib.g_bool(wfl_py), gp))
        payloads.append(payload)
        okind = "raised" if e[0] == "raised" else ("accepted" if not e[1] else "rejected")
        dist["outcome"][okind] = dist["outcome"].get(okind, 0) + 1
        if gentree.count_nodes(tree) > 1 or okind != "accepted":
            seen.add((bool(z), desc))

    # -- histories with in-place edits: ONE checker instance, the SAME tree object checked, edited in place
    #    (a defect injected, then repaired), and checked again; every answer must be the one a fresh checker gives
    #    for the tree as it is at that moment
    n_edit = 0
    for i in range(40 * scale):
        z = [0, 1, 2][i % 3]
        wfg = WF(r, T, z)
        tree = T.AndOperation(wfg.expr(2), T.Group(T.OrOperation(wfg.expr(1), wfg.word())), wfg.word())
        words = [n for _, n in gentree.all_nodes(tree) if type(n) is T.Word]
        if not words:
            continue
        rc = check_mod.LuceneCheck(zeal=z)
        steps = ["checker = LuceneCheck(zeal=%d); tree = %s" % (z, gentree.describe(tree)[:300])]
        w = r.choice(words)
        good = w.value
        for value, what in ((None, "check"), ("a b", "inject: Word %r .value = 'a b'" % good), (good, "repair"),
                            ("x\ty", "inject again"), (good, "repair again")):
            if value is not None:
                w.value = value
                steps.append(what)
            n_edit += 1
            got = [plain(o) for o in observe_on(rc, tree)]
            want = [plain(o) for o in observe(check_mod, tree, z)]
            steps.append("checker.errors(tree), checker(tree)")
            if got != want:
                res.failures.append(({"clause": "same answer from a checker instance used before, on the tree as it "
                                                "is now (edited in place since the last call)",
                                      "history": list(steps), "reused": got, "fresh": want, "zeal": z}, None))
                break
    dist["edit_history_calls"] = n_edit

    res.cases = len(gcases)
    res.nontrivial = len(seen)
    res.notes.append("%d structured + %d random trees with one node object at two positions; every case is also "
                     "run on a per-zeal reused checker instance" % (n_struct, n_rand_shared))
    res.rule = ("fixed corpus x zeal {0,1,2,-1}; random trees of every item class (depth<=4, odd shapes); "
                "random well-formed trees; one defect of each of the 8 kinds plugged under 0..6 context frames "
                "(fields, groups, field groups, boosts, operations, prefixes); trees with ONE node object at two "
                "positions (parent-dependent constructs well placed first/second, every defect kind, random "
                "sharing) compared with their unshared twin; reused checker instances. non-trivial = distinct "
                "(zeal truthiness, tree) with more than one node or a non-empty verdict")
    res.samples = [p["tree"][:200] + " @zeal=%d" % p["zeal"] for p in payloads[len(corpus) * 4:][:8]]
    res.distribution = dist
    if unmodelled:
        res.notes.append("%d inputs skipped as unmodelled" % unmodelled)

    if model_ok:
        defs = """
Definition E := errors is_word_char is_space.
Definition K := call is_word_char is_space.
Definition WFD := wellformed is_word_char is_space.
Definition WFL := wellformed_lenient is_word_char is_space.
Definition plugged := option (option cls * item * defect).
Definition NoPlug : plugged := None.
Definition Plug (p : option cls) (d : item) (k : defect) : plugged := Some (p, d, k).
Definition mk (z : Z) (t : item) (e : outcome (list msgkind)) (k : outcome bool) (wf wfl : bool)
              (pl : plugged) :=
  (z, t, (e, k, (wf, wfl)), pl).
Definition chk (c : Z * item * (outcome (list msgkind) * outcome bool * (bool * bool))
                    * plugged) : bool :=
  match c with
  | (z, t, (e, k, (wf, wfl)), pl) =>
      outcome_eqb (list_eqb msgkind_eqb) (E z t) e &&
      outcome_eqb Bool.eqb (K z t) k &&
      Bool.eqb (WFD z None t) wf &&
      Bool.eqb (WFL z None t) wfl &&
      match pl with
      | None => true
      | Some (p, d, dk) => has_defect is_word_char is_space p d dk
      end
  end."""
        # canary: a deliberately wrong expectation must be reported
        canary = "(mk %s %s (Done [MSpace]) (Done false) true true NoPlug)" % (lib.g_Z(0), lib.g_item(W("a")))
        # second canary: everything right except the lenient well-formedness bit (date range at zeal 1)
        canary2 = "(mk %s %s (Done []) (Done true) false false NoPlug)" % (
            lib.g_Z(1), lib.g_item(T.SearchField("date", T.Range(W("2012-01-01"), W("2012-12-31")))))
        try:
            bad = lib.eval_cases("C20", "Base Decimal Tree TreeEq Lexer Check CheckLenient", defs,
                                 gcases + [canary, canary2], "chk", shard=80)
        except Exception as e:   # noqa
            res.model_error = str(e)
            bad = [len(gcases)]
        if len(gcases) not in bad:
            res.model_error = (res.model_error or "") + " canary case was not reported by eval_cases"
        if len(gcases) + 1 not in bad:
            res.model_error = (res.model_error or "") + " canary case (lenient well-formedness) was not reported"
        for i in bad:
            if i < len(gcases):
                res.disagreements.append(dict(payloads[i], case=gcases[i][:1500]))
    else:
        res.model_error = "model did not build"
    return res


SPEC = {
    "id": "C20",
    "targets": ["props/C20.vo"],
    "model_targets": ["model/Check.vo", "model/CheckLenient.vo", "model/TreeEq.vo", "model/Lexer.vo"],
    "module": "C20",
    "theorems": ["C20_tie", "C20_total", "C20_consistent", "C20_accepts_wellformed", "C20_complete"],
    "more": [{"module": "C20r", "target": "props/C20r.vo",
              "theorems": ["C20r_range_bounds_not_inspected", "C20r_accepts_wellformed_lenient",
                           "C20r_lenient_extends_strict"]}],
    "correspond": correspond,
    "statement": "LuceneCheck never raises and returns a list; __call__ is True exactly when errors() is "
                 "empty; a well-formed tree is accepted; one ill-formed construct (8 kinds) plugged in any "
                 "context of fields, groups, field groups, boosts, operations and prefixes is reported with "
                 "its message and the tree is rejected; C20r: the bounds of a two-sided Range are never inspected, "
                 "and acceptance holds for the wider `wellformed_lenient` (range bounds judged with zeal 0), which "
                 "contains `wellformed`",
    "trusted_base": [
        "Coq 8.16.1 kernel (vm_compute used for table facts, witnesses and correspondence; no native_compute)",
        "no axioms (Print Assumptions: closed under the global context)",
        "gen/translate.py: class MROs, LuceneCheck check_* method table, @_check_children list, "
        "FIELD_EXPR_FIELDS, the three regex pattern sources; gen/gen_parser.py: Unicode classes \\s, \\w",
        "hand-written model coq/model/Check.v of the bodies of the check_* methods, of the generator "
        "semantics (errors drains, __call__ stops at the first message) and of the meaning of the three "
        "regular expressions (pattern sources tied by C20_tie), tied by differential "
        "correspondence (harness/c20.py) on every run",
        "message kinds are recognised by the fixed prefix (suffix for the field-name message) of the "
        "format string",
        "value-based tree model: 'the tree is not modified' is checked by the harness (serialisation "
        "before/after), not proved; a node object shared between positions is read as two equal sub-trees, "
        "and the harness checks that the implementation agrees with that reading and with an unshared twin",
    ],
    "assumptions": [
        "trees contain only luqum.tree classes (no user subclasses); parents=[] at the entry point; trees are "
        "acyclic (a node object may occur at several disjoint positions)",
        "\\w and \\s are the generated Unicode classes of the running Python's re module (str patterns); the "
        "lemmas hold for any two predicates",
        "fuzzy degrees are finite Decimals (NaN / Infinity unmodelled); 'negative' means the sign bit, so "
        "-0 counts as negative, as in the code",
        "no RecursionError: trees are shallower than Python's recursion limit allows",
        "`wellformed`: a field's expression is a word, phrase, fuzzy, proximity, boost or field group; "
        "NoneItem is not well-formed; with zeal != 0 the zealous pitfalls are excluded too",
    ],
}
