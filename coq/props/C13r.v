(* C13r — the ROUND TRIP clause of C13 as a theorem for every tree that is an image of the grammar, any depth
   and width (C13.v proves clauses 1-3 in full and the round trip only for flat AND / OR operations of words).
   Only statements, short glue, non-vacuity examples, Print Assumptions.
   Guard: model/AhtRoundTrip.v (`rt_ok`, executable); lemmas: proofs/AhtRoundTripProofs.v.

   Clause of the property text -> statement
     "for any tree built without layout whose shape the grammar can express ... its printed form is accepted
      by the parser and parses to an equal tree"
          C13_round_trip_partial_statement   forall t, rt_ok t = true -> roundtrips t          PROVED
          C13_round_trip_tokens_statement    ... and the printed form lexes to the yield of the syntax tree
                                             `syn t` of the documented grammar, whose value is t   PROVED
     the route: print (auto_head_tail t) is, blanks included, the token chain of `fl (syn t)` (CH_all; the
     lexer half stands on the tchain / lift machinery of L_respace, so the blanks auto_head_tail inserts are
     token tails); `syn t` is well-formed and `val (syn t) = erase t` (WF_all); C03c_grammar_trees (the LR driver
     on the generated tables agrees with the documented grammar on every yield of a syntax tree) gives the parse.

   The guard `rt_ok`, component by component, and why each is there (Examples below; every witness was
   replayed on the implementation):
     nesting      an operation directly inside a same-or-higher-precedence operation (or under NOT + - field ^)
                  must be wrapped in a Group; otherwise printing then parsing re-associates.  NOT a luqum defect
                  (the tree is not an image of the grammar); needed: C13r_nesting_needed (3 witnesses) and
                  C13r_expressible_guard_refuted
     >= 2 operands                                                            C13r_arity_needed
     Word = one TERM lexeme, not AND/OR/NOT; Phrase / Regex = one lexeme      C13r_lexemes_needed
     field name = one TERM lexeme; FieldGroup exactly under a field            C13r_field_shapes_needed
     ^ applies to what `unary_expression BOOST` takes as a whole               C13r_boost_operand_needed
     degrees print as [0-9.] numerals                                          C13r_numeral_needed
       (the guard holds of every normalised numeral: C13r_numeral_guard); an implicit degree / force has its
       default value                                                           C13r_default_degree_needed
       (`deg_ok` also asks that the numeral reads back to the very same decimal: a degree built as
        Decimal("1.0") round-trips up to Decimal equality but is outside the guard: C13r_noncanonical_outside)
     no F4 shape                                                               C13.C13_roundtrip_refuted
       (the guard is wider, as in C03c: no operand of an implicit operation but the first starts with + - TO;
        `a +b` round-trips but is outside: C13r_signed_juxtaposition_outside)
     no F15 fusion                                                             C13.C13_roundtrip_noF4_refuted
       (the colon guard `name_glue` excludes less than "the text after the colon starts with two digits":
        `year:2020` is inside: C13r_numeric_field_inside; it excludes a little more than F15: a name that
        contains a colon, e.g. an escaped one, in front of two digits)
     not covered at all (C03c has no theorem for them): bracketed ranges, BoolOperation, NoneItem
                                                                               C13r_range_outside *)
Require Import Base Decimal Tree GenTree GenVisitors GenParser Visitor Eq Traverse Print Lexer Actions LR Parser Erase Grammar.
Require Import AutoHeadTail AhtRoundTrip TreeInd TraverseProofs AutoHeadTailProofs AutoHeadTailRoundtrip.
Require Import PrecedenceProofs PrecedenceGeneral MeaningProofs AhtRoundTripProofs.
Require Import C03c C13.

(* ---------------------------------------------------------------- statements *)

(* the property's observation `parser.parse(str(auto_head_tail(t))) == t` (C13.roundtrips), for every tree
   within the guard *)
Definition C13_round_trip_partial_statement : Prop := forall t, rt_ok t = true -> roundtrips t.

(* the same with what happens in between: the printed form has no lexical error and its (type, lexeme)
   sequence is the yield of a well-formed syntax tree of the documented grammar whose value is t *)
Definition C13_round_trip_tokens_statement : Prop :=
  forall t, rt_ok t = true ->
    exists t' p, aht t = Some t' /\ snd (lex (print true t')) = None /\
                 map tok_key (fst (lex (print true t'))) = map tok_key (fl p) /\
                 wfb p = true /\ val p = erase t.

(* without the nesting discipline (C13.expressible), even with every lexeme in order and F4 / F15 excluded *)
Definition C13r_expressible_guard_statement : Prop :=
  forall t, well_formed t -> layout_free t -> f4_patternb t = false -> f15_patternb t = false -> roundtrips t.

(* ---------------------------------------------------------------- theorems *)

Theorem C13_round_trip_tokens : C13_round_trip_tokens_statement.
Proof.
  intros t H. destruct (rt_syntax t H) as [Ha [W [V [Hk He]]]].
  exists (daht t), (syn t). auto.
Qed.

Theorem C13_round_trip_partial : C13_round_trip_partial_statement.
Proof.
  intros t H. destruct (rt_syntax t H) as [Ha [W [V [Hk He]]]].
  destruct (C03c_grammar_trees_parse (print true (daht t)) (syn t) He W Hk) as [b [Hp Hs]].
  exists (daht t), b. split; [exact Ha|]. split; [exact Hp|].
  pose proof (sp_query (syn t) W) as Hq. unfold keys_of in Hq. rewrite <- Hk, Hs in Hq.
  inversion Hq as [E]. apply same_erase_item_eqb. rewrite E. exact V.
Qed.

(* the numeral guard `deg_ok` holds of every degree / force that is a normalised numeral [0-9.]+ (what the parser
   produces, and what the constructors compute from a str / int argument): it only excludes signs, exponents of
   hand-made Decimals and non-normalised Decimals *)
Definition C13r_numeral_guard_statement : Prop :=
  forall ds f, dec_of_lexeme ds = Some f -> deg_ok (dec_normalize f) = true.
Theorem C13r_numeral_guard : C13r_numeral_guard_statement.
Proof. exact deg_ok_parsed. Qed.

(* ---------------------------------------------------------------- the guard is needed *)
(* conjunctions only are split (never an equation: `split` on an equation would try to convert it) *)
Ltac conj_vm := repeat match goal with |- _ /\ _ => split end; vm_compute; reflexivity.
Definition wa := W [97]%N. Definition wb := W [98]%N. Definition wc := W [99]%N.

(* a AND (b AND c) built without the Group prints `a AND b AND c` = And[a;b;c];
   a AND (b OR c) built without the Group prints `a AND b OR c` = Or[And[a;b];c];
   NOT (a b) built without the Group prints `NOT a b` = Unknown[Not a; b];  with the Group all is well *)
Definition nest_same : item := Op KAnd meta0 [wa; Op KAnd meta0 [wb; wc]].
Definition nest_lower : item := Op KAnd meta0 [wa; Op KOr meta0 [wb; wc]].
Definition nest_not : item := Unary KNot meta0 (Op KUnknown meta0 [wa; wb]).
Definition nest_grouped : item := Op KAnd meta0 [wa; Grp KGroup meta0 (Op KOr meta0 [wb; wc])].
Example C13r_nesting_needed :
  (rt_ok nest_same = false /\ roundtripb nest_same = false) /\
  (rt_ok nest_lower = false /\ roundtripb nest_lower = false) /\
  (rt_ok nest_not = false /\ roundtripb nest_not = false) /\
  (rt_ok nest_grouped = true /\ roundtripb nest_grouped = true) /\
  (exists t', aht nest_lower = Some t' /\
     exists b, parse (print true t') = Some (Ok b) /\
               erase b = Op KOr meta0 [Op KAnd meta0 [wa; wb]; wc]).
Proof.
  split; [conj_vm|]. split; [conj_vm|]. split; [conj_vm|]. split; [conj_vm|].
  eexists. split; [vm_compute; reflexivity|]. eexists. split; vm_compute; reflexivity.
Qed.

Theorem C13r_expressible_guard_refuted : ~ C13r_expressible_guard_statement.
Proof.
  intros H. specialize (H nest_lower).
  assert (R : roundtripb nest_lower = true).
  { apply roundtrips_b. apply H; [apply wfb_ok|..]; vm_compute; reflexivity. }
  vm_compute in R. discriminate.
Qed.

(* And[a] prints ` a ` = the word a *)
Example C13r_arity_needed :
  rt_ok (Op KAnd meta0 [wa]) = false /\ roundtripb (Op KAnd meta0 [wa]) = false.
Proof. conj_vm. Qed.

(* the word AND between two words is the operator; Word('a b') is two words; a Phrase with a quote in the middle
   (dquote a dquote b dquote) is a phrase followed by a word (the constructor only asserts the first and last quote) *)
Definition lexeme_reserved : item := Op KUnknown meta0 [wa; W [65;78;68]%N; wb].
Definition lexeme_two_words : item := W [97;32;98]%N.
Definition lexeme_bad_phrase : item := Term KPhrase meta0 [34;97;34;98;34]%N.
Example C13r_lexemes_needed :
  (rt_ok lexeme_reserved = false /\ roundtripb lexeme_reserved = false) /\
  (rt_ok lexeme_two_words = false /\ roundtripb lexeme_two_words = false) /\
  (rt_ok lexeme_bad_phrase = false /\ roundtripb lexeme_bad_phrase = false).
Proof. conj_vm. Qed.

(* f:(a) parses to a FieldGroup, (a) alone to a Group; a name with a blank is two tokens *)
Definition field_group : item := SearchField meta0 [102]%N (Grp KGroup meta0 wa).
Definition fieldgroup_alone : item := Grp KFieldGroup meta0 wa.
Definition field_blank_name : item := SearchField meta0 [102;32;103]%N wa.
Example C13r_field_shapes_needed :
  (rt_ok field_group = false /\ roundtripb field_group = false) /\
  (rt_ok fieldgroup_alone = false /\ roundtripb fieldgroup_alone = false) /\
  (rt_ok field_blank_name = false /\ roundtripb field_blank_name = false).
Proof. conj_vm. Qed.

(* Boost(Not a, 2) prints `NOT a^2` = Not(Boost(a, 2)) *)
Definition boost_not : item := Boost meta0 (Unary KNot meta0 wa) (mkDec false 2 0) false.
Example C13r_boost_operand_needed : rt_ok boost_not = false /\ roundtripb boost_not = false.
Proof. conj_vm. Qed.

(* Fuzzy(a, -1) prints `a~-1` = a~ followed by -1 *)
Definition fuzzy_negative : item := Fuzzy meta0 wa (mkDec true 1 0) false.
Example C13r_numeral_needed : rt_ok fuzzy_negative = false /\ roundtripb fuzzy_negative = false.
Proof. conj_vm. Qed.

(* an implicit degree must have its default value (what every constructor establishes; only an attribute
   reassigned by hand breaks it): f = Fuzzy(Word('a')); f.degree = 2 prints `a~` = Fuzzy(a, 0.5) *)
Definition fuzzy_reassigned : item := Fuzzy meta0 wa (mkDec false 2 0) true.
Example C13r_default_degree_needed : rt_ok fuzzy_reassigned = false /\ roundtripb fuzzy_reassigned = false.
Proof. conj_vm. Qed.

(* ---- what the guard leaves out although it round-trips (validated only, harness/c13.py) *)
Definition fuzzy_noncanonical : item := Fuzzy meta0 wa (mkDec false 10 (-1)) false.       (* a~1.0 *)
Example C13r_noncanonical_outside : rt_ok fuzzy_noncanonical = false /\ roundtripb fuzzy_noncanonical = true.
Proof. conj_vm. Qed.

Definition juxt_signed : item := Op KUnknown meta0 [wa; Unary KPlus meta0 wb].           (* a +b *)
Example C13r_signed_juxtaposition_outside :
  rt_ok juxt_signed = false /\ roundtripb juxt_signed = true /\ f4_patternb juxt_signed = false.
Proof. conj_vm. Qed.

Example C13r_range_outside : rt_ok ex_rich = false /\ roundtripb ex_rich = true.
Proof. conj_vm. Qed.

(* ---- the known findings are outside the guard *)
Example C13r_findings_outside :
  rt_ok f4_witness = false /\ rt_ok f15_witness_colon = false /\ rt_ok f15_witness_lt = false.
Proof. conj_vm. Qed.

(* ---- the colon guard is narrow: year:2020 is inside; T12:30:45 (a name ending in a time) is outside and
   indeed fuses (F15) *)
Definition field_year : item := SearchField meta0 [121;101;97;114]%N (W [50;48;50;48]%N).
Definition field_time : item := SearchField meta0 [84;49;50;58;51;48]%N (W [52;53]%N).
Example C13r_numeric_field_inside :
  rt_ok field_year = true /\ roundtrips field_year /\
  rt_ok field_time = false /\ roundtripb field_time = false /\ f15_patternb field_time = true.
Proof.
  split; [vm_compute; reflexivity|]. split; [apply C13_round_trip_partial; vm_compute; reflexivity|].
  conj_vm.
Qed.

(* ---------------------------------------------------------------- non-vacuity: a deep mixed tree
   f:(a OR "b c"~2 AND NOT x^3 AND +y~) (g h)^2.5 AND -t:u:/r/ OR >=v year:2020 T12:30^^0.5 ((<"q" AND a\ b))
   (depth 7: field, field group, OR, AND, NOT, boost, word) *)
Definition ex_deep : item :=
  let ph (s : str) := Term KPhrase meta0 s in
  Op KUnknown meta0
    [SearchField meta0 [102]%N
       (Grp KFieldGroup meta0
          (Op KOr meta0
             [wa;
              Op KAnd meta0
                [Proximity meta0 (ph [34;98;32;99;34]%N) 2 false;
                 Unary KNot meta0 (Boost meta0 (W [120]%N) (mkDec false 3 0) false);
                 Unary KPlus meta0 (Fuzzy meta0 (W [121]%N) dec_half true)]]));
     Op KOr meta0
       [Op KAnd meta0
          [Boost meta0 (Grp KGroup meta0 (Op KUnknown meta0 [W [103]%N; W [104]%N])) (mkDec false 25 (-1)) false;
           Unary KProhibit meta0
             (SearchField meta0 [116]%N (SearchField meta0 [117]%N (Term KRegex meta0 [47;114;47]%N)))];
        ORange KFrom meta0 (W [118]%N) true];
     SearchField meta0 [121;101;97;114]%N (W [50;48;50;48]%N);
     Boost meta0 (Boost meta0 (W [84;49;50;58;51;48]%N) dec_one true) dec_half false;
     Grp KGroup meta0
       (Grp KGroup meta0
          (Op KAnd meta0 [ORange KTo meta0 (ph [34;113;34]%N) false; W [97;92;32;98]%N]))].

Example C13r_nonvacuous :
  rt_ok ex_deep = true /\ roundtrips ex_deep /\
  (exists t', aht ex_deep = Some t' /\
     print true t' =
       [102;58;40;97;32;79;82;32;34;98;32;99;34;126;50;32;65;78;68;32;78;79;84;32;120;94;51;32;65;78;68;32;43;121;126;41;
        32;40;103;32;104;41;94;50;46;53;32;65;78;68;32;45;116;58;117;58;47;114;47;32;79;82;32;62;61;118;
        32;121;101;97;114;58;50;48;50;48;32;84;49;50;58;51;48;94;94;48;46;53;
        32;40;40;60;34;113;34;32;65;78;68;32;97;92;32;98;41;41]%N) /\
  length (fl (syn ex_deep)) = 45.
Proof.
  split; [vm_compute; reflexivity|]. split; [apply C13_round_trip_partial; vm_compute; reflexivity|].
  split; [eexists; split; vm_compute; reflexivity|]. vm_compute. reflexivity.
Qed.

(* the conclusion also computes on the parser model (independent of the proof) *)
Example C13r_nonvacuous_computed : roundtripb ex_deep = true.
Proof. vm_compute. reflexivity. Qed.

(* the old proved family (C13.flat_family) lies inside the new guard *)
Example C13r_contains_flat_family :
  rt_ok (Op KOr meta0 (map W [[102;111;111]; [98;97;114]; [98;97;122]; [113;117;120]]%N)) = true.
Proof. vm_compute. reflexivity. Qed.

Print Assumptions C13_round_trip_partial.
Print Assumptions C13_round_trip_tokens.
Print Assumptions C13r_expressible_guard_refuted.
Print Assumptions C13r_numeral_guard.
