(* EsProofs.v — lemmas about the Elasticsearch query builder model (EsCheck.v, EsBuild.v) against the
   vocabulary of EsSpec.v.  Used by props/C07.v (and C06.v).
   simplify_if_same is modelled by EsBuild.flattened: only an un-named operand of the operation's own class
   is spliced (repair of F16), so the leaf lemmas of part E need no guard on names.
   Part E proves that the E-tree carries the BUILDER-FOLLOWING leaves xl_b (defined here, a proof device: a
   ~ / ^ is applied only when no field between it and its leaf gets a nested clause); part E' proves that the
   builder's nesting decision is EsSpec.crosses_nested (crosses_split) and that xl_b is the specification's
   EsSpec.xl outside F22's class (xl_b_xl), whence the guarded build_etree_leaves / build_leaves. *)
Require Import Base Decimal Tree GenTree GenVisitors GenChars Visitor Json EsSpecs EsCheck EsBuild EsSpec
               TreeInd.
From Coq Require Import Lia.

(* ---------------------------------------------------------------- small list / string facts *)
Lemma str_eqb_sym a b : str_eqb a b = str_eqb b a.
Proof.
  destruct (str_eqb a b) eqn:H1, (str_eqb b a) eqn:H2; try reflexivity.
  - apply str_eqb_eq in H1. subst. rewrite str_eqb_refl in H2. discriminate.
  - apply str_eqb_eq in H2. subst. rewrite str_eqb_refl in H1. discriminate.
Qed.

Lemma mem_str_app x l1 l2 : mem_str x (l1 ++ l2) = mem_str x l1 || mem_str x l2.
Proof. induction l1 as [|y l1 IH]; simpl; [reflexivity|]. rewrite IH, orb_assoc. reflexivity. Qed.

Lemma mem_str_filter x y l :
  mem_str x (filter (fun z => negb (str_eqb y z)) l) = negb (str_eqb y x) && mem_str x l.
Proof.
  induction l as [|z l IH]; simpl; [rewrite andb_false_r; reflexivity|].
  destruct (str_eqb y z) eqn:Hyz; simpl.
  - rewrite IH. apply str_eqb_eq in Hyz. subst z.
    rewrite (str_eqb_sym x y). destruct (str_eqb y x); reflexivity.
  - rewrite IH. destruct (str_eqb x z) eqn:Hxz; simpl.
    + apply str_eqb_eq in Hxz. subst z. rewrite Hyz. reflexivity.
    + reflexivity.
Qed.

Lemma mem_dedup x l : mem_str x (dedup l) = mem_str x l.
Proof.
  induction l as [|y l IH]; simpl; [reflexivity|].
  rewrite mem_str_filter, IH, (str_eqb_sym y x).
  destruct (str_eqb x y); reflexivity.
Qed.

Lemma mem_map_dedup (f : str -> str) x l : mem_str x (map f (dedup l)) = mem_str x (map f l).
Proof.
  assert (Hin : forall y, In y (dedup l) <-> In y l).
  { intros y. rewrite <- !mem_str_In, mem_dedup. tauto. }
  destruct (mem_str x (map f l)) eqn:H.
  - apply mem_str_In. apply mem_str_In in H. apply in_map_iff in H as [y [Hy Hl]].
    apply in_map_iff. exists y. split; [exact Hy|apply Hin; exact Hl].
  - destruct (mem_str x (map f (dedup l))) eqn:H'; [|reflexivity].
    apply mem_str_In in H'. apply in_map_iff in H' as [y [Hy Hl]].
    assert (Hc : mem_str x (map f l) = true).
    { apply mem_str_In. apply in_map_iff. exists y. split; [exact Hy|apply Hin; exact Hl]. }
    congruence.
Qed.

Lemma existsb_orb {A} (f g : A -> bool) l :
  existsb (fun c => f c || g c) l = existsb f l || existsb g l.
Proof.
  induction l as [|c l IH]; simpl; [reflexivity|]. rewrite IH.
  destruct (f c), (g c), (existsb f l), (existsb g l); reflexivity.
Qed.

Lemma existsb_ext_in {A} (f g : A -> bool) l :
  (forall c, In c l -> f c = g c) -> existsb f l = existsb g l.
Proof.
  induction l as [|c l IH]; simpl; intros H; [reflexivity|].
  rewrite (H c (or_introl eq_refl)), IH; [reflexivity|]. intros c' Hc'. apply H. right. exact Hc'.
Qed.

(* ---------------------------------------------------------------- hereditary predicates *)
Lemma supported_op_go l :
  (fix go (l : list item) : bool :=
     match l with [] => true | c :: l' => supported c && go l' end) l = forallb supported l.
Proof. induction l as [|c l IH]; simpl; [reflexivity|]. rewrite IH. reflexivity. Qed.

Lemma rbp_op_go l :
  (fix go (l : list item) : bool :=
     match l with [] => true | c :: l' => range_bounds_plain c && go l' end) l
  = forallb range_bounds_plain l.
Proof. induction l as [|c l IH]; simpl; [reflexivity|]. rewrite IH. reflexivity. Qed.

Lemma plain_term_supported b : plain_term b = true -> supported b = true.
Proof. destruct b as [[]| | | | | | | | | |]; simpl; intros H; try discriminate; reflexivity. Qed.

Lemma range_bound_supported b : range_bound b = true -> supported b = true.
Proof.
  unfold range_bound. intros H. apply orb_prop in H as [H|H]; [apply plain_term_supported; exact H|].
  destruct b as [| | | | | | | |[] ? a| |]; try discriminate. simpl. apply plain_term_supported. exact H.
Qed.

Lemma range_bound_has_value b : range_bound b = true -> exists v, range_bound_value b = Some v.
Proof.
  unfold range_bound. intros H. apply orb_prop in H as [H|H].
  - destruct b as [[]| | | | | | | | | |]; try discriminate; eexists; reflexivity.
  - destruct b as [| | | | | | | |[] ? a| |]; try discriminate.
    destruct a as [[]| | | | | | | | | |]; try discriminate; eexists; reflexivity.
Qed.

Lemma supported_children t : supported t = true -> Forall (fun c => supported c = true) (children t).
Proof.
  destruct t; simpl; intros H; try discriminate; repeat constructor; try exact H.
  - apply andb_prop in H as [H1 H2]. apply range_bound_supported. exact H1.
  - apply andb_prop in H as [H1 H2]. apply range_bound_supported. exact H2.
  - apply andb_prop in H as [_ H]. rewrite supported_op_go in H.
    apply Forall_forall. intros c Hc. rewrite forallb_forall in H. apply H. exact Hc.
Qed.

Lemma plain_term_rbp b : plain_term b = true -> range_bounds_plain b = true.
Proof. destruct b; simpl; intros H; try discriminate; reflexivity. Qed.

Lemma rbp_children t :
  range_bounds_plain t = true -> Forall (fun c => range_bounds_plain c = true) (children t).
Proof.
  destruct t; simpl; intros H; repeat constructor; try exact H.
  - apply andb_prop in H as [H1 H2]. apply plain_term_rbp. exact H1.
  - apply andb_prop in H as [H1 H2]. apply plain_term_rbp. exact H2.
  - rewrite rbp_op_go in H. apply Forall_forall. intros c Hc. rewrite forallb_forall in H. apply H. exact Hc.
Qed.

Lemma supported_op_length k m ops : supported (Op k m ops) = true -> 2 <= length ops.
Proof.
  simpl. intros H. apply andb_prop in H as [H _].
  destruct ops as [|? [|? ?]]; simpl in *; try discriminate; lia.
Qed.

(* ================================================================ A. the nesting checker *)

Lemma chk_go_unfold env t prefix :
  chk_go env t prefix = chk_via env (chk_go env) t prefix (children t).
Proof. destruct t; reflexivity. Qed.

Lemma chk_go_term env k m v prefix : chk_go env (Term k m v) prefix = check_final env prefix.
Proof. destruct k; reflexivity. Qed.

Definition is_term (t : item) : bool := match t with Term _ _ _ => true | _ => false end.

Lemma chk_go_nonterm env t prefix :
  is_term t = false ->
  chk_go env t prefix = chk_walk (chk_go env) (prefix ++ fname_comps t) (children t).
Proof.
  intros Ht. rewrite chk_go_unfold.
  destruct t as [| | []| | | | |[]|[]|[]|]; try discriminate; unfold chk_via; simpl;
    rewrite ?app_nil_r; reflexivity.
Qed.

Lemma chk_walk_none f p l : chk_walk f p l = None <-> Forall (fun c => f c p = None) l.
Proof.
  induction l as [|c l IH]; simpl.
  - split; auto.
  - destruct (f c p) eqn:Hc.
    + split; [discriminate|]. intros H. inversion H; subst. congruence.
    + rewrite IH. split; intros H; [constructor; assumption|inversion H; assumption].
Qed.

Lemma chk_walk_some f p l e : chk_walk f p l = Some e -> exists c, In c l /\ f c p = Some e.
Proof.
  induction l as [|c l IH]; simpl; [discriminate|].
  destruct (f c p) eqn:Hc.
  - intros H; inversion H; subst. exists c. auto.
  - intros H. destruct (IH H) as [c' [Hin Hc']]. exists c'. auto.
Qed.

Lemma subtree_term_nil t q k m v :
  is_term t = true -> subtree_at t q = Some (Term k m v) -> q = [].
Proof.
  destruct t; try discriminate. intros _. destruct q as [|i q]; [reflexivity|].
  simpl. destruct i; discriminate.
Qed.

(* the checker passes iff every term sits on a field path check_final accepts *)
Lemma chk_go_none env : forall t prefix,
  chk_go env t prefix = None <->
  (forall q k m v, subtree_at t q = Some (Term k m v) ->
                   check_final env (prefix ++ field_path t q) = None).
Proof.
  intros t. induction t as [t IH] using item_children_ind. intros prefix.
  destruct (is_term t) eqn:Ht.
  - destruct t; try discriminate. rewrite chk_go_term. split.
    + intros H q k0 m0 v0 Hq. apply subtree_term_nil in Hq; [|reflexivity]. subst q. simpl.
      rewrite app_nil_r. exact H.
    + intros H. specialize (H [] k m v eq_refl). simpl in H. rewrite app_nil_r in H. exact H.
  - rewrite chk_go_nonterm by exact Ht. rewrite chk_walk_none. split.
    + intros Hall q k m v Hq. destruct q as [|i q].
      * simpl in Hq. inversion Hq; subst. discriminate.
      * simpl in Hq. simpl. destruct (nth_error (children t) i) as [c|] eqn:Hi; [|discriminate].
        rewrite Forall_forall in Hall, IH. apply nth_error_In in Hi as Hin.
        specialize (Hall c Hin).
        pose proof (proj1 (IH c Hin (prefix ++ fname_comps t)) Hall q k m v Hq) as Hall'.
        rewrite <- app_assoc in Hall'. exact Hall'.
    + intros H. apply Forall_forall. intros c Hin. rewrite Forall_forall in IH.
      apply (proj2 (IH c Hin (prefix ++ fname_comps t))). intros q k m v Hq.
      apply In_nth_error in Hin as [i Hi].
      specialize (H (i :: q) k m v). simpl in H. rewrite Hi in H. specialize (H Hq).
      rewrite <- app_assoc. exact H.
Qed.

Lemma check_final_kind env p e : check_final env p = Some e -> e = XNested \/ e = XObject.
Proof.
  unfold check_final. destruct p; [discriminate|].
  repeat match goal with
         | |- context [if ?b then _ else _] => destruct b
         | |- context [match ?x with Some _ => _ | None => _ end] => destruct x
         end; intros H; inversion H; auto.
Qed.

Lemma chk_go_kind env : forall t prefix e, chk_go env t prefix = Some e -> e = XNested \/ e = XObject.
Proof.
  intros t. induction t as [t IH] using item_children_ind. intros prefix e.
  destruct (is_term t) eqn:Ht.
  - destruct t; try discriminate. rewrite chk_go_term. apply check_final_kind.
  - rewrite chk_go_nonterm by exact Ht. intros H. apply chk_walk_some in H as [c [Hin Hc]].
    rewrite Forall_forall in IH. exact (IH c Hin _ _ Hc).
Qed.

(* an exception of the checker is the verdict of check_final on some term of the tree *)
Lemma chk_go_some env : forall t prefix e,
  chk_go env t prefix = Some e ->
  exists q k m v, subtree_at t q = Some (Term k m v) /\
                  check_final env (prefix ++ field_path t q) = Some e.
Proof.
  intros t. induction t as [t IH] using item_children_ind. intros prefix e.
  destruct (is_term t) eqn:Ht.
  - destruct t; try discriminate. rewrite chk_go_term. intros H.
    exists [], k, m, v. simpl. rewrite app_nil_r. auto.
  - rewrite chk_go_nonterm by exact Ht. intros H. apply chk_walk_some in H as [c [Hin Hc]].
    rewrite Forall_forall in IH. destruct (IH c Hin _ _ Hc) as [q [k [m [v [Hq Hf]]]]].
    apply In_nth_error in Hin as [i Hi]. exists (i :: q), k, m, v. simpl. rewrite Hi.
    split; [exact Hq|]. rewrite app_assoc. exact Hf.
Qed.

(* check_final of the builder's checker is bad_field on the parents of the declared paths *)
Lemma check_final_bad_field cfg fp :
  check_final (ev_chk (mk_env cfg)) fp = None <-> bad_field cfg (parent_containers cfg) fp = false.
Proof.
  unfold check_final, bad_field. destruct fp as [|x fp]; [tauto|].
  set (full := dotted (x :: fp)). simpl ev_chk. unfold mk_chk_env. simpl.
  unfold parent_containers, prefixes_of. rewrite mem_str_app, !mem_dedup.
  fold (declared_nested cfg). fold (declared_object cfg). fold (declared_sub cfg).
  assert (Hobj : normalize_object (spec_of_set (declared_object cfg)) =
                 option_map dedup (declared_object cfg)).
  { unfold declared_object. destruct (normalize_object (c_object cfg)); reflexivity. }
  rewrite Hobj. unfold parent_path, olist.
  destruct (declared_object cfg) as [objs|]; simpl;
    destruct (declared_sub cfg) as [subs|]; simpl; rewrite ?mem_dedup, ?mem_map_dedup;
    repeat match goal with |- context [mem_str ?a ?b] => destruct (mem_str a b) end; simpl;
    destruct (Nat.ltb 1 (S (length fp))); simpl; split; intros H; simpl in H; try reflexivity;
    try discriminate.
Qed.

(* the nesting checker of the builder raises iff a term is misplaced w.r.t. the parents of the
   declared paths; it only ever raises the two field exceptions *)
Lemma check_nested_spec cfg t :
  (check_nested (ev_chk (mk_env cfg)) t = None <-> ~ misuse_with cfg (parent_containers cfg) t) /\
  (forall e, check_nested (ev_chk (mk_env cfg)) t = Some e ->
             (e = XNested \/ e = XObject) /\ misuse_with cfg (parent_containers cfg) t).
Proof.
  unfold check_nested. split.
  - rewrite chk_go_none. split.
    + intros H [q [k [m [v [Hq Hbad]]]]]. specialize (H q k m v Hq). simpl in H.
      apply check_final_bad_field in H. congruence.
    + intros H q k m v Hq. simpl. apply check_final_bad_field.
      destruct (bad_field cfg (parent_containers cfg) (field_path t q)) eqn:Hb; [|reflexivity].
      exfalso. apply H. exists q, k, m, v. auto.
  - intros e He. split; [eapply chk_go_kind; exact He|].
    apply chk_go_some in He as [q [k [m [v [Hq Hf]]]]]. exists q, k, m, v. split; [exact Hq|].
    change ([] ++ field_path t q) with (field_path t q) in Hf.
    destruct (bad_field cfg (parent_containers cfg) (field_path t q)) eqn:Hb; [reflexivity|].
    apply check_final_bad_field in Hb. rewrite Hb in Hf. discriminate.
Qed.

(* ---- parents of declared paths versus all ancestors *)
Lemma parent_in_ancestors p : In (parent_path p) (ancestors p).
Proof. unfold ancestors. simpl. left. reflexivity. Qed.

Lemma mem_parent_containers cfg x :
  mem_str x (parent_containers cfg) = true -> mem_str x (containers cfg) = true.
Proof.
  unfold parent_containers, containers. rewrite !mem_str_app. intros H.
  apply orb_true_iff in H. apply orb_true_iff.
  destruct H as [H|H]; [left|right]; apply mem_str_In in H; apply mem_str_In;
    apply in_map_iff in H as [p [Hp Hin]]; subst x; apply in_flat_map; exists p;
    (split; [exact Hin|apply parent_in_ancestors]).
Qed.

Lemma containers_closed_mem cfg x :
  containers_have_leaf cfg = true ->
  mem_str x (containers cfg) = mem_str x (parent_containers cfg).
Proof.
  intros Hc. unfold containers_have_leaf in Hc. rewrite forallb_forall in Hc.
  destruct (mem_str x (containers cfg)) eqn:H1.
  - apply mem_str_In in H1. symmetry. exact (Hc x H1).
  - destruct (mem_str x (parent_containers cfg)) eqn:H2; [|reflexivity].
    apply mem_parent_containers in H2. congruence.
Qed.

Lemma bad_field_mono cfg fp :
  bad_field cfg (parent_containers cfg) fp = true -> bad_field cfg (containers cfg) fp = true.
Proof.
  unfold bad_field. destruct fp; [auto|]. intros H. apply orb_true_iff in H. apply orb_true_iff.
  destruct H as [H|H]; [left; apply mem_parent_containers; exact H|right; exact H].
Qed.

Lemma misuse_mono cfg t : misuse_with cfg (parent_containers cfg) t -> container_misuse cfg t.
Proof.
  intros [q [k [m [v [Hq Hb]]]]]. exists q, k, m, v. split; [exact Hq|]. apply bad_field_mono. exact Hb.
Qed.

Lemma misuse_closed cfg t :
  containers_have_leaf cfg = true ->
  (container_misuse cfg t <-> misuse_with cfg (parent_containers cfg) t).
Proof.
  intros Hc. split; [|apply misuse_mono].
  intros [q [k [m [v [Hq Hb]]]]]. exists q, k, m, v. split; [exact Hq|].
  unfold bad_field in *. destruct (field_path t q); [exact Hb|].
  rewrite (containers_closed_mem cfg _ Hc) in Hb. exact Hb.
Qed.

(* ================================================================ B. the visitor *)

Lemma visit_unfold cfg env t par cx :
  visit cfg env t par cx = visit_via cfg env (visit cfg env) t par cx (children t).
Proof. destruct t; reflexivity. Qed.

(* the handler table of the builder, per concrete class (re-checked against the generated method
   table and MROs on every build) *)
Lemma bhandler_cls cfg t :
  bhandler_of cfg (cls_of t) =
  match t with
  | Term KWord _ _ => BWord
  | Term KPhrase _ _ => BPhrase
  | Term KRegex _ _ => BGeneric
  | SearchField _ _ _ => BField
  | Grp _ _ _ => BGeneric
  | Range _ _ _ _ _ => BRange
  | Fuzzy _ _ _ _ => BFuzzy
  | Proximity _ _ _ _ => BProximity
  | Boost _ _ _ _ => BBoost
  | Op KAnd _ _ => BBinary EKMust
  | Op KOr _ _ => BBinary EKShould
  | Op KUnknown _ _ => BBinary (match c_default_operator cfg with DShould => EKShould | _ => EKMust end)
  | Op KBool _ _ => BBinary EKBool
  | Unary KPlus _ _ => BBinary EKMust
  | Unary _ _ _ => BNot
  | ORange _ _ _ _ | NoneItem _ => BGeneric
  end.
Proof. destruct t as [[]| |[]| | | | |[]|[]|[]|]; reflexivity. Qed.

Lemma is_must_cls cfg t :
  is_must cfg (cls_of t) = match t with Op k _ _ => and_like cfg k | _ => false end.
Proof.
  destruct t as [[]| |[]| | | | |[]|[]|[]|]; unfold is_must, and_like; simpl;
    destruct (c_default_operator cfg); reflexivity.
Qed.

Lemma is_should_cls cfg t :
  is_should cfg (cls_of t) = match t with Op k _ _ => or_like cfg k | _ => false end.
Proof.
  destruct t as [[]| |[]| | | | |[]|[]|[]|]; unfold is_should, or_like; simpl;
    destruct (c_default_operator cfg); reflexivity.
Qed.

Definition child_opposite (cfg : es_config) (k : opk) (c : item) : bool :=
  match c with Op k' _ _ => opposite cfg k k' | _ => false end.

Lemma mixes_cls cfg t c :
  mixes cfg (cls_of t) (cls_of c) = match t with Op k _ _ => child_opposite cfg k c | _ => false end.
Proof.
  unfold mixes. rewrite !is_must_cls, !is_should_cls.
  destruct t; try reflexivity. destruct c; simpl; rewrite ?andb_false_r; try reflexivity.
  unfold opposite. apply orb_comm.
Qed.

Lemma opposite_irrefl cfg k : opposite cfg k k = false.
Proof. unfold opposite, and_like, or_like. destruct k, (c_default_operator cfg); reflexivity. Qed.

Lemma cls_eqb_op_kind k m ops k' m' ops' :
  cls_eqb (cls_of (Op k' m' ops')) (cls_of (Op k m ops)) = true -> k' = k.
Proof. destruct k, k'; simpl; intros H; try discriminate; reflexivity. Qed.

(* a mix test against a parent of the node's own class never fires *)
Lemma mixes_same_cls cfg t c :
  cls_eqb (cls_of c) (cls_of t) = true -> mixes cfg (cls_of t) (cls_of c) = false.
Proof.
  intros H. rewrite mixes_cls. destruct t; try reflexivity.
  destruct c; try reflexivity. simpl. apply cls_eqb_op_kind in H. subst. apply opposite_irrefl.
Qed.

(* boolean version of `mix` *)
Fixpoint mixb (cfg : es_config) (t : item) : bool :=
  match t with
  | Term _ _ _ | NoneItem _ => false
  | SearchField _ _ e | Grp _ _ e | Boost _ e _ _ => mixb cfg e
  | Fuzzy _ x _ _ | Proximity _ x _ _ => mixb cfg x
  | Unary _ _ a | ORange _ _ a _ => mixb cfg a
  | Range _ lo hi _ _ => mixb cfg lo || mixb cfg hi
  | Op k _ ops =>
      existsb (child_opposite cfg k) ops ||
      (fix go (l : list item) : bool :=
         match l with [] => false | c :: l' => mixb cfg c || go l' end) ops
  end.

Definition mix_here (cfg : es_config) (t : item) : bool :=
  match t with Op k _ ops => existsb (child_opposite cfg k) ops | _ => false end.

Lemma mixb_unfold cfg t : mixb cfg t = mix_here cfg t || existsb (mixb cfg) (children t).
Proof.
  destruct t; simpl; rewrite ?orb_false_r; reflexivity.
Qed.

Lemma mixb_mix cfg : forall t, mixb cfg t = true <-> mix cfg t.
Proof.
  intros t. induction t as [t IH] using item_children_ind. rewrite mixb_unfold, orb_true_iff. split.
  - intros [H|H].
    + destruct t; try discriminate. simpl in H. apply existsb_exists in H as [c [Hin Hc]].
      destruct c; try discriminate. apply In_nth_error in Hin as [i Hi].
      exists [], k, m, ops, i, k0, m0, ops0. auto.
    + apply existsb_exists in H as [c [Hin Hc]]. rewrite Forall_forall in IH.
      apply (IH c Hin) in Hc. destruct Hc as [q [k [m [ops [i [k' [m' [ops' [Hq H']]]]]]]]].
      apply In_nth_error in Hin as [j Hj].
      exists (j :: q), k, m, ops, i, k', m', ops'. split; [|exact H']. simpl. rewrite Hj. exact Hq.
  - intros [q [k [m [ops [i [k' [m' [ops' [Hq [Hi Ho]]]]]]]]]]. destruct q as [|j q].
    + simpl in Hq. inversion Hq; subst. left. simpl. apply existsb_exists.
      exists (Op k' m' ops'). split; [eapply nth_error_In; exact Hi|exact Ho].
    + right. simpl in Hq. destruct (nth_error (children t) j) as [c|] eqn:Hj; [|discriminate].
      apply existsb_exists. exists c. apply nth_error_In in Hj as Hin. split; [exact Hin|].
      rewrite Forall_forall in IH. apply (IH c Hin). exists q, k, m, ops, i, k', m', ops'. auto.
Qed.

Section VisitSpec.
  Variable cfg : es_config.
  Variable env : es_env.

  Definition flat (par : option cls) (t : item) : bool :=
    match par with Some p => flattened t p | None => false end.
  Definition parmix (par : option cls) (t : item) : bool :=
    match par with
    | Some p => negb (flattened t p) && mixes cfg p (cls_of t)
    | None => false
    end.
  Definition vmix (par : option cls) (t : item) : bool := mixb cfg t || parmix par t.

  (* what a visit does on supported trees whose range bounds are terms: OrAndAndOnSameLevel when
     there is a mix (inside, or against the enclosing operation), otherwise it yields exactly one
     item (any number when the node is being flattened into its parent) *)
  Definition V (t : item) : Prop :=
    forall par cx,
      (vmix par t = true -> visit cfg env t par cx = RExc XMix) /\
      (vmix par t = false ->
       exists items, visit cfg env t par cx = ROk items /\ (flat par t = false -> length items = 1)).

  Lemma walk_spec par cx l :
    Forall V l ->
    (existsb (vmix par) l = true -> walk (visit cfg env) par cx l = RExc XMix) /\
    (existsb (vmix par) l = false ->
     exists items, walk (visit cfg env) par cx l = ROk items /\
                   (par = None -> length items = length l)).
  Proof.
    induction l as [|c l IH]; intros HV.
    - simpl. split; [discriminate|]. intros _. exists []. auto.
    - inversion HV as [|? ? Hc Hl]; subst. specialize (IH Hl). destruct (Hc par cx) as [Hc1 Hc2].
      simpl. destruct (vmix par c) eqn:Hv; simpl.
      + split; [|discriminate]. intros _. rewrite (Hc1 eq_refl). reflexivity.
      + destruct (Hc2 eq_refl) as [its [Hits Hlen]]. rewrite Hits. destruct IH as [IH1 IH2]. split.
        * intros H. rewrite (IH1 H). reflexivity.
        * intros H. destruct (IH2 H) as [its' [Hits' Hlen']]. rewrite Hits'.
          exists (its ++ its'). split; [reflexivity|]. intros Hp. subst par.
          rewrite app_length, (Hlen eq_refl), (Hlen' eq_refl). reflexivity.
  Qed.

  (* the operands of a node seen from the node's own _binary_operation *)
  Lemma parmix_own t c :
    parmix (Some (cls_of t)) c = match t with Op k _ _ => child_opposite cfg k c | _ => false end.
  Proof.
    unfold parmix, flattened. rewrite mixes_cls.
    destruct (cls_eqb (cls_of c) (cls_of t)) eqn:He; simpl; [|reflexivity].
    pose proof (mixes_same_cls cfg t c He) as Hs. rewrite mixes_cls in Hs. rewrite Hs.
    apply andb_false_r.
  Qed.

  Lemma existsb_false {A} (l : list A) : existsb (fun _ => false) l = false.
  Proof. induction l; simpl; auto. Qed.

  Lemma vmix_children t :
    existsb (vmix (Some (cls_of t))) (children t) = mixb cfg t.
  Proof.
    rewrite mixb_unfold. unfold vmix. rewrite existsb_orb, orb_comm. f_equal.
    rewrite (existsb_ext_in _ _ _ (fun c _ => parmix_own t c)).
    unfold mix_here. destruct t; try apply existsb_false. reflexivity.
  Qed.

  Lemma vmix_none_children l : existsb (vmix None) l = existsb (mixb cfg) l.
  Proof. apply existsb_ext_in. intros c _. unfold vmix. simpl. apply orb_false_r. Qed.

  Lemma single_spec (r : eres (list eitem)) :
    (r = RExc XMix -> single r = RExc XMix) /\
    (forall items, r = ROk items -> length items = 1 -> exists e, single r = ROk e).
  Proof.
    split; [intros ->; reflexivity|]. intros items -> Hl.
    destruct items as [|e [|? ?]]; try discriminate. exists e. reflexivity.
  Qed.

  (* the "normal" visit of a node (its own handler), as a function of the walks over its children *)
  Definition N_ok (t : item) (r : eres (list eitem)) : Prop :=
    (mixb cfg t = true -> r = RExc XMix) /\
    (mixb cfg t = false -> exists items, r = ROk items /\ length items = 1).

  Lemma cls_eqb_refl c : cls_eqb c c = true.
  Proof. destruct c; reflexivity. Qed.

  Lemma visit_supported : forall t, supported t = true -> V t.
  Proof.
    intros t. induction t as [t IH] using item_children_ind. intros Hs.
    assert (HV : Forall V (children t)).
    { apply supported_children in Hs as Hs'.
      rewrite Forall_forall in *. intros c Hc. apply IH; auto. }
    clear IH.
    (* the handler part *)
    assert (Hnormal : forall cx,
      exists r, N_ok t r /\
        forall par, visit cfg env t par cx =
          match par with
          | None => r
          | Some p =>
              if flattened t p then walk (visit cfg env) (Some p) cx (children t)
              else if mixes cfg p (cls_of t) then
                     (if Nat.ltb (length (children t)) 2 then RExc (XOther KIndexError) else RExc XMix)
                   else r
          end).
    { intros cx.
      (* walks over the children without / with flattening *)
      assert (Hw0 : forall c0, N_ok t (walk (visit cfg env) None c0 (children t)) \/
                               length (children t) <> 1).
      { intros c0. destruct (Nat.eq_dec (length (children t)) 1) as [Hl|Hl]; [left|right; exact Hl].
        destruct (walk_spec None c0 (children t) HV) as [W1 W2].
        rewrite vmix_none_children in W1, W2.
        assert (Hm : mixb cfg t = existsb (mixb cfg) (children t)).
        { rewrite mixb_unfold. destruct t; simpl; try reflexivity.
          (* an operation: not of length 1 *)
          apply supported_op_length in Hs. simpl in Hl. lia. }
        unfold N_ok. rewrite Hm. split; [exact W1|]. intros H. destruct (W2 H) as [its [Hi Hlen]].
        exists its. split; [exact Hi|]. rewrite (Hlen eq_refl). exact Hl. }
      assert (Hw1 : forall c0 k,
                 N_ok t (match walk (visit cfg env) (Some (cls_of t)) c0 (children t) with
                         | RExc e => RExc e
                         | ROk items => ROk [mk_op k items]
                         end)).
      { intros c0 k. destruct (walk_spec (Some (cls_of t)) c0 (children t) HV) as [W1 W2].
        rewrite vmix_children in W1, W2. split.
        - intros H. rewrite (W1 H). reflexivity.
        - intros H. destruct (W2 H) as [its [Hi _]]. rewrite Hi. eexists. split; reflexivity. }
      assert (Hsingle : forall c0 (f : eitem -> eres (list eitem)),
                 length (children t) = 1 ->
                 (forall e, exists x, f e = ROk [x]) ->
                 N_ok t (match single (walk (visit cfg env) None c0 (children t)) with
                         | RExc e => RExc e
                         | ROk e => f e
                         end)).
      { intros c0 f Hl Hf. destruct (Hw0 c0) as [[N1 N2]|Hn]; [|contradiction]. split.
        - intros H. rewrite (N1 H). reflexivity.
        - intros H. destruct (N2 H) as [its [Hi Hlen]]. rewrite Hi.
          destruct its as [|e [|? ?]]; try discriminate. simpl. destruct (Hf e) as [x Hx].
          rewrite Hx. eexists. split; reflexivity. }
      pose proof (bhandler_cls cfg t) as Hh.
      destruct t as [[]| |[]| | | | |[]|[]|[]|]; try discriminate;
        match goal with
        | |- exists r, N_ok ?t r /\ _ =>
            eexists; split;
              [|intros par; rewrite visit_unfold; unfold visit_via; rewrite Hh; destruct par; reflexivity]
        end; simpl children in *; simpl cls_of in *.
      - (* Word *) split; [discriminate|]. intros _. simpl. eexists. split; reflexivity.
      - (* Phrase *) split; [discriminate|]. intros _. simpl.
        destruct (ctx_is_analyzed cfg cx); eexists; split; reflexivity.
      - (* SearchField *) simpl field_name. cbv iota beta.
        apply (Hsingle _ (fun enode =>
                 match split_nested env fname cx with
                 | Some p => if is_enested enode then ROk [enode]
                             else ROk [mk_nested p (get_name (SearchField m fname t) cx) enode]
                 | None => ROk [enode]
                 end)); [reflexivity|].
        intros e. destruct (split_nested env fname cx); [destruct (is_enested e)|]; eexists; reflexivity.
      - (* Group *) destruct (Hw0 (propagate_name (Grp KGroup m t) cx)) as [H|H]; [exact H|contradiction H; reflexivity].
      - (* FieldGroup *) destruct (Hw0 (propagate_name (Grp KFieldGroup m t) cx)) as [H|H]; [exact H|contradiction H; reflexivity].
      - (* Range *) simpl in Hs. apply andb_prop in Hs as [Hlo Hhi].
        destruct (range_bound_has_value _ Hlo) as [vlo Hvlo].
        destruct (range_bound_has_value _ Hhi) as [vhi Hvhi]. rewrite Hvlo, Hvhi.
        assert (Hm : mixb cfg (Range m t1 t2 il ih) = false).
        { simpl. unfold range_bound in Hlo, Hhi.
          destruct t1 as [| | | | | | | |[] ? [| | | | | | | | | |]| |]; try discriminate;
            destruct t2 as [| | | | | | | |[] ? [| | | | | | | | | |]| |]; try discriminate; reflexivity. }
        split; [rewrite Hm; discriminate|]. intros _. eexists. split; reflexivity.
      - (* Fuzzy *) apply (Hsingle _ (fun e => ROk [on_leaf (leaf_set_fuzziness deg) e])); [reflexivity|].
        intros e. eexists. reflexivity.
      - (* Proximity *)
        apply (Hsingle _ (fun e => if ctx_is_analyzed cfg cx
                                   then ROk [on_leaf (leaf_set_slop (dec_of_Z deg)) e]
                                   else ROk [on_leaf (leaf_set_fuzziness (dec_of_Z deg)) e]));
          [reflexivity|].
        intros e. destruct (ctx_is_analyzed cfg cx); eexists; reflexivity.
      - (* Boost *) apply (Hsingle _ (fun e => ROk [on_leaf (leaf_set_boost force) e])); [reflexivity|].
        intros e. eexists. reflexivity.
      - (* And *) apply (Hw1 _ EKMust).
      - (* Or *) apply (Hw1 _ EKShould).
      - (* Unknown *) apply Hw1.
      - (* Bool *) apply (Hw1 _ EKBool).
      - (* Plus *) apply (Hw1 _ EKMust).
      - (* Not *)
        destruct (Hw0 (propagate_name (Unary KNot m t) cx)) as [[N1 N2]|H]; [|contradiction H; reflexivity].
        split.
        + intros H. rewrite (N1 H). reflexivity.
        + intros H. destruct (N2 H) as [its [Hi _]]. rewrite Hi. eexists. split; reflexivity.
      - (* Prohibit *)
        destruct (Hw0 (propagate_name (Unary KProhibit m t) cx)) as [[N1 N2]|H]; [|contradiction H; reflexivity].
        split.
        + intros H. rewrite (N1 H). reflexivity.
        + intros H. destruct (N2 H) as [its [Hi _]]. rewrite Hi. eexists. split; reflexivity. }
    (* the enclosing-operation part *)
    intros par cx. destruct (Hnormal cx) as [r [[N1 N2] Hvisit]]. rewrite Hvisit. clear Hvisit.
    unfold vmix, parmix, flat. destruct par as [p|].
    - destruct (flattened t p) eqn:He; simpl.
      + rewrite orb_false_r.
        assert (Hp : p = cls_of t).
        { unfold flattened in He. apply andb_prop in He as [He _].
          destruct (cls_of t), p; try discriminate; reflexivity. }
        subst p. destruct (walk_spec (Some (cls_of t)) cx (children t) HV) as [W1 W2].
        rewrite vmix_children in W1, W2. split; [exact W1|].
        intros H. destruct (W2 H) as [its [Hi _]]. exists its. split; [exact Hi|discriminate].
      + destruct (mixes cfg p (cls_of t)) eqn:Hm.
        * rewrite orb_true_r. split; [|discriminate]. intros _.
          assert (Hl : Nat.ltb (length (children t)) 2 = false).
          { unfold mixes in Hm. rewrite is_must_cls, is_should_cls in Hm.
            destruct t; try (rewrite !andb_false_r in Hm; discriminate).
            apply supported_op_length in Hs. simpl. apply Nat.ltb_ge. exact Hs. }
          rewrite Hl. reflexivity.
        * rewrite orb_false_r. split; [exact N1|]. intros H. destruct (N2 H) as [its [Hi Hl]].
          exists its. auto.
    - rewrite orb_false_r. split; [exact N1|]. intros H. destruct (N2 H) as [its [Hi Hl]].
      exists its. auto.
  Qed.
End VisitSpec.

(* ================================================================ C. json of E-items is total *)
Section EitemInd.
  Variable P : eitem -> Prop.
  Hypothesis HL : forall l, P (ELeaf l).
  Hypothesis HN : forall p n it, P it -> P (ENested p n it).
  Hypothesis HO : forall k items, Forall P items -> P (EOp k items).

  Fixpoint eitem_ind' (e : eitem) : P e :=
    match e with
    | ELeaf l => HL l
    | ENested p n it => HN p n it (eitem_ind' it)
    | EOp k items =>
        HO k items ((fix go (l : list eitem) : Forall P l :=
                       match l with
                       | [] => Forall_nil P
                       | c :: l' => Forall_cons c (eitem_ind' c) (go l')
                       end) items)
    end.
End EitemInd.

Lemma obj_get_in {A} k (o : list (str * A)) v : obj_get k o = Some v -> exists k', In (k', v) o.
Proof.
  induction o as [|[k' v'] o IH]; simpl; [discriminate|].
  destruct (str_eqb k k').
  - intros H; inversion H; subst. exists k'. auto.
  - intros H. destruct (IH H) as [k'' Hin]. exists k''. auto.
Qed.

Lemma field_opts_methods cfg field :
  wf_config cfg = true ->
  str_or_absent (obj_get k_match_type (field_opts cfg field)) = true /\
  str_or_absent (obj_get k_type (field_opts cfg field)) = true.
Proof.
  intros Hwf. unfold field_opts. destruct (obj_get field (c_field_options cfg)) as [o|] eqn:Ho.
  - apply obj_get_in in Ho as [k' Hin]. unfold wf_config in Hwf.
    apply andb_prop in Hwf as [_ Hwf]. rewrite forallb_forall in Hwf.
    specialize (Hwf _ Hin). simpl in Hwf. apply andb_prop in Hwf. exact Hwf.
  - split; reflexivity.
Qed.

Lemma leaf_method_str cfg l : wf_config cfg = true -> exists m, leaf_method cfg l = JStr m.
Proof.
  intros Hwf. unfold leaf_method.
  destruct (field_opts_methods cfg (leaf_field l) Hwf) as [H1 H2].
  destruct (negb (negb (mem_str (leaf_field l) (c_not_analyzed cfg))) && leaf_has_wildcard l);
    [eexists; reflexivity|].
  destruct (negb (mem_str (leaf_field l) (c_not_analyzed cfg)) && leaf_has_wildcard l);
    [eexists; reflexivity|].
  destruct (negb (mem_str (leaf_field l) (c_not_analyzed cfg)) && starts_with k_match (l_method l));
    [|eexists; reflexivity].
  destruct (obj_get k_match_type (field_opts cfg (leaf_field l))) as [[]|]; try discriminate;
    try (eexists; reflexivity).
  destruct (obj_get k_type (field_opts cfg (leaf_field l))) as [[]|]; try discriminate;
    eexists; reflexivity.
Qed.

Lemma leaf_json_total cfg l : wf_config cfg = true -> exists j, leaf_json cfg l = ROk j.
Proof.
  intros Hwf. unfold leaf_json. destruct (leaf_method_str cfg l Hwf) as [m Hm]. rewrite Hm.
  repeat match goal with |- context [if ?b then _ else _] => destruct b end; eexists; reflexivity.
Qed.

Lemma jmap_total (f : eitem -> eres json) l :
  Forall (fun e => exists j, f e = ROk j) l -> exists js, jmap f l = ROk js.
Proof.
  induction 1 as [|e l [j Hj] _ [js IH]]; simpl; [eexists; reflexivity|].
  rewrite Hj, IH. eexists. reflexivity.
Qed.

Lemma ejson_total cfg : wf_config cfg = true -> forall e, exists j, ejson cfg e = ROk j.
Proof.
  intros Hwf e. induction e as [l|p n it [j Hj]|k items IH] using eitem_ind'.
  - apply leaf_json_total. exact Hwf.
  - simpl. rewrite Hj. eexists. reflexivity.
  - assert (Hm : exists js, jmap (ejson cfg) items = ROk js) by (apply jmap_total; exact IH).
    destruct Hm as [js Hjs].
    destruct k; simpl; rewrite ?Hjs; try (eexists; reflexivity).
    (* EBoolOperation *)
    assert (Hb : exists parts, bool_parts (ejson cfg) items = ROk parts).
    { clear Hjs js. induction IH as [|it l [j Hj] _ [[[m1 s1] n1] IHl]]; simpl; [eexists; reflexivity|].
      assert (Hhere : exists parts,
                match it with
                | EOp EKMust sub =>
                    match jmap (ejson cfg) sub with RExc e => RExc e | ROk js => ROk (js, [], []) end
                | EOp EKMustNot sub =>
                    match jmap (ejson cfg) sub with RExc e => RExc e | ROk js => ROk ([], [], js) end
                | _ => match ejson cfg it with RExc e => RExc e | ROk j => ROk ([], [j], []) end
                end = ROk parts).
      { destruct it as [lf|p n it'|[] sub]; try (rewrite Hj; eexists; reflexivity);
          simpl in Hj; destruct (jmap (ejson cfg) sub); try discriminate; eexists; reflexivity. }
      destruct Hhere as [[[m0 s0] n0] Hh]. rewrite Hh, IHl. eexists. reflexivity. }
    destruct Hb as [[[m1 s1] n1] Hb]. rewrite Hb. eexists. reflexivity.
Qed.

(* ================================================================ D. the whole builder *)
Lemma build_spec cfg t :
  supported t = true -> wf_config cfg = true ->
  match check_nested (ev_chk (mk_env cfg)) t with
  | Some e => build cfg t = RExc e
  | None => if mixb cfg t then build cfg t = RExc XMix else exists j, build cfg t = ROk j
  end.
Proof.
  intros Hs Hwf. unfold build, build_etree, build_etree_env.
  destruct (check_nested (ev_chk (mk_env cfg)) t); [reflexivity|].
  destruct (visit_supported cfg (mk_env cfg) t Hs None ctx0) as [V1 V2].
  unfold vmix, parmix, flat in V1, V2. rewrite orb_false_r in V1, V2.
  destruct (mixb cfg t).
  - rewrite (V1 eq_refl). reflexivity.
  - destruct (V2 eq_refl) as [its [Hi Hl]]. rewrite Hi. specialize (Hl eq_refl).
    destruct its as [|e [|? ?]]; try discriminate. apply ejson_total. exact Hwf.
Qed.

(* ================================================================ E. the leaves of the E-tree *)
Definition is_leaf (e : eitem) : bool := match e with ELeaf _ => true | _ => false end.

Definition tag (k : eopk) (items : list eitem) : list eitem :=
  match ztq_of_op k with Some z => map (on_leaf (leaf_set_ztq z)) items | None => items end.

Lemma eleaves_op k items : eleaves (EOp k items) = flat_map eleaves items.
Proof. simpl. induction items as [|x l IH]; simpl; [reflexivity|]. rewrite IH. reflexivity. Qed.

Lemma mk_op_leaves k items : eleaves (mk_op k items) = flat_map eleaves (tag k items).
Proof. unfold mk_op, tag. rewrite eleaves_op. reflexivity. Qed.

Lemma eleaves_on_leaf f e :
  eleaves (on_leaf f e) = if is_leaf e then map f (eleaves e) else eleaves e.
Proof. destruct e; reflexivity. Qed.

Lemma is_leaf_on_leaf f e : is_leaf (on_leaf f e) = is_leaf e.
Proof. destruct e; reflexivity. Qed.

Lemma tag_app k a b : tag k (a ++ b) = tag k a ++ tag k b.
Proof. unfold tag. destruct (ztq_of_op k); [apply map_app|reflexivity]. Qed.

Lemma tag_single k e :
  flat_map eleaves (tag k [e]) = tagz (ztq_of_op k) (is_leaf e) (eleaves e).
Proof.
  unfold tag, tagz. destruct (ztq_of_op k); simpl; rewrite app_nil_r; [|reflexivity].
  apply eleaves_on_leaf.
Qed.

Lemma eleaves_exclude p : forall e, eleaves (exclude_nested p e) = eleaves e.
Proof.
  intros e. induction e as [l|p' n it IH|k items IH] using eitem_ind'.
  - reflexivity.
  - simpl. destruct (str_eqb p' p); [exact IH|reflexivity].
  - simpl exclude_nested. rewrite !eleaves_op. induction IH as [|x l Hx _ IHl]; simpl; [reflexivity|].
    rewrite Hx, IHl. reflexivity.
Qed.

Lemma single_ok (r : eres (list eitem)) e : single r = ROk e -> r = ROk [e].
Proof. destruct r as [[|x [|? ?]]|]; simpl; intros H; inversion H; reflexivity. Qed.

Lemma propagate_unnamed t cx : named t = false -> propagate_name t cx = cx.
Proof. unfold named, propagate_name. destruct (name_of t) as [[|? ?]|]; try discriminate; reflexivity. Qed.

Lemma unnamed_not_named t : unnamed t = true -> named t = false.
Proof. unfold unnamed, named. destruct (name_of t); [discriminate|reflexivity]. Qed.

(* visit in terms of the visit without enclosing operation *)
Lemma visit_par_form cfg env t par cx :
  visit cfg env t par cx =
  match par with
  | None => visit cfg env t None cx
  | Some p =>
      if flattened t p then walk (visit cfg env) (Some p) cx (children t)
      else if mixes cfg p (cls_of t) then
             (if Nat.ltb (length (children t)) 2 then RExc (XOther KIndexError) else RExc XMix)
           else visit cfg env t None cx
  end.
Proof. rewrite !visit_unfold. unfold visit_via. destruct par; reflexivity. Qed.

Definition binary_cls (cfg : es_config) (p : cls) : bool :=
  match bhandler_of cfg p with BBinary _ => true | _ => false end.

Definition is_binary (t : item) : bool :=
  match t with Op _ _ _ | Unary KPlus _ _ => true | _ => false end.

Lemma binary_cls_of cfg t : binary_cls cfg (cls_of t) = is_binary t.
Proof. unfold binary_cls. rewrite bhandler_cls. destruct t as [[]| |[]| | | | |[]|[]|[]|]; reflexivity. Qed.

Lemma bhandler_binary cfg t : is_binary t = true -> bhandler_of cfg (cls_of t) = BBinary (ekind cfg t).
Proof. rewrite bhandler_cls. destruct t as [| | | | | | |[]|[]| |]; try discriminate; reflexivity. Qed.

Lemma same_cls_ekind cfg t c : cls_eqb (cls_of c) (cls_of t) = true -> ekind cfg c = ekind cfg t.
Proof.
  destruct t as [[]| |[]| | | | |[]|[]|[]|], c as [[]| |[]| | | | |[]|[]|[]|]; simpl; intros H;
    try discriminate; reflexivity.
Qed.

Lemma same_cls_binary t c : cls_eqb (cls_of c) (cls_of t) = true -> is_binary c = is_binary t.
Proof.
  destruct t as [[]| |[]| | | | |[]|[]|[]|], c as [[]| |[]| | | | |[]|[]|[]|]; simpl; intros H;
    try discriminate; reflexivity.
Qed.

(* ---- the builder-following reading of the expected leaves (proof-side auxiliary, NOT the specification).
   leafy_b / xl_b are EsSpec.direct_leaf / EsSpec.xl with one difference: a ~ / ^ is applied only when the
   operand is a DIRECT leaf for the builder's own nesting decision (split_nested of the derived environment),
   i.e. it is dropped when a field between the modifier and its leaf gets a nested clause.  That is what the
   code does (F22).  Part E proves that the E-tree carries exactly xl_b; part E' proves xl_b = EsSpec.xl outside
   F22's class (modifier_over_nested). *)
Fixpoint leafy_b (cfg : es_config) (env : es_env) (t : item) (cx : ectx) : bool :=
  match t with
  | Term KRegex _ _ => false
  | Term _ _ _ => true
  | Range _ _ _ _ _ => true
  | SearchField _ n e =>
      leafy_b cfg env e (field_ctx cfg t n cx) &&
      match split_nested env n cx with None => true | Some _ => false end
  | Grp _ _ e | Boost _ e _ _ => leafy_b cfg env e (propagate_name t cx)
  | Fuzzy _ x _ _ | Proximity _ x _ _ => leafy_b cfg env x (propagate_name t cx)
  | _ => false
  end.

Fixpoint xl_b (cfg : es_config) (env : es_env) (t : item) (cx : ectx) : list leaf :=
  let cx' := propagate_name t cx in
  let sub (c : item) := tagz (ztq_of_op (ekind cfg t)) (leafy_b cfg env c cx') (xl_b cfg env c cx') in
  match t with
  | Term KWord _ v => [word_leaf cfg t v cx]
  | Term KPhrase _ v => [phrase_leaf cfg t v cx]
  | Term KRegex _ _ => []
  | Range _ lo hi il ih =>
      match range_bound_value lo, range_bound_value hi with
      | Some vlo, Some vhi =>
          [mk_range (if il then k_gte else k_gt) vlo (if ih then k_lte else k_lt) vhi
                    (ctx_fields cfg cx) (get_name t cx)]
      | _, _ => []
      end
  | SearchField _ n e => xl_b cfg env e (field_ctx cfg t n cx)
  | Grp _ _ e => xl_b cfg env e cx'
  | Boost _ e f _ =>
      if leafy_b cfg env e cx' then map (leaf_set_boost f) (xl_b cfg env e cx') else xl_b cfg env e cx'
  | Fuzzy _ x d _ =>
      if leafy_b cfg env x cx' then map (leaf_set_fuzziness d) (xl_b cfg env x cx') else xl_b cfg env x cx'
  | Proximity _ x z _ =>
      if leafy_b cfg env x cx'
      then map (if ctx_is_analyzed cfg cx then leaf_set_slop (dec_of_Z z)
                else leaf_set_fuzziness (dec_of_Z z)) (xl_b cfg env x cx')
      else xl_b cfg env x cx'
  | Op _ _ ops => (fix go (l : list item) : list leaf :=
                     match l with [] => [] | c :: l' => sub c ++ go l' end) ops
  | Unary _ _ a => sub a
  | ORange _ _ a _ => xl_b cfg env a cx'
  | NoneItem _ => []
  end.

Lemma binary_not_leafy_b cfg env t cx : is_binary t = true -> leafy_b cfg env t cx = false.
Proof. destruct t as [| | | | | | | |[]| |]; try discriminate; reflexivity. Qed.

Lemma cls_eqb_eq a b : cls_eqb a b = true -> a = b.
Proof. destruct a, b; try discriminate; reflexivity. Qed.

Lemma op_go_flat_map {A} (f : item -> list A) l :
  (fix go (l : list item) : list A := match l with [] => [] | c :: l' => f c ++ go l' end) l
  = flat_map f l.
Proof. induction l as [|c l IH]; simpl; [reflexivity|]. rewrite IH. reflexivity. Qed.

(* the expected leaves of an operation / + : its operands one after the other *)
Lemma xl_b_binary cfg env t cx :
  is_binary t = true ->
  xl_b cfg env t cx =
  flat_map (fun c => tagz (ztq_of_op (ekind cfg t))
                          (leafy_b cfg env c (propagate_name t cx)) (xl_b cfg env c (propagate_name t cx)))
           (children t).
Proof.
  destruct t as [| | | | | | |k m ops|[] m a| |]; try discriminate; intros _.
  - simpl children.
    exact (op_go_flat_map
             (fun c => tagz (ztq_of_op (ekind cfg (Op k m ops)))
                            (leafy_b cfg env c (propagate_name (Op k m ops) cx))
                            (xl_b cfg env c (propagate_name (Op k m ops) cx))) ops).
  - simpl. rewrite app_nil_r. reflexivity.
Qed.

Section LeavesSpec.
  Variable cfg : es_config.
  Variable env : es_env.

  Definition par_ok (par : option cls) : Prop := forall p, par = Some p -> binary_cls cfg p = true.

  Definition W (t : item) : Prop :=
    forall par cx items, par_ok par -> visit cfg env t par cx = ROk items ->
      if flat par t
      then flat_map eleaves (tag (ekind cfg t) items) = xl_b cfg env t cx
      else exists e, items = [e] /\ eleaves e = xl_b cfg env t cx /\ is_leaf e = leafy_b cfg env t cx.

  Lemma walk_none_leaves cx l items :
    Forall W l -> walk (visit cfg env) None cx l = ROk items ->
    Forall2 (fun c e => eleaves e = xl_b cfg env c cx /\ is_leaf e = leafy_b cfg env c cx) l items.
  Proof.
    intros HW. revert items. induction HW as [|c l Hc _ IH]; simpl; intros items H.
    - inversion H. constructor.
    - destruct (visit cfg env c None cx) as [its|] eqn:Hv; [|discriminate].
      destruct (walk (visit cfg env) None cx l) as [its'|]; [|discriminate].
      inversion H; subst. assert (Hpo : par_ok None) by (intros p Hp; discriminate).
      specialize (Hc None cx its Hpo Hv). simpl in Hc. destruct Hc as [e [-> [H1 H2]]].
      simpl. constructor; [auto|]. apply IH. reflexivity.
  Qed.

  Lemma walk_some_leaves t cx l items :
    is_binary t = true -> Forall W l ->
    walk (visit cfg env) (Some (cls_of t)) cx l = ROk items ->
    flat_map eleaves (tag (ekind cfg t) items) =
    flat_map (fun c => tagz (ztq_of_op (ekind cfg t)) (leafy_b cfg env c cx) (xl_b cfg env c cx)) l.
  Proof.
    intros Hb HW. revert items. induction HW as [|c l Hc _ IH]; simpl; intros items H.
    - inversion H. unfold tag. destruct (ztq_of_op (ekind cfg t)); reflexivity.
    - destruct (visit cfg env c (Some (cls_of t)) cx) as [its|] eqn:Hv; [|discriminate].
      destruct (walk (visit cfg env) (Some (cls_of t)) cx l) as [its'|] eqn:Hw; [|discriminate].
      inversion H; subst. rewrite tag_app, flat_map_app. rewrite (IH its' eq_refl). f_equal.
      assert (Hpo : par_ok (Some (cls_of t))).
      { intros p Hp. inversion Hp; subst. rewrite binary_cls_of. exact Hb. }
      specialize (Hc (Some (cls_of t)) cx its Hpo Hv). unfold flat in Hc.
      destruct (flattened c (cls_of t)) eqn:Hf.
      + unfold flattened in Hf. apply andb_prop in Hf as [He _].
        rewrite (same_cls_ekind cfg t c He) in Hc. rewrite Hc.
        rewrite binary_not_leafy_b by (rewrite (same_cls_binary t c He); exact Hb).
        unfold tagz. destruct (ztq_of_op (ekind cfg t)); reflexivity.
      + destruct Hc as [e [-> [H1 H2]]]. rewrite tag_single, H1, H2. reflexivity.
  Qed.

  (* since the repair of F16 (simplify_if_same keeps a same-class operand that has a name) no guard on
     names is needed *)
  Lemma leaves_supported : forall t, supported t = true -> W t.
  Proof.
    intros t. induction t as [t IH] using item_children_ind. intros Hs.
    assert (HW : Forall W (children t)).
    { apply supported_children in Hs as Hs'.
      rewrite Forall_forall in *. intros c Hc. apply IH; [exact Hc|auto]. }
    clear IH.
    (* without enclosing operation *)
    assert (Hnorm : forall cx items, visit cfg env t None cx = ROk items ->
              exists e, items = [e] /\ eleaves e = xl_b cfg env t cx /\ is_leaf e = leafy_b cfg env t cx).
    { intros cx items Hv.
      destruct (is_binary t) eqn:Hb.
      - (* operations and + *)
        rewrite visit_unfold in Hv. unfold visit_via in Hv. rewrite (bhandler_binary cfg t Hb) in Hv.
        destruct (walk (visit cfg env) (Some (cls_of t)) (propagate_name t cx) (children t))
          as [its|] eqn:Hw; [|discriminate].
        inversion Hv; subst. eexists. split; [reflexivity|]. split.
        + rewrite mk_op_leaves, (walk_some_leaves t _ _ _ Hb HW Hw), xl_b_binary by exact Hb.
          reflexivity.
        + rewrite binary_not_leafy_b by exact Hb. reflexivity.
      - pose proof (bhandler_cls cfg t) as Hh. rewrite visit_unfold in Hv. unfold visit_via in Hv.
        rewrite Hh in Hv.
        destruct t as [[]| |[]| | | | |[]|[]|[]|]; try discriminate; simpl children in *.
        + (* Word *) simpl in Hv. inversion Hv. eexists. repeat split.
        + (* Phrase *) simpl in Hv. unfold xl_b, phrase_leaf.
          destruct (ctx_is_analyzed cfg cx); inversion Hv; eexists; repeat split.
        + (* SearchField *) simpl field_name in Hv. cbv iota beta zeta in Hv.
          fold (field_ctx cfg (SearchField m fname t) fname cx) in Hv.
          destruct (single (walk (visit cfg env) None (field_ctx cfg (SearchField m fname t) fname cx) [t]))
            as [e1|] eqn:Hsg; [|discriminate].
          apply single_ok in Hsg. apply (walk_none_leaves _ _ _ HW) in Hsg.
          inversion Hsg as [|? ? ? ? [H1 H2] Hrest]; subst. inversion Hrest; subst.
          simpl xl_b. simpl leafy_b.
          destruct (split_nested env fname cx) as [p|].
          * destruct (is_enested e1) eqn:Hen; inversion Hv; subst; eexists; split; try reflexivity.
            -- split; [exact H1|]. rewrite andb_false_r. destruct e1; try discriminate; reflexivity.
            -- split; [|rewrite andb_false_r; reflexivity]. unfold mk_nested. simpl.
               rewrite eleaves_exclude. exact H1.
          * inversion Hv; subst. eexists. split; [reflexivity|]. rewrite andb_true_r. auto.
        + (* Group *) apply (walk_none_leaves _ _ _ HW) in Hv.
          inversion Hv as [|? ? ? ? [H1 H2] Hrest]; subst. inversion Hrest; subst.
          eexists. split; [reflexivity|]. auto.
        + (* FieldGroup *) apply (walk_none_leaves _ _ _ HW) in Hv.
          inversion Hv as [|? ? ? ? [H1 H2] Hrest]; subst. inversion Hrest; subst.
          eexists. split; [reflexivity|]. auto.
        + (* Range *) simpl in Hs. apply andb_prop in Hs as [Hlo Hhi].
          destruct (range_bound_has_value _ Hlo) as [vlo Hvlo].
          destruct (range_bound_has_value _ Hhi) as [vhi Hvhi]. simpl xl_b.
          rewrite Hvlo, Hvhi in *. inversion Hv. eexists. repeat split.
        + (* Fuzzy *)
          destruct (single (walk (visit cfg env) None (propagate_name (Fuzzy m t deg impl) cx) [t]))
            as [e1|] eqn:Hsg; [|discriminate].
          apply single_ok in Hsg. apply (walk_none_leaves _ _ _ HW) in Hsg.
          inversion Hsg as [|? ? ? ? [H1 H2] Hrest]; subst. inversion Hrest; subst.
          simpl in Hv. inversion Hv; subst. eexists. split; [reflexivity|].
          rewrite eleaves_on_leaf, is_leaf_on_leaf, H1, H2. simpl. split; reflexivity.
        + (* Proximity *)
          destruct (single (walk (visit cfg env) None (propagate_name (Proximity m t deg impl) cx) [t]))
            as [e1|] eqn:Hsg; [|discriminate].
          apply single_ok in Hsg. apply (walk_none_leaves _ _ _ HW) in Hsg.
          inversion Hsg as [|? ? ? ? [H1 H2] Hrest]; subst. inversion Hrest; subst.
          simpl in Hv. simpl xl_b. simpl leafy_b.
          destruct (ctx_is_analyzed cfg cx); inversion Hv; subst; eexists; (split; [reflexivity|]);
            rewrite eleaves_on_leaf, is_leaf_on_leaf, H1, H2; split; reflexivity.
        + (* Boost *)
          destruct (single (walk (visit cfg env) None (propagate_name (Boost m t force impl) cx) [t]))
            as [e1|] eqn:Hsg; [|discriminate].
          apply single_ok in Hsg. apply (walk_none_leaves _ _ _ HW) in Hsg.
          inversion Hsg as [|? ? ? ? [H1 H2] Hrest]; subst. inversion Hrest; subst.
          simpl in Hv. inversion Hv; subst. eexists. split; [reflexivity|].
          rewrite eleaves_on_leaf, is_leaf_on_leaf, H1, H2. simpl. split; reflexivity.
        + (* Not *)
          destruct (walk (visit cfg env) None (propagate_name (Unary KNot m t) cx) [t]) as [its|] eqn:Hw;
            [|discriminate].
          apply (walk_none_leaves _ _ _ HW) in Hw.
          inversion Hw as [|? ? ? ? [H1 H2] Hrest]; subst. inversion Hrest; subst.
          inversion Hv; subst. eexists. split; [reflexivity|]. split; [|reflexivity].
          rewrite mk_op_leaves, tag_single, H1, H2. reflexivity.
        + (* Prohibit *)
          destruct (walk (visit cfg env) None (propagate_name (Unary KProhibit m t) cx) [t]) as [its|] eqn:Hw;
            [|discriminate].
          apply (walk_none_leaves _ _ _ HW) in Hw.
          inversion Hw as [|? ? ? ? [H1 H2] Hrest]; subst. inversion Hrest; subst.
          inversion Hv; subst. eexists. split; [reflexivity|]. split; [|reflexivity].
          rewrite mk_op_leaves, tag_single, H1, H2. reflexivity. }
    (* with an enclosing operation *)
    intros par cx items Hpo Hv. rewrite visit_par_form in Hv. unfold flat. destruct par as [p|].
    - destruct (flattened t p) eqn:Hf.
      + unfold flattened in Hf. apply andb_prop in Hf as [He Hun].
        apply cls_eqb_eq in He as Hp. subst p.
        assert (Hb : is_binary t = true).
        { rewrite <- (binary_cls_of cfg). apply Hpo. reflexivity. }
        rewrite (walk_some_leaves t _ _ _ Hb HW Hv), xl_b_binary by exact Hb.
        rewrite (propagate_unnamed t cx (unnamed_not_named t Hun)). reflexivity.
      + destruct (mixes cfg p (cls_of t)).
        * destruct (Nat.ltb (length (children t)) 2); discriminate.
        * apply Hnorm. exact Hv.
    - apply Hnorm. exact Hv.
  Qed.
End LeavesSpec.

(* the leaf items of the E-tree of a supported tree are the builder-following ones *)
Lemma build_etree_leaves_b cfg t e :
  supported t = true -> build_etree cfg t = ROk e ->
  eleaves e = xl_b cfg (mk_env cfg) t ctx0.
Proof.
  intros Hs. unfold build_etree, build_etree_env.
  destruct (check_nested (ev_chk (mk_env cfg)) t); [discriminate|].
  destruct (visit cfg (mk_env cfg) t None ctx0) as [its|] eqn:Hv; [|discriminate].
  assert (Hpo : par_ok cfg None) by (intros p Hp; discriminate).
  pose proof (leaves_supported cfg (mk_env cfg) t Hs None ctx0 its Hpo Hv) as H. simpl in H.
  destruct H as [e1 [-> [H1 _]]]. intros He. inversion He; subst. exact H1.
Qed.

(* ---- the names of the expected leaves: the element's own name, else that of the nearest named enclosing
   element *)
Lemma map_name_map (g : leaf -> leaf) ls :
  (forall l, l_name (g l) = l_name l) -> map l_name (map g ls) = map l_name ls.
Proof. intros H. rewrite map_map. apply map_ext. exact H. Qed.

Lemma tagz_names z lf ls : map l_name (tagz z lf ls) = map l_name ls.
Proof.
  unfold tagz. destruct z; [|reflexivity]. destruct lf; [|reflexivity].
  apply map_name_map. reflexivity.
Qed.

Lemma x_name_propagate t cx : x_name (propagate_name t cx) = pass_down t (x_name cx).
Proof. unfold propagate_name, pass_down. destruct (name_of t) as [[|? ?]|]; reflexivity. Qed.

Lemma expected_names_op k m ops inh :
  expected_names (Op k m ops) inh = flat_map (fun c => expected_names c (pass_down (Op k m ops) inh)) ops.
Proof. exact (op_go_flat_map (fun c => expected_names c (pass_down (Op k m ops) inh)) ops). Qed.

Lemma xl_b_names cfg env : forall t cx, supported t = true ->
  map l_name (xl_b cfg env t cx) = expected_names t (x_name cx).
Proof.
  intros t. induction t as [k m v|m n e IH|k m e IH|m lo hi il ih _ _|m x d i IH|m x d i IH|m e f i IH
                            |k m ops IH|k m a IH|k m a i IH|m] using item_ind'; intros cx Hs.
  - destruct k; try discriminate; simpl.
    + reflexivity.
    + unfold phrase_leaf. destruct (ctx_is_analyzed cfg cx); reflexivity.
  - simpl. rewrite (IH _ Hs). unfold field_ctx. rewrite x_name_propagate. reflexivity.
  - simpl. rewrite (IH _ Hs), x_name_propagate. reflexivity.
  - simpl in Hs. apply andb_prop in Hs as [Hlo Hhi].
    destruct (range_bound_has_value _ Hlo) as [vlo Hvlo].
    destruct (range_bound_has_value _ Hhi) as [vhi Hvhi]. simpl. rewrite Hvlo, Hvhi. reflexivity.
  - simpl. simpl in Hs. destruct (leafy_b cfg env x _); [rewrite map_name_map by reflexivity|];
      rewrite (IH _ Hs), x_name_propagate; reflexivity.
  - simpl. simpl in Hs.
    destruct (leafy_b cfg env x _); [rewrite map_name_map by (intros l; destruct (ctx_is_analyzed cfg cx); reflexivity)|];
      rewrite (IH _ Hs), x_name_propagate; reflexivity.
  - simpl. simpl in Hs. destruct (leafy_b cfg env e _); [rewrite map_name_map by reflexivity|];
      rewrite (IH _ Hs), x_name_propagate; reflexivity.
  - apply supported_children in Hs as Hc. simpl children in Hc.
    rewrite xl_b_binary by reflexivity. simpl children.
    rewrite (expected_names_op k m ops (x_name cx)), <- x_name_propagate.
    generalize (propagate_name (Op k m ops) cx) as cx'. intros cx'.
    generalize (ztq_of_op (ekind cfg (Op k m ops))) as z. intros z. clear Hs.
    induction IH as [|c l Hc1 _ IHl]; [reflexivity|]. inversion Hc; subst. simpl.
    rewrite map_app, tagz_names, (Hc1 _ H1). f_equal. apply IHl. exact H2.
  - simpl in Hs. simpl. rewrite tagz_names, (IH _ Hs), x_name_propagate. reflexivity.
  - discriminate.
  - discriminate.
Qed.

Lemma build_etree_names cfg t e :
  supported t = true -> build_etree cfg t = ROk e -> map l_name (eleaves e) = expected_names t None.
Proof.
  intros Hs He. rewrite (build_etree_leaves_b cfg t e Hs He).
  exact (xl_b_names cfg (mk_env cfg) t ctx0 Hs).
Qed.

(* ================================================================ E'. the specification's leaves; F22 *)
(* the builder's nesting decision (_split_nested on the derived prefixes) is the specification's
   crosses_nested (read from the declared paths alone) *)
Lemma try_prefixes_S np pre names k :
  try_prefixes np pre names (S k) =
  if mem_str (dotted (pre ++ firstn (S k) names)) np then Some (dotted (pre ++ firstn (S k) names))
  else try_prefixes np pre names k.
Proof. reflexivity. Qed.

Lemma try_prefixes_exists np pre names k :
  match try_prefixes np pre names k with Some _ => true | None => false end =
  existsb (fun i => mem_str (dotted (pre ++ firstn (S i) names)) np) (seq 0 k).
Proof.
  induction k as [|k IH]; [reflexivity|].
  rewrite try_prefixes_S, seq_S, existsb_app. cbn [existsb Nat.add]. rewrite orb_false_r, <- IH.
  destruct (mem_str (dotted (pre ++ firstn (S k) names)) np); [rewrite orb_true_r|rewrite orb_false_r];
    reflexivity.
Qed.

Lemma mem_nested_prefixes cfg x :
  mem_str x (ev_nested_prefixes (mk_env cfg)) = mem_str x (nested_parents cfg).
Proof.
  unfold mk_env, nested_parents, declared_nested, prefixes_of. cbn [ev_nested_prefixes].
  rewrite mem_dedup. reflexivity.
Qed.

Lemma crosses_split cfg n cx :
  match split_nested (mk_env cfg) n cx with Some _ => true | None => false end =
  crosses_nested cfg (field_prefix cx) (split_on c_dot n).
Proof.
  unfold split_nested, crosses_nested. rewrite try_prefixes_exists.
  apply existsb_ext_in. intros k _. apply mem_nested_prefixes.
Qed.

Lemma field_prefix_propagate t cx : field_prefix (propagate_name t cx) = field_prefix cx.
Proof. unfold propagate_name. destruct (name_of t) as [[|? ?]|]; reflexivity. Qed.

Lemma field_prefix_field_ctx cfg t n cx :
  field_prefix (field_ctx cfg t n cx) = field_prefix cx ++ split_on c_dot n.
Proof. unfold field_ctx. rewrite field_prefix_propagate. reflexivity. Qed.

(* "a direct leaf for the builder" = "a single leaf with no field crossing a nested boundary in between" *)
Lemma leafy_b_direct cfg : forall t cx,
  leafy_b cfg (mk_env cfg) t cx = direct_leaf cfg (field_prefix cx) t.
Proof.
  intros t. induction t as [k m v|m n e IH|k m e IH|m lo hi il ih _ _|m x d i IH|m x d i IH|m e f i IH
                            |k m ops _|k m a _|k m a i _|m] using item_ind'; intros cx;
    unfold direct_leaf in *; try reflexivity.
  - destruct k; reflexivity.
  - cbn [leafy_b single_leaf chain_crosses]. rewrite IH, field_prefix_field_ctx, <- crosses_split.
    destruct (split_nested (mk_env cfg) n cx), (single_leaf e),
      (chain_crosses cfg (field_prefix cx ++ split_on c_dot n) e); reflexivity.
  - cbn [leafy_b single_leaf chain_crosses]. rewrite IH, field_prefix_propagate. reflexivity.
  - cbn [leafy_b single_leaf chain_crosses]. rewrite IH, field_prefix_propagate. reflexivity.
  - cbn [leafy_b single_leaf chain_crosses]. rewrite IH, field_prefix_propagate. reflexivity.
  - cbn [leafy_b single_leaf chain_crosses]. rewrite IH, field_prefix_propagate. reflexivity.
Qed.

Lemma xl_binary cfg t cx :
  is_binary t = true ->
  xl cfg t cx =
  flat_map (fun c => tagz (ztq_of_op (ekind cfg t))
                          (direct_leaf cfg (field_prefix (propagate_name t cx)) c)
                          (xl cfg c (propagate_name t cx)))
           (children t).
Proof.
  destruct t as [| | | | | | |k m ops|[] m a| |]; try discriminate; intros _.
  - simpl children.
    exact (op_go_flat_map
             (fun c => tagz (ztq_of_op (ekind cfg (Op k m ops)))
                            (direct_leaf cfg (field_prefix (propagate_name (Op k m ops) cx)) c)
                            (xl cfg c (propagate_name (Op k m ops) cx))) ops).
  - simpl. rewrite app_nil_r. reflexivity.
Qed.

(* outside F22's class the builder-following leaves ARE the specification's leaves *)
Lemma xl_b_xl cfg : forall t cx,
  mod_over_nested_at cfg (field_prefix cx) t = false -> xl_b cfg (mk_env cfg) t cx = xl cfg t cx.
Proof.
  intros t. induction t as [k m v|m n e IH|k m e IH|m lo hi il ih _ _|m x d i IH|m x d i IH|m e f i IH
                            |k m ops IH|k m a IH|k m a i IH|m] using item_ind'; intros cx Hm;
    try reflexivity.
  - cbn [xl_b xl]. apply IH. rewrite field_prefix_field_ctx. exact Hm.
  - cbn [xl_b xl]. apply IH. rewrite field_prefix_propagate. exact Hm.
  - cbn [mod_over_nested_at] in Hm. apply orb_false_iff in Hm as [H1 H2].
    cbn [xl_b xl]. rewrite leafy_b_direct, field_prefix_propagate, IH by (rewrite field_prefix_propagate; exact H2).
    unfold direct_leaf. destruct (single_leaf x); [|reflexivity]. simpl in H1. rewrite H1. reflexivity.
  - cbn [mod_over_nested_at] in Hm. apply orb_false_iff in Hm as [H1 H2].
    cbn [xl_b xl]. rewrite leafy_b_direct, field_prefix_propagate, IH by (rewrite field_prefix_propagate; exact H2).
    unfold direct_leaf. destruct (single_leaf x); [|reflexivity]. simpl in H1. rewrite H1. reflexivity.
  - cbn [mod_over_nested_at] in Hm. apply orb_false_iff in Hm as [H1 H2].
    cbn [xl_b xl]. rewrite leafy_b_direct, field_prefix_propagate, IH by (rewrite field_prefix_propagate; exact H2).
    unfold direct_leaf. destruct (single_leaf e); [|reflexivity]. simpl in H1. rewrite H1. reflexivity.
  - rewrite xl_b_binary, xl_binary by reflexivity. simpl children.
    cbn [mod_over_nested_at] in Hm. rewrite <- (field_prefix_propagate (Op k m ops) cx) in Hm.
    generalize dependent (propagate_name (Op k m ops) cx). intros cx' Hm.
    generalize (ztq_of_op (ekind cfg (Op k m ops))) as z. intros z.
    induction IH as [|c l Hc _ IHl]; [reflexivity|]. simpl in Hm. apply orb_false_iff in Hm as [H1 H2].
    simpl. rewrite leafy_b_direct, (Hc cx' H1), (IHl H2). reflexivity.
  - cbn [mod_over_nested_at] in Hm.
    assert (Hb : xl_b cfg (mk_env cfg) (Unary k m a) cx =
                 tagz (ztq_of_op (ekind cfg (Unary k m a)))
                      (leafy_b cfg (mk_env cfg) a (propagate_name (Unary k m a) cx))
                      (xl_b cfg (mk_env cfg) a (propagate_name (Unary k m a) cx))) by reflexivity.
    assert (Hx : xl cfg (Unary k m a) cx =
                 tagz (ztq_of_op (ekind cfg (Unary k m a)))
                      (direct_leaf cfg (field_prefix (propagate_name (Unary k m a) cx)) a)
                      (xl cfg a (propagate_name (Unary k m a) cx))) by reflexivity.
    rewrite Hb, Hx, leafy_b_direct, IH by (rewrite field_prefix_propagate; exact Hm). reflexivity.
  - cbn [xl_b xl]. apply IH. rewrite field_prefix_propagate. exact Hm.
Qed.

(* the leaf items of the E-tree of a supported tree outside F22's class are the expected ones *)
Lemma build_etree_leaves cfg t e :
  supported t = true -> modifier_over_nested cfg t = false -> build_etree cfg t = ROk e ->
  eleaves e = expected_leaves cfg t.
Proof.
  intros Hs Hm He. rewrite (build_etree_leaves_b cfg t e Hs He). unfold expected_leaves.
  apply xl_b_xl. exact Hm.
Qed.

(* ================================================================ F. the leaf clauses of the JSON *)
From Coq Require Import Permutation.

Definition LJ (js : list json) : list json := flat_map leaves js.

Lemma leaves_list_go l :
  (fix gl (l : list json) : list json :=
     match l with [] => [] | x :: l' => leaves x ++ gl l' end) l = LJ l.
Proof. induction l as [|x l IH]; simpl; [reflexivity|]. rewrite IH. reflexivity. Qed.

Lemma leaves_bool_1 key js : leaves (JObj [(k_bool, JObj [(key, JList js)])]) = LJ js.
Proof. simpl. rewrite leaves_list_go, app_nil_r. reflexivity. Qed.

Lemma leaves_bool_parts m s n :
  leaves (JObj [(k_bool, JObj (opt_entry k_must m ++ opt_entry k_should s ++ opt_entry k_must_not n))])
  = LJ m ++ LJ s ++ LJ n.
Proof.
  destruct m as [|m0 m], s as [|s0 s], n as [|n0 n]; simpl; rewrite ?leaves_list_go, ?app_nil_r;
    reflexivity.
Qed.

Lemma leaves_nested p j extra :
  leaves (JObj [(k_nested, JObj ([(k_path, JStr p); (k_query, j)] ++ extra))]) = leaves j.
Proof. reflexivity. Qed.

Lemma leaf_clause_leaves cfg l j :
  leaf_json cfg l = ROk j -> kind_not_reserved cfg l = true -> leaves j = [j] /\ clause cfg l = j.
Proof.
  intros Hj Hk. split; [|unfold clause; rewrite Hj; reflexivity].
  unfold leaf_json in Hj. unfold kind_not_reserved in Hk.
  destruct (match l_kind l, l_q l with LWord, Some q => str_eqb q k_star | _, _ => false end).
  - inversion Hj. reflexivity.
  - destruct (leaf_method cfg l) as [| | |m| |]; try discriminate.
    apply andb_prop in Hk as [Hb Hn]. apply negb_true_iff in Hb, Hn.
    destruct (str_eqb m k_query_string || str_eqb m k_multi_match); inversion Hj; simpl;
      rewrite Hb, Hn; reflexivity.
Qed.

Definition bool_here (f : eitem -> eres json) (it : eitem) : eres (list json * list json * list json) :=
  match it with
  | EOp EKMust sub => match jmap f sub with RExc e => RExc e | ROk js => ROk (js, [], []) end
  | EOp EKMustNot sub => match jmap f sub with RExc e => RExc e | ROk js => ROk ([], [], js) end
  | _ => match f it with RExc e => RExc e | ROk j => ROk ([], [j], []) end
  end.

Lemma bool_parts_cons f it l :
  bool_parts f (it :: l) =
  match bool_here f it with
  | RExc e => RExc e
  | ROk (m1, s1, n1) =>
      match bool_parts f l with
      | RExc e => RExc e
      | ROk (m2, s2, n2) => ROk (m1 ++ m2, s1 ++ s2, n1 ++ n2)
      end
  end.
Proof. reflexivity. Qed.

Lemma perm3 {A} (a1 a2 b1 b2 c1 c2 : list A) :
  Permutation ((a1 ++ a2) ++ (b1 ++ b2) ++ (c1 ++ c2)) ((a1 ++ b1 ++ c1) ++ (a2 ++ b2 ++ c2)).
Proof.
  rewrite <- !app_assoc. apply Permutation_app_head.
  eapply Permutation_trans; [apply Permutation_app_swap_app|]. apply Permutation_app_head.
  rewrite (app_assoc a2 b2 (c1 ++ c2)), (app_assoc a2 b2 c2).
  apply Permutation_app_swap_app.
Qed.

Section JsonLeaves.
  Variable cfg : es_config.

  Definition PJ (e : eitem) : Prop :=
    forall j, ejson cfg e = ROk j -> forallb (kind_not_reserved cfg) (eleaves e) = true ->
              Permutation (leaves j) (map (clause cfg) (eleaves e)).

  Lemma jmap_perm items js :
    Forall PJ items -> jmap (ejson cfg) items = ROk js ->
    forallb (kind_not_reserved cfg) (flat_map eleaves items) = true ->
    Permutation (LJ js) (map (clause cfg) (flat_map eleaves items)).
  Proof.
    intros HP. revert js. induction HP as [|e l He _ IH]; simpl; intros js Hj Hk.
    - inversion Hj. constructor.
    - destruct (ejson cfg e) as [j|] eqn:Hje; [|discriminate].
      destruct (jmap (ejson cfg) l) as [js'|]; [|discriminate]. inversion Hj; subst.
      rewrite forallb_app in Hk. apply andb_prop in Hk as [Hk1 Hk2].
      simpl. rewrite map_app. apply Permutation_app; [apply He; auto|apply IH; auto].
  Qed.

  Lemma ejson_leaves : forall e, PJ e.
  Proof.
    intros e. induction e as [l|p n it IH|k items IH] using eitem_ind'; intros j Hj Hk.
    - simpl in Hj, Hk. rewrite andb_true_r in Hk.
      destruct (leaf_clause_leaves cfg l j Hj Hk) as [H1 H2]. simpl. rewrite H1, H2. constructor.
      constructor.
    - simpl in Hj. destruct (ejson cfg it) as [j'|] eqn:Hit; [|discriminate]. inversion Hj; subst.
      match goal with |- Permutation (leaves (JObj [(_, JObj (_ :: _ :: ?x))])) _ =>
        change (Permutation (leaves (JObj [(k_nested, JObj ([(k_path, JStr p); (k_query, j')] ++ x))]))
                            (map (clause cfg) (eleaves it))) end.
      rewrite leaves_nested. apply IH; auto.
    - rewrite eleaves_op in *.
      assert (Hstd : forall js, jmap (ejson cfg) items = ROk js ->
                Permutation (LJ js) (map (clause cfg) (flat_map eleaves items))).
      { intros js Hjs. apply jmap_perm; auto. }
      destruct k; simpl in Hj;
        try (destruct (jmap (ejson cfg) items) as [js|] eqn:Hjs; [|discriminate];
             inversion Hj; subst; rewrite leaves_bool_1; apply Hstd; reflexivity).
      (* EBoolOperation *)
      destruct (bool_parts (ejson cfg) items) as [[[m s] n]|] eqn:Hb; [|discriminate].
      inversion Hj; subst. rewrite leaves_bool_parts. clear Hj Hstd.
      revert m s n Hb Hk. induction IH as [|it l Hit _ IHl]; intros m s n Hb Hk.
      + simpl in Hb. inversion Hb. constructor.
      + rewrite bool_parts_cons in Hb. simpl in Hk. rewrite forallb_app in Hk.
        apply andb_prop in Hk as [Hk1 Hk2].
        destruct (bool_here (ejson cfg) it) as [[[m1 s1] n1]|] eqn:Hh; [|discriminate].
        assert (Hp1 : Permutation (LJ m1 ++ LJ s1 ++ LJ n1) (map (clause cfg) (eleaves it))).
        { assert (Hshould : forall j, ejson cfg it = ROk j ->
                    Permutation (LJ [] ++ LJ [j] ++ LJ []) (map (clause cfg) (eleaves it))).
          { intros j Hj. simpl. rewrite !app_nil_r. apply Hit; auto. }
          unfold bool_here in Hh. destruct it as [lf|p n0 it'|[] sub]; cbv iota beta in Hh;
            try (match type of Hh with
                 | match ?x with _ => _ end = _ => destruct x as [j|] eqn:Hj; [|discriminate]
                 end; inversion Hh; subst; apply Hshould; first [exact Hj | reflexivity]).
          - destruct (jmap (ejson cfg) sub) as [js|] eqn:Hjs; [|discriminate].
            injection Hh as <- <- <-. simpl LJ. rewrite !app_nil_r.
            rewrite <- (leaves_bool_1 (op_key EKMust) js). apply Hit; [|exact Hk1].
            simpl. rewrite Hjs. reflexivity.
          - destruct (jmap (ejson cfg) sub) as [js|] eqn:Hjs; [|discriminate].
            injection Hh as <- <- <-. simpl LJ.
            rewrite <- (leaves_bool_1 (op_key EKMustNot) js). apply Hit; [|exact Hk1].
            simpl. rewrite Hjs. reflexivity. }
        destruct (bool_parts (ejson cfg) l) as [[[m2 s2] n2]|] eqn:Hb2; [|discriminate].
        inversion Hb; subst. specialize (IHl m2 s2 n2 eq_refl Hk2).
        unfold LJ in *. change (flat_map eleaves (it :: l)) with (eleaves it ++ flat_map eleaves l).
        rewrite !flat_map_app, map_app.
        eapply Permutation_trans; [|apply Permutation_app; [exact Hp1|exact IHl]].
        (* (a1++a2)++(b1++b2)++(c1++c2)  ~  (a1++b1++c1)++(a2++b2++c2) *)
        apply perm3.
  Qed.
End JsonLeaves.

(* the leaf clauses of the generated query are the clauses of the expected leaves *)
Lemma build_leaves cfg t j :
  supported t = true -> kinds_not_reserved cfg t = true -> modifier_over_nested cfg t = false ->
  build cfg t = ROk j -> Permutation (leaves j) (expected_clauses cfg t).
Proof.
  intros Hs Hk Hm. unfold build. destruct (build_etree cfg t) as [e|] eqn:He; [|discriminate].
  intros Hj. pose proof (build_etree_leaves cfg t e Hs Hm He) as Hl.
  unfold expected_clauses. rewrite <- Hl. apply ejson_leaves; [exact Hj|].
  rewrite Hl. exact Hk.
Qed.

(* ================================================================ G. the produced JSON is plain data *)
Lemma json_wf_list_go l :
  (fix go (l : list json) : bool :=
     match l with [] => true | x :: l' => json_wf x && go l' end) l = forallb json_wf l.
Proof. induction l as [|x l IH]; simpl; [reflexivity|]. rewrite IH. reflexivity. Qed.

Lemma json_wf_obj_go o :
  (fix go (o : list (str * json)) : bool :=
     match o with [] => true | (_, v) :: o' => json_wf v && go o' end) o
  = forallb (fun kv => json_wf (snd kv)) o.
Proof. induction o as [|[k v] o IH]; simpl; [reflexivity|]. rewrite IH. reflexivity. Qed.

Lemma json_wf_obj o :
  json_wf (JObj o) = nodup_keys (map fst o) && forallb (fun kv => json_wf (snd kv)) o.
Proof. simpl. rewrite json_wf_obj_go. reflexivity. Qed.

Lemma json_wf_jlist l : json_wf (JList l) = forallb json_wf l.
Proof. simpl. apply json_wf_list_go. Qed.

Lemma mem_keys_set {A} x k (v : A) o :
  mem_str x (map fst (obj_set k v o)) = mem_str x (map fst o) || str_eqb x k.
Proof.
  induction o as [|[k' v'] o IH]; simpl; [rewrite orb_false_r; reflexivity|].
  destruct (str_eqb k k') eqn:Hk; simpl.
  - apply str_eqb_eq in Hk. subst k'. destruct (str_eqb x k); simpl; [reflexivity|].
    rewrite orb_false_r. reflexivity.
  - rewrite IH. rewrite orb_assoc. reflexivity.
Qed.

Lemma obj_set_wf k v o : json_wf (JObj o) = true -> json_wf v = true -> json_wf (JObj (obj_set k v o)) = true.
Proof.
  rewrite !json_wf_obj. intros H Hv. apply andb_prop in H as [Hn Hf]. apply andb_true_intro.
  induction o as [|[k' v'] o IH]; simpl.
  - rewrite Hv. auto.
  - simpl in Hn, Hf. apply andb_prop in Hn as [Hn1 Hn2]. apply andb_prop in Hf as [Hf1 Hf2].
    destruct (str_eqb k k') eqn:Hk; simpl.
    + rewrite Hn1, Hn2, Hv, Hf2. auto.
    + destruct (IH Hn2 Hf2) as [I1 I2].
      rewrite mem_keys_set, (str_eqb_sym k' k), Hk, orb_false_r, Hn1, I1, I2, Hf1. auto.
Qed.

Lemma mem_keys_remove {A} x k (o : list (str * A)) :
  mem_str x (map fst (obj_remove k o)) = true -> mem_str x (map fst o) = true.
Proof.
  induction o as [|[k' v'] o IH]; simpl; [auto|].
  destruct (str_eqb k k'); simpl.
  - intros H. rewrite H. apply orb_true_r.
  - intros H. apply orb_true_iff in H as [H|H]; [rewrite H; reflexivity|].
    rewrite (IH H). apply orb_true_r.
Qed.

Lemma obj_remove_wf k o : json_wf (JObj o) = true -> json_wf (JObj (obj_remove k o)) = true.
Proof.
  rewrite !json_wf_obj. intros H. apply andb_prop in H as [Hn Hf]. apply andb_true_intro.
  induction o as [|[k' v'] o IH]; simpl; [auto|].
  simpl in Hn, Hf. apply andb_prop in Hn as [Hn1 Hn2]. apply andb_prop in Hf as [Hf1 Hf2].
  destruct (str_eqb k k'); simpl; [auto|].
  destruct (IH Hn2 Hf2) as [I1 I2]. rewrite I1, I2, Hf1.
  destruct (mem_str k' (map fst (obj_remove k o))) eqn:Hm; [|auto].
  apply mem_keys_remove in Hm. rewrite Hm in Hn1. discriminate.
Qed.

Lemma obj_get_wf k o v : json_wf (JObj o) = true -> obj_get k o = Some v -> json_wf v = true.
Proof.
  rewrite json_wf_obj. intros H. apply andb_prop in H as [_ Hf]. rewrite forallb_forall in Hf.
  intros Hg. apply obj_get_in in Hg as [k' Hin]. exact (Hf _ Hin).
Qed.

Lemma field_opts_wf cfg field : wf_config cfg = true -> json_wf (JObj (field_opts cfg field)) = true.
Proof.
  intros Hwf. unfold field_opts. destruct (obj_get field (c_field_options cfg)) as [o|] eqn:Ho; [|reflexivity].
  apply obj_get_in in Ho as [k' Hin]. unfold wf_config in Hwf.
  apply andb_prop in Hwf as [Hwf _]. apply andb_prop in Hwf as [_ Hwf].
  rewrite forallb_forall in Hwf. exact (Hwf _ Hin).
Qed.

Lemma leaf_attr_wf l key v : leaf_attr l key = Some v -> json_wf v = true.
Proof.
  unfold leaf_attr.
  repeat match goal with |- context [if ?b then _ else _] => destruct b end;
    match goal with |- option_map _ ?x = _ -> _ => destruct x end; simpl; intros H; inversion H; reflexivity.
Qed.

Lemma add_key_wf l m inner key :
  json_wf (JObj inner) = true -> json_wf (JObj (add_key l m inner key)) = true.
Proof.
  intros Hi. unfold add_key. destruct (leaf_attr l key) as [v|] eqn:Hv; [|exact Hi].
  apply leaf_attr_wf in Hv.
  assert (Hd : forall k o, json_wf (JObj o) = true -> json_wf (obj_get_default k (JBool true) o) = true).
  { intros k o Ho. unfold obj_get_default. destruct (obj_get k o) eqn:Hg; [|reflexivity].
    eapply obj_get_wf; eauto. }
  repeat match goal with |- context [if ?b then _ else _] => destruct b end;
    repeat (apply obj_set_wf || apply Hd); auto.
Qed.

Lemma fold_add_key_wf l m keys inner :
  json_wf (JObj inner) = true -> json_wf (JObj (fold_left (add_key l m) keys inner)) = true.
Proof.
  revert inner. induction keys as [|k keys IH]; simpl; intros inner Hi; [exact Hi|].
  apply IH. apply add_key_wf. exact Hi.
Qed.

Lemma leaf_json_wf cfg l j : wf_config cfg = true -> leaf_json cfg l = ROk j -> json_wf j = true.
Proof.
  intros Hwf. unfold leaf_json.
  destruct (match l_kind l, l_q l with LWord, Some q => str_eqb q k_star | _, _ => false end).
  - intros H. inversion H. destruct (l_name l); reflexivity.
  - destruct (leaf_method cfg l) as [| | |m| |]; try discriminate.
    assert (Hin : json_wf (JObj (fold_left (add_key l m) (class_keys (l_kind l) ++ l_addkeys l)
                                           (base_options cfg (leaf_field l)))) = true).
    { apply fold_add_key_wf. unfold base_options.
      destruct (match obj_get k_match_type (field_opts cfg (leaf_field l)) with
                | Some v => json_truthy v | None => false end);
        repeat apply obj_remove_wf; apply field_opts_wf; exact Hwf. }
    destruct (str_eqb m k_query_string || str_eqb m k_multi_match); intros H; inversion H;
      rewrite json_wf_obj; simpl; rewrite ?json_wf_obj_go; simpl;
      rewrite json_wf_obj in Hin; simpl in Hin; rewrite ?Hin; reflexivity.
Qed.

Lemma jmap_wf (f : eitem -> eres json) l js :
  Forall (fun e => forall j, f e = ROk j -> json_wf j = true) l ->
  jmap f l = ROk js -> forallb json_wf js = true.
Proof.
  intros HF. revert js. induction HF as [|e l He _ IH]; simpl; intros js H.
  - inversion H. reflexivity.
  - destruct (f e) as [j|] eqn:Hj; [|discriminate]. destruct (jmap f l) as [js'|]; [|discriminate].
    inversion H; subst. simpl. rewrite (He j eq_refl), (IH js' eq_refl). reflexivity.
Qed.

Lemma json_wf_single k v : json_wf (JObj [(k, v)]) = json_wf v.
Proof. rewrite json_wf_obj. simpl. rewrite andb_true_r. reflexivity. Qed.

Lemma opt_entry_wf k js kv :
  forallb json_wf js = true -> In kv (opt_entry k js) -> json_wf (snd kv) = true.
Proof.
  intros Hjs Hin. destruct js as [|j0 js]; [contradiction|]. destruct Hin as [<-|[]].
  simpl snd. rewrite json_wf_jlist. exact Hjs.
Qed.

Lemma bool_obj_wf m s n :
  forallb json_wf m = true -> forallb json_wf s = true -> forallb json_wf n = true ->
  json_wf (JObj [(k_bool, JObj (opt_entry k_must m ++ opt_entry k_should s ++ opt_entry k_must_not n))])
  = true.
Proof.
  intros Hm Hs Hn. rewrite json_wf_single, json_wf_obj. apply andb_true_intro. split.
  - destruct m, s, n; reflexivity.
  - apply forallb_forall. intros kv Hin. apply in_app_or in Hin as [Hin|Hin];
      [exact (opt_entry_wf _ _ _ Hm Hin)|].
    apply in_app_or in Hin as [Hin|Hin];
      [exact (opt_entry_wf _ _ _ Hs Hin)|exact (opt_entry_wf _ _ _ Hn Hin)].
Qed.

Lemma ejson_wf cfg : wf_config cfg = true -> forall e j, ejson cfg e = ROk j -> json_wf j = true.
Proof.
  intros Hwf e. induction e as [l|p n it IH|k items IH] using eitem_ind'; intros j Hj.
  - eapply leaf_json_wf; eauto.
  - simpl in Hj. destruct (ejson cfg it) as [j'|] eqn:Hit; [|discriminate]. inversion Hj; subst.
    specialize (IH j' eq_refl).
    destruct n as [[|c nm]|]; simpl; rewrite IH; reflexivity.
  - destruct k; simpl in Hj;
      try (destruct (jmap (ejson cfg) items) as [js|] eqn:Hjs; [|discriminate];
           inversion Hj; subst; pose proof (jmap_wf _ _ _ IH Hjs) as Hw;
           simpl; rewrite json_wf_list_go, Hw; reflexivity).
    destruct (bool_parts (ejson cfg) items) as [[[m s] n]|] eqn:Hb; [|discriminate].
    inversion Hj; subst. clear Hj.
    assert (Hparts : forallb json_wf m = true /\ forallb json_wf s = true /\ forallb json_wf n = true).
    { revert m s n Hb. induction IH as [|it l Hit _ IHl]; intros m s n Hb.
      - simpl in Hb. inversion Hb. auto.
      - rewrite bool_parts_cons in Hb.
        destruct (bool_here (ejson cfg) it) as [[[m1 s1] n1]|] eqn:Hh; [|discriminate].
        destruct (bool_parts (ejson cfg) l) as [[[m2 s2] n2]|] eqn:Hb2; [|discriminate].
        inversion Hb; subst. destruct (IHl m2 s2 n2 eq_refl) as [I1 [I2 I3]].
        rewrite !forallb_app, I1, I2, I3, !andb_true_r.
        assert (Hsub : forall kk sub js, it = EOp kk sub -> kk <> EKBool ->
                         jmap (ejson cfg) sub = ROk js -> forallb json_wf js = true).
        { intros kk sub js -> Hkk Hjs.
          assert (Hw : json_wf (JObj [(k_bool, JObj [(op_key kk, JList js)])]) = true).
          { apply Hit. destruct kk; try (exfalso; apply Hkk; reflexivity); simpl; rewrite Hjs; reflexivity. }
          simpl in Hw. rewrite json_wf_list_go in Hw. rewrite !andb_true_r in Hw. exact Hw. }
        unfold bool_here in Hh. destruct it as [lf|p n0 it'|[] sub]; cbv iota beta in Hh;
          try (match type of Hh with
               | match ?x with _ => _ end = _ => destruct x as [j|] eqn:Hj; [|discriminate]
               end; injection Hh as <- <- <-; simpl; rewrite (Hit j); auto).
        + destruct (jmap (ejson cfg) sub) as [js|] eqn:Hjs; [|discriminate].
          injection Hh as <- <- <-. simpl. rewrite (Hsub EKMust sub js eq_refl); [auto|discriminate|exact Hjs].
        + destruct (jmap (ejson cfg) sub) as [js|] eqn:Hjs; [|discriminate].
          injection Hh as <- <- <-. simpl. rewrite (Hsub EKMustNot sub js eq_refl); [auto|discriminate|exact Hjs]. }
    destruct Hparts as [Hm [Hs Hn]]. apply bool_obj_wf; assumption.
Qed.

Lemma build_wf cfg t j : wf_config cfg = true -> build cfg t = ROk j -> json_wf j = true.
Proof.
  intros Hwf. unfold build. destruct (build_etree cfg t) as [e|]; [|discriminate].
  apply ejson_wf. exact Hwf.
Qed.

(* ================================================================ H. clause kinds are never reserved *)
Definition method_known (l : leaf) : bool :=
  mem_str (l_method l) [k_term; k_match; k_match_phrase; k_range; k_fuzzy].

Lemma forallb_map_known (g : leaf -> leaf) ls :
  (forall l, method_known l = true -> method_known (g l) = true) ->
  forallb method_known ls = true -> forallb method_known (map g ls) = true.
Proof.
  intros Hg. induction ls as [|l ls IH]; simpl; [auto|]. intros H. apply andb_prop in H as [H1 H2].
  rewrite (Hg l H1), (IH H2). reflexivity.
Qed.

Lemma tagz_known z lf ls : forallb method_known ls = true -> forallb method_known (tagz z lf ls) = true.
Proof.
  intros H. unfold tagz. destruct z; [|exact H]. destruct lf; [|exact H].
  apply forallb_map_known; auto.
Qed.

Lemma xl_methods cfg : forall t cx, forallb method_known (xl cfg t cx) = true.
Proof.
  intros t. induction t using item_ind'; intros cx.
  - destruct k; simpl; unfold word_leaf, phrase_leaf;
      repeat match goal with |- context [if ?b then _ else _] => destruct b end; reflexivity.
  - simpl. apply IHt.
  - simpl. apply IHt.
  - simpl. destruct (range_bound_value t1), (range_bound_value t2); reflexivity.
  - simpl. destruct (single_leaf t); [|apply IHt].
    apply forallb_map_known; [reflexivity|apply IHt].
  - simpl. destruct (single_leaf t); [|apply IHt].
    apply forallb_map_known; [|apply IHt]. intros l Hl. destruct (ctx_is_analyzed cfg cx); [exact Hl|reflexivity].
  - simpl. destruct (single_leaf t); [|apply IHt].
    apply forallb_map_known; [auto|apply IHt].
  - change (xl cfg (Op k m ops) cx) with
      ((fix go (l : list item) : list leaf :=
          match l with
          | [] => []
          | c :: l' =>
              tagz (ztq_of_op (ekind cfg (Op k m ops)))
                   (direct_leaf cfg (field_prefix (propagate_name (Op k m ops) cx)) c)
                   (xl cfg c (propagate_name (Op k m ops) cx)) ++ go l'
          end) ops).
    generalize (propagate_name (Op k m ops) cx) as cx'.
    generalize (ztq_of_op (ekind cfg (Op k m ops))) as z. intros z cx'.
    induction H as [|c l Hc _ IHl]; [reflexivity|]. rewrite forallb_app, IHl, andb_true_r.
    apply tagz_known. apply Hc.
  - simpl. apply tagz_known. apply IHt.
  - simpl. apply IHt.
  - reflexivity.
Qed.

Lemma field_opts_not_reserved cfg field :
  options_not_reserved cfg = true ->
  not_reserved_value (obj_get k_match_type (field_opts cfg field)) = true /\
  not_reserved_value (obj_get k_type (field_opts cfg field)) = true.
Proof.
  intros H. unfold field_opts. destruct (obj_get field (c_field_options cfg)) as [o|] eqn:Ho.
  - apply obj_get_in in Ho as [k' Hin]. unfold options_not_reserved in H. rewrite forallb_forall in H.
    specialize (H _ Hin). apply andb_prop in H. exact H.
  - split; reflexivity.
Qed.

Lemma kind_not_reserved_known cfg l :
  options_not_reserved cfg = true -> method_known l = true -> kind_not_reserved cfg l = true.
Proof.
  intros Ho Hk. unfold kind_not_reserved, leaf_method.
  destruct (field_opts_not_reserved cfg (leaf_field l) Ho) as [H1 H2].
  assert (Hm : negb (str_eqb (l_method l) k_bool) && negb (str_eqb (l_method l) k_nested) = true).
  { unfold method_known in Hk. simpl in Hk.
    repeat (apply orb_true_iff in Hk as [Hk|Hk]; [apply str_eqb_eq in Hk; rewrite Hk; reflexivity|]).
    discriminate. }
  repeat match goal with |- context [if ?b then _ else _] => destruct b; [try reflexivity|] end;
    try exact Hm.
  destruct (obj_get k_match_type (field_opts cfg (leaf_field l))) as [[]|]; try reflexivity; try exact H1.
  destruct (obj_get k_type (field_opts cfg (leaf_field l))) as [[]|]; try reflexivity; try exact H2.
  exact Hm.
Qed.

Lemma options_kinds_not_reserved cfg t :
  options_not_reserved cfg = true -> kinds_not_reserved cfg t = true.
Proof.
  intros Ho. unfold kinds_not_reserved, expected_leaves.
  pose proof (xl_methods cfg t ctx0) as H. rewrite forallb_forall in *.
  intros l Hl. apply kind_not_reserved_known; [exact Ho|apply H; exact Hl].
Qed.
