(* Check.v — luqum.check.LuceneCheck: check / errors / __call__.
   Executable definitions only (no proofs).

   Part 1 is the model of the code as it is.  `check` is a Python generator: a run of it is the
   list of messages yielded so far, possibly cut short by an exception (`run`).  `errors` drains
   the generator (`list(...)`), `__call__` stops at the first message.

   Part 2 is the vocabulary of property C20 (well-formed trees, one-hole contexts, defects),
   written independently of the checker's tables.

   The regular expressions of LuceneCheck need the Unicode classes \w and \s: every function takes
   the two predicates `is_word_char`, `is_space` as parameters (props/C20.v and the harness
   instantiate them with Lexer.is_word_char / Lexer.is_space, built on the generated classes of
   gen/GenChars.v).  The pattern sources themselves are generated (gen/GenCheck.v) and tied to what
   is modelled here by `check_patterns_known`. *)
Require Import Base Decimal Tree GenTree GenVisitors GenCheck Visitor.

(* ------------------------------------------------------------------------------------------ *)
(* Part 1 — the model                                                                          *)

Inductive exn :=
| IndexError        (* parents[-1] on an empty list: not raised by the shipped code any more (the
                       guard `parents and ...` was added); kept so that the harness can name it *)
| AttributeError.   (* a handler reading an attribute its node does not have; see own_handlers *)

(* the messages, by kind (the fixed part of the format string) *)
Inductive msgkind :=
| MUnknownItem        (* "Unknown item type %s : %s" *)
| MFieldName          (* "%s is not a valid field name" *)
| MFieldExpr          (* "field expression is not valid : %s" *)
| MGroupMisuse        (* "Group misuse, after SearchField you should use Group : %s" *)
| MFieldGroupMisuse   (* "FieldGroup misuse, it must be used after SearchField : %s" *)
| MSpace              (* "A single term value can't hold a space %s" *)
| MInvalidChars       (* "Invalid characters in term value: %s" *)
| MNegDegree          (* "invalid degree %d, it must be positive" *)
| MFuzzyNotWord       (* "Fuzzy should be on a single term in %s" *)
| MProxNotPhrase      (* "Proximity can be only on a phrase in %s" *)
| MNotInOr.           (* "Prohibit or Not really means 'AND NOT' wich is inconsistent with OR ..." *)

Definition msgkind_eqb (a b : msgkind) : bool :=
  match a, b with
  | MUnknownItem, MUnknownItem | MFieldName, MFieldName | MFieldExpr, MFieldExpr
  | MGroupMisuse, MGroupMisuse | MFieldGroupMisuse, MFieldGroupMisuse | MSpace, MSpace
  | MInvalidChars, MInvalidChars | MNegDegree, MNegDegree | MFuzzyNotWord, MFuzzyNotWord
  | MProxNotPhrase, MProxNotPhrase | MNotInOr, MNotInOr => true
  | _, _ => false
  end.

Definition exn_eqb (a b : exn) : bool :=
  match a, b with IndexError, IndexError | AttributeError, AttributeError => true | _, _ => false end.

(* a (finite) run of a generator: what it yielded, and the exception that ended it if any *)
Record run := mkRun { r_msgs : list msgkind; r_exn : option exn }.
Definition done (l : list msgkind) : run := mkRun l None.
Definition raise (e : exn) : run := mkRun [] (Some e).
(* `yield from a` followed by `yield from b` *)
Definition seq (a b : run) : run :=
  match r_exn a with
  | Some _ => a
  | None => mkRun (r_msgs a ++ r_msgs b) (r_exn b)
  end.
Definition yield_if (b : bool) (k : msgkind) : run := done (if b then [k] else []).

Inductive outcome (A : Type) := Done (a : A) | Raised (e : exn).
Arguments Done {A} a.
Arguments Raised {A} e.

(* parents[-1] ; None = the list is empty *)
Fixpoint last_opt {A} (l : list A) : option A :=
  match l with
  | [] => None
  | [x] => Some x
  | _ :: l' => last_opt l'
  end.

(* LuceneCheck.FIELD_EXPR_FIELDS (= SIMPLE_EXPR_FIELDS + FieldGroup): the generated class tuple *)
Definition field_expr_fields : list cls := gen_field_expr_fields.

(* the three regular expressions, as modelled below; tied to the shipped pattern sources *)
Definition modelled_field_name_re : str := [94;92;119;43;92;90]%N.        (* ^\w+\Z *)
Definition modelled_space_re : str := [92;115]%N.                          (* \s *)
Definition modelled_invalid_term_chars_re : str := [91;43;47;45;93]%N.     (* [+/-] *)
Definition check_patterns_known : bool :=
  str_eqb gen_field_name_re modelled_field_name_re &&
  str_eqb gen_space_re modelled_space_re &&
  str_eqb gen_invalid_term_chars_re modelled_invalid_term_chars_re.

(* invalid_term_chars_re = [+/-] : the characters '+', '/', '-' *)
Definition invalid_term_char (c : char) : bool := N.eqb c 43 || N.eqb c 47 || N.eqb c 45.

(* the handler classes whose bodies are modelled in `own` below *)
Definition own_handlers : list cls :=
  [CWord; CPhrase; CRegex; CSearchField; CGroup; CFieldGroup; CRange; CFuzzy; CProximity; CBoost;
   CPlus; CNot; CProhibit; CBaseOperation; COpenRange].

(* tie obligation: every check_* method of the shipped class is one the model knows *)
Definition check_methods_known : bool :=
  forallb (fun c => mem_cls c own_handlers) gen_methods_LuceneCheck &&
  forallb (fun c => mem_cls c gen_methods_LuceneCheck) gen_check_recurses.

Section Check.
  Variable is_word_char : char -> bool.     (* re: \w on one character *)
  Variable is_space : char -> bool.         (* re: \s on one character *)
  Variable zeal : Z.                        (* LuceneCheck(zeal=...) ; used only as `if self.zeal` *)

  Definition zealous : bool := negb (Z.eqb zeal 0).

  (* field_name_re = re.compile(r"^\w+\Z"), used with .match: the whole string is one or more word
     characters *)
  Definition field_name_ok (s : str) : bool :=
    match s with
    | [] => false
    | _ => forallb is_word_char s
    end.

  (* space_re.search(value) / invalid_term_chars_re.search(value) *)
  Definition has_space (v : str) : bool := existsb is_space v.
  Definition has_invalid_char (v : str) : bool := existsb invalid_term_char v.

  (* isinstance(parents[-1], k) guarded by `parents and ...` *)
  Definition last_isinstance (ps : list cls) (k : cls) : bool :=
    match last_opt ps with Some p => isinstance p k | None => false end.

  (* _check_not_operator: `if self.zeal: if parents and isinstance(parents[-1], OrOperation)` *)
  Definition not_operator (ps : list cls) : run :=
    yield_if (zealous && last_isinstance ps COrOperation) MNotInOr.

  (* the body of check_<h> applied to node t (without the recursion added by the decorator) *)
  Definition own (h : cls) (t : item) (ps : list cls) : run :=
    match h with
    | CSearchField =>
        match t with
        | SearchField _ n e =>
            seq (yield_if (negb (field_name_ok n)) MFieldName)
                (yield_if (negb (isinstance_any (cls_of e) field_expr_fields)) MFieldExpr)
        | _ => raise AttributeError
        end
    | CGroup => yield_if (last_isinstance ps CSearchField) MGroupMisuse
    | CFieldGroup => yield_if (negb (last_isinstance ps CSearchField)) MFieldGroupMisuse
    | CRange | CPhrase | CRegex | CBoost | CBaseOperation | CPlus | COpenRange => done []
    | CWord =>
        match t with
        | Term _ _ v =>
            seq (yield_if (has_space v) MSpace)
                (yield_if (zealous && has_invalid_char v) MInvalidChars)
        | _ => raise AttributeError
        end
    | CFuzzy =>
        match t with
        | Fuzzy _ x d _ =>
            (* sign(item.degree) < 0 with sign = copysign(1, .): the sign bit, also for -0 *)
            seq (yield_if (dsign d) MNegDegree)
                (yield_if (negb (isinstance (cls_of x) CWord)) MFuzzyNotWord)
        | _ => raise AttributeError
        end
    | CProximity =>
        match t with
        | Proximity _ x _ _ => yield_if (negb (isinstance (cls_of x) CPhrase)) MProxNotPhrase
        | _ => raise AttributeError
        end
    | CNot | CProhibit => not_operator ps
    | _ => raise AttributeError     (* no such handler in the model: see check_methods_known *)
    end.

  (* `for child in item.children: yield from self.check(child, parents + [item])` *)
  Definition walk (f : item -> list cls -> run) (ps : list cls) :=
    fix go (l : list item) : run :=
      match l with
      | [] => done []
      | c :: l' => seq (f c ps) (go l')
      end.

  Definition handler (c : cls) : option cls := dispatch gen_methods_LuceneCheck c.

  (* LuceneCheck.check(item, parents); parents are represented by their classes *)
  Fixpoint check (t : item) (ps : list cls) : run :=
    match handler (cls_of t) with
    | None => done [MUnknownItem]
    | Some h =>
        let via (cs : list item) :=
          seq (own h t ps)
              (if mem_cls h gen_check_recurses then walk check (ps ++ [cls_of t]) cs else done []) in
        match t with
        | Term _ _ _ | NoneItem _ => via []
        | SearchField _ _ e | Grp _ _ e | Boost _ e _ _ => via [e]
        | Fuzzy _ x _ _ | Proximity _ x _ _ => via [x]
        | Unary _ _ a | ORange _ _ a _ => via [a]
        | Range _ lo hi _ _ => via [lo; hi]
        | Op _ _ ops => via ops
        end
    end.

  (* LuceneCheck.errors(tree) = list(self.check(tree)) *)
  Definition errors (t : item) : outcome (list msgkind) :=
    let r := check t [] in
    match r_exn r with
    | Some e => Raised e
    | None => Done (r_msgs r)
    end.

  (* LuceneCheck.__call__(tree): `for error in self.check(tree): return False` / `return True` *)
  Definition call (t : item) : outcome bool :=
    let r := check t [] in
    match r_msgs r with
    | _ :: _ => Done false
    | [] => match r_exn r with Some e => Raised e | None => Done true end
    end.

  (* ---------------------------------------------------------------------------------------- *)
  (* Part 2 — vocabulary of property C20 (independent of the checker's tables)                 *)

  (* a field name: one or more word characters *)
  Definition valid_field_name (n : str) : bool :=
    match n with [] => false | _ => forallb is_word_char n end.

  Definition is_word (t : item) : bool := match t with Term KWord _ _ => true | _ => false end.
  Definition is_phrase (t : item) : bool := match t with Term KPhrase _ _ => true | _ => false end.
  Definition is_negation (t : item) : bool :=
    match t with Unary KNot _ _ | Unary KProhibit _ _ => true | _ => false end.
  Definition parent_is (p : option cls) (k : cls) : bool :=
    match p with Some c => cls_eqb c k | None => false end.

  (* the "value" expressions a field may hold: a word, a phrase or a regex, possibly approximated or
     boosted, a range or a comparison, or a parenthesised field group (LuceneCheck.FIELD_EXPR_FIELDS, generated;
     ranges, comparisons and regexes are accepted since fix F25) *)
  Definition value_expr (e : item) : bool :=
    match e with
    | Term _ _ _ | Fuzzy _ _ _ _ | Proximity _ _ _ _ | Boost _ _ _ _
    | Grp KFieldGroup _ _ | Range _ _ _ _ _ | ORange _ _ _ _ => true
    | _ => false
    end.
  (* a bound: a word or a phrase, possibly with the minus sign the grammar allows in a range *)
  Definition plain_bound (e : item) : bool :=
    match e with Term KWord _ _ | Term KPhrase _ _ => true | _ => false end.
  Definition range_bound (e : item) : bool :=
    match e with
    | Term KWord _ _ | Term KPhrase _ _ => true
    | Unary KProhibit _ a => plain_bound a
    | _ => false
    end.

  (* a tree assembled only from well-formed constructs; p = class of the parent, None at the root.
     With zeal, the constructs the zealous rules call pitfalls are excluded as well (a word with
     + / -, a negation as direct operand of OR).  A degree "with a minus sign" (including -0) is
     what is called negative.  A NoneItem placeholder is not a well-formed construct. *)
  Fixpoint wellformed (p : option cls) (t : item) : bool :=
    match t with
    | Term KWord _ v => negb (has_space v) && negb (zealous && has_invalid_char v)
    | Term KPhrase _ _ | Term KRegex _ _ => true
    | SearchField _ n e =>
        valid_field_name n && value_expr e && wellformed (Some CSearchField) e
    | Grp KGroup _ e => negb (parent_is p CSearchField) && wellformed (Some CGroup) e
    | Grp KFieldGroup _ e => parent_is p CSearchField && wellformed (Some CFieldGroup) e
    | Range _ lo hi _ _ =>
        range_bound lo && range_bound hi && wellformed (Some CRange) lo && wellformed (Some CRange) hi
    | Fuzzy _ x d _ => is_word x && wellformed (Some CFuzzy) x && negb (dsign d)
    | Proximity _ x _ _ => is_phrase x && wellformed (Some CProximity) x
    | Boost _ e _ _ => wellformed (Some CBoost) e
    | Op k _ ops => forallb (wellformed (Some (cls_of_opk k))) ops
    | Unary k _ a =>
        negb (zealous && is_negation t && parent_is p COrOperation) && wellformed (Some (cls_of_unk k)) a
    | ORange k _ a _ => range_bound a && wellformed (Some (cls_of_ork k)) a
    | NoneItem _ => false
    end.

End Check.

(* one-hole contexts through which a defect must be found: fields, groups and field groups,
   boosts, operations (any operand position) and the prefixes + / NOT / - *)
Inductive ctx :=
| Hole
| InField (m : meta) (n : str) (c : ctx)
| InGrp (k : groupk) (m : meta) (c : ctx)
| InBoost (m : meta) (c : ctx) (f : dec) (i : bool)
| InOp (k : opk) (m : meta) (l : list item) (c : ctx) (r : list item)
| InUnary (k : unk) (m : meta) (c : ctx).

Fixpoint plug (C : ctx) (d : item) : item :=
  match C with
  | Hole => d
  | InField m n c => SearchField m n (plug c d)
  | InGrp k m c => Grp k m (plug c d)
  | InBoost m c f i => Boost m (plug c d) f i
  | InOp k m l c r => Op k m (l ++ plug c d :: r)
  | InUnary k m c => Unary k m (plug c d)
  end.

(* class of the node just above the hole (p when the context is empty) *)
Fixpoint hole_parent_from (p : option cls) (C : ctx) : option cls :=
  match C with
  | Hole => p
  | InField _ _ c => hole_parent_from (Some CSearchField) c
  | InGrp k _ c => hole_parent_from (Some (cls_of_groupk k)) c
  | InBoost _ c _ _ => hole_parent_from (Some CBoost) c
  | InOp k _ _ c _ => hole_parent_from (Some (cls_of_opk k)) c
  | InUnary k _ c => hole_parent_from (Some (cls_of_unk k)) c
  end.
Definition hole_parent (C : ctx) : option cls := hole_parent_from None C.

Fixpoint ctx_depth (C : ctx) : nat :=
  match C with
  | Hole => 0
  | InField _ _ c | InGrp _ _ c | InBoost _ c _ _ | InOp _ _ _ c _ | InUnary _ _ c => S (ctx_depth c)
  end.

(* the ill-formed constructs listed by the property *)
Inductive defect :=
| DSpaceInWord | DFuzzyNonWord | DProxNonPhrase | DNegFuzzy | DBadFieldName | DNonValueFieldExpr
| DMisplacedGroup | DMisplacedFieldGroup.

(* d, sitting under a parent of class p, is an ill-formed construct of kind k *)
Definition has_defect (is_word_char is_space : char -> bool) (p : option cls) (d : item) (k : defect)
  : bool :=
  match k, d with
  | DSpaceInWord, Term KWord _ v => has_space is_space v
  | DFuzzyNonWord, Fuzzy _ x _ _ => negb (is_word x)
  | DProxNonPhrase, Proximity _ x _ _ => negb (is_phrase x)
  | DNegFuzzy, Fuzzy _ _ dg _ => dsign dg
  | DBadFieldName, SearchField _ n _ => negb (valid_field_name is_word_char n)
  | DNonValueFieldExpr, SearchField _ _ e => negb (value_expr e)
  | DMisplacedGroup, Grp KGroup _ _ => parent_is p CSearchField
  | DMisplacedFieldGroup, Grp KFieldGroup _ _ => negb (parent_is p CSearchField)
  | _, _ => false
  end.

Definition msg_of_defect (k : defect) : msgkind :=
  match k with
  | DSpaceInWord => MSpace
  | DFuzzyNonWord => MFuzzyNotWord
  | DProxNonPhrase => MProxNotPhrase
  | DNegFuzzy => MNegDegree
  | DBadFieldName => MFieldName
  | DNonValueFieldExpr => MFieldExpr
  | DMisplacedGroup => MGroupMisuse
  | DMisplacedFieldGroup => MFieldGroupMisuse
  end.

(* ------------------------------------------------------------------------------------------ *)
(* comparison helpers for the harness *)
Definition outcome_eqb {A} (eqb : A -> A -> bool) (a b : outcome A) : bool :=
  match a, b with
  | Done x, Done y => eqb x y
  | Raised e, Raised e' => exn_eqb e e'
  | _, _ => false
  end.
