(* C20 — LuceneCheck is total, consistent, and finds an ill-formed construct anywhere.
   This file holds only statements, `exact`-closed theorems, non-vacuity examples and
   Print Assumptions.  Model: model/Check.v; lemmas: proofs/CheckProofs.v.  The dispatch of
   LuceneCheck.check goes through the generated class MROs (gen/GenTree.v), the generated table
   of check_* methods and the generated list of the methods wrapped by @_check_children
   (gen/GenVisitors.v), so the theorems are re-checked against what the code says now.

   The character classes \w and \s of the regular expressions are Lexer.is_word_char and
   Lexer.is_space, built on the generated Unicode classes (gen/GenChars.v); the lemmas of
   proofs/CheckProofs.v hold for any two predicates.  The three pattern sources, FIELD_EXPR_FIELDS,
   the check_* table and the decorator list are the generated ones; `C20_tie` checks that they are
   the ones the model implements.

   Clauses of the property text -> statements
     "terminates without raising, returns a list of messages"      C20_total
     "answers True exactly when that list is empty"                 C20_consistent
     "does not modify the tree"                                     not expressible in a value-based
                                                                    model; checked by the harness
     "a tree assembled only from well-formed constructs is accepted"  C20_accepts_wellformed
     "a single ill-formed construct ... at any position reachable through operations, groups,
      fields, boosts and prefixes makes it rejected"                C20_complete

   Remarks (observations, not part of a statement):
     * `wellformed` follows the property's list: the expression of a field must be a value: a word,
       a phrase, a regex, their ~ / ^ forms, a range, a comparison, or a field group (the generated
       FIELD_EXPR_FIELDS; ranges, comparisons and regexes since fix ad2a5df of /repo, see the regression
       example C20_field_range_accepted).  A range bound is a word or a phrase, possibly with the `-`
       the grammar allows.
     * a NoneItem placeholder is not a well-formed construct: the checker answers
       "Unknown item type NoneItem". *)
Require Import Base Decimal Tree GenTree GenVisitors GenCheck Visitor Lexer Check TreeInd CheckProofs.

(* the instances of the model's functions for the real character classes *)
Definition errors_ := errors is_word_char is_space.
Definition call_ := call is_word_char is_space.
Definition wellformed_ := wellformed is_word_char is_space.
Definition has_defect_ := has_defect is_word_char is_space.

(* ---- tie obligations on generated data *)
Theorem C20_tie : check_methods_known = true /\ check_patterns_known = true.
Proof. split; [exact check_methods_known_ok|exact check_patterns_known_ok]. Qed.

(* ---- statements *)

(* no exception, for any tree, any zeal and both entry points *)
Definition C20_total_statement : Prop :=
  forall z t, exists l b, errors_ z t = Done l /\ call_ z t = Done b.

(* __call__ answers True exactly when errors() is the empty list, False exactly when it is not *)
Definition C20_consistent_statement : Prop :=
  forall z t,
    (call_ z t = Done true <-> errors_ z t = Done []) /\
    (call_ z t = Done false <-> exists m l, errors_ z t = Done (m :: l)).

(* acceptance *)
Definition C20_accepts_wellformed_statement : Prop :=
  forall z t, wellformed_ z None t = true -> errors_ z t = Done [] /\ call_ z t = Done true.

(* completeness: one ill-formed construct d of kind k plugged in any context C is reported with
   the message of its kind, and the tree is rejected *)
Definition reported (z : Z) (t : item) (k : defect) : Prop :=
  call_ z t = Done false /\ exists l, errors_ z t = Done l /\ In (msg_of_defect k) l.

Definition C20_complete_statement : Prop :=
  forall z C d k, has_defect_ (hole_parent C) d k = true -> reported z (plug C d) k.

(* ---- proofs (lemmas live in proofs/CheckProofs.v) *)

Theorem C20_total : C20_total_statement.
Proof.
  intros z t. eexists. eexists. split; [apply errors_done|apply call_done].
Qed.

Theorem C20_consistent : C20_consistent_statement.
Proof.
  intros z t. unfold errors_, call_. rewrite errors_done, call_done.
  destruct (r_msgs (check is_word_char is_space z t [])) as [|m l]; repeat split; intros H;
    try reflexivity; try discriminate H.
  - destruct H as [m [l H]]. discriminate H.
  - exists m, l. reflexivity.
Qed.

Theorem C20_accepts_wellformed : C20_accepts_wellformed_statement.
Proof.
  intros z t Hwf. unfold errors_, call_.
  rewrite errors_done, call_done, (wellformed_accepted is_word_char is_space z t [] Hwf).
  split; reflexivity.
Qed.

Theorem C20_complete : C20_complete_statement.
Proof.
  intros z C d k Hd.
  pose proof (defect_detected_in_context is_word_char is_space z d k C [] Hd) as Hin.
  unfold reported, errors_, call_. rewrite errors_done, call_done. split.
  - destruct (r_msgs (check is_word_char is_space z (plug C d) [])); [destruct Hin|reflexivity].
  - eexists. split; [reflexivity|exact Hin].
Qed.

(* ---- non-vacuity and regression examples (closed terms) *)
Definition W (s : str) : item := Term KWord meta0 s.
Definition P (s : str) : item := Term KPhrase meta0 s.
Definition s_a : str := [97]%N.
Definition s_b : str := [98]%N.
Definition s_title : str := [116;105;116;108;101]%N.
Definition s_phrase : str := [34;102;111;111;32;98;97;114;34]%N.     (* "foo bar" with its quotes *)
Definition s_a_b : str := [97;32;98]%N.                               (* a b *)
Definition dec_neg1 : dec := mkDec true 1 0.

(* (title:"foo bar"~2 AND +body:(quick^2 OR fox~)) OR NOT [a TO "b"] -title:/re/... every class
   the parser produces except a bare NoneItem *)
Definition ex_wellformed : item :=
  Op KOr meta0
    [Grp KGroup meta0
       (Op KAnd meta0
          [SearchField meta0 s_title (Proximity meta0 (P s_phrase) 2 false);
           Unary KPlus meta0
             (SearchField meta0 s_b
                (Grp KFieldGroup meta0
                   (Op KUnknown meta0
                      [Boost meta0 (W s_a) (mkDec false 2 0) false;
                       Fuzzy meta0 (W s_b) dec_half true;
                       Op KBool meta0 [P s_phrase; Term KRegex meta0 [47;97;47]%N]])))]);
     Range meta0 (W s_a) (P s_phrase) true false;
     ORange KFrom meta0 (W s_a) true;
     Op KAnd meta0 [W s_a; Unary KNot meta0 (W s_b); Unary KProhibit meta0 (P s_phrase)]].

Example C20_wellformed_nonvacuous :
  wellformed_ 0 None ex_wellformed = true /\
  wellformed_ 2 None ex_wellformed = true /\
  errors_ 2 ex_wellformed = Done [].
Proof. vm_compute. repeat split; reflexivity. Qed.

(* the zeal level matters for what is well-formed: a OR NOT b, a-b *)
Example C20_wellformed_depends_on_zeal :
  let t1 := Op KOr meta0 [W s_a; Unary KNot meta0 (W s_b)] in
  let t2 := W [97;45;98]%N in
  wellformed_ 0 None t1 = true /\
  wellformed_ 1 None t1 = false /\
  errors_ 1 t1 = Done [MNotInOr] /\
  wellformed_ 0 None t2 = true /\
  wellformed_ 1 None t2 = false /\
  errors_ 1 t2 = Done [MInvalidChars].
Proof. vm_compute. repeat split; reflexivity. Qed.

(* a negation at the root with zeal (the old IndexError) and a bare phrase (the old "Unknown item
   type Phrase") are accepted by the code as it is now *)
Example C20_root_negation_and_phrase :
  errors_ 1 (Unary KNot meta0 (W s_a)) = Done [] /\
  errors_ 2 (Unary KProhibit meta0 (W s_a)) = Done [] /\
  call_ 0 (P s_phrase) = Done true.
Proof. vm_compute. repeat split; reflexivity. Qed.

(* regression (fix F25): ranges, regexes and comparisons directly after a field are field values; what is not
   a value (a negation, a plain group, a nested field) is still refused; NoneItem is no construct at all *)
Example C20_field_range_accepted :
  errors_ 0
    (SearchField meta0 s_title (Range meta0 (W s_a) (W s_b) true true)) = Done [] /\
  errors_ 0
    (SearchField meta0 s_title (Range meta0 (Unary KProhibit meta0 (W s_a)) (W s_b) true true)) = Done [] /\
  errors_ 0
    (SearchField meta0 s_title (Term KRegex meta0 [47;97;47]%N)) = Done [] /\
  errors_ 0
    (SearchField meta0 s_title (ORange KFrom meta0 (W s_a) true)) = Done [] /\
  errors_ 0
    (SearchField meta0 s_title (Unary KNot meta0 (W s_a))) = Done [MFieldExpr] /\
  errors_ 0 (NoneItem meta0) = Done [MUnknownItem].
Proof. vm_compute. repeat split; reflexivity. Qed.

(* a context that goes through every kind of frame, five levels deep, with siblings *)
Definition ex_ctx (inner : ctx) : ctx :=
  InOp KOr meta0 [W s_a]
    (InUnary KPlus meta0
       (InGrp KGroup meta0
          (InOp KUnknown meta0 [] 
             (InBoost meta0
                (InField meta0 s_title
                   (InGrp KFieldGroup meta0
                      (InOp KAnd meta0 [W s_a; W s_b] (InUnary KProhibit meta0 inner) [P s_phrase])))
                dec_one false)
             [W s_b])))
    [W s_b].

Definition ex_defects : list (ctx * item * defect) :=
  [(ex_ctx Hole, W s_a_b, DSpaceInWord);
   (ex_ctx Hole, Fuzzy meta0 (P s_phrase) dec_half true, DFuzzyNonWord);
   (ex_ctx Hole, Proximity meta0 (W s_a) 1 true, DProxNonPhrase);
   (ex_ctx Hole, Fuzzy meta0 (W s_a) dec_neg1 false, DNegFuzzy);
   (ex_ctx Hole, SearchField meta0 [97;46;98]%N (W s_a), DBadFieldName);
   (ex_ctx Hole, SearchField meta0 s_a (Op KAnd meta0 [W s_a; W s_b]), DNonValueFieldExpr);
   (ex_ctx (InField meta0 s_a Hole), Grp KGroup meta0 (W s_a), DMisplacedGroup);
   (ex_ctx Hole, Grp KFieldGroup meta0 (W s_a), DMisplacedFieldGroup);
   (Hole, Grp KFieldGroup meta0 (W s_a), DMisplacedFieldGroup)].

Example C20_complete_nonvacuous :
  forallb (fun x => match x with (C, d, k) =>
             has_defect_ (hole_parent C) d k &&
             Nat.leb 9 (ctx_depth (ex_ctx Hole)) &&
             match errors_ 0 (plug C d) with
             | Done l => existsb (msgkind_eqb (msg_of_defect k)) l && Nat.leb (length l) 2
             | _ => false
             end end) ex_defects = true.
Proof. vm_compute. reflexivity. Qed.

(* regression: a field name ending with a newline (accepted until `$` was replaced by `\Z`) and
   names with non-ASCII characters: "é" is a word character, U+00A0 is not *)
Definition nl_field : item := SearchField meta0 [102; 10]%N (W s_a).
Example C20_newline_name_rejected :
  has_defect_ None nl_field DBadFieldName = true /\
  errors_ 0 nl_field = Done [MFieldName] /\
  call_ 2 (plug (ex_ctx Hole) nl_field) = Done false /\
  errors_ 0 (SearchField meta0 [233]%N (W [26085;26412]%N)) = Done [] /\
  errors_ 0 (SearchField meta0 [97;160;98]%N (W [97;12288;98]%N)) = Done [MFieldName; MSpace].
Proof. vm_compute. repeat split; reflexivity. Qed.

Print Assumptions C20_tie.
Print Assumptions C20_total.
Print Assumptions C20_consistent.
Print Assumptions C20_accepts_wellformed.
Print Assumptions C20_complete.
