"""parsegen.py — query string generators and the parser correspondence shared by C01–C04, C14, …"""
import itertools

import lib

WS = [" ", "  ", "\t", "\n", "　", "  ", " \r\n", "\x1c", " ", "\n    ", "\n\t ", "\r\n  "]
TERMS = ["a", "foo", "b2", "x*", "?y", "2024-01-01T12:30", "T12:30:45", "xT12:30", "éa", "AND1", "ANDx",
         "\\AND", "a\\ b", "\\:x", "a/b", "a-b", "a+b", "a'b", "a\"b", "<", "a<b", "1", "42", ".", ",",
         "=a", "a=", "*", "T12", "١٢", "x\\\\", "&&", "||", "!", "NOTx", "to", "T٠٠:٠٠",
         "foo\\ ", "b\\\t", "c\\\u3000", "20", "30:45", "05",
         # decomposed / compatibility characters and capitals: an entry point that normalises or folds its input
         # shifts every offset or changes the text
         "cafe\u0301", "A\u030a", "\ufb01n", "x\u00b2", "\uff41", "Foo", "\u1e9e",
         # characters a lexer may be told to skip or to use as a placeholder: they are ordinary term characters
         "\u200bbar", "\ufefffoo", "a\u200bb", "foo\x00bar", "\x00", "a\u00adb", "\u2060x"]
PHRASES = ['"a"', '"a b"', '""', '"a \\" b"', '"l1\nl2"', '"AND"', '"/"', '"\\\\"', '"a:b"', "\"it's\"",
           '"a\rb"', '"a\x0cb"', '"a\u2028b"', '"a\x85b"', '"a\x1cb"', '"e\u0301 \ufb01"', '"A B"',
           '"foo\x00bar"', '"\u200b"']
REGEXES = ["/a/", "/a b/", "//", "/a\\/b/", '/"/', "/[a-z]+/", "/a\rb/", "/a\u2029b/"]
NUMS = ["", "1", "2", "0.5", ".5", "2.0", "007", "10", "100", "0.0000001", "1.50", "0", "0.0", "00",
        "1234567890123456789012345678901", "1.0000000000000000000000000001"]
BADNUMS = [".", "1.2.3", "..", "1.", "1..2"]
FIELDS = ["f", "title", "a.b", "n.o.h", "f_1", "é", "xT12", "T12", "1", "a\\:b", "*", "count-10", "utc+01", "10", "k-12",
          "e\u0301", "Title"]


def huge_numerals():
    """numerals beyond every bound a numeric library may have (decimal's default exponent range is +-999999);
    too long to be evaluated by the Coq model in reasonable time: judged by the Python oracles only"""
    n = 1000001
    return ["a^" + "1" * n, "a~" + "9" * n, "a^1" + "0" * n, "a^." + "0" * n + "1", "a~0." + "0" * n + "10",
            "(a b)^" + "0" * n + "2", "f:a^" + "7" * n + "." + "0" * 10 + " b~1." + "0" * n + "5"]


def deep_inputs():
    """very deep and very wide queries: the LR driver is iterative, so they parse; too deep for the recursive
    serialisers of this harness and for vm_compute: judged by the Python oracles only, with iterative walks"""
    return ["(" * 260 + "a" + ")" * 260, "NOT " * 600 + "a", "+-" * 300 + "a", "f:(" * 400 + "a" + ")" * 400,
            " ".join("w%d" % i for i in range(3000)), "(" * 2000 + "a OR b" + ")" * 2000, "a^2" + "^2" * 500]


def flat_dump(tree):
    """iterative structural dump of a tree of any depth: class, own attributes, layout and positions of every node
    in pre-order"""
    out, stack = [], [tree]
    while stack:
        n = stack.pop()
        own = tuple((k, repr(v)) for k, v in sorted(vars(n).items())
                    if not hasattr(v, "children") and not isinstance(v, (list, tuple)))
        out.append((type(n).__name__, own, len(n.children)))
        stack.extend(reversed(n.children))
    return out


def canon_numeral(txt):
    """exact, unbounded canonical spelling of a plain decimal numeral ([0-9.]+ with at most one dot)"""
    if txt.count(".") > 1 or not any(c.isdigit() for c in txt):
        return txt
    ip, _, fp = txt.partition(".")
    ip = ip.lstrip("0") or "0"
    fp = fp.rstrip("0")
    return ip + ("." + fp if fp else "")


def structured_corpus():
    """every prefix chain x operand kind x context: the places where one construct decides what its neighbour
    becomes (a group after `field:` is a field group — only directly after it; what a prefix / boost applies to)"""
    chains = ["", "-", "+", "NOT ", "-+", "NOT -", "+NOT ", "- ", "NOT NOT "]
    operands = ["a", "(a b)", "(a)", '"p q"', "[a TO b]", "/r/", "(a OR b)^2", "a~2", '"p q"~3', "(a (b c))",
                "(-a)", "((a))", "<=3", "TO", "&&", "||", "!"]
    contexts = ["%s", "f:%s", "x AND %s", "f:(%s)", "f:%s c", "%s^3", "f:%s OR g:%s", "x %s y", "(%s)", "f:( %s )",
                # an operand in juxtaposition right after an AND / OR chain (what binds looser than what)
                "x AND y %s", "x OR y %s", "x AND y %s z", "x OR y AND z %s", "%s x AND y"]
    out = []
    for c in contexts:
        for ch in chains:
            for o in operands:
                out.append(c.replace("%s", ch + o))
    return out


class QGen:
    """grammar-directed generator: returns a list of lexemes (tokens); layout is added separately"""

    def __init__(self, r, bad_numbers=0.0):
        self.r = r
        self.bad = bad_numbers

    def num(self, integer=False):
        if self.r.random() < self.bad:
            return self.r.choice(BADNUMS + ["1.5"])
        if integer:
            return self.r.choice(["", "1", "2", "10", "007", "0", "100"])
        return self.r.choice(NUMS)

    def term(self):
        return self.r.choice(TERMS)

    def bound(self):
        x = self.r.random()
        if x < 0.5:
            return [self.r.choice(["1", "a", "*", "2024-01-01", "10", "b2"])]
        if x < 0.7:
            return [self.r.choice(PHRASES)]
        if x < 0.85:
            return ["-", self.r.choice(["1", "a", '"x"'])]
        return [self.term()]

    def unary(self, d):
        r = self.r
        k = r.choice(["term", "term", "term", "phrase", "regex", "fuzzy", "prox", "boost", "plus", "minus",
                      "not", "group", "range", "lt", "gt", "field", "field", "to"])
        if d <= 0 and k in ("boost", "plus", "minus", "not", "group", "field"):
            k = "term"
        if k == "term":
            return [self.term()]
        if k == "phrase":
            return [r.choice(PHRASES)]
        if k == "regex":
            return [r.choice(REGEXES)]
        if k == "fuzzy":
            return [self.term(), "~" + self.num()]
        if k == "prox":
            return [r.choice(PHRASES), "~" + self.num(integer=True)]
        if k == "boost":
            return self.unary(d - 1) + ["^" + self.num()]
        if k == "plus":
            return ["+"] + self.unary(d - 1)
        if k == "minus":
            return ["-"] + self.unary(d - 1)
        if k == "not":
            return ["NOT"] + self.unary(d - 1)
        if k == "group":
            return ["("] + self.expr(d - 1) + [")"]
        if k == "range":
            return [r.choice("[{")] + self.bound() + ["TO"] + self.bound() + [r.choice("]}")]
        if k == "lt":
            return [r.choice(["<", "<="])] + [r.choice(["1", "a", '"x y"', "2024-01-01"])]
        if k == "gt":
            return [r.choice([">", ">="])] + [r.choice(["1", "a", '"x y"', "2024-01-01"])]
        if k == "field":
            return [r.choice(FIELDS), ":"] + self.unary(d - 1)
        if k == "to":
            return ["TO"]
        raise AssertionError(k)

    def expr(self, d):
        n = self.r.choice([1, 1, 2, 2, 3, 4])
        out = self.unary(d)
        for _ in range(n - 1):
            op = self.r.choice(["AND", "OR", None, None])
            if op:
                out.append(op)
            out += self.unary(d)
        return out


def needs_sep(a, b):
    """would the two lexemes fuse or re-split if written without a separator? (conservative)"""
    special = set(':^~(){}[]')
    if a[-1] in special and a not in ("~", "^") and not a.startswith(("~", "^")):
        return False
    if b[0] in special:
        return (a[0] in "~^" and b[0] in "0123456789.") or False
    if a[0] in '"/' and len(a) > 1:
        return False
    if a in ("+", "-") :
        return False
    return True


def layout(r, lexemes, p_sep=0.7, minimal=False):
    out = []
    if not minimal and r.random() < 0.3:
        out.append(r.choice(WS))
    for i, l in enumerate(lexemes):
        out.append(l)
        if i + 1 < len(lexemes):
            nxt = lexemes[i + 1]
            if needs_sep(l, nxt) or (not minimal and r.random() < p_sep):
                out.append(" " if minimal else r.choice(WS))
    if not minimal and r.random() < 0.3:
        out.append(r.choice(WS))
    return "".join(out)


CANON = {"TERM": "a", "PHRASE": '"p"', "REGEX": "/r/", "APPROX": "~2", "BOOST": "^3", "MINUS": "-",
         "PLUS": "+", "COLUMN": ":", "LPAREN": "(", "RPAREN": ")", "LBRACKET": "[", "RBRACKET": "}",
         "LESSTHAN": "<", "GREATERTHAN": ">=", "AND_OP": "AND", "NOT": "NOT", "OR_OP": "OR", "TO": "TO"}


def token_sequences(maxlen):
    """all token-type sequences up to maxlen, rendered with canonical lexemes and one blank between"""
    toks = list(CANON.values())
    for n in range(0, maxlen + 1):
        for seq in itertools.product(toks, repeat=n):
            yield " ".join(seq)


MALFORMED = ["", " ", "\n\t", "(", ")", "(a", "a)", "((a)", "[a TO", "[a TO b", "a TO b]", "{a b}", '"abc', "/abc",
             "a AND", "AND a", "OR", "a OR OR b", "NOT", "+", "-", "a:", ":a", "a::b", "a:b:c", "~", "^", "a~~", "a^^2",
             "'", "a '", "\\", "a\\", "a \\\n", "a^.", "a~1.2.3", '"a"~1.5', '"a"~.', "a^1..2", "<", ">=", "< <a",
             "[a TO b TO c]", "[- TO b]", "[a TO -]", "a AND OR b", "(a) (", "a^2^3", "a~2~3", '"a"~2~3', '"a"^2~3',
             "f:(a", "f:[1 TO", "f:~2", "f:^2", "f:AND", "f:NOT", "f: NOT a", "f:TO", "TO TO TO", "[TO TO TO]",
             "[a TO TO]", "a]", "}", "a '", " '", "　　", "a \x00 b", "\x00",
             # non-ASCII digits glued to ~ and ^ are NOT part of the numeral ([0-9.]+): a word follows
             "a~\u0663", "a^\uff12", '"a b"~\u0969', "a~1\u0663", "f:a^2\u0663 c", "a~\u00b2", "a^\u0661.\u0662",
             # TO next to suffixes / fields / comparisons (reserved only inside a range)
             "TO~2", "TO:a", "TO^3", "<TO", ">=TO", "TO TO", "[TO TO a]", "f:TO", "TO~", "a TO~2 b",
             # a sign and two digits in front of a colon (time-zone look-alikes): the colon is a field separator
             "count-10:20", "utc+01:30", "k-12:34 x", "f:a-10:20", "2015-12-19T22:30:45-05:00", "x+05:30 AND y",
             "T12:30", "aT12:30", "T1:30", "T123:45", "T12:3", "T12:30:4", "T12:30:45:50",
             # ... with the sign as an OPERATOR directly in front of a two-digit field name
             "-10:20", "+05:30 x", "a:-10:20", "NOT -12:34", "( +08:00 )", "tz:(-05:00 OR +01:00)", "[-10:20 TO 5]",
             "x -10:2015-01-01T12:30:00", "-10:20:30", "+10:20^2",
             # a percent sign or braces in the token an error message quotes; mixed spellings of one operator
             "discount:[10% 20%]", "[10 TO 20 30%]", "[a TO b %s]", "100% (", "%d %s )", "a {0} )", "{x} AND", "%",
             "a || b OR c", "a AND b && c", "a && b AND c", "a || b || c", "(a || b) && c", "x:(a || b)",
             # several dots in a numeral
             "a~1.0.5", "a^2.0.", "a~1..5", "a^2.50.1", '"a b"~2.0', '"a b"~9007199254740993',
             # a reserved word glued to a quote (one term today), on both sides of phrases and inside ranges
             'NOT"foo" baz', 'AND"b c"', '"a"OR"b"', '[a TO"b"]', 'a AND"b"', 'x OR"p q" y', 'f:NOT"a"', 'TO"a"',
             'NOT"a"', '(NOT"a b") c', 'a NOT"b"^2',
             # regular expressions: brackets and slashes inside, a token glued right after the closing slash
             "/[/ OR /]/", "x:/a[/ AND y:/]b/", "/[a-z]+/ b", "/a[/", "/a]/ [b TO c]", "/[^/]+/", "x /a/b", "x /a/ b",
             "f:/a/b", "/a/(b)", '/a/"x"', "/a//b/", "/a/[b TO c]", "/a/-b", "/a/NOT b", "/a/g:b", "/a/^2", "(/a/)",
             "now/d", "path:/var/log/syslog", "a / b", "/a\\/b/ c",
             # a byte order mark / zero-width characters at the start and after blanks (characters of a term)
             "\ufeffa", "\ufeff a", " \ufeffa b", "\ufeff", "\u200b a", "a \ufeff:b",
             # typographic quotes (characters of a term today); a time-like word directly followed by further digits
             "\u201cfoo bar\u201d", "title:\u201cfoo bar\u201d~2 AND x", "(\u201ca b\u201d OR \u201cc\u201d)^2", "a\u201cb\u201d", "\u2018a b\u2019",
             "\u00abfoo bar\u00bb", "T12:305", "foo:2015-12-19T22:30:450", "a AND -2015-12-19T22:30:45123^2 b",
             "[T10:001 TO T10:30:000]", "PORT80:8080", "T12:30", "T12:3", "xT12:30:5", "2015-12-19T22:30:45.123Z x",
             # comparisons whose bound begins with `=` (after a blank: nothing to disambiguate), escaped and quoted
             "< =test", "price:> =5", " tag:(>\t=a OR <\u00a0=b) ", "-<  =x AND y", ">= =5", "<\\=5", '<"=5"', "> =", "<=  =a",
             ">==5", "<==", "> =5^2", "f:< =a~1", "< \\=a",
             # an escaped line break inside a term, a phrase, a regex (a backslash followed by a line feed)
             "/a\\\nb/", "f:/a\\\nb/ AND c", "x /\\\n/", "foo\\\nbar", '"foo\\\nbar"', "a\\\n", "/a\nb/", '"a\nb"',
             # ONE token and nothing else but a blank before / after it (a line feed, a tab, CR LF, several)
             "foo\n", "TO\n", "a\n", "\nfoo", "foo\r\n", "foo\t", "AND\n", "f:foo\n", '"p"\n', "/r/\n", "foo~\n", "foo\n\n",
             "foo \n", "\tfoo", "foo\u3000", "foo\x0b", "foo\x1c", "_\n", "9\n", "\u00e9\n", "NOT\n",
             # a bare ^ or ~ (implicit numeral) after every kind of operand, with and without a field
             "f:(a b)^", "f:(a b)^ c", "f:(a b)^2", "f:(a b)^1", "f:( a b ) ^", "(a b)^", "f:a^", 'f:"p q"~', 'f:"p q"^',
             "f:[a TO b]^", "f:/r/^", "g:(f:(a b)^)", "NOT f:(a)^", "f:(a b)^^", "f:(a b)~", "f:(a b)^ ^2", "f:((a b)^)",
             "f:(a b)^2^3", "x AND f:(a OR b)^ OR y"]


def impl_parse(s, fn):
    """run the implementation; returns ('ok', tree) | ('syntax', msg) | ('illegal', msg) | ('other', repr)"""
    import luqum.exceptions as X
    try:
        t = fn(s)
    except X.ParseSyntaxError as e:
        return ("syntax", str(e))
    except X.IllegalCharacterError as e:
        return ("illegal", str(e))
    except Exception as e:  # not a ParseError
        return ("other", "%s: %s" % (type(e).__name__, e))
    return ("ok", t)


_CANON_TEMPLATES = None


def canon_error(kind, msg):
    """the error message, re-spelled in the wording the model uses when it still carries the same DATA (which
    error, the offending text, the position): a maintainer may reword a message without touching any property
    (they speak of the error class and of where it is raised, never of wording).  Exactly the current wording is
    left as it is; a message whose data cannot be recovered is compared by class only (returns None)."""
    import re as _re
    if kind == "illegal":
        if msg.startswith("Illegal character '") and " at position " in msg:
            return msg
        m = _re.search(r"'(.*)'.*?(\d+)\D*$", msg, _re.S)
        return "Illegal character '%s' at position %s" % (m.group(1), m.group(2)) if m else None
    if kind == "syntax":
        if msg.startswith("Syntax error in input : "):
            return msg
        low = msg.lower()
        if "end" in low and not _re.search(r"\d", msg):
            return ("Syntax error in input : unexpected end of expression (maybe due to unmatched parenthesis) "
                    "at the end!")
        m = _re.search(r"'(.*)'.*?(\d+)\D*$", msg, _re.S)
        if not m:
            return None
        if "number" in low:
            return "Syntax error in input : invalid number '%s' at position %s!" % (m.group(1), m.group(2))
        if "unexpected" in low or "syntax" in low:
            return "Syntax error in input : unexpected  '%s' at position %s!" % (m.group(1), m.group(2))
        return None
    return msg


def expected_term(kind, val):
    if kind in ("syntax", "illegal"):
        c = canon_error(kind, val)
        if c is None:
            return "PExpSyntaxAny" if kind == "syntax" else "PExpIllegalAny"
        val = c
    if kind == "ok":
        if val is None:
            return "PExpNone"
        return "(PExpOk %s)" % lib.g_item(val)
    if kind == "syntax":
        return "(PExpSyntax %s)" % lib.g_str(val)
    if kind == "illegal":
        return "(PExpIllegal %s)" % lib.g_str(val)
    return "PExpOther"


PARSE_DEFS = """
Inductive pexp := PExpOk (t : item) | PExpSyntax (m : str) | PExpIllegal (m : str) | PExpOther | PExpNone
                  | PExpSyntaxAny | PExpIllegalAny.
Definition chk (c : str * pexp) : bool :=
  match parse (fst c), snd c with
  | Some (Ok t), PExpOk t' => item_beq t t'
  | Some (Err (ESyntax m)), PExpSyntax m' => str_eqb m m'
  | Some (Err (EIllegal m)), PExpIllegal m' => str_eqb m m'
  | Some (Err (ESyntax _)), PExpSyntaxAny => true
  | Some (Err (EIllegal _)), PExpIllegalAny => true
  | _, _ => false
  end.
"""
PARSE_IMPORTS = "Base Decimal Tree TreeEq GenParser Lexer Actions LR Parser"


def run_parse_cases(tag, strings, results):
    """strings: list of str; results: list of (kind, val) from impl_parse. Returns failing indices."""
    cases = ["(%s, %s)" % (lib.g_str(s), expected_term(k, v)) for s, (k, v) in zip(strings, results)]
    canary = "([97]%N, PExpSyntax [97]%N)"
    bad = lib.eval_cases(tag, PARSE_IMPORTS, PARSE_DEFS, cases + [canary], "chk", shard=120)
    assert len(cases) in bad, "canary not detected"
    return [i for i in bad if i < len(cases)]
