(* PropagateSpec.v — the vocabulary of property C16 (specification side; nothing here follows
   the code and nothing here reads the generated class tables).  Definitions only.

   Property text: "Given, for each named element, whether the term it covers matched, propagation
   classifies every sub-expression of the query (other than range bounds and the term inside a
   fuzzy/proximity) exactly once, as matching precisely when it evaluates to true under boolean
   semantics: AND all, OR any, implicit operation the configured default, NOT and - negation,
   every other construct the value of its operand.  This holds whenever no negation lies strictly
   between a named element and the term it covers." *)
Require Import Base Decimal Tree.

(* ---- the sub-expressions that get classified *)

(* Range, Fuzzy, Proximity are atomic: their bounds / inner term are not sub-expressions *)
Definition atomic (t : item) : bool :=
  match t with Range _ _ _ _ _ | Fuzzy _ _ _ _ | Proximity _ _ _ _ => true | _ => false end.

(* the operands that are sub-expressions *)
Definition pchildren (t : item) : list item := if atomic t then [] else children t.

(* the sub-expression at index path p, None when p is not a path of the tree or goes strictly
   below a Range / Fuzzy / Proximity *)
Fixpoint subexpr_at (t : item) (p : path) : option item :=
  match p with
  | [] => Some t
  | i :: p' => match nth_error (pchildren t) i with
               | Some c => subexpr_at c p'
               | None => None
               end
  end.

Definition classified (t : item) (p : path) : Prop := exists n, subexpr_at t p = Some n.

(* the things that match or not by themselves: words, phrases, regexes, (NoneItem,) and the
   atomic constructs *)
Definition is_leaf (t : item) : bool :=
  match t with
  | Term _ _ _ | NoneItem _ | Range _ _ _ _ _ | Fuzzy _ _ _ _ | Proximity _ _ _ _ => true
  | _ => false
  end.

Definition is_negation (t : item) : bool :=
  match t with Unary KNot _ _ | Unary KProhibit _ _ => true | _ => false end.

(* ---- boolean semantics *)
Section Eval.
  (* true when the configured default operation is OrOperation *)
  Variable dflt_or : bool.
  (* truth assignment: does the leaf located at this (absolute) path match *)
  Variable sigma : path -> bool.

  (* operations evaluated with `any` *)
  Definition or_like (k : opk) : bool :=
    match k with KOr => true | KUnknown => dflt_or | KAnd | KBool => false end.
  (* BoolOperation (never produced by the parser; only by UnknownOperationResolver when asked) is
     not named in the property text; it is given the meaning "all operands" here, which is what
     the propagator computes for it. *)

  Definition ev_list (f : item -> path -> bool) (pre : path) :=
    fix go (i : nat) (l : list item) : list bool :=
      match l with
      | [] => []
      | c :: l' => f c (pre ++ [i]) :: go (S i) l'
      end.

  (* value of the sub-expression t located at absolute path p *)
  Fixpoint ev (t : item) (p : path) : bool :=
    match t with
    | Term _ _ _ | NoneItem _ => sigma p
    | Range _ _ _ _ _ | Fuzzy _ _ _ _ | Proximity _ _ _ _ => sigma p
    | SearchField _ _ e | Grp _ _ e | Boost _ e _ _ => ev e (p ++ [0])
    | ORange _ _ a _ => ev a (p ++ [0])
    | Unary KPlus _ a => ev a (p ++ [0])
    | Unary KNot _ a | Unary KProhibit _ a => negb (ev a (p ++ [0]))
    | Op k _ ops =>
        if or_like k then existsb (fun b => b) (ev_list ev p 0 ops)       (* OR: any *)
        else forallb (fun b => b) (ev_list ev p 0 ops)                     (* AND: all *)
    end.
End Eval.

(* ---- the premise: what is reported about the named elements *)

(* the term covered by the element n located at path q: follow the single operand of fields,
   groups, boosts, unary operators and open ranges down to the leaf; None when an operation is
   met, i.e. when the element has an operation (at or) beneath it *)
Fixpoint covered (n : item) (q : path) : option path :=
  match n with
  | Term _ _ _ | NoneItem _ | Range _ _ _ _ _ | Fuzzy _ _ _ _ | Proximity _ _ _ _ => Some q
  | SearchField _ _ e | Grp _ _ e | Boost _ e _ _ | Unary _ _ e | ORange _ _ e _ =>
      covered e (q ++ [0])
  | Op _ _ _ => None
  end.

(* a Not / Prohibit lies strictly between the element n and the term it covers (strictly below
   n; the covered term itself is never a negation) *)
Fixpoint neg_between (n : item) : bool :=
  match n with
  | SearchField _ _ e | Grp _ _ e | Boost _ e _ _ | Unary _ _ e | ORange _ _ e _ =>
      is_negation e || neg_between e
  | _ => false
  end.

(* The propagator never reads names: the "named elements" are the elements whose path is in
   matching ∪ other (matching_from_names puts every path of the name->path mapping in one of the
   two).  Paths of matching ∪ other that are not sub-expressions of the tree (not in the tree, or
   strictly inside a range / fuzzy / proximity) are left unconstrained. *)
Definition reported (sigma : path -> bool) (t : item) (matching other : list path) : Prop :=
  (* for each named element ... *)
  (forall q n, subexpr_at t q = Some n -> In q (matching ++ other) ->
     match covered n q with
     | Some a =>
         (* ... with no operation beneath it: reported as matching iff the term it covers is
            true (otherwise it is in `other`, being named) ... *)
         (In q matching <-> sigma a = true) /\
         (* ... and if reported as matching, no negation strictly between it and its term
            (the property text asks this of every named element; asking it only of those
            reported as matching is weaker) *)
         (In q matching -> neg_between n = false)
     | None =>
         (* ... with an operation beneath it: not reported (it is in `other`; its status is
            computed from its operands) *)
         ~ In q matching
     end) /\
  (* every term is covered by a named element *)
  (forall a l, subexpr_at t a = Some l -> is_leaf l = true ->
     exists q n, In q (matching ++ other) /\ subexpr_at t q = Some n /\ covered n q = Some a).

(* no operation evaluated with `all` has zero operands.  This WAS the guard of the theorem while
   the code gave a zero-operand operation the status of its named ancestor (repaired in /repo
   831a694); the theorem C16_matching_iff_true no longer needs it.  Kept for the corollary
   C16_matching_iff_true_partial only. *)
Definition no_empty_all (dflt_or : bool) (t : item) : Prop :=
  forall p k m, subexpr_at t p = Some (Op k m []) -> or_like dflt_or k = true.

(* ---- executable versions of the premise and of the guard (used for the non-vacuity examples
   through a soundness lemma, proofs/PropagateProofs.v) *)
Definition cnodes_list (f : item -> path -> list (path * item)) (pre : path) :=
  fix go (i : nat) (l : list item) : list (path * item) :=
    match l with
    | [] => []
    | c :: l' => f c (pre ++ [i]) ++ go (S i) l'
    end.

(* all (path, sub-expression) pairs, pre-order *)
Fixpoint cnodes (t : item) (pre : path) : list (path * item) :=
  (pre, t) ::
  match t with
  | Term _ _ _ | NoneItem _ | Range _ _ _ _ _ | Fuzzy _ _ _ _ | Proximity _ _ _ _ => []
  | SearchField _ _ e | Grp _ _ e | Boost _ e _ _ | Unary _ _ e | ORange _ _ e _ =>
      cnodes_list cnodes pre 0 [e]
  | Op _ _ ops => cnodes_list cnodes pre 0 ops
  end.

Definition reported_b (sigma : path -> bool) (t : item) (matching other : list path) : bool :=
  let cn := cnodes t [] in
  forallb (fun qn =>
    let '(q, n) := qn in
    if mem_path q (matching ++ other) then
      match covered n q with
      | Some a => Bool.eqb (mem_path q matching) (sigma a)
                  && (negb (mem_path q matching) || negb (neg_between n))
      | None => negb (mem_path q matching)
      end
    else true) cn
  &&
  forallb (fun al =>
    let '(a, l) := al in
    if is_leaf l then
      existsb (fun qn => let '(q, n) := qn in
                 mem_path q (matching ++ other) &&
                 match covered n q with Some a' => path_eqb a' a | None => false end) cn
    else true) cn.

Definition no_empty_all_b (dflt_or : bool) (t : item) : bool :=
  forallb (fun qn => match snd qn with Op k _ [] => or_like dflt_or k | _ => true end)
          (cnodes t []).

(* ---- what a search engine reports when the named elements are those of a name -> path mapping
   (used by the end-to-end corollary with auto_name) *)

(* the term covered by the named element at q is true *)
Definition elem_true (sigma : path -> bool) (t : item) (q : path) : bool :=
  match subexpr_at t q with
  | Some n => match covered n q with Some a => sigma a | None => false end
  | None => false
  end.

(* (matching, other) = (named paths whose covered term is true, the other named paths) *)
Definition report (sigma : path -> bool) (t : item) (named : list path) : list path * list path :=
  (filter (elem_true sigma t) named, filter (fun q => negb (elem_true sigma t q)) named).
