(* C18r — pretty-printing never changes the query: THE END-TO-END THEOREM UNDER THE GUARD "NO TEXT DROPPED".
   This file holds only statements, `exact`-closed theorems (short glue), non-vacuity examples and
   Print Assumptions.  Lemmas: proofs/BridgeRespellProofs.v (decimals, the bridge over the re-spelled token list,
   the glue), proofs/RespaceNumProofs.v (L-respace when APPROX/BOOST tokens change their digits),
   proofs/RespellSimProofs.v (the LR driver on token lists that differ by numerically equal numerals).

   C18p.C18_partial_lexemes is guarded by `parse_events s = []` (no ghost event at all).  That guard excludes F1
   (a blank before a field's colon is dropped) - necessary, C18.C18_plain_guard_refuted - but ALSO every query in
   which the parser re-spells a numeral (`a^1.0` prints `a^1`, `b~.5` prints `b~0.5`, `"x y"~02` prints `"x y"~2`),
   for which the property holds in the real code.  Here the guard is C01r's `dropped_texts s = []`:

   Clauses of the property text                         statements here
     "pretty text is accepted and parses to an equal    C18_respelled_partial_statement   PROVED: for every parsed query
      tree, for every parsed query and setting"           from which no text was dropped (excludes exactly F1's class)
                                                          and without a newline inside a token (excludes exactly F11's
                                                          class), for EVERY setting.
                                                        C18r_drop_guard_needed, C18r_newline_guard_needed: neither guard
                                                          can be removed (the F1 / F11 witnesses satisfy the other one)
                                                        C18r_subsumes_C18p: the old theorem is a corollary
                                                          (C18r_guard_weaker: no event => nothing dropped)
   The three layers
     C18_bridge_respelled(_any_tables)_statement   PROVED: the chunks of the parsed tree are, chunk by chunk, blanks ++
                                     group_text g ++ blanks for consecutive non-empty groups g of the query's tokens WITH
                                     THE NUMERALS AS THE ACTIONS PRINT THEM (rs_tok: same type, head, tail, position;
                                     lexeme kept, or `~d`/`^d` -> `~d'`/`^d'` with d' = str(int(d)) resp.
                                     format(Decimal(d).normalize(), "f"))
     C18r_action_cases_statement     PROVED: every action whose events are harmless has only trivial events, except
                                     explicit proximity / boost / fuzzy (the dichotomy behind the bridge)
     L_respace_respelled(_main)_statement   PROVED: re-spacing AND replacing the digits of APPROX/BOOST tokens by any
                                     [0-9.]* run preserves the token sequence (types; lexemes up to those digits):
                                     no lexer rule looks past a `~` or `^`
     parse_respelled_same_tree_statement    PROVED, any tables: two token lists that differ only by numerals d / d' with
                                     Decimal(d').normalize() = Decimal(d).normalize() and int(d') = int(d) (num_sem) give
                                     the same tree up to layout (one direction: the first run succeeds with numeral-only
                                     re-spelling events)
     C18r_printed_numeral_statement  PROVED: the numeral an action prints satisfies num_sem *)
Require Import Base Decimal Tree GenTree GenParser Visitor Print Eq Lexer Actions LR Parser Erase Pretty Respace.
Require Import TreeInd LexerProofs ActionProofs LayoutProofs PrettyProofs RespaceProofs RespaceParse RespellProofs.
Require Import BridgeProofs RespaceNumProofs RespellSimProofs BridgeRespellProofs.
Require Import C01 C01r C18 C18p Lrespace LrespaceC18.

(* ---- the end-to-end statement: C18.C18_statement with the two guards, the first one weakened to C01r's *)
Definition C18_respelled_partial_statement : Prop :=
  forall s t cfg, parse s = Some (Ok t) -> dropped_texts s = [] -> no_newline_in_lexemes s = true ->
    exists p t', pretty cfg t = Some p /\ parse p = Some (Ok t') /\ item_eqb t' t = true.
Theorem C18_respelled_partial : C18_respelled_partial_statement.
Proof.
  intros s t cfg Hp Hd Hnl. destruct (pretty_total_parsed cfg s t Hp) as [p Hpr].
  destruct (pretty_round_trip_respelled s t cfg p Hp Hd Hnl Hpr) as [t' [H1 H2]]. exists p, t'. auto.
Qed.

(* ---- the new guard is weaker than the old one, and the old theorem follows *)
Definition C18r_guard_weaker_statement : Prop := forall s, parse_events s = [] -> dropped_texts s = [].
Theorem C18r_guard_weaker : C18r_guard_weaker_statement.
Proof. intros s H. unfold dropped_texts. rewrite H. reflexivity. Qed.

Theorem C18r_subsumes_C18p : C18_respelled_partial_statement -> C18_partial_lexemes_statement.
Proof. intros H s t cfg Hp Hne Hnl. exact (H s t cfg Hp (C18r_guard_weaker s Hne) Hnl). Qed.

(* ---- both guards are needed: the F1 witness `-xT12 :30` has no newline at all, the F11 witness
   `"a<NL>b" AND c` drops nothing *)
Definition C18r_without_drop_guard_statement : Prop :=
  forall s t cfg, parse s = Some (Ok t) -> no_newline_in_lexemes s = true ->
    exists p t', pretty cfg t = Some p /\ parse p = Some (Ok t') /\ item_eqb t' t = true.
Definition C18r_without_newline_guard_statement : Prop :=
  forall s t cfg, parse s = Some (Ok t) -> dropped_texts s = [] ->
    exists p t', pretty cfg t = Some p /\ parse p = Some (Ok t') /\ item_eqb t' t = true.

Lemma C18r_witness_guards :
  no_newline_in_lexemes wit2 = true /\ dropped_texts wit2 = [[32]%N] /\
  dropped_texts wit = [] /\ no_newline_in_lexemes wit = false.
Proof. vm_compute. auto. Qed.

Theorem C18r_drop_guard_needed : ~ C18r_without_drop_guard_statement.
Proof.
  destruct wit2_facts as [H1 [_ [H3 [H4 H5]]]]. destruct C18r_witness_guards as [G1 _].
  intros H. destruct (H wit2 wit2_tree wit_cfg H1 G1) as [p [t' [Hp [Hr He]]]].
  rewrite H3 in Hp. inversion Hp; subst p. rewrite H4 in Hr. inversion Hr; subst t'.
  rewrite H5 in He. discriminate.
Qed.

Theorem C18r_newline_guard_needed : ~ C18r_without_newline_guard_statement.
Proof.
  destruct C18r_witness_guards as [_ [_ [G3 _]]].
  intros H. destruct (H wit wit_tree wit_cfg wit_parses G3) as [p [t' [Hp [Hr He]]]].
  rewrite wit_pretty_ok in Hp. inversion Hp; subst p. rewrite wit_reparse in Hr. inversion Hr; subst t'.
  rewrite wit_differs in He. discriminate.
Qed.

(* ---- layer (a): the bridge over the re-spelled token list *)
Definition C18_bridge_respelled_statement : Prop :=
  forall s t, parse s = Some (Ok t) -> dropped_texts s = [] ->
    exists toks' groups, Forall2 rs_tok (fst (lex s)) toks' /\ toks' = concat groups /\
      Forall (fun g => g <> []) groups /\
      Forall2 (fun c g => exists h w, c = h ++ group_text g ++ w /\ all_space h = true /\ all_space w = true)
              (chunk_texts t) groups.
Theorem C18_bridge_respelled : C18_bridge_respelled_statement.
Proof. exact parsed_chunks_respelled_groups. Qed.

(* ... for any tables, under C01r's two hypotheses on the events (nothing dropped; token texts printed anew are the
   same text or an equivalent numeral - the latter is a theorem for the generated tables, C01r.C01_respell_events) *)
Definition C18_bridge_respelled_any_tables_statement : Prop :=
  forall tb s t evs, parse_with tb s = Done (Ok t) evs -> drops_empty evs -> respells_numeral_only evs ->
    snd (lex s) = None ->
    exists toks' groups, Forall2 rs_tok (fst (lex s)) toks' /\ concat groups = toks' /\
      Forall (fun g => g <> []) groups /\
      Forall2 (fun c g => exists h h' w w', c = h ++ group_text g ++ w /\ h' ++ h = fhead g /\ w ++ w' = ltail g)
              (chunk_texts t) groups.
Theorem C18_bridge_respelled_any_tables : C18_bridge_respelled_any_tables_statement.
Proof.
  intros tb s t evs H Hd Hr He.
  destruct (parse_with_linkedR tb s t evs H (ev_ok_of_hyps evs Hd Hr) He) as [toks' [Hrs Hb]].
  destruct Hb as [_ [_ [_ [_ [_ [groups [E [Hg HF]]]]]]]]. exists toks', groups. auto.
Qed.

(* the dichotomy behind it: harmless events of one action are trivial, or the action is an explicit
   proximity / boost / fuzzy, whose node prints the numeral in place of the token text *)
Definition C18r_action_cases_statement : Prop :=
  forall a args v evs, run_action a args = Ok (v, evs) -> Forall ev_ok evs -> Forall vtied args ->
    Forall val_ok args -> all_trivial evs \/ numeric_case args v evs.
Theorem C18r_action_cases : C18r_action_cases_statement.
Proof. exact run_action_ev_cases. Qed.

(* ---- layer (b): L-respace when APPROX / BOOST tokens change their digits *)
Definition L_respace_respelled_main_statement : Prop :=
  forall s toks toks', lex s = (toks, None) -> toks <> [] ->
    Forall2 tokR toks toks' -> layout_ws toks' = true -> seps_kept toks toks' = true ->
    map tok_key (fst (lex (render toks'))) = map tok_key toks' /\ snd (lex (render toks')) = None.
Theorem L_respace_respelled_main_thm : L_respace_respelled_main_statement.
Proof. exact L_respace_respelled_main. Qed.

(* chunked form, with a blank trailer, over re-tailed groups of the re-spelled tokens *)
Definition L_respace_respelled_statement : Prop :=
  forall s toks toks' groups' h p' w, lex s = (toks, None) -> toks <> [] ->
    Forall2 rs_tok toks toks' -> Forall2 tl_rel toks' (concat groups') -> Forall (fun g => g <> []) groups' ->
    all_space h = true -> all_space w = true -> wglued (map group_text groups') p' ->
    map tok_key (fst (lex (h ++ p' ++ w))) = map tok_key toks' /\ snd (lex (h ++ p' ++ w)) = None.
Theorem L_respace_respelled_thm : L_respace_respelled_statement.
Proof. exact L_respace_respelled. Qed.

(* ---- layer (c): the LR driver treats numerically equal numerals as equal *)
Definition parse_respelled_same_tree_statement : Prop :=
  forall tb s1 s2 t evs, parse_with tb s1 = Done (Ok t) evs -> Forall respell_ok evs ->
    snd (lex s1) = None -> snd (lex s2) = None ->
    Forall2 key_num (fst (lex s1)) (fst (lex s2)) ->
    exists t' evs', parse_with tb s2 = Done (Ok t') evs' /\ erase t' = erase t.
Theorem parse_respelled_same_tree_thm : parse_respelled_same_tree_statement.
Proof. exact parse_respelled_same_tree. Qed.

(* the numeral an action prints can stand for the digits it read: Decimal(..).normalize() and int(..) are kept *)
Definition C18r_printed_numeral_statement : Prop :=
  (forall d z, int_of_lexeme d = Some z -> num_sem d (Z_to_str z)) /\
  (forall d f, dec_of_lexeme d = Some f -> num_sem d (dec_to_fstr (dec_normalize f))).
Theorem C18r_printed_numeral : C18r_printed_numeral_statement.
Proof. split; [exact num_sem_int|exact num_sem_dec]. Qed.

(* ---- non-vacuity *)
(* `f:(a^1.0 OR  b~.5) AND "x y"~02 c^007`: four numerals are re-spelled (^1.0 -> ^1, ~.5 -> ~0.5, ~02 -> ~2,
   ^007 -> ^7): OUTSIDE the guard of C18p.C18_partial_lexemes, INSIDE the guard of C18_respelled_partial; the
   theorem gives the round trip for every setting, and it also computes for four settings (one line; 11 lines
   with max_len = 5; inline operators; indent 0 / max_len 1). *)
Definition exr_query : str :=
  [102;58;40;97;94;49;46;48;32;79;82;32;32;98;126;46;53;41;32;65;78;68;32;34;120;32;121;34;126;48;50;32;99;94;48;48;55]%N.
Definition exr_tree : item :=
  Eval vm_compute in match parse exr_query with Some (Ok t) => t | _ => NoneItem meta0 end.
Example C18r_ex_in_class :
  parse exr_query = Some (Ok exr_tree) /\
  parse_events exr_query =
    [GRespell [94;49;46;48]%N [94;49]%N;                      (* ^1.0 -> ^1   *)
     GRespell [126;46;53]%N [126;48;46;53]%N;                 (* ~.5  -> ~0.5 *)
     GRespell [126;48;50]%N [126;50]%N;                       (* ~02  -> ~2   *)
     GRespell [94;48;48;55]%N [94;55]%N] /\                   (* ^007 -> ^7   *)
  dropped_texts exr_query = [] /\ no_newline_in_lexemes exr_query = true /\
  chunk_texts exr_tree = [[102;58]; [40]; [97;94;49]; [79;82]; [98;126;48;46;53]; [41]; [65;78;68];
                          [34;120;32;121;34;126;50]; [99;94;55]]%N.
Proof. vm_compute. auto 6. Qed.
Example C18r_ex_outside_old_guard : parse_events exr_query <> [].
Proof. destruct C18r_ex_in_class as [_ [H _]]. rewrite H. discriminate. Qed.
Example C18r_ex_round_trip : forall cfg,
  exists p t', pretty cfg exr_tree = Some p /\ parse p = Some (Ok t') /\ item_eqb t' exr_tree = true.
Proof.
  intros cfg. destruct C18r_ex_in_class as [H1 [_ [H3 [H4 _]]]]. exact (C18_respelled_partial exr_query exr_tree cfg H1 H3 H4).
Qed.
Definition rt_ok (cfg : pcfg) (t : item) : bool :=
  match pretty cfg t with
  | Some p => match parse p with Some (Ok t') => item_eqb t' t | _ => false end
  | None => false
  end.
Example C18r_ex_round_trip_computes :
  rt_ok (mkPcfg 4 80 false) exr_tree = true /\ rt_ok (mkPcfg 2 5 false) exr_tree = true /\
  rt_ok (mkPcfg 2 5 true) exr_tree = true /\ rt_ok (mkPcfg 0 1 true) exr_tree = true /\
  pretty (mkPcfg 4 80 false) exr_tree =
    Some [102;58;32;40;32;97;94;49;32;79;82;32;98;126;48;46;53;32;41;32;65;78;68;32;34;120;32;121;34;126;50;32;99;94;55]%N.
Proof. vm_compute. auto 6. Qed.
(* the re-spelled token list the bridge finds: the same tokens with the four printed numerals; the groups have
   sizes 2,1,2,1,2,1,1,2,2 *)
Example C18r_ex_groups :
  exists toks', Forall2 rs_tok (fst (lex exr_query)) toks' /\
    map group_text (cut [2;1;2;1;2;1;1;2;2] toks') =
      [[102;58]; [40]; [97;94;49]; [79;82]; [98;126;48;46;53]; [41]; [65;78;68];
       [34;120;32;121;34;126;50]; [99;94;55]]%N.
Proof.
  destruct C18r_ex_in_class as [H1 [_ [H3 [_ H5]]]].
  destruct (C18_bridge_respelled exr_query exr_tree H1 H3) as [toks' [groups [Hrs _]]].
  eexists (map (fun t => match tk_lexeme t with
                         | [94;49;46;48]%N => mkTok (tk_type t) [94;49]%N (tk_pos t) (tk_head t) (tk_tail t)
                         | [126;46;53]%N => mkTok (tk_type t) [126;48;46;53]%N (tk_pos t) (tk_head t) (tk_tail t)
                         | [126;48;50]%N => mkTok (tk_type t) [126;50]%N (tk_pos t) (tk_head t) (tk_tail t)
                         | [94;48;48;55]%N => mkTok (tk_type t) [94;55]%N (tk_pos t) (tk_head t) (tk_tail t)
                         | _ => t end) (fst (lex exr_query))).
  split; [|vm_compute; reflexivity].
  assert (Hlex : exists l, fst (lex exr_query) = l) by eauto. destruct Hlex as [l Hl]. rewrite Hl.
  vm_compute in Hl. subst l. cbn [map tk_lexeme].
  repeat (apply Forall2_cons; [|]); try apply Forall2_nil; try apply rs_tok_refl.
  all: unfold rs_tok; cbn [tk_type tk_head tk_tail tk_pos tk_lexeme]; do 4 (split; [reflexivity|]); right;
       (split; [auto|]); do 3 eexists; (split; [|split; [reflexivity|split; [reflexivity|]]]); auto;
       right; eexists; split; vm_compute; reflexivity.
Qed.

Print Assumptions C18_respelled_partial.
Print Assumptions C18r_guard_weaker.
Print Assumptions C18r_subsumes_C18p.
Print Assumptions C18r_drop_guard_needed.
Print Assumptions C18r_newline_guard_needed.
Print Assumptions C18_bridge_respelled.
Print Assumptions C18_bridge_respelled_any_tables.
Print Assumptions C18r_action_cases.
Print Assumptions L_respace_respelled_main_thm.
Print Assumptions L_respace_respelled_thm.
Print Assumptions parse_respelled_same_tree_thm.
Print Assumptions C18r_printed_numeral.
Print Assumptions C18r_ex_round_trip.
