(* EsNestedProofs.v — the NESTED part of property C05: the Elasticsearch query builder model (EsBuild.v)
   against the reference semantics (EsSem.v) for configurations WITH nested fields of any depth.
   Generalises part C of EsSemProofs.v (which fixes np = [] and the root level) to any set of declared nested
   paths, any nested level and any document.  Used by props/C05n.v.

   A  dotted names (split / join)              G  the visitor against the reference (visit_sem_n)
   B  innermost nested path vs _split_nested   H  guards on the configuration, build_sem_n
   C  objects of a nested level (composition)  I  without nested fields: the guards of C05_boolean_partial
   D  the field a leaf clause addresses        J  where the nested items sit (visit_struct)
   E  exposed nested items, ENested._exclude_nested_children
   F  guards on the children of a node         K  the same on the generated JSON (build_nest_wf) *)
Require Import Base Decimal Tree GenTree GenVisitors GenChars GenEs Visitor Json EsSpecs EsCheck EsBuild EsSpec
               EsSem EsNested TreeInd EsProofs EsSemProofs.
From Coq Require Import Lia.

(* ================================================================ A. dotted names *)
Definition nodot (s : str) : bool := negb (mem_N c_dot s).

Lemma split_nodot s : nodot s = true -> split_on c_dot s = [s].
Proof.
  unfold nodot. induction s as [|x s IH]; [reflexivity|]. cbn [mem_N]. intros H.
  apply negb_true_iff in H. apply orb_false_iff in H. destruct H as [H1 H2].
  cbn [split_on]. rewrite IH by (apply negb_true_iff; exact H2).
  rewrite N.eqb_sym in H1. rewrite H1. reflexivity.
Qed.

Lemma split_app_dot a rest :
  nodot a = true -> split_on c_dot (a ++ c_dot :: rest) = a :: split_on c_dot rest.
Proof.
  unfold nodot. induction a as [|y a IH]; intros H.
  - cbn [app split_on]. rewrite N.eqb_refl. destruct (split_on c_dot rest); reflexivity.
  - cbn [mem_N] in H. apply negb_true_iff in H. apply orb_false_iff in H. destruct H as [H1 H2].
    cbn [app split_on]. rewrite IH by (apply negb_true_iff; exact H2).
    rewrite N.eqb_sym in H1. rewrite H1. reflexivity.
Qed.

Lemma split_dotted cs : cs <> [] -> forallb nodot cs = true -> split_on c_dot (dotted cs) = cs.
Proof.
  unfold dotted. induction cs as [|a [|b l] IH]; intros Hne H; [congruence| |].
  - cbn [join]. cbn in H. apply andb_true_iff in H. apply split_nodot. apply H.
  - cbn [forallb] in H. apply andb_true_iff in H. destruct H as [Ha H].
    change (join [c_dot] (a :: b :: l)) with (a ++ c_dot :: join [c_dot] (b :: l)).
    rewrite split_app_dot by exact Ha. f_equal. apply IH; [discriminate|exact H].
Qed.

Lemma split_on_nodot s : forallb nodot (split_on c_dot s) = true.
Proof.
  induction s as [|x s IH]; [reflexivity|]. cbn [split_on].
  destruct (split_on c_dot s) as [|w ws]; [reflexivity|].
  destruct (N.eqb x c_dot) eqn:E.
  - exact IH.
  - cbn [forallb] in *. apply andb_true_iff in IH as [Hw Hws]. rewrite Hws, andb_true_r.
    unfold nodot in *. cbn [mem_N]. rewrite N.eqb_sym, E. exact Hw.
Qed.

Lemma dotted_cons k p : p <> [] -> dotted (k :: p) = k ++ c_dot :: dotted p.
Proof. unfold dotted. destruct p; [congruence|]. reflexivity. Qed.

Lemma dotted_app a b : a <> [] -> b <> [] -> dotted (a ++ b) = dotted a ++ c_dot :: dotted b.
Proof.
  induction a as [|x [|y a'] IH]; intros Ha Hb; [congruence| |].
  - cbn [app]. rewrite dotted_cons by exact Hb. reflexivity.
  - change ((x :: y :: a') ++ b) with (x :: ((y :: a') ++ b)).
    rewrite dotted_cons by discriminate. rewrite IH by (try discriminate; exact Hb).
    rewrite (dotted_cons x (y :: a')) by discriminate. rewrite <- app_assoc. reflexivity.
Qed.

(* a longer path has a longer dotted name *)
Lemma dotted_app_longer a b : a <> [] -> b <> [] -> length (dotted a) < length (dotted (a ++ b)).
Proof. intros Ha Hb. rewrite dotted_app by assumption. rewrite app_length. simpl. lia. Qed.

Lemma dotted_app_neq a b : a <> [] -> b <> [] -> dotted (a ++ b) <> dotted a.
Proof. intros Ha Hb E. pose proof (dotted_app_longer a b Ha Hb) as H. rewrite E in H. lia. Qed.

(* ================================================================ B. nested levels *)
Lemma is_prefix_refl a : is_prefix a a = true.
Proof. induction a as [|x a IH]; simpl; [reflexivity|]. rewrite str_eqb_refl. exact IH. Qed.

Lemma is_prefix_app a b : is_prefix a (a ++ b) = true.
Proof. induction a as [|x a IH]; simpl; [reflexivity|]. rewrite str_eqb_refl. exact IH. Qed.

Lemma is_prefix_inv a : forall b, is_prefix a b = true -> exists c, b = a ++ c.
Proof.
  induction a as [|x a IH]; intros b H; [exists b; reflexivity|].
  destruct b as [|y b]; [discriminate H|]. simpl in H. apply andb_prop in H as [H1 H2].
  apply str_eqb_eq in H1. subst y. destruct (IH b H2) as [c ->]. exists c. reflexivity.
Qed.

Lemma firstn_app_le {A} n (a b : list A) : n <= length a -> firstn n (a ++ b) = firstn n a.
Proof.
  intros H. rewrite firstn_app. replace (n - length a) with 0 by lia. simpl. apply app_nil_r.
Qed.

Lemma longest_nested_firstn np f k : exists j, j <= k /\ longest_nested np f k = firstn j f.
Proof.
  induction k as [|k [j [Hj IH]]]; [exists 0; split; [lia|reflexivity]|].
  simpl. destruct (mem_str _ np).
  - exists (S k). split; [lia|reflexivity].
  - exists j. split; [lia|exact IH].
Qed.

Lemma level_of_prefix np f : exists r, f = level_of np f ++ r.
Proof.
  unfold level_of. destruct (longest_nested_firstn np f (length f)) as [j [_ ->]].
  exists (skipn j f). symmetry. apply firstn_skipn.
Qed.

Lemma longest_nested_app_le np pre x k :
  k <= length pre -> longest_nested np (pre ++ x) k = longest_nested np pre k.
Proof.
  induction k as [|k IH]; intros H; [reflexivity|].
  cbn [longest_nested]. rewrite (firstn_app_le (S k) pre x H). rewrite IH by lia. reflexivity.
Qed.



(* the builder's search for the longest nested prefix (over a set np' that agrees with np on the candidates)
   against the innermost nested path of the reference *)
Lemma try_prefixes_level np np' pre names : forall j,
  (forall i, 1 <= i <= j ->
     mem_str (dotted (pre ++ firstn i names)) np' = mem_str (dotted (pre ++ firstn i names)) np) ->
  match try_prefixes np' pre names j with
  | Some c => exists i, 1 <= i <= j /\ c = dotted (pre ++ firstn i names) /\
                        longest_nested np (pre ++ names) (length pre + j) = pre ++ firstn i names /\
                        mem_str c np = true
  | None => longest_nested np (pre ++ names) (length pre + j) = longest_nested np pre (length pre)
  end.
Proof.
  induction j as [|j IH]; intros Hag.
  - simpl. rewrite Nat.add_0_r. apply longest_nested_app_le. lia.
  - cbn [try_prefixes]. rewrite Nat.add_succ_r. cbn [longest_nested].
    rewrite <- Nat.add_succ_r. rewrite firstn_app_2.
    pose proof (Hag (S j) ltac:(lia)) as Hm. rewrite <- Hm.
    destruct (mem_str (dotted (pre ++ firstn (S j) names)) np') eqn:E.
    + exists (S j). split; [lia|]. split; [reflexivity|]. split; [reflexivity|]. symmetry. exact Hm.
    + specialize (IH (fun i Hi => Hag i ltac:(lia))).
      destruct (try_prefixes np' pre names j) as [c|].
      * destruct IH as [i [Hi [Hc Hl]]]. exists i. split; [lia|]. split; assumption.
      * exact IH.
Qed.

(* ================================================================ C. objects of a nested level *)
Lemma descend_nil np P : forall n k, descend np P k n [] = [].
Proof. induction n as [|n IH]; intros k; simpl; [reflexivity|]. destruct (mem_str _ np); apply IH. Qed.

Lemma descend_app np P : forall n k a b,
  descend np P k n (a ++ b) = descend np P k n a ++ descend np P k n b.
Proof.
  induction n as [|n IH]; intros k a b; simpl; [reflexivity|].
  destruct (mem_str _ np); [rewrite flat_map_app|]; apply IH.
Qed.

Lemma descend_flat np P n k objs :
  descend np P k n objs = flat_map (fun o => descend np P k n [o]) objs.
Proof.
  induction objs as [|o objs IH]; [apply descend_nil|].
  change (o :: objs) with ([o] ++ objs). rewrite descend_app, IH. reflexivity.
Qed.

Lemma descend_add np P : forall n1 n2 k objs,
  descend np P k (n1 + n2) objs = descend np P (k + n1) n2 (descend np P k n1 objs).
Proof.
  induction n1 as [|n1 IH]; intros n2 k objs.
  - simpl. rewrite Nat.add_0_r. reflexivity.
  - cbn [Nat.add descend]. rewrite IH. replace (S k + n1) with (k + S n1) by lia. reflexivity.
Qed.

Lemma descend_same np P P' : forall n k objs,
  (forall i, i <= k + n -> firstn i P = firstn i P') ->
  descend np P k n objs = descend np P' k n objs.
Proof.
  induction n as [|n IH]; intros k objs H; [reflexivity|].
  cbn [descend]. rewrite (H (S k)) by lia. apply IH. intros i Hi. apply H. lia.
Qed.

Lemma objects_at_self np l d : objects_at np l l d = [d].
Proof. unfold objects_at. rewrite is_prefix_refl, Nat.sub_diag. reflexivity. Qed.

Lemma objects_at_app np l r d :
  objects_at np l (l ++ r) d = descend np (l ++ r) (length l) (length r) [d].
Proof.
  unfold objects_at. rewrite is_prefix_app, app_length.
  replace (length l + length r - length l) with (length r) by lia. reflexivity.
Qed.

Lemma objects_at_compose np lvl l2 P d :
  is_prefix lvl l2 = true -> is_prefix l2 P = true ->
  objects_at np lvl P d = flat_map (objects_at np l2 P) (objects_at np lvl l2 d).
Proof.
  intros H1 H2. destruct (is_prefix_inv _ _ H1) as [r1 ->]. destruct (is_prefix_inv _ _ H2) as [r2 ->].
  rewrite (objects_at_app np lvl r1 d).
  rewrite <- app_assoc. rewrite (objects_at_app np lvl (r1 ++ r2) d). rewrite app_length, descend_add.
  rewrite (descend_same np (lvl ++ r1 ++ r2) (lvl ++ r1) (length r1) (length lvl) [d]).
  - rewrite descend_flat. apply flat_map_ext. intros o.
    rewrite app_assoc. rewrite (objects_at_app np (lvl ++ r1) r2 o). rewrite app_length. reflexivity.
  - intros i Hi. rewrite app_assoc. apply firstn_app_le. rewrite app_length. exact Hi.
Qed.

Lemma existsb_flat_map {A B} (f : B -> bool) (g : A -> list B) l :
  existsb f (flat_map g l) = existsb (fun x => existsb f (g x)) l.
Proof. induction l as [|x l IH]; simpl; [reflexivity|]. rewrite existsb_app, IH. reflexivity. Qed.

Lemma level_eqb_refl l : level_eqb l l = true.
Proof. unfold level_eqb. induction l as [|x l IH]; simpl; [reflexivity|]. rewrite str_eqb_refl. exact IH. Qed.

(* ================================================================ D. the field a leaf clause addresses *)
Lemma obj_get_set_eq {A} k (v : A) o : obj_get k (obj_set k v o) = Some v.
Proof.
  induction o as [|[k1 v1] o IH]; simpl; [rewrite str_eqb_refl; reflexivity|].
  destruct (str_eqb k k1) eqn:E; simpl; rewrite E; [reflexivity|exact IH].
Qed.

Lemma obj_get_set_neq {A} k k' (v : A) o :
  str_eqb k k' = false -> obj_get k (obj_set k' v o) = obj_get k o.
Proof.
  intros Hn. induction o as [|[k1 v1] o IH]; simpl; [rewrite Hn; reflexivity|].
  destruct (str_eqb k' k1) eqn:E; simpl.
  - apply str_eqb_eq in E. subst k1. rewrite Hn. reflexivity.
  - destruct (str_eqb k k1); [reflexivity|exact IH].
Qed.

(* what the level reading of a leaf item needs: no bound is called default_field, an item without q does not
   use a match method, and q is among the keys of an item that has one *)
Definition leaf_lvl_ok (l : leaf) : Prop :=
  obj_get k_default_field (l_bounds l) = None /\
  (l_q l = None -> starts_with k_match (l_method l) = false) /\
  (l_q l <> None -> In k_q (class_keys (l_kind l) ++ l_addkeys l)).

Lemma leaf_lvl_ok_sim l l' : leaf_sim l l' -> leaf_lvl_ok l' -> leaf_lvl_ok l.
Proof.
  intros (Hk & Hm & Hf & Hq & Hb & Hfz & Hs & Ha) (H1 & H2 & H3).
  unfold leaf_lvl_ok. rewrite Hk, Hm, Hq, Hb, Ha. auto.
Qed.

Lemma good_leaf_sim l l' : leaf_sim l l' -> good_leaf l' = good_leaf l.
Proof. intros (Hk & Hm & _). unfold good_leaf. rewrite Hm. reflexivity. Qed.

Lemma leaf_lvl_ok_mod m l : leaf_lvl_ok l -> leaf_lvl_ok (apply_mod m l).
Proof.
  intros (H1 & H2 & H3). destruct m; unfold leaf_lvl_ok; simpl.
  - repeat split; auto.
  - repeat split; auto. intros Hq. specialize (H3 Hq).
    destruct (l_kind l); [exact H3|rewrite app_assoc; apply in_or_app; left; exact H3|exact H3].
Qed.

Lemma leaf_lvl_ok_mods ms l : leaf_lvl_ok l -> leaf_lvl_ok (apply_mods ms l).
Proof. intros H. induction ms as [|m ms IH]; simpl; [exact H|apply leaf_lvl_ok_mod; exact IH]. Qed.

Lemma good_leaf_mods ms l : good_leaf l = true -> good_leaf (apply_mods ms l) = true.
Proof.
  intros H. induction ms as [|m ms IH]; simpl; [exact H|]. destruct m; simpl; [reflexivity|exact IH].
Qed.

Lemma fields_mods ms l : l_fields (apply_mods ms l) = l_fields l.
Proof. induction ms as [|m ms IH]; simpl; [reflexivity|]. destruct m; exact IH. Qed.

Lemma term_leaf_ok cfg cx t l : term_leaf cfg cx t = Some l ->
  good_leaf l = true /\ leaf_lvl_ok l /\ l_fields l = ctx_fields cfg cx.
Proof.
  destruct t as [[] m v| |k m e|m lo hi il ih| | | | | | |]; simpl; try discriminate.
  - intros H. inversion H; subst l. split; [|split; [|reflexivity]].
    + unfold good_leaf. simpl. destruct (ctx_is_analyzed cfg cx); [destruct (c_match_word_as_phrase cfg)|]; reflexivity.
    + split; [reflexivity|split]; simpl; [intros H0; discriminate|intros _; auto].
  - intros H. inversion H; subst l. destruct (ctx_is_analyzed cfg cx); (split; [reflexivity|split; [|reflexivity]]);
      (split; [reflexivity|split]; simpl; [intros H0; discriminate|intros _; auto]).
  - destruct (range_bound_value lo) as [vlo|]; [|discriminate].
    destruct (range_bound_value hi) as [vhi|]; [|discriminate].
    intros H. inversion H; subst l. split; [reflexivity|split; [|reflexivity]].
    split; [|split]; simpl.
    + destruct il, ih, (bound_kept vhi), (bound_kept vlo); reflexivity.
    + intros _. reflexivity.
    + intros H0. congruence.
Qed.

Lemma leaf_attr_default_field l :
  obj_get k_default_field (l_bounds l) = None -> leaf_attr l k_default_field = None.
Proof. intros H. unfold leaf_attr. simpl. rewrite H. reflexivity. Qed.

Lemma add_key_qs_keep l inner key v0 :
  leaf_attr l k_default_field = None ->
  obj_get k_default_field inner = Some v0 ->
  (forall v, leaf_attr l k_q = Some v -> v0 = JStr (leaf_field l)) ->
  obj_get k_default_field (add_key l k_query_string inner key) = Some v0.
Proof.
  intros Hdf Hin Hq. unfold add_key. destruct (leaf_attr l key) as [v|] eqn:Hattr; [|exact Hin].
  destruct (str_eqb key k_q) eqn:Eq.
  - apply str_eqb_eq in Eq. subst key. rewrite (Hq v Hattr).
    change (contains k_match k_query_string) with false. cbv iota.
    change (str_eqb k_query_string k_query_string) with true. cbv iota.
    rewrite obj_get_set_neq by reflexivity. rewrite obj_get_set_neq by reflexivity.
    apply obj_get_set_eq.
  - destruct (str_eqb k_default_field key) eqn:Ed.
    + apply str_eqb_eq in Ed. subst key. congruence.
    + rewrite obj_get_set_neq by exact Ed. exact Hin.
Qed.

Lemma add_key_qs_q l inner v :
  leaf_attr l k_q = Some v ->
  obj_get k_default_field (add_key l k_query_string inner k_q) = Some (JStr (leaf_field l)).
Proof.
  intros Hattr. unfold add_key. rewrite Hattr. change (str_eqb k_q k_q) with true. cbv iota.
  change (contains k_match k_query_string) with false. cbv iota.
  change (str_eqb k_query_string k_query_string) with true. cbv iota.
  rewrite obj_get_set_neq by reflexivity. rewrite obj_get_set_neq by reflexivity.
  apply obj_get_set_eq.
Qed.

Lemma fold_add_key_qs l keys : forall inner,
  leaf_attr l k_default_field = None ->
  obj_get k_default_field inner = Some (JStr (leaf_field l)) \/
  (In k_q keys /\ exists v, leaf_attr l k_q = Some v) ->
  obj_get k_default_field (fold_left (add_key l k_query_string) keys inner) = Some (JStr (leaf_field l)).
Proof.
  induction keys as [|k keys IH]; intros inner Hdf H; simpl.
  - destruct H as [H|[[] _]]. exact H.
  - apply IH; [exact Hdf|]. destruct H as [H|[[->|Hin] [v Hv]]].
    + left. apply add_key_qs_keep; auto.
    + left. apply (add_key_qs_q l inner v Hv).
    + right. split; [exact Hin|exists v; exact Hv].
Qed.

Lemma leaf_method_qs cfg l :
  good_leaf l = true -> leaf_lvl_ok l -> leaf_method cfg l = JStr k_query_string -> l_q l <> None.
Proof.
  intros Hg (_ & H2 & _) Hm Hq. specialize (H2 Hq). unfold leaf_method in Hm.
  assert (Hwc : leaf_has_wildcard l = false).
  { unfold leaf_has_wildcard. rewrite Hq. destruct (l_kind l); reflexivity. }
  rewrite Hwc, H2, !andb_false_r in Hm. inversion Hm as [Hm'].
  unfold good_leaf in Hg. rewrite Hm' in Hg. discriminate Hg.
Qed.

(* the clause of a leaf item names the item's field, or no single field *)
Lemma leaf_clause_field cfg l j :
  good_leaf l = true -> leaf_lvl_ok l -> leaf_json cfg l = ROk j ->
  clause_field j = None \/ clause_field j = Some (leaf_field l).
Proof.
  intros Hg Hok. unfold leaf_json.
  destruct (match l_kind l, l_q l with LWord, Some q => str_eqb q k_star | _, _ => false end).
  - intros H. inversion H. right. reflexivity.
  - destruct (leaf_method cfg l) as [| | |m| |] eqn:Hm; try discriminate.
    destruct (str_eqb m k_query_string || str_eqb m k_multi_match) eqn:E; intros H; inversion H; subst j.
    + destruct (str_eqb m k_query_string) eqn:Eq.
      * apply str_eqb_eq in Eq. subst m. right.
        pose proof (leaf_method_qs cfg l Hg Hok Hm) as Hq. destruct Hok as (H1 & H2 & H3).
        unfold clause_field. change (str_eqb k_query_string k_exists) with false. cbv iota.
        change (str_eqb k_query_string k_query_string) with true. cbv iota.
        rewrite fold_add_key_qs; [reflexivity|apply leaf_attr_default_field; exact H1|].
        right. split; [apply H3; exact Hq|]. unfold leaf_attr. simpl.
        destruct (l_q l) as [q|]; [exists (JStr q); reflexivity|congruence].
      * simpl in E. apply str_eqb_eq in E. subst m. left. reflexivity.
    + apply orb_false_elim in E as [E1 E2]. unfold clause_field.
      destruct (str_eqb m k_exists) eqn:Ee.
      * left. cbv iota. cbn [obj_get]. destruct (str_eqb k_field (leaf_field l)); reflexivity.
      * rewrite E1, E2. right. reflexivity.
Qed.

(* ================================================================ E. nested items not under another nested item *)
Fixpoint exposed (e : eitem) : list str :=
  match e with
  | ELeaf _ => []
  | ENested p _ _ => [p]
  | EOp _ items => flat_map exposed items
  end.

(* ENested._exclude_nested_children changes nothing when no exposed nested item has the same path *)
Lemma exclude_nested_id p : forall e, (forall q, In q (exposed e) -> q <> p) -> exclude_nested p e = e.
Proof.
  intros e. induction e as [l|p' nm it _|k items IH] using eitem_ind'; intros H.
  - reflexivity.
  - simpl. destruct (str_eqb p' p) eqn:E; [|reflexivity]. apply str_eqb_eq in E. exfalso.
    apply (H p'); [left; reflexivity|exact E].
  - simpl. f_equal. simpl in H. induction IH as [|x items Hx _ IHl]; [reflexivity|].
    simpl. f_equal.
    + apply Hx. intros q Hq. apply H. simpl. apply in_or_app. left. exact Hq.
    + apply IHl. intros q Hq. apply H. simpl. apply in_or_app. right. exact Hq.
Qed.

Lemma exposed_on_leaf g e : exposed (on_leaf g e) = exposed e.
Proof. destruct e; reflexivity. Qed.

(* ================================================================ F. the guards on the children of a node *)
Definition child_pre (pre : list str) (t : item) : list str :=
  match t with SearchField _ n _ => pre ++ split_on c_dot n | _ => pre end.

Lemma nested_plain_children cfg np ef pre t :
  nested_plain cfg np ef pre t = true ->
  Forall (fun c => nested_plain cfg np ef (child_pre pre t) c = true) (children t).
Proof.
  destruct t; simpl; intros H; repeat constructor; try exact H;
    try (apply andb_prop in H as [H1 H2]; assumption).
  apply andb_prop in H as [H _]. apply Forall_forall. intros c Hc.
  rewrite forallb_forall in H. apply H. exact Hc.
Qed.

Definition is_field (t : item) : bool := match t with SearchField _ _ _ => true | _ => false end.

Lemma has_bare_child t c :
  is_field t = false -> In c (children t) -> has_bare_term c = true -> has_bare_term t = true.
Proof.
  intros Hn Hin Hc. destruct t as [| | | | | | |k m ops| | |]; simpl in *; try discriminate Hn; try reflexivity;
    try (destruct Hin as [<-|[]]; exact Hc); try contradiction.
  apply existsb_exists. exists c. split; assumption.
Qed.

Lemma plain_name_split n :
  plain_field_name n = true -> exists w ws, split_on c_dot n = w :: ws /\ w <> [].
Proof.
  destruct n as [|c n']; [discriminate|]. simpl. intros H. apply negb_true_iff in H.
  pose proof (split_on_nonempty c_dot n') as Hne. destruct (split_on c_dot n') as [|w ws]; [congruence|].
  rewrite H. exists (c :: w), ws. split; [reflexivity|discriminate].
Qed.

Lemma forallb_firstn {A} (f : A -> bool) n l : forallb f l = true -> forallb f (firstn n l) = true.
Proof.
  revert l. induction n as [|n IH]; intros l H; [reflexivity|]. destruct l as [|x l]; [reflexivity|].
  simpl in *. apply andb_prop in H as [H1 H2]. rewrite H1. apply IH. exact H2.
Qed.

Lemma firstn_nonempty {A} n (l : list A) : 1 <= n -> l <> [] -> firstn n l <> [].
Proof. destruct n; [lia|]. destruct l; [congruence|]. discriminate. Qed.

Lemma prefix_propagate t cx : x_prefix (propagate_name t cx) = x_prefix cx.
Proof. unfold propagate_name. destruct (name_of t) as [n|]; [destruct (nonempty n)|]; reflexivity. Qed.

Lemma field_prefix_propagate t cx : field_prefix (propagate_name t cx) = field_prefix cx.
Proof. unfold field_prefix. rewrite prefix_propagate. reflexivity. Qed.

Lemma analyzed_propagate cfg t cx : ctx_is_analyzed cfg (propagate_name t cx) = ctx_is_analyzed cfg cx.
Proof. unfold propagate_name. destruct (name_of t) as [n|]; [destruct (nonempty n)|]; reflexivity. Qed.

Lemma level_of_nil_path np : level_of np [] = [].
Proof. reflexivity. Qed.

Lemma level_of_shorter np pre : length (level_of np pre) <= length pre.
Proof.
  destruct (level_of_prefix np pre) as [r Hr]. rewrite Hr at 2. rewrite app_length. lia.
Qed.

Lemma forallb_ext_all {A} (f g : A -> bool) l : (forall x, f x = g x) -> forallb f l = forallb g l.
Proof. intros H. induction l as [|x l IH]; simpl; [reflexivity|]. rewrite H, IH. reflexivity. Qed.
Lemma existsb_ext_all {A} (f g : A -> bool) l : (forall x, f x = g x) -> existsb f l = existsb g l.
Proof. intros H. induction l as [|x l IH]; simpl; [reflexivity|]. rewrite H, IH. reflexivity. Qed.

(* ================================================================ G. the visitor against the reference, with nested fields *)
Section NestedMain.
  Variable cfg : es_config.
  Variable np : list str.
  Variable ef : bool.
  (* not F8: the nested prefixes of the code are the declared nested paths of the reference *)
  Hypothesis Hagree : forall s, s <> [] -> mem_str s (ev_nested_prefixes (mk_env cfg)) = mem_str s np.
  Hypothesis Hef : ef = true -> mem_str [] (ev_nested_prefixes (mk_env cfg)) = false.
  Hypothesis Hnp0 : mem_str [] np = false.
  Let env := mk_env cfg.

  Definition lv (cx : ectx) : level := level_of np (field_prefix cx).
  Definition evn (cx : ectx) (d : doc) (e : eitem) : bool := eeval cfg np e (lv cx) d.
  Definition EVn (cx : ectx) (d : doc) (F : leaf -> leaf) (e : eitem) : bool := evn cx d (on_leaf F e).
  Definition Dn (t : item) (cx : ectx) (ms : list lmod) (d : doc) : bool :=
    den_at cfg np t (noname cx) ms (lv cx) d.

  (* the contexts the visit goes through: a field prefix is a non-empty list of dot-less components; outside
     every field (not F17) a term is addressed to a default field that is not under a nested path *)
  Definition okc (cx : ectx) (t : item) : Prop :=
    match x_prefix cx with
    | Some p => p <> [] /\ forallb nodot p = true
    | None => has_bare_term t = true -> level_of np (split_on c_dot (c_default_field cfg)) = []
    end.

  Lemma okc_nodot cx t : okc cx t -> forallb nodot (field_prefix cx) = true.
  Proof. unfold okc, field_prefix. destruct (x_prefix cx); [intros [_ H]; exact H|reflexivity]. Qed.

  Lemma okc_child cx t c :
    okc cx t -> is_field t = false -> In c (children t) -> okc (propagate_name t cx) c.
  Proof.
    unfold okc. rewrite prefix_propagate. destruct (x_prefix cx); [auto|].
    intros H Hf Hin Hc. apply H. exact (has_bare_child t c Hf Hin Hc).
  Qed.

  Lemma lv_propagate t cx : lv (propagate_name t cx) = lv cx.
  Proof. unfold lv. rewrite field_prefix_propagate. reflexivity. Qed.

  Lemma Dn_propagate t c cx ms d : Dn c (propagate_name t cx) ms d = Dn c cx ms d.
  Proof. unfold Dn. rewrite noname_propagate, lv_propagate. reflexivity. Qed.

  Lemma EVn_propagate t cx d F e : EVn (propagate_name t cx) d F e = EVn cx d F e.
  Proof. unfold EVn, evn. rewrite lv_propagate. reflexivity. Qed.

  (* exposed nested items lie on paths strictly below the field prefix *)
  Definition deeper (pre : list str) (q : str) : Prop :=
    exists comps, comps <> [] /\ forallb nodot (pre ++ comps) = true /\ q = dotted (pre ++ comps).
  Definition einv (cx : ectx) (e : eitem) : Prop := forall q, In q (exposed e) -> deeper (field_prefix cx) q.

  Lemma einv_propagate t cx e : einv (propagate_name t cx) e -> einv cx e.
  Proof. unfold einv. rewrite field_prefix_propagate. auto. Qed.

  Lemma einv_on_leaf cx g e : einv cx e -> einv cx (on_leaf g e).
  Proof. unfold einv. rewrite exposed_on_leaf. auto. Qed.

  (* ---- leaves *)
  Lemma evn_leaf cx d l f :
    good_leaf l = true -> leaf_lvl_ok l -> leaf_field l = f ->
    level_of np (split_on c_dot f) = lv cx ->
    evn cx d (ELeaf l) = match onorm (leaf_json cfg l) with Some a => truth d a | None => false end.
  Proof.
    intros Hg Hok Hf Hl. unfold evn. simpl. destruct (leaf_json cfg l) as [j|] eqn:Hj; [|reflexivity].
    unfold clause_holds, onorm.
    destruct (leaf_clause_field cfg l j Hg Hok Hj) as [-> | ->]; [reflexivity|].
    rewrite Hf, Hl, level_eqb_refl. reflexivity.
  Qed.

  Lemma ctx_level cx t :
    okc cx t -> has_bare_term t = true ->
    level_of np (split_on c_dot (dotted (ctx_fields cfg (noname cx)))) = lv cx /\
    level_of np (ctx_path cfg (noname cx)) = lv cx.
  Proof.
    unfold okc, lv, ctx_fields, ctx_path, field_prefix. simpl.
    destruct (x_prefix cx) as [p|].
    - intros [Hne Hnd] _. rewrite split_dotted by assumption. split; reflexivity.
    - intros H Hb. specialize (H Hb). change (dotted [c_default_field cfg]) with (c_default_field cfg).
      rewrite H. split; reflexivity.
  Qed.

  Lemma leaf_case_n t cx ms F l0 l0' d :
    okc cx t -> has_bare_term t = true ->
    term_leaf cfg (noname cx) t = Some l0' -> leaf_sim l0 l0' -> fsim F (apply_mods ms) ->
    EVn cx d F (ELeaf l0) = term_holds cfg np (noname cx) ms t (lv cx) d.
  Proof.
    intros Hok Hb Ht Hs HF. destruct (term_leaf_ok cfg _ t l0' Ht) as (Hg & Hlo & Hfl).
    destruct (ctx_level cx t Hok Hb) as [Hl1 Hl2].
    pose proof (HF _ _ Hs) as Hsim.
    unfold EVn. simpl on_leaf.
    rewrite (evn_leaf cx d (F l0) (dotted (ctx_fields cfg (noname cx)))).
    - unfold term_holds, term_atom. rewrite Ht, Hl2, objects_at_self.
      rewrite (leaf_json_sim cfg _ _ Hsim). unfold onorm.
      destruct (leaf_json cfg (apply_mods ms l0')); [simpl; rewrite orb_false_r|]; reflexivity.
    - rewrite <- (good_leaf_sim _ _ Hsim). apply good_leaf_mods. exact Hg.
    - apply (leaf_lvl_ok_sim _ _ Hsim). apply leaf_lvl_ok_mods. exact Hlo.
    - unfold leaf_field. destruct Hsim as (_ & _ & Hf & _). rewrite Hf, fields_mods, Hfl. reflexivity.
    - exact Hl1.
  Qed.

  (* ---- the conclusions *)
  Definition NFn (t : item) (cx : ectx) (items : list eitem) : Prop :=
    exists e, items = [e] /\ egood e = true /\ enonempty e = true /\
              ekind e = item_kind_n cfg np (field_prefix cx) t /\ einv cx e /\
              forall ms F, fsim F (apply_mods ms) -> ms = [] \/ reaches np (field_prefix cx) t = true ->
                           forall d, EVn cx d F e = Dn t cx ms d.
  Definition FLn (t : item) (cx : ectx) (items : list eitem) : Prop :=
    forallb egood items = true /\ items <> [] /\ Forall (einv cx) items /\
    forall F d, fsim F (fun l => l) ->
      (conj_like cfg t = true -> forallb (EVn cx d F) items = Dn t cx [] d) /\
      (disj_like cfg t = true -> existsb (EVn cx d F) items = Dn t cx [] d).
  Definition SVn (t : item) : Prop :=
    supported t = true -> forall cx, okc cx t -> nested_plain cfg np ef (field_prefix cx) t = true ->
    (forall items, visit cfg env t None cx = ROk items -> NFn t cx items) /\
    (forall items, conj_like cfg t || disj_like cfg t = true ->
       walk (visit cfg env) (Some (cls_of t)) cx (children t) = ROk items -> FLn t cx items).

  Definition SVHn (c : item) : Prop := SVn c /\ supported c = true.

  (* the operands of an operation of class p, visited one after the other *)
  Lemma walk_ops_n p cx l : forall items,
    Forall SVHn l -> Forall (fun c => okc cx c /\ nested_plain cfg np ef (field_prefix cx) c = true) l ->
    (forall c, In c l -> cls_eqb (cls_of c) p = true -> conj_like cfg c || disj_like cfg c = true) ->
    walk (visit cfg env) (Some p) cx l = ROk items ->
    exists parts, items = concat parts /\
      Forall2 (fun c its => if flattened c p then FLn c cx its else NFn c cx its) l parts.
  Proof.
    induction l as [|c l IH]; intros items HS HG Hcl Hw.
    - simpl in Hw. inversion Hw. exists []. split; constructor.
    - rewrite walk_cons in Hw. destruct (visit cfg env c (Some p) cx) as [its|] eqn:Hc; [|discriminate].
      destruct (walk (visit cfg env) (Some p) cx l) as [its'|] eqn:Hw'; [|discriminate].
      inversion Hw; subst items. inversion HS as [|? ? (HSc & Hsc) HS']; subst.
      inversion HG as [|? ? (Hokc & Hgc) HG']; subst.
      destruct (IH its' HS' HG' (fun c' Hin => Hcl c' (or_intror Hin)) eq_refl) as [parts [Hp HF]].
      exists (its :: parts). split; [simpl; rewrite Hp; reflexivity|]. constructor; [|exact HF].
      unfold env in Hc. rewrite visit_par in Hc. destruct (flattened c p) eqn:Hf.
      + apply flattened_cls in Hf as He. apply cls_eqb_eq in He as He'. subst p.
        apply (proj2 (HSc Hsc cx Hokc Hgc)); [apply Hcl; [left; reflexivity|exact He]|exact Hc].
      + destruct (mixes cfg p (cls_of c)); [destruct (Nat.ltb (length (children c)) 2); discriminate|].
        apply (proj1 (HSc Hsc cx Hokc Hgc)). exact Hc.
  Qed.

  Lemma parts_good_n p cx l parts :
    Forall2 (fun c its => if flattened c p then FLn c cx its else NFn c cx its) l parts ->
    forallb egood (concat parts) = true /\ (l <> [] -> concat parts <> []) /\ Forall (einv cx) (concat parts).
  Proof.
    induction 1 as [|c its l parts Hc _ (IH1 & IH2 & IH3)]; [split; [reflexivity|split; [congruence|constructor]]|].
    simpl. rewrite forallb_app, IH1, andb_true_r.
    destruct (flattened c p).
    - destruct Hc as (Hg & Hn & Hi & _). split; [exact Hg|]. split.
      + intros _ Habs. apply app_eq_nil in Habs. tauto.
      + apply Forall_app. split; assumption.
    - destruct Hc as (e & -> & Hg & _ & _ & Hi & _). split; [simpl; rewrite Hg; reflexivity|].
      split; [discriminate|]. constructor; assumption.
  Qed.

  Lemma parts_conj_n p cx l parts F d :
    fsim F (fun l => l) ->
    Forall2 (fun c its => if flattened c p then FLn c cx its else NFn c cx its) l parts ->
    (forall c, In c l -> cls_eqb (cls_of c) p = true -> conj_like cfg c = true) ->
    forallb (EVn cx d F) (concat parts) = forallb (fun c => Dn c cx [] d) l.
  Proof.
    intros HF H. induction H as [|c its l parts Hc _ IH]; intros Hcl; [reflexivity|].
    simpl. rewrite forallb_app, IH by (intros c' Hin; apply Hcl; right; exact Hin). f_equal.
    destruct (flattened c p) eqn:Hf; [apply flattened_cls in Hf as He|].
    - destruct Hc as (_ & _ & _ & Hc). apply (proj1 (Hc F d HF)). apply Hcl; [left; reflexivity|exact He].
    - destruct Hc as (e & -> & _ & _ & _ & _ & Hc). simpl. rewrite andb_true_r.
      apply (Hc [] F HF (or_introl eq_refl)).
  Qed.

  Lemma parts_disj_n p cx l parts F d :
    fsim F (fun l => l) ->
    Forall2 (fun c its => if flattened c p then FLn c cx its else NFn c cx its) l parts ->
    (forall c, In c l -> cls_eqb (cls_of c) p = true -> disj_like cfg c = true) ->
    existsb (EVn cx d F) (concat parts) = existsb (fun c => Dn c cx [] d) l.
  Proof.
    intros HF H. induction H as [|c its l parts Hc _ IH]; intros Hcl; [reflexivity|].
    simpl. rewrite existsb_app, IH by (intros c' Hin; apply Hcl; right; exact Hin). f_equal.
    destruct (flattened c p) eqn:Hf; [apply flattened_cls in Hf as He|].
    - destruct Hc as (_ & _ & _ & Hc). apply (proj2 (Hc F d HF)). apply Hcl; [left; reflexivity|exact He].
    - destruct Hc as (e & -> & _ & _ & _ & _ & Hc). simpl. rewrite orb_false_r.
      apply (Hc [] F HF (or_introl eq_refl)).
  Qed.

  (* ---- the Lucene boolean query *)
  Lemma operand_other_n pre c :
    is_unary c = false -> bool_operand_ok_n cfg np pre c = true -> item_kind_n cfg np pre c = IOther.
  Proof.
    destruct c as [| | | | | | |k ? ?| | |]; simpl; intros Hu Hok; try discriminate; try reflexivity;
      try (destruct (item_kind_n cfg np _ _); try discriminate; reflexivity).
    - destruct (crosses np pre _); [reflexivity|].
      destruct (item_kind_n cfg np _ _); try discriminate; reflexivity.
    - destruct k; try discriminate; try reflexivity.
      simpl in Hok. destruct (c_default_operator cfg); try discriminate; reflexivity.
  Qed.

  Lemma eparts_cons_n (f : eitem -> bool) (e : eitem) l :
    eparts f (e :: l) =
    let '(m2, s2, n2) := eparts f l in
    match e with
    | EOp EKMust sub => (map f sub ++ m2, s2, n2)
    | EOp EKMustNot sub => (m2, s2, map f sub ++ n2)
    | _ => (m2, f e :: s2, n2)
    end.
  Proof. reflexivity. Qed.

  Lemma bool_sem_n cx d ops parts :
    Forall2 (fun c its => NFn c cx its) ops parts ->
    forallb (bool_operand_ok_n cfg np (field_prefix cx)) ops = true ->
    let sub := fun c => Dn c cx [] d in
    let '(m, s, n) := eparts (evn cx d) (concat parts) in
    forallb id m && negb (existsb id n) = forallb (fun c => negb (is_unary c) || sub c) ops /\
    match m with [] => false | _ => true end = existsb is_plus ops /\
    match s with [] => false | _ => true end = existsb opt ops /\
    existsb id s = existsb (fun c => opt c && sub c) ops.
  Proof.
    induction 1 as [|c its ops parts Hc _ IH]; intros Hok; [simpl; auto|].
    simpl in Hok. apply andb_prop in Hok as [Hokc Hok]. specialize (IH Hok).
    destruct Hc as (e & -> & _ & Hne & Hk & _ & Hev). simpl concat. rewrite eparts_cons_n.
    destruct (eparts (evn cx d) (concat parts)) as [[m2 s2] n2]. destruct IH as (I1 & I2 & I3 & I4).
    pose proof (Hev [] (fun l => l) fsim_id_id (or_introl eq_refl) d) as Hv. unfold EVn in Hv. rewrite on_leaf_id in Hv.
    cbn [forallb existsb]. unfold opt at 1 3.
    destruct (is_unary c) eqn:Hu.
    - destruct c as [| | | | | | | |uk um ua| |]; try discriminate Hu. destruct uk.
      + (* +a *) simpl in Hk. destruct e as [l|p nm it|[] sub']; try discriminate Hk.
        unfold evn in Hv. simpl in Hv. rewrite bool_matches_must in Hv. fold (evn cx d) in Hv.
        cbn [is_plus negb orb andb]. rewrite forallb_app, <- Hv, <- andb_assoc, I1.
        repeat split; try assumption. destruct sub'; [discriminate Hne|reflexivity].
      + (* NOT a *) simpl in Hk. destruct e as [l|p nm it|[] sub']; try discriminate Hk.
        unfold evn in Hv. simpl in Hv. rewrite bool_matches_must_not in Hv. fold (evn cx d) in Hv.
        cbn [is_plus negb orb andb]. rewrite existsb_app, negb_orb, <- Hv.
        repeat split; try assumption. rewrite <- I1.
        destruct (forallb id m2), (negb (existsb id (map (evn cx d) sub'))), (negb (existsb id n2)); reflexivity.
      + (* -a *) simpl in Hk. destruct e as [l|p nm it|[] sub']; try discriminate Hk.
        unfold evn in Hv. simpl in Hv. rewrite bool_matches_must_not in Hv. fold (evn cx d) in Hv.
        cbn [is_plus negb orb andb]. rewrite existsb_app, negb_orb, <- Hv.
        repeat split; try assumption. rewrite <- I1.
        destruct (forallb id m2), (negb (existsb id (map (evn cx d) sub'))), (negb (existsb id n2)); reflexivity.
    - rewrite (operand_other_n _ c Hu Hokc) in Hk.
      assert (Hpl : is_plus c = false) by (destruct c as [| | | | | | | |[] ? ?| |]; try reflexivity; discriminate Hu).
      rewrite Hpl. cbn [negb orb andb].
      destruct e as [l|p nm it|[] sub']; try discriminate Hk; cbn [existsb id]; rewrite <- Hv, I4;
        repeat split; assumption.
  Qed.

  (* a transparent element: the item of its only child, possibly modified on a leaf *)
  Lemma transparent_case_n t c cx cx' g ms' e :
    NFn c cx' [e] ->
    field_prefix cx' = field_prefix cx ->
    item_kind_n cfg np (field_prefix cx) t = item_kind_n cfg np (field_prefix cx) c ->
    (forall l, good_leaf l = true -> good_leaf (g l) = true) ->
    (forall ms F, fsim F (apply_mods ms) -> fsim (fun l => F (g l)) (apply_mods (ms ++ ms'))) ->
    (forall ms, ms = [] \/ reaches np (field_prefix cx) t = true ->
                ms ++ ms' = [] \/ reaches np (field_prefix cx) c = true) ->
    (forall ms d, Dn t cx ms d = Dn c cx' (ms ++ ms') d) ->
    NFn t cx [on_leaf g e].
  Proof.
    intros (e0 & He & Hg & Hne & Hk & Hi & Hev) Hfp Hik Hgood Hsim Hre HD. inversion He; subst e0.
    assert (Hlv : lv cx' = lv cx) by (unfold lv; rewrite Hfp; reflexivity).
    exists (on_leaf g e). split; [reflexivity|]. split; [apply egood_on_leaf; assumption|].
    split; [rewrite enonempty_on_leaf; exact Hne|].
    split; [rewrite ekind_on_leaf, Hik, Hk, Hfp; reflexivity|].
    split; [apply einv_on_leaf; unfold einv in *; rewrite <- Hfp; exact Hi|].
    intros ms F HF Hr d. unfold EVn. rewrite on_leaf_comp. rewrite HD.
    specialize (Hev (ms ++ ms') (fun l => F (g l)) (Hsim ms F HF)).
    rewrite Hfp in Hev. specialize (Hev (Hre ms Hr) d). unfold EVn, evn in *. rewrite Hlv in Hev. exact Hev.
  Qed.

  Lemma conj_item_n t cx its :
    FLn t (propagate_name t cx) its -> conj_like cfg t = true ->
    item_kind_n cfg np (field_prefix cx) t = IMust ->
    (forall ms d, Dn t cx ms d = Dn t cx [] d) ->
    NFn t cx [mk_op EKMust its].
  Proof.
    intros (Hg & Hne & Hi & HFL) Hl Hk HD. exists (mk_op EKMust its). split; [reflexivity|].
    split; [simpl; apply egood_map_ztq; exact Hg|].
    split; [destruct its; [congruence|reflexivity]|]. split; [rewrite Hk; reflexivity|].
    split.
    { intros q Hq. simpl in Hq. apply in_flat_map in Hq as [x [Hx Hq]]. apply in_map_iff in Hx as [y [<- Hy]].
      rewrite exposed_on_leaf in Hq. rewrite Forall_forall in Hi. apply (einv_propagate t cx y (Hi y Hy) q Hq). }
    intros ms F _ _ d. unfold EVn. change (on_leaf F (mk_op EKMust its)) with (mk_op EKMust its).
    unfold evn, mk_op. simpl eeval. rewrite bool_matches_must, map_map, forallb_id_map.
    change (forallb (EVn cx d (leaf_set_ztq gen_EMust_zero_terms_query)) its = Dn t cx ms d).
    rewrite HD, <- (Dn_propagate t t cx [] d).
    rewrite <- (proj1 (HFL _ d (fsim_id_ztq gen_EMust_zero_terms_query)) Hl).
    apply forallb_ext_all. intros e. rewrite EVn_propagate. reflexivity.
  Qed.

  Lemma disj_item_n t cx its :
    FLn t (propagate_name t cx) its -> disj_like cfg t = true ->
    item_kind_n cfg np (field_prefix cx) t = IOther ->
    (forall ms d, Dn t cx ms d = Dn t cx [] d) ->
    NFn t cx [mk_op EKShould its].
  Proof.
    intros (Hg & Hne & Hi & HFL) Hl Hk HD. exists (mk_op EKShould its). split; [reflexivity|].
    split; [exact Hg|]. split; [destruct its; [congruence|reflexivity]|]. split; [rewrite Hk; reflexivity|].
    split.
    { intros q Hq. simpl in Hq. apply in_flat_map in Hq as [x [Hx Hq]].
      rewrite Forall_forall in Hi. apply (einv_propagate t cx x (Hi x Hx) q Hq). }
    intros ms F _ _ d. unfold EVn. change (on_leaf F (mk_op EKShould its)) with (EOp EKShould its).
    unfold evn. simpl eeval. rewrite bool_matches_should by (destruct its; [congruence|discriminate]).
    rewrite existsb_id_map.
    rewrite HD, <- (Dn_propagate t t cx [] d), <- (proj2 (HFL _ d fsim_id_id) Hl).
    apply existsb_ext_all. intros e. unfold EVn, evn. rewrite on_leaf_id, lv_propagate. reflexivity.
  Qed.

  Lemma neg_item_n t a cx e :
    egood e = true -> item_kind_n cfg np (field_prefix cx) t = IMustNot -> einv (propagate_name t cx) e ->
    (forall F d, fsim F (fun l => l) -> EVn (propagate_name t cx) d F e = Dn a (propagate_name t cx) [] d) ->
    (forall ms d, Dn t cx ms d = negb (Dn a cx [] d)) ->
    NFn t cx [mk_op EKMustNot [e]].
  Proof.
    intros Hg Hk Hi Hev HD. exists (mk_op EKMustNot [e]). split; [reflexivity|].
    split; [simpl; rewrite andb_true_r; apply egood_on_leaf; [intros l Hl; rewrite good_ztq; exact Hl|exact Hg]|].
    split; [reflexivity|]. split; [rewrite Hk; reflexivity|].
    split.
    { intros q Hq. simpl in Hq. rewrite app_nil_r, exposed_on_leaf in Hq. apply (einv_propagate t cx e Hi q Hq). }
    intros ms F _ _ d. unfold EVn. change (on_leaf F (mk_op EKMustNot [e])) with (mk_op EKMustNot [e]).
    unfold evn, mk_op. simpl eeval. rewrite bool_matches_must_not. simpl. rewrite orb_false_r.
    change (negb (EVn cx d (leaf_set_ztq gen_EMustNot_zero_terms_query) e) = Dn t cx ms d).
    rewrite <- (EVn_propagate t cx), (Hev _ d (fsim_id_ztq gen_EMustNot_zero_terms_query)), HD, Dn_propagate.
    reflexivity.
  Qed.

  Lemma forall2_nf_n p cx l parts :
    (forall c, In c l -> flattened c p = false) ->
    Forall2 (fun c its => if flattened c p then FLn c cx its else NFn c cx its) l parts ->
    Forall2 (fun c its => NFn c cx its) l parts.
  Proof.
    intros Hnb HF. induction HF as [|c its l parts Hc _ IH]; constructor.
    - rewrite (Hnb c (or_introl eq_refl)) in Hc. exact Hc.
    - apply IH. intros c' Hin. apply Hnb. right. exact Hin.
  Qed.

  (* ---- fields *)
  Lemma Dn_field m n e cx cctx ms d :
    noname cctx = mkECtx (Some (field_prefix cx ++ split_on c_dot n))
                         (Some (negb (mem_str (dotted (field_prefix cx ++ split_on c_dot n)) (c_not_analyzed cfg))))
                         None ->
    Dn (SearchField m n e) cx ms d = existsb (Dn e cctx ms) (objects_at np (lv cx) (lv cctx) d).
  Proof.
    intros H. unfold Dn. change (lv cctx) with (lv (noname cctx)). rewrite H. reflexivity.
  Qed.

  Lemma field_level cx n :
    ef || plain_field_name n = true ->
    let pre := field_prefix cx in
    let names := split_on c_dot n in
    match split_nested env n cx with
    | None => level_of np (pre ++ names) = lv cx /\ crosses np pre names = false
    | Some c => exists i, 1 <= i <= length names /\ c = dotted (pre ++ firstn i names) /\
                          level_of np (pre ++ names) = pre ++ firstn i names /\
                          crosses np pre names = true /\ mem_str c np = true
    end.
  Proof.
    intros Hfn pre names. unfold split_nested. fold pre names.
    assert (Hag : forall i, 1 <= i <= length names ->
              mem_str (dotted (pre ++ firstn i names)) (ev_nested_prefixes env) =
              mem_str (dotted (pre ++ firstn i names)) np).
    { intros i Hi. unfold env. destruct (dotted (pre ++ firstn i names)) as [|ch cand] eqn:Ec; [|apply Hagree; discriminate].
      apply orb_prop in Hfn as [Hfn|Hfn]; [rewrite (Hef Hfn), Hnp0; reflexivity|].
      exfalso. destruct (plain_name_split n Hfn) as (w & ws & Hsp & Hw). fold names in Hsp.
      apply (dotted_nonempty (pre ++ firstn i names) w); [|exact Hw|exact Ec].
      apply in_or_app. right. rewrite Hsp. destruct i; [lia|]. left. reflexivity. }
    pose proof (try_prefixes_level np (ev_nested_prefixes env) pre names (length names) Hag) as H.
    unfold level_of, crosses. rewrite app_length.
    destruct (try_prefixes (ev_nested_prefixes env) pre names (length names)) as [c|].
    - destruct H as (i & Hi & Hc & Hl & Hm). exists i. split; [exact Hi|]. split; [exact Hc|]. split; [exact Hl|].
      split; [|exact Hm].
      unfold level_of. rewrite app_length, Hl, app_length, firstn_length_le by lia. apply Nat.ltb_lt. lia.
    - split; [exact H|]. unfold level_of. rewrite app_length, H. apply Nat.ltb_ge.
      apply (level_of_shorter np pre).
  Qed.

  Lemma okc_ext cx cx' t : x_prefix cx' = x_prefix cx -> okc cx t -> okc cx' t.
  Proof. unfold okc. intros ->. auto. Qed.

  Lemma okc_child0 cx t c : okc cx t -> is_field t = false -> In c (children t) -> okc cx c.
  Proof.
    intros H Hf Hin. apply (okc_ext (propagate_name t cx) cx c); [symmetry; apply prefix_propagate|].
    apply okc_child; assumption.
  Qed.

  Lemma NFn_single c cx its : NFn c cx its -> exists e, its = [e] /\ NFn c cx [e].
  Proof. intros (e & -> & H). exists e. split; [reflexivity|]. exists e. split; [reflexivity|exact H]. Qed.

  Lemma lv_prefix_of cx : exists r, field_prefix cx = lv cx ++ r.
  Proof. apply level_of_prefix. Qed.

  Ltac ops_visit Hv Hw its :=
    match type of Hv with
    | context [walk ?f (Some ?p) ?cx ?l] =>
        destruct (walk f (Some p) cx l) as [its|] eqn:Hw; [|simpl in Hv; discriminate Hv]
    end.

  Ltac child_visit Hv Hw its :=
    match type of Hv with
    | context [visit ?c ?e ?t None ?cx] =>
        destruct (visit c e t None cx) as [its|] eqn:Hw;
        [rewrite app_nil_r in Hv|simpl in Hv; discriminate Hv]
    end.

  Lemma visit_sem_n : forall t, SVn t.
  Proof.
    intros t. induction t as [t IH] using item_children_ind. intros Hs.
    assert (HS : Forall SVHn (children t)).
    { pose proof (supported_children t Hs) as H1.
      rewrite Forall_forall in *. intros c Hc. split; [apply IH; exact Hc|apply H1; exact Hc]. }
    clear IH.
    (* operands walked by the element's own _binary_operation *)
    assert (Hflat : forall cx, okc cx t -> nested_plain cfg np ef (field_prefix cx) t = true ->
                    forall items, conj_like cfg t || disj_like cfg t = true ->
                      walk (visit cfg env) (Some (cls_of t)) cx (children t) = ROk items -> FLn t cx items).
    { intros cx Hok Hb items Hlike Hw.
      assert (Hnf : is_field t = false) by (destruct t; try reflexivity; discriminate Hlike).
      assert (HG : Forall (fun c => okc cx c /\ nested_plain cfg np ef (field_prefix cx) c = true) (children t)).
      { pose proof (nested_plain_children _ _ _ _ _ Hb) as H2.
        replace (child_pre (field_prefix cx) t) with (field_prefix cx) in H2 by (destruct t; try reflexivity; discriminate Hnf).
        rewrite Forall_forall in *. intros c Hc. split; [exact (okc_child0 cx t c Hok Hnf Hc)|apply H2; exact Hc]. }
      assert (Hcl : forall c, In c (children t) -> cls_eqb (cls_of c) (cls_of t) = true ->
                              conj_like cfg c || disj_like cfg c = true).
      { intros c _ He. destruct (same_class_like cfg t c He) as [-> ->]. exact Hlike. }
      destruct (walk_ops_n _ _ _ _ HS HG Hcl Hw) as [parts [-> HF]].
      destruct (parts_good_n _ _ _ _ HF) as (Hg & Hne & Hi).
      split; [exact Hg|]. split.
      { apply Hne. destruct t as [| | | | | | |k m ops|[] m a| |]; try discriminate Hlike; try discriminate.
        apply supported_op_length in Hs. destruct ops; [simpl in Hs; lia|discriminate]. }
      split; [exact Hi|].
      intros F d HF'. split; intros Hl.
      - rewrite (parts_conj_n _ _ _ _ F d HF' HF).
        + destruct t as [| | | | | | |[] m ops|[] m a| |]; try discriminate Hl; unfold Dn; simpl;
            try reflexivity.
          * simpl in Hl. destruct (c_default_operator cfg); try discriminate Hl; reflexivity.
          * apply andb_true_r.
        + intros c _ He. destruct (same_class_like cfg t c He) as [-> _]. exact Hl.
      - rewrite (parts_disj_n _ _ _ _ F d HF' HF).
        + destruct t as [| | | | | | |[] m ops|[] m a| |]; try discriminate Hl; unfold Dn; simpl;
            try reflexivity.
          simpl in Hl. destruct (c_default_operator cfg); try discriminate Hl; reflexivity.
        + intros c _ He. destruct (same_class_like cfg t c He) as [_ ->]. exact Hl. }
    intros cx Hok Hb. split; [|apply Hflat; assumption].
    (* the operands under the operation's child context *)
    assert (Hflat' : forall items, conj_like cfg t || disj_like cfg t = true ->
              walk (visit cfg env) (Some (cls_of t)) (propagate_name t cx) (children t) = ROk items ->
              FLn t (propagate_name t cx) items).
    { apply Hflat; [exact (okc_ext _ _ _ (prefix_propagate t cx) Hok)|rewrite field_prefix_propagate; exact Hb]. }
    pose proof (nested_plain_children _ _ _ _ _ Hb) as HGc.
    intros items Hv. unfold env in Hv. rewrite visit_unfold in Hv. unfold visit_via in Hv. rewrite bhandler_cls in Hv.
    fold env in Hv.
    destruct t as [[]| |[]| | | | |[]|[]|[]|]; try discriminate Hs; simpl children in *.
    - (* Word *)
      simpl in Hv. inversion Hv; subst items. eexists. split; [reflexivity|].
      split; [simpl; unfold good_leaf; simpl;
              destruct (ctx_is_analyzed cfg cx); [destruct (c_match_word_as_phrase cfg)|]; reflexivity|].
      split; [reflexivity|]. split; [reflexivity|]. split; [intros q []|].
      intros ms F HF _ d. unfold Dn. simpl den_at.
      eapply leaf_case_n; [exact Hok|reflexivity|reflexivity| |exact HF]. repeat split.
    - (* Phrase *)
      simpl in Hv.
      destruct (ctx_is_analyzed cfg cx) eqn:Ha; inversion Hv; subst items;
        (eexists; split; [reflexivity|]; split; [reflexivity|]; split; [reflexivity|];
         split; [reflexivity|]; split; [intros q []|]; intros ms F HF _ d; unfold Dn; simpl den_at;
         eapply leaf_case_n; [exact Hok|reflexivity|
                              simpl; change (ctx_is_analyzed cfg (noname cx)) with (ctx_is_analyzed cfg cx);
                              rewrite Ha; reflexivity| |exact HF]; repeat split).
    - (* SearchField *)
      simpl in Hv.
      set (cctx := propagate_name (SearchField m fname t) _) in Hv.
      child_visit Hv Hw its. inversion HS as [|? ? (HSc & Hsc) _]; subst.
      simpl in Hb. apply andb_prop in Hb as [Hfn Hbc].
      set (pre := field_prefix cx) in *. set (names := split_on c_dot fname) in *.
      assert (Hfp : field_prefix cctx = pre ++ names).
      { unfold cctx. rewrite field_prefix_propagate. reflexivity. }
      assert (Hnm : names <> []) by apply split_on_nonempty.
      assert (Hnd : forallb nodot (pre ++ names) = true).
      { rewrite forallb_app. unfold pre. rewrite (okc_nodot cx _ Hok). apply split_on_nodot. }
      assert (Hokc : okc cctx t).
      { unfold okc, cctx. rewrite prefix_propagate. simpl. split; [|exact Hnd].
        intros E. apply app_eq_nil in E as [_ E]. exact (Hnm E). }
      rewrite <- Hfp in Hbc.
      destruct (proj1 (HSc Hsc cctx Hokc Hbc) _ Hw) as (e & -> & Hg & Hne & Hk & Hi & Hev).
      simpl in Hv.
      assert (Hnn : noname cctx = mkECtx (Some (pre ++ names))
                      (Some (negb (mem_str (dotted (pre ++ names)) (c_not_analyzed cfg)))) None).
      { unfold cctx. rewrite noname_propagate. reflexivity. }
      assert (Hlc : lv cctx = level_of np (pre ++ names)) by (unfold lv; rewrite Hfp; reflexivity).
      assert (Hdeep : forall q, In q (exposed e) -> deeper pre q).
      { intros q Hq. destruct (Hi q Hq) as (comps & Hc1 & Hc2 & Hc3). rewrite Hfp in *.
        exists (names ++ comps). rewrite app_assoc. split; [|split; assumption].
        intros E. apply app_eq_nil in E as [E _]. exact (Hnm E). }
      pose proof (field_level cx fname Hfn) as Hlvl. cbv zeta in Hlvl. fold pre names in Hlvl.
      destruct (split_nested env fname cx) as [c|] eqn:Hsn.
      + (* a nested boundary is crossed *)
        destruct Hlvl as (i & Hi1 & Hc & Hl & Hcr & Hmem).
        assert (Hfi : firstn i names <> []) by (apply firstn_nonempty; [lia|exact Hnm]).
        assert (Hndi : forallb nodot (pre ++ firstn i names) = true).
        { rewrite forallb_app in *. apply andb_prop in Hnd as [Hn1 Hn2]. rewrite Hn1. apply forallb_firstn. exact Hn2. }
        assert (Hsplit : split_on c_dot c = lv cctx).
        { rewrite Hc, Hlc, Hl. apply split_dotted; [|exact Hndi].
          intros E. apply app_eq_nil in E as [_ E]. exact (Hfi E). }
        assert (Hpl : is_prefix (lv cx) (lv cctx) = true).
        { destruct (lv_prefix_of cx) as [r Hr]. fold pre in Hr. rewrite Hlc, Hl, Hr, <- app_assoc. apply is_prefix_app. }
        assert (Hkind : item_kind_n cfg np pre (SearchField m fname t) = IOther).
        { simpl. fold pre names. rewrite Hcr. reflexivity. }
        assert (Hreach : forall ms : list lmod, ms = [] \/ reaches np pre (SearchField m fname t) = true -> ms = []).
        { intros ms [H|H]; [exact H|]. simpl in H. fold pre names in H. rewrite Hcr in H. discriminate H. }
        assert (Hsem : forall o, eeval cfg np e (lv cctx) o = Dn t cctx [] o).
        { intros o. pose proof (Hev [] (fun l => l) fsim_id_id (or_introl eq_refl) o) as H.
          unfold EVn, evn in H. rewrite on_leaf_id in H. exact H. }
        destruct (is_enested e) eqn:Hen.
        * (* no need to nest a nested *)
          inversion Hv; subst items. destruct e as [|q nm it|]; try discriminate Hen.
          exists (ENested q nm it). split; [reflexivity|]. split; [exact Hg|]. split; [reflexivity|].
          split; [symmetry; exact Hkind|]. split; [exact Hdeep|].
          intros ms F _ Hr d. rewrite (Hreach ms Hr). unfold EVn, evn. simpl on_leaf.
          rewrite (Dn_field m fname t cx cctx [] d Hnn).
          rewrite (existsb_ext_all _ _ _ (fun o => eq_sym (Hsem o))).
          destruct (Hi q (or_introl eq_refl)) as (comps & Hc1 & Hc2 & Hc3). rewrite Hfp in *.
          assert (Hq : split_on c_dot q = (pre ++ names) ++ comps).
          { rewrite Hc3. apply split_dotted; [|exact Hc2].
            intros E. apply app_eq_nil in E as [_ E]. exact (Hc1 E). }
          simpl eeval. rewrite Hq.
          rewrite (objects_at_compose np (lv cx) (lv cctx) ((pre ++ names) ++ comps) d Hpl).
          { rewrite existsb_flat_map. reflexivity. }
          rewrite Hlc, Hl. rewrite <- (firstn_skipn i names) at 2.
          rewrite (app_assoc pre), <- (app_assoc (pre ++ firstn i names)). apply is_prefix_app.
        * (* the nested clause *)
          inversion Hv; subst items. unfold mk_nested.
          rewrite exclude_nested_id.
          2:{ intros q Hq. destruct (Hi q Hq) as (comps & Hc1 & Hc2 & Hc3). rewrite Hfp in *. rewrite Hc3, Hc.
              rewrite <- (firstn_skipn i names) at 1.
              rewrite (app_assoc pre), <- (app_assoc (pre ++ firstn i names)).
              apply dotted_app_neq.
              - intros E. apply app_eq_nil in E as [_ E]. exact (Hfi E).
              - intros E. apply app_eq_nil in E as [_ E]. exact (Hc1 E). }
          eexists. split; [reflexivity|]. split; [exact Hg|]. split; [reflexivity|].
          split; [symmetry; exact Hkind|]. split.
          { intros q [<-|[]]. exists (firstn i names). split; [exact Hfi|]. split; [exact Hndi|exact Hc]. }
          intros ms F _ Hr d. rewrite (Hreach ms Hr). unfold EVn, evn. simpl on_leaf.
          rewrite (Dn_field m fname t cx cctx [] d Hnn).
          rewrite (existsb_ext_all _ _ _ (fun o => eq_sym (Hsem o))).
          simpl eeval. rewrite Hsplit. reflexivity.
      + (* no nested boundary between the two prefixes *)
        destruct Hlvl as [Hl Hcr]. inversion Hv; subst items.
        assert (Hlv : lv cctx = lv cx) by (rewrite Hlc; exact Hl).
        exists e. split; [reflexivity|]. split; [exact Hg|]. split; [exact Hne|].
        split; [rewrite Hk, Hfp; simpl; fold pre names; rewrite Hcr; reflexivity|]. split; [exact Hdeep|].
        intros ms F HF Hr d.
        assert (Hr' : ms = [] \/ reaches np (field_prefix cctx) t = true).
        { destruct Hr as [Hr|Hr]; [left; exact Hr|right]. simpl in Hr. fold pre names in Hr.
          rewrite Hcr in Hr. rewrite Hfp. exact Hr. }
        rewrite (Dn_field m fname t cx cctx ms d Hnn), Hlv, objects_at_self. simpl. rewrite orb_false_r.
        rewrite <- (Hev ms F HF Hr' d). unfold EVn, evn. rewrite Hlv. reflexivity.
    - (* Group *)
      simpl in Hv. child_visit Hv Hw its. inversion Hv; subst items.
      inversion HS as [|? ? (HSc & Hsc) _]; subst. inversion HGc as [|? ? Hbc _]; subst.
      simpl child_pre in Hbc. rewrite <- (field_prefix_propagate (Grp KGroup m t) cx) in Hbc.
      pose proof (okc_child cx (Grp KGroup m t) t Hok eq_refl (or_introl eq_refl)) as Hokc.
      destruct (NFn_single _ _ _ (proj1 (HSc Hsc _ Hokc Hbc) _ Hw)) as (e & -> & Hnf).
      rewrite <- (on_leaf_id e).
      apply (transparent_case_n (Grp KGroup m t) t cx _ (fun l => l) [] e Hnf);
        [apply field_prefix_propagate|reflexivity|auto| | |].
      + intros ms F HF. rewrite app_nil_r. exact HF.
      + intros ms Hr. rewrite app_nil_r. exact Hr.
      + intros ms d. rewrite app_nil_r, Dn_propagate. reflexivity.
    - (* FieldGroup *)
      simpl in Hv. child_visit Hv Hw its. inversion Hv; subst items.
      inversion HS as [|? ? (HSc & Hsc) _]; subst. inversion HGc as [|? ? Hbc _]; subst.
      simpl child_pre in Hbc. rewrite <- (field_prefix_propagate (Grp KFieldGroup m t) cx) in Hbc.
      pose proof (okc_child cx (Grp KFieldGroup m t) t Hok eq_refl (or_introl eq_refl)) as Hokc.
      destruct (NFn_single _ _ _ (proj1 (HSc Hsc _ Hokc Hbc) _ Hw)) as (e & -> & Hnf).
      rewrite <- (on_leaf_id e).
      apply (transparent_case_n (Grp KFieldGroup m t) t cx _ (fun l => l) [] e Hnf);
        [apply field_prefix_propagate|reflexivity|auto| | |].
      + intros ms F HF. rewrite app_nil_r. exact HF.
      + intros ms Hr. rewrite app_nil_r. exact Hr.
      + intros ms d. rewrite app_nil_r, Dn_propagate. reflexivity.
    - (* Range *)
      simpl in Hs. apply andb_prop in Hs as [Hlo Hhi].
      destruct (range_bound_has_value _ Hlo) as [vlo Hvlo].
      destruct (range_bound_has_value _ Hhi) as [vhi Hvhi]. simpl in Hv. rewrite Hvlo, Hvhi in Hv.
      inversion Hv; subst items. eexists. split; [reflexivity|]. split; [reflexivity|].
      split; [reflexivity|]. split; [reflexivity|]. split; [intros q []|].
      intros ms F HF _ d. unfold Dn. simpl den_at.
      eapply leaf_case_n; [exact Hok|reflexivity|simpl; rewrite Hvlo, Hvhi; reflexivity| |exact HF]. repeat split.
    - (* Fuzzy *)
      simpl in Hv. child_visit Hv Hw its.
      inversion HS as [|? ? (HSc & Hsc) _]; subst. inversion HGc as [|? ? Hbc _]; subst.
      simpl child_pre in Hbc. rewrite <- (field_prefix_propagate (Fuzzy m t deg impl) cx) in Hbc.
      pose proof (okc_child cx (Fuzzy m t deg impl) t Hok eq_refl (or_introl eq_refl)) as Hokc.
      destruct (NFn_single _ _ _ (proj1 (HSc Hsc _ Hokc Hbc) _ Hw)) as (e & -> & Hnf).
      simpl in Hv. inversion Hv; subst items.
      simpl in Hb. apply andb_prop in Hb as [Hre _].
      apply (transparent_case_n (Fuzzy m t deg impl) t cx _ (leaf_set_fuzziness deg) [MFuzzy deg] e Hnf);
        [apply field_prefix_propagate|reflexivity| | | |].
      + intros l _. apply good_fuzz.
      + intros ms F HF l l' Hl. rewrite apply_mods_snoc. apply HF. apply sim_fuzz. exact Hl.
      + intros ms _. right. exact Hre.
      + intros ms d. rewrite Dn_propagate. reflexivity.
    - (* Proximity *)
      simpl in Hv. child_visit Hv Hw its.
      inversion HS as [|? ? (HSc & Hsc) _]; subst. inversion HGc as [|? ? Hbc _]; subst.
      simpl child_pre in Hbc. rewrite <- (field_prefix_propagate (Proximity m t deg impl) cx) in Hbc.
      pose proof (okc_child cx (Proximity m t deg impl) t Hok eq_refl (or_introl eq_refl)) as Hokc.
      destruct (NFn_single _ _ _ (proj1 (HSc Hsc _ Hokc Hbc) _ Hw)) as (e & -> & Hnf).
      simpl in Hb. apply andb_prop in Hb as [Hre _].
      destruct (ctx_is_analyzed cfg cx) eqn:Ha; simpl in Hv; inversion Hv; subst items.
      + apply (transparent_case_n (Proximity m t deg impl) t cx _ (leaf_set_slop (dec_of_Z deg))
                 [MSlop (dec_of_Z deg)] e Hnf); [apply field_prefix_propagate|reflexivity| | | |].
        * intros l Hl. rewrite good_slop. exact Hl.
        * intros ms F HF l l' Hl. rewrite apply_mods_snoc. apply HF. apply sim_slop. exact Hl.
        * intros ms _. right. exact Hre.
        * intros ms d. rewrite Dn_propagate. unfold Dn. simpl den_at.
          change (ctx_is_analyzed cfg (noname cx)) with (ctx_is_analyzed cfg cx). rewrite Ha. reflexivity.
      + apply (transparent_case_n (Proximity m t deg impl) t cx _ (leaf_set_fuzziness (dec_of_Z deg))
                 [MFuzzy (dec_of_Z deg)] e Hnf); [apply field_prefix_propagate|reflexivity| | | |].
        * intros l _. apply good_fuzz.
        * intros ms F HF l l' Hl. rewrite apply_mods_snoc. apply HF. apply sim_fuzz. exact Hl.
        * intros ms _. right. exact Hre.
        * intros ms d. rewrite Dn_propagate. unfold Dn. simpl den_at.
          change (ctx_is_analyzed cfg (noname cx)) with (ctx_is_analyzed cfg cx). rewrite Ha. reflexivity.
    - (* Boost *)
      simpl in Hv. child_visit Hv Hw its.
      inversion HS as [|? ? (HSc & Hsc) _]; subst. inversion HGc as [|? ? Hbc _]; subst.
      simpl child_pre in Hbc. rewrite <- (field_prefix_propagate (Boost m t force impl) cx) in Hbc.
      pose proof (okc_child cx (Boost m t force impl) t Hok eq_refl (or_introl eq_refl)) as Hokc.
      destruct (NFn_single _ _ _ (proj1 (HSc Hsc _ Hokc Hbc) _ Hw)) as (e & -> & Hnf).
      simpl in Hv. inversion Hv; subst items.
      apply (transparent_case_n (Boost m t force impl) t cx _ (leaf_set_boost force) [] e Hnf);
        [apply field_prefix_propagate|reflexivity| | | |].
      + intros l Hl. rewrite good_boost. exact Hl.
      + intros ms F HF l l' Hl. rewrite app_nil_r. apply HF.
        eapply leaf_sim_trans; [apply sim_boost|exact Hl].
      + intros ms Hr. rewrite app_nil_r. exact Hr.
      + intros ms d. rewrite app_nil_r, Dn_propagate. reflexivity.
    - (* And *)
      ops_visit Hv Hw its. simpl in Hv. inversion Hv; subst items.
      apply (conj_item_n (Op KAnd m ops) cx its); try reflexivity. apply Hflat'; [reflexivity|first [exact Hw|reflexivity]].
    - (* Or *)
      ops_visit Hv Hw its. simpl in Hv. inversion Hv; subst items.
      apply (disj_item_n (Op KOr m ops) cx its); try reflexivity. apply Hflat'; [reflexivity|first [exact Hw|reflexivity]].
    - (* Unknown *)
      ops_visit Hv Hw its. destruct (c_default_operator cfg) eqn:Hop; simpl in Hv; inversion Hv; subst items.
      + apply (disj_item_n (Op KUnknown m ops) cx its); try (simpl; rewrite Hop; reflexivity);
          try (intros ms d; unfold Dn; simpl; rewrite Hop; reflexivity).
        apply Hflat'; [simpl; rewrite Hop; reflexivity|first [exact Hw|reflexivity]].
      + apply (conj_item_n (Op KUnknown m ops) cx its); try (simpl; rewrite Hop; reflexivity);
          try (intros ms d; unfold Dn; simpl; rewrite Hop; reflexivity).
        apply Hflat'; [simpl; rewrite Hop; reflexivity|first [exact Hw|reflexivity]].
      + apply (conj_item_n (Op KUnknown m ops) cx its); try (simpl; rewrite Hop; reflexivity);
          try (intros ms d; unfold Dn; simpl; rewrite Hop; reflexivity).
        apply Hflat'; [simpl; rewrite Hop; reflexivity|first [exact Hw|reflexivity]].
    - (* Bool *)
      ops_visit Hv Hw its. simpl in Hv. inversion Hv; subst items.
      simpl in Hb. apply andb_prop in Hb as [Hbo Hok'].
      assert (Hnb : forall c, In c ops -> cls_eqb (cls_of c) CBoolOperation = false).
      { intros c Hin. rewrite forallb_forall in Hok'. specialize (Hok' c Hin).
        destruct c as [[]| |[]| | | | |[]|[]|[]|]; try reflexivity. discriminate Hok'. }
      set (cx' := propagate_name (Op KBool m ops) cx) in *.
      assert (HG : Forall (fun c => okc cx' c /\ nested_plain cfg np ef (field_prefix cx') c = true) ops).
      { rewrite Forall_forall in *. intros c Hc. split.
        - exact (okc_child cx (Op KBool m ops) c Hok eq_refl Hc).
        - unfold cx'. rewrite field_prefix_propagate. apply HGc. exact Hc. }
      destruct (walk_ops_n _ _ _ _ HS HG (fun c Hin He => ltac:(rewrite (Hnb c Hin) in He; discriminate He)) Hw)
        as [parts [-> HF]].
      pose proof (forall2_nf_n _ _ _ _ (fun c Hin => not_cls_not_flattened c _ (Hnb c Hin)) HF) as HF'.
      destruct (parts_good_n _ _ _ _ HF) as (Hg & Hne & Hi).
      exists (EOp EKBool (concat parts)). split; [reflexivity|]. split; [exact Hg|].
      split; [apply supported_op_length in Hs; destruct (concat parts);
              [exfalso; apply Hne; [destruct ops; [simpl in Hs; lia|discriminate]|reflexivity]|reflexivity]|].
      split; [reflexivity|]. split.
      { intros q Hq. simpl in Hq. apply in_flat_map in Hq as [x [Hx Hq]].
        rewrite Forall_forall in Hi. apply (einv_propagate (Op KBool m ops) cx x (Hi x Hx) q Hq). }
      intros ms F _ _ d. unfold EVn. simpl on_leaf. unfold evn. simpl eeval.
      rewrite <- (lv_propagate (Op KBool m ops) cx). fold cx'. fold (evn cx' d).
      assert (Hok2 : forallb (bool_operand_ok_n cfg np (field_prefix cx')) ops = true).
      { unfold cx'. rewrite field_prefix_propagate. exact Hok'. }
      pose proof (bool_sem_n cx' d _ _ HF' Hok2) as Hbs. cbv zeta in Hbs.
      destruct (eparts (evn cx' d) (concat parts)) as [[mm ss] nn]. destruct Hbs as (J1 & J2 & J3 & J4).
      assert (HD : forall c, Dn c cx' [] d = Dn c cx [] d) by (intros c; apply Dn_propagate).
      unfold Dn at 1. simpl den_at. fold (lv cx).
      rewrite (forallb_ext_all _ (fun c => negb (is_unary c) || Dn c cx' [] d)) by (intros c; rewrite HD; reflexivity).
      rewrite (existsb_ext_all (fun c => negb (is_unary c) && _) (fun c => opt c && Dn c cx' [] d))
        by (intros c; rewrite HD; reflexivity).
      unfold opt in *. rewrite <- J1, <- J2, <- J3, <- J4. unfold bool_matches.
      destruct mm, ss; simpl; rewrite ?andb_true_r, ?orb_true_r; reflexivity.
    - (* Plus *)
      ops_visit Hv Hw its. simpl in Hv. inversion Hv; subst items.
      apply (conj_item_n (Unary KPlus m t) cx its); try reflexivity.
      apply Hflat'; [reflexivity|first [exact Hw|reflexivity]].
    - (* Not *)
      simpl in Hv. child_visit Hv Hw its.
      inversion HS as [|? ? (HSc & Hsc) _]; subst. inversion HGc as [|? ? Hbc _]; subst.
      simpl child_pre in Hbc. rewrite <- (field_prefix_propagate (Unary KNot m t) cx) in Hbc.
      pose proof (okc_child cx (Unary KNot m t) t Hok eq_refl (or_introl eq_refl)) as Hokc.
      destruct (proj1 (HSc Hsc _ Hokc Hbc) _ Hw) as (e & -> & Hg & Hne & Hk & Hi & Hev).
      simpl in Hv. inversion Hv; subst items. apply (neg_item_n (Unary KNot m t) t cx e); auto;
        intros F d HF; apply (Hev [] F HF (or_introl eq_refl) d).
    - (* Prohibit *)
      simpl in Hv. child_visit Hv Hw its.
      inversion HS as [|? ? (HSc & Hsc) _]; subst. inversion HGc as [|? ? Hbc _]; subst.
      simpl child_pre in Hbc. rewrite <- (field_prefix_propagate (Unary KProhibit m t) cx) in Hbc.
      pose proof (okc_child cx (Unary KProhibit m t) t Hok eq_refl (or_introl eq_refl)) as Hokc.
      destruct (proj1 (HSc Hsc _ Hokc Hbc) _ Hw) as (e & -> & Hg & Hne & Hk & Hi & Hev).
      simpl in Hv. inversion Hv; subst items. apply (neg_item_n (Unary KProhibit m t) t cx e); auto;
        intros F d HF; apply (Hev [] F HF (or_introl eq_refl) d).
  Qed.
End NestedMain.

(* ================================================================ H. the guards on the configuration *)
Lemma mem_filter_nonempty l : mem_str [] (filter nonempty_path l) = false.
Proof.
  induction l as [|x l IH]; [reflexivity|]. simpl. destruct x as [|c x]; simpl; [exact IH|exact IH].
Qed.

Lemma nested_paths_no_empty cfg : mem_str [] (nested_paths cfg) = false.
Proof. apply mem_filter_nonempty. Qed.

Lemma code_prefixes_mem cfg s :
  mem_str s (ev_nested_prefixes (mk_env cfg)) = mem_str s (map parent_path (declared_nested cfg)).
Proof. simpl. unfold prefixes_of. rewrite mem_dedup. reflexivity. Qed.

Lemma mem_filter_nonempty_iff s l : s <> [] -> mem_str s (filter nonempty_path l) = mem_str s l.
Proof.
  intros Hs. induction l as [|x l IH]; [reflexivity|]. simpl. destruct x as [|c x]; simpl.
  - destruct s; [congruence|]. simpl. exact IH.
  - rewrite IH. reflexivity.
Qed.

(* not F8: the nested prefixes the code knows are the declared nested paths *)
Lemma nested_agree cfg :
  nested_have_leaf cfg = true ->
  forall s, s <> [] -> mem_str s (ev_nested_prefixes (mk_env cfg)) = mem_str s (nested_paths cfg).
Proof.
  intros H8 s Hs. rewrite code_prefixes_mem.
  destruct (mem_str s (nested_paths cfg)) eqn:Hn.
  - unfold nested_have_leaf in H8. rewrite forallb_forall in H8.
    apply mem_str_In in Hn. specialize (H8 s Hn). unfold nested_paths_code in H8.
    rewrite mem_filter_nonempty_iff in H8 by exact Hs. exact H8.
  - destruct (mem_str s (map parent_path (declared_nested cfg))) eqn:Hc; [|reflexivity].
    apply mem_str_In in Hc. apply in_map_iff in Hc as [q [Hq Hin]].
    assert (Hf : mem_str s (nested_paths cfg) = true).
    { unfold nested_paths. rewrite mem_filter_nonempty_iff by exact Hs. apply mem_str_In.
      apply in_flat_map. exists q. split; [exact Hin|]. rewrite <- Hq. apply parent_in_ancestors. }
    congruence.
Qed.

Lemma empty_free cfg :
  empty_prefix_free cfg = true -> mem_str [] (ev_nested_prefixes (mk_env cfg)) = false.
Proof. unfold empty_prefix_free. rewrite code_prefixes_mem. intros H. apply negb_true_iff in H. exact H. Qed.

Lemma level_eqb_nil l : level_eqb l [] = true -> l = [].
Proof. destruct l; [reflexivity|discriminate]. Qed.

(* with nested fields: without F6 / F8 / F17 / F18 / F19 the query the builder returns matches exactly the
   documents the tree denotes *)
Lemma build_sem_n cfg t j :
  supported t = true -> sem_config cfg = true ->
  nested_have_leaf cfg = true -> default_ok cfg t = true -> nested_ok cfg t = true ->
  build cfg t = ROk j -> forall d, es_matches cfg j d = den cfg t d.
Proof.
  intros Hs Hsem H8 H17 Hok Hbuild d.
  unfold build, build_etree, build_etree_env in Hbuild.
  destruct (check_nested (ev_chk (mk_env cfg)) t); [discriminate Hbuild|].
  destruct (visit cfg (mk_env cfg) t None ctx0) as [items|] eqn:Hv; [|discriminate Hbuild].
  assert (Hokc : okc cfg (nested_paths cfg) ctx0 t).
  { unfold okc. simpl. intros Hb. unfold default_ok in H17. rewrite Hb in H17. simpl in H17.
    apply level_eqb_nil. exact H17. }
  destruct (proj1 (visit_sem_n cfg (nested_paths cfg) (empty_prefix_free cfg) (nested_agree cfg H8)
                     (empty_free cfg) (nested_paths_no_empty cfg) t Hs ctx0 Hokc Hok) items Hv)
    as (e & -> & Hg & _ & _ & _ & Hev).
  unfold es_matches, den.
  rewrite (es_eval_ejson cfg (nested_paths cfg) Hsem e j [] d Hg Hbuild).
  specialize (Hev [] (fun l => l) fsim_id_id (or_introl eq_refl) d).
  unfold EVn, evn in Hev. rewrite on_leaf_id in Hev. exact Hev.
Qed.

(* ================================================================ I. without nested fields: the guards of C05_boolean_partial *)
Lemma crosses_nil pre names : crosses [] pre names = false.
Proof. unfold crosses. rewrite level_of_nil. apply Nat.ltb_ge. simpl. lia. Qed.

Lemma item_kind_n_nil cfg : forall t pre, item_kind_n cfg [] pre t = item_kind cfg t.
Proof.
  induction t; intros pre; simpl; auto. rewrite crosses_nil. apply IHt.
Qed.

Lemma reaches_nil : forall t pre, reaches [] pre t = true.
Proof.
  induction t; intros pre; simpl; auto. rewrite crosses_nil. apply IHt.
Qed.

Lemma plain_tree_nested_plain cfg ef : forall t pre,
  plain_tree cfg t = true -> nested_plain cfg [] ef pre t = true.
Proof.
  intros t. induction t as [t IH] using item_children_ind. intros pre H.
  destruct t as [| |gk m e|m lo hi il ih|m x dg im|m x dg im|m e f im|k m ops|uk m a|ok m a inc|]; simpl in *.
  - reflexivity.
  - inversion IH as [|? ? He _]; subst. apply andb_prop in H as [H1 H2]. rewrite H1, orb_true_r. apply He. exact H2.
  - inversion IH as [|? ? He _]; subst. apply He. exact H.
  - inversion IH as [|? ? Hlo IH']; subst. inversion IH' as [|? ? Hhi _]; subst.
    apply andb_prop in H as [H1 H2]. rewrite (Hlo pre H1), (Hhi pre H2). reflexivity.
  - inversion IH as [|? ? He _]; subst. rewrite reaches_nil. apply He. exact H.
  - inversion IH as [|? ? He _]; subst. rewrite reaches_nil. apply He. exact H.
  - inversion IH as [|? ? He _]; subst. apply He. exact H.
  - apply andb_prop in H as [H1 H2]. apply andb_true_intro. split.
    + apply forallb_forall. intros c Hc. rewrite Forall_forall in IH. rewrite forallb_forall in H1.
      apply IH; [exact Hc|apply H1; exact Hc].
    + destruct k; try reflexivity. apply forallb_forall. intros c Hc. rewrite forallb_forall in H2.
      specialize (H2 c Hc). unfold bool_operand_ok_n, bool_operand_ok in *. rewrite item_kind_n_nil. exact H2.
  - inversion IH as [|? ? He _]; subst. apply He. exact H.
  - inversion IH as [|? ? He _]; subst. apply He. exact H.
  - reflexivity.
Qed.

(* ================================================================ J. where the nested clauses sit *)
Lemma proper_prefix_inv a : forall b, proper_prefix a b = true -> exists r, r <> [] /\ b = a ++ r.
Proof.
  induction a as [|x a IH]; intros b H.
  - destruct b as [|y b]; [discriminate H|]. exists (y :: b). split; [discriminate|reflexivity].
  - destruct b as [|y b]; [discriminate H|]. simpl in H. apply andb_prop in H as [H1 H2].
    apply str_eqb_eq in H1. subst y. destruct (IH b H2) as [r [Hr ->]]. exists r. split; [exact Hr|reflexivity].
Qed.

Lemma proper_prefix_app a r : r <> [] -> proper_prefix a (a ++ r) = true.
Proof.
  intros Hr. induction a as [|x a IH]; simpl.
  - destruct r; [congruence|reflexivity].
  - rewrite str_eqb_refl. exact IH.
Qed.

Lemma proper_prefix_irrefl a : proper_prefix a a = false.
Proof. induction a as [|x a IH]; simpl; [reflexivity|]. rewrite str_eqb_refl. exact IH. Qed.

Lemma proper_prefix_trans_l a b c : is_prefix a b = true -> proper_prefix b c = true -> proper_prefix a c = true.
Proof.
  intros H1 H2. destruct (is_prefix_inv _ _ H1) as [r1 ->]. destruct (proper_prefix_inv _ _ H2) as [r2 [Hr ->]].
  rewrite <- app_assoc. apply proper_prefix_app. intros E. apply app_eq_nil in E as [_ E]. exact (Hr E).
Qed.

(* an E-item read at the nested level lvl: leaves address fields of that level; a nested item sits on a
   declared path properly below lvl and its content is read at that path *)
Fixpoint ewf (np : list str) (lvl : level) (e : eitem) : Prop :=
  match e with
  | ELeaf l => good_leaf l = true /\ leaf_lvl_ok l /\ level_of np (split_on c_dot (leaf_field l)) = lvl
  | ENested p _ it =>
      mem_str p np = true /\ proper_prefix lvl (split_on c_dot p) = true /\ ewf np (split_on c_dot p) it
  | EOp _ items => (fix go (l : list eitem) : Prop :=
                      match l with [] => True | x :: l' => ewf np lvl x /\ go l' end) items
  end.

Lemma ewf_op np lvl k items : ewf np lvl (EOp k items) <-> Forall (ewf np lvl) items.
Proof.
  simpl. induction items as [|x items IH]; [split; [constructor|auto]|].
  split.
  - intros [H1 H2]. constructor; [exact H1|apply IH; exact H2].
  - intros H. inversion H; subst. split; [assumption|apply IH; assumption].
Qed.

Lemma ewf_on_leaf np lvl g e :
  (forall l, good_leaf l = true -> good_leaf (g l) = true) ->
  (forall l, leaf_lvl_ok l -> leaf_lvl_ok (g l)) ->
  (forall l, l_fields (g l) = l_fields l) ->
  ewf np lvl e -> ewf np lvl (on_leaf g e).
Proof.
  intros H1 H2 H3. destruct e as [l| |]; simpl; auto. intros (Hg & Hok & Hl).
  split; [auto|]. split; [auto|]. unfold leaf_field in *. rewrite H3. exact Hl.
Qed.

Lemma ewf_ztq np lvl z e : ewf np lvl e -> ewf np lvl (on_leaf (leaf_set_ztq z) e).
Proof. apply ewf_on_leaf; auto. Qed.
Lemma ewf_boost np lvl d e : ewf np lvl e -> ewf np lvl (on_leaf (leaf_set_boost d) e).
Proof. apply ewf_on_leaf; auto. Qed.
Lemma ewf_fuzz np lvl d e : ewf np lvl e -> ewf np lvl (on_leaf (leaf_set_fuzziness d) e).
Proof. apply ewf_on_leaf; auto. intros l. apply (leaf_lvl_ok_mod (MFuzzy d)). Qed.
Lemma ewf_slop np lvl d e : ewf np lvl e -> ewf np lvl (on_leaf (leaf_set_slop d) e).
Proof. apply ewf_on_leaf; auto. intros l. apply (leaf_lvl_ok_mod (MSlop d)). Qed.

Lemma ewf_mk_op np lvl k items : Forall (ewf np lvl) items -> ewf np lvl (mk_op k items).
Proof.
  intros H. unfold mk_op. apply ewf_op. destruct (ztq_of_op k) as [z|]; [|exact H].
  induction H; simpl; constructor; [apply ewf_ztq; assumption|assumption].
Qed.

Lemma ewf_exposed np : forall e lvl q,
  ewf np lvl e -> In q (exposed e) -> proper_prefix lvl (split_on c_dot q) = true.
Proof.
  intros e. induction e as [l|p nm it _|k items IH] using eitem_ind'; intros lvl q Hw Hq.
  - destruct Hq.
  - destruct Hq as [<-|[]]. exact (proj1 (proj2 Hw)).
  - apply ewf_op in Hw. simpl in Hq. apply in_flat_map in Hq as [x [Hx Hq]].
    rewrite Forall_forall in IH, Hw. exact (IH x Hx lvl q (Hw x Hx) Hq).
Qed.

Lemma ewf_exclude np lvl c e : ewf np lvl e -> split_on c_dot c = lvl -> exclude_nested c e = e.
Proof.
  intros Hw Hc. apply exclude_nested_id. intros q Hq E. subst q.
  pose proof (ewf_exposed np e lvl c Hw Hq) as H. rewrite Hc, proper_prefix_irrefl in H. discriminate H.
Qed.

Lemma names_plain_children ef t :
  names_plain ef t = true -> Forall (fun c => names_plain ef c = true) (children t).
Proof.
  destruct t; simpl; intros H; repeat constructor; try exact H;
    try (apply andb_prop in H as [H1 H2]; assumption).
  apply Forall_forall. intros c Hc. rewrite forallb_forall in H. apply H. exact Hc.
Qed.

Lemma nested_plain_names cfg np ef : forall t pre,
  nested_plain cfg np ef pre t = true -> names_plain ef t = true.
Proof.
  intros t. induction t as [t IH] using item_children_ind. intros pre H.
  destruct t as [| |gk m e|m lo hi il ih|m x dg im|m x dg im|m e f im|k m ops|uk m a|ok m a inc|]; simpl in *.
  - reflexivity.
  - inversion IH as [|? ? He _]; subst. apply andb_prop in H as [H1 H2]. rewrite H1. exact (He _ H2).
  - inversion IH as [|? ? He _]; subst. exact (He _ H).
  - inversion IH as [|? ? Hlo IH']; subst. inversion IH' as [|? ? Hhi _]; subst.
    apply andb_prop in H as [H1 H2]. rewrite (Hlo _ H1), (Hhi _ H2). reflexivity.
  - inversion IH as [|? ? He _]; subst. apply andb_prop in H as [_ H]. exact (He _ H).
  - inversion IH as [|? ? He _]; subst. apply andb_prop in H as [_ H]. exact (He _ H).
  - inversion IH as [|? ? He _]; subst. exact (He _ H).
  - apply andb_prop in H as [H1 _]. apply forallb_forall. intros c Hc. rewrite Forall_forall in IH.
    rewrite forallb_forall in H1. exact (IH c Hc pre (H1 c Hc)).
  - inversion IH as [|? ? He _]; subst. exact (He _ H).
  - inversion IH as [|? ? He _]; subst. exact (He _ H).
  - reflexivity.
Qed.

Section NestedStructure.
  Variable cfg : es_config.
  Variable np : list str.
  Variable ef : bool.
  Hypothesis Hagree : forall s, s <> [] -> mem_str s (ev_nested_prefixes (mk_env cfg)) = mem_str s np.
  Hypothesis Hef : ef = true -> mem_str [] (ev_nested_prefixes (mk_env cfg)) = false.
  Hypothesis Hnp0 : mem_str [] np = false.
  Let env := mk_env cfg.

  Definition bpar (par : option cls) : Prop := forall p, par = Some p -> binary_cls cfg p = true.

  Definition WSn (t : item) : Prop :=
    forall par cx items, bpar par -> okc cfg np cx t -> names_plain ef t = true ->
      visit cfg env t par cx = ROk items -> Forall (ewf np (lv np cx)) items.

  Lemma walk_ws par cx l : forall items,
    bpar par -> Forall WSn l -> Forall (fun c => okc cfg np cx c /\ names_plain ef c = true) l ->
    walk (visit cfg env) par cx l = ROk items -> Forall (ewf np (lv np cx)) items.
  Proof.
    induction l as [|c l IH]; intros items Hp HW HG Hw.
    - simpl in Hw. inversion Hw. constructor.
    - rewrite walk_cons in Hw. destruct (visit cfg env c par cx) as [its|] eqn:Hc; [|discriminate].
      destruct (walk (visit cfg env) par cx l) as [its'|] eqn:Hw'; [|discriminate].
      inversion Hw; subst items. inversion HW; subst. inversion HG as [|? ? [Ho Hn] HG']; subst.
      apply Forall_app. split; [eapply H1; eassumption|apply IH; auto].
  Qed.

  (* the leaf item of a term *)
  Lemma ewf_term_leaf t cx l l' :
    okc cfg np cx t -> has_bare_term t = true ->
    term_leaf cfg (noname cx) t = Some l' -> leaf_sim l l' -> ewf np (lv np cx) (ELeaf l).
  Proof.
    intros Hok Hb Ht Hs. destruct (term_leaf_ok cfg _ t l' Ht) as (Hg & Hlo & Hfl).
    destruct (ctx_level cfg np cx t Hok Hb) as [Hl1 _]. simpl.
    split; [rewrite <- (good_leaf_sim _ _ Hs); exact Hg|]. split; [exact (leaf_lvl_ok_sim _ _ Hs Hlo)|].
    unfold leaf_field. destruct Hs as (_ & _ & Hf & _). rewrite Hf, Hfl. exact Hl1.
  Qed.

  Lemma single_inv (r : eres (list eitem)) e : single r = ROk e -> r = ROk [e].
  Proof. destruct r as [[|x [|y l]]|]; simpl; intros H; inversion H; reflexivity. Qed.

  Lemma okc_children cx t :
    okc cfg np cx t -> is_field t = false -> names_plain ef t = true ->
    Forall (fun c => okc cfg np (propagate_name t cx) c /\ names_plain ef c = true) (children t).
  Proof.
    intros Hok Hf Hn. pose proof (names_plain_children ef t Hn) as H. rewrite Forall_forall in *.
    intros c Hc. split; [exact (okc_child cfg np cx t c Hok Hf Hc)|exact (H c Hc)].
  Qed.

  Lemma bpar_none : bpar None.
  Proof. intros p H. discriminate H. Qed.

  Lemma visit_struct : forall t, WSn t.
  Proof.
    intros t. induction t as [t IH] using item_children_ind.
    (* a plain visit *)
    assert (HN : forall cx items, okc cfg np cx t -> names_plain ef t = true ->
                   visit cfg env t None cx = ROk items -> Forall (ewf np (lv np cx)) items).
    { intros cx items Hok Hn Hv.
      assert (Hgen : forall its, is_field t = false ->
                walk (visit cfg env) None (propagate_name t cx) (children t) = ROk its ->
                Forall (ewf np (lv np cx)) its).
      { intros its Hf Hw. rewrite <- (lv_propagate np t cx).
        exact (walk_ws None _ _ its bpar_none IH (okc_children cx t Hok Hf Hn) Hw). }
      assert (Hbin : forall its, is_binary t = true ->
                walk (visit cfg env) (Some (cls_of t)) (propagate_name t cx) (children t) = ROk its ->
                Forall (ewf np (lv np cx)) its).
      { intros its Hb Hw. rewrite <- (lv_propagate np t cx).
        assert (Hf : is_field t = false) by (destruct t; try reflexivity; discriminate Hb).
        refine (walk_ws (Some (cls_of t)) _ _ its _ IH (okc_children cx t Hok Hf Hn) Hw).
        intros p Hp. inversion Hp; subst p. rewrite binary_cls_of. exact Hb. }
      unfold env in Hv. rewrite visit_unfold in Hv. unfold visit_via in Hv. rewrite bhandler_cls in Hv. fold env in Hv.
      destruct t as [[] m v|m fname e|gk m e|m lo hi il ih|m x dg im|m x dg im|m e f im|[] m ops|[] m a|ok m a inc|m];
        simpl children in *; cbv beta iota zeta in Hv.
      - (* Word *)
        simpl in Hv. inversion Hv; subst items. constructor; [|constructor].
        eapply ewf_term_leaf; [exact Hok|reflexivity|reflexivity|]. repeat split.
      - (* Phrase *)
        simpl in Hv. destruct (ctx_is_analyzed cfg cx) eqn:Ha; inversion Hv; subst items;
          (constructor; [|constructor]; eapply ewf_term_leaf;
           [exact Hok|reflexivity|
            simpl; change (ctx_is_analyzed cfg (noname cx)) with (ctx_is_analyzed cfg cx); rewrite Ha; reflexivity|];
           repeat split).
      - (* Regex *) apply Hgen; [reflexivity|exact Hv].
      - (* SearchField *)
        cbn [field_name] in Hv.
        set (cctx := propagate_name (SearchField m fname e) _) in Hv.
        destruct (single (walk (visit cfg env) None cctx [e])) as [e0|] eqn:Hsg; [|discriminate Hv].
        apply single_inv in Hsg.
        simpl in Hn. apply andb_prop in Hn as [Hfn Hne].
        set (pre := field_prefix cx) in *. set (names := split_on c_dot fname) in *.
        assert (Hfp : field_prefix cctx = pre ++ names).
        { unfold cctx. rewrite field_prefix_propagate. reflexivity. }
        assert (Hnm : names <> []) by apply split_on_nonempty.
        assert (Hnd : forallb nodot (pre ++ names) = true).
        { rewrite forallb_app. unfold pre. rewrite (okc_nodot cfg np cx _ Hok). apply split_on_nodot. }
        assert (Hokc : okc cfg np cctx e).
        { unfold okc, cctx. rewrite prefix_propagate. simpl. split; [|exact Hnd].
          intros E. apply app_eq_nil in E as [_ E]. exact (Hnm E). }
        assert (Hw0 : Forall (ewf np (lv np cctx)) [e0]).
        { refine (walk_ws None cctx [e] [e0] bpar_none IH _ Hsg). constructor; [split; assumption|constructor]. }
        inversion Hw0 as [|? ? He0 _]; subst.
        assert (Hlc : lv np cctx = level_of np (pre ++ names)) by (unfold lv; rewrite Hfp; reflexivity).
        pose proof (field_level cfg np ef Hagree Hef Hnp0 cx fname Hfn) as Hlvl. cbv zeta in Hlvl.
        fold pre names env in Hlvl.
        destruct (split_nested env fname cx) as [c|] eqn:Hsn.
        + destruct Hlvl as (i & Hi1 & Hc & Hl & Hcr & Hmem).
          assert (Hfi : firstn i names <> []) by (apply firstn_nonempty; [lia|exact Hnm]).
          assert (Hndi : forallb nodot (pre ++ firstn i names) = true).
          { rewrite forallb_app in *. apply andb_prop in Hnd as [Hn1 Hn2]. rewrite Hn1. apply forallb_firstn. exact Hn2. }
          assert (Hsplit : split_on c_dot c = lv np cctx).
          { rewrite Hc, Hlc, Hl. apply split_dotted; [|exact Hndi].
            intros E. apply app_eq_nil in E as [_ E]. exact (Hfi E). }
          assert (Hpp : proper_prefix (lv np cx) (lv np cctx) = true).
          { destruct (lv_prefix_of np cx) as [r Hr]. fold pre in Hr. rewrite Hlc, Hl, Hr, <- app_assoc.
            apply proper_prefix_app. intros E. apply app_eq_nil in E as [_ E]. exact (Hfi E). }
          assert (Hip : is_prefix (lv np cx) (lv np cctx) = true).
          { destruct (proper_prefix_inv _ _ Hpp) as [r [_ ->]]. apply is_prefix_app. }
          destruct (is_enested e0) eqn:Hen; inversion Hv; subst items; (constructor; [|constructor]).
          * destruct e0 as [|q nm it|]; try discriminate Hen. destruct He0 as (Hq1 & Hq2 & Hq3).
            split; [exact Hq1|]. split; [|exact Hq3]. exact (proper_prefix_trans_l _ _ _ Hip Hq2).
          * unfold mk_nested. rewrite (ewf_exclude np _ c e0 He0 Hsplit). simpl.
            split; [exact Hmem|]. rewrite Hsplit. split; [exact Hpp|exact He0].
        + destruct Hlvl as [Hl _]. inversion Hv; subst items. constructor; [|constructor].
          rewrite <- Hl, <- Hlc. exact He0.
      - (* Group *) apply Hgen; [reflexivity|exact Hv].
      - (* Range *)
        destruct (range_bound_value lo) as [vlo|] eqn:Hlo; [|discriminate Hv].
        destruct (range_bound_value hi) as [vhi|] eqn:Hhi; [|discriminate Hv].
        inversion Hv; subst items. constructor; [|constructor].
        eapply ewf_term_leaf; [exact Hok|reflexivity|simpl; rewrite Hlo, Hhi; reflexivity|]. repeat split.
      - (* Fuzzy *)
        destruct (single _) as [e0|] eqn:Hsg; [|discriminate Hv]. apply single_inv in Hsg.
        pose proof (Hgen _ eq_refl Hsg) as Hw0. inversion Hw0; subst.
        simpl in Hv. inversion Hv; subst items. constructor; [|constructor]. apply ewf_fuzz. assumption.
      - (* Proximity *)
        destruct (single _) as [e0|] eqn:Hsg; [|discriminate Hv]. apply single_inv in Hsg.
        pose proof (Hgen _ eq_refl Hsg) as Hw0. inversion Hw0; subst.
        simpl in Hv. destruct (ctx_is_analyzed cfg cx); inversion Hv; subst items; (constructor; [|constructor]);
          [apply ewf_slop|apply ewf_fuzz]; assumption.
      - (* Boost *)
        destruct (single _) as [e0|] eqn:Hsg; [|discriminate Hv]. apply single_inv in Hsg.
        pose proof (Hgen _ eq_refl Hsg) as Hw0. inversion Hw0; subst.
        simpl in Hv. inversion Hv; subst items. constructor; [|constructor]. apply ewf_boost. assumption.
      - (* And *)
        destruct (walk _ _ _ _) as [its|] eqn:Hw; [|discriminate Hv]. inversion Hv; subst items.
        constructor; [|constructor]. apply ewf_mk_op. first [exact (Hbin _ eq_refl Hw)|exact (Hbin _ eq_refl eq_refl)].
      - (* Or *)
        destruct (walk _ _ _ _) as [its|] eqn:Hw; [|discriminate Hv]. inversion Hv; subst items.
        constructor; [|constructor]. apply ewf_mk_op. first [exact (Hbin _ eq_refl Hw)|exact (Hbin _ eq_refl eq_refl)].
      - (* Unknown *)
        destruct (walk _ _ _ _) as [its|] eqn:Hw; [|discriminate Hv]. inversion Hv; subst items.
        constructor; [|constructor]. apply ewf_mk_op. first [exact (Hbin _ eq_refl Hw)|exact (Hbin _ eq_refl eq_refl)].
      - (* Bool *)
        destruct (walk _ _ _ _) as [its|] eqn:Hw; [|discriminate Hv]. inversion Hv; subst items.
        constructor; [|constructor]. apply ewf_mk_op. first [exact (Hbin _ eq_refl Hw)|exact (Hbin _ eq_refl eq_refl)].
      - (* Plus *)
        destruct (walk _ _ _ _) as [its|] eqn:Hw; [|discriminate Hv]. inversion Hv; subst items.
        constructor; [|constructor]. apply ewf_mk_op. first [exact (Hbin _ eq_refl Hw)|exact (Hbin _ eq_refl eq_refl)].
      - (* Not *)
        destruct (walk _ _ _ _) as [its|] eqn:Hw; [|discriminate Hv]. inversion Hv; subst items.
        constructor; [|constructor]. apply ewf_mk_op. first [exact (Hgen _ eq_refl Hw)|exact (Hgen _ eq_refl eq_refl)].
      - (* Prohibit *)
        destruct (walk _ _ _ _) as [its|] eqn:Hw; [|discriminate Hv]. inversion Hv; subst items.
        constructor; [|constructor]. apply ewf_mk_op. first [exact (Hgen _ eq_refl Hw)|exact (Hgen _ eq_refl eq_refl)].
      - (* From / To *) apply Hgen; [reflexivity|exact Hv].
      - (* NoneItem *) apply Hgen; [reflexivity|exact Hv]. }
    intros par cx items Hp Hok Hn Hv. unfold env in Hv. rewrite visit_par in Hv. fold env in Hv.
    destruct par as [p|]; [|exact (HN cx items Hok Hn Hv)].
    destruct (flattened t p) eqn:Hfl.
    - apply flattened_cls in Hfl as He. apply cls_eqb_eq in He. subst p. pose proof (Hp _ eq_refl) as Hb. rewrite binary_cls_of in Hb.
      assert (Hf : is_field t = false) by (destruct t; try reflexivity; discriminate Hb).
      refine (walk_ws (Some (cls_of t)) cx _ items Hp IH _ Hv).
      pose proof (names_plain_children ef t Hn) as H. rewrite Forall_forall in *.
      intros c Hc. split; [exact (okc_child0 cfg np cx t c Hok Hf Hc)|exact (H c Hc)].
    - destruct (mixes cfg p (cls_of t)); [destruct (Nat.ltb (length (children t)) 2); discriminate Hv|].
      exact (HN cx items Hok Hn Hv).
  Qed.
End NestedStructure.

(* ================================================================ K. the same reading on the generated JSON *)
Lemma nest_wf_leaf np j lvl :
  is_leaf_clause j = true ->
  nest_wf np j lvl = match clause_field j with
                     | Some f => level_eqb (level_of np (split_on c_dot f)) lvl
                     | None => true
                     end.
Proof.
  destruct j as [| | | | |o]; try (intros H; discriminate H).
  destruct o as [|[m v] [|? ?]]; try (intros H; discriminate H);
    destruct v; try (intros H; discriminate H).
  simpl is_leaf_clause. intros H. apply andb_prop in H as [H1 H2].
  apply negb_true_iff in H1. apply negb_true_iff in H2.
  cbn [nest_wf]. rewrite H1, H2. reflexivity.
Qed.

Lemma nest_wf_nested np p jq rest lvl :
  nest_wf np (JObj [(k_nested, JObj ((k_path, JStr p) :: (k_query, jq) :: rest))]) lvl =
  mem_str p np && proper_prefix lvl (split_on c_dot p) && nest_wf np jq (split_on c_dot p).
Proof. reflexivity. Qed.

Definition wf_list (np : list str) (lvl : level) (js : list json) : bool :=
  forallb (fun x => nest_wf np x lvl) js.

Lemma gl_forallb np lvl l :
  (fix gl (l : list json) : bool :=
     match l with [] => true | x :: l' => nest_wf np x lvl && gl l' end) l = wf_list np lvl l.
Proof. induction l as [|x l IH]; simpl; [reflexivity|]. rewrite IH. reflexivity. Qed.

Definition wf_body (np : list str) (lvl : level) :=
  fix go (o : list (str * json)) : bool :=
    match o with
    | [] => true
    | (_, JList l) :: o' =>
        (fix gl (l : list json) : bool :=
           match l with [] => true | x :: l' => nest_wf np x lvl && gl l' end) l && go o'
    | (_, v) :: o' => nest_wf np v lvl && go o'
    end.

Lemma nest_wf_bool np lvl body : nest_wf np (JObj [(k_bool, JObj body)]) lvl = wf_body np lvl body.
Proof. reflexivity. Qed.

Lemma wf_body_cons np lvl key l o :
  wf_body np lvl ((key, JList l) :: o) = wf_list np lvl l && wf_body np lvl o.
Proof. cbn -[nest_wf]. rewrite gl_forallb. reflexivity. Qed.

Lemma nest_wf_bool1 np lvl key js :
  nest_wf np (JObj [(k_bool, JObj [(key, JList js)])]) lvl = wf_list np lvl js.
Proof. rewrite nest_wf_bool, wf_body_cons. apply andb_true_r. Qed.

Lemma nest_wf_bool_parts np lvl m s n :
  nest_wf np (JObj [(k_bool, JObj (opt_entry k_must m ++ opt_entry k_should s ++ opt_entry k_must_not n))]) lvl =
  wf_list np lvl m && wf_list np lvl s && wf_list np lvl n.
Proof.
  rewrite nest_wf_bool.
  destruct m as [|m0 m], s as [|s0 s], n as [|n0 n]; cbn [opt_entry app]; rewrite ?wf_body_cons;
    cbn [wf_body wf_list forallb]; rewrite ?andb_true_r, ?andb_assoc; reflexivity.
Qed.

Section JsonStructure.
  Variable cfg : es_config.
  Variable np : list str.
  Hypothesis Hsem : sem_config cfg = true.

  Definition PW (e : eitem) : Prop :=
    forall j lvl, ewf np lvl e -> ejson cfg e = ROk j -> nest_wf np j lvl = true.
  Definition QW (e : eitem) : Prop :=
    PW e /\ match e with EOp _ sub => Forall PW sub | _ => True end.

  Lemma wf_list_items items : forall js lvl,
    Forall PW items -> Forall (ewf np lvl) items ->
    Forall2 (fun it j => ejson cfg it = ROk j) items js -> wf_list np lvl js = true.
  Proof.
    induction items as [|it items IH]; intros js lvl HP HW H2;
      inversion H2 as [|? j ? js' Hj Hjs]; subst; [reflexivity|].
    inversion HP; subst. inversion HW; subst. simpl. rewrite (H1 _ lvl H4 Hj). apply (IH js' lvl); assumption.
  Qed.

  Lemma epart_items_W lvl items :
    Forall QW items -> Forall (ewf np lvl) items ->
    let '(Mx, Sx, Nx) := epart_items items in
    (Forall PW Mx /\ Forall (ewf np lvl) Mx) /\ (Forall PW Sx /\ Forall (ewf np lvl) Sx) /\
    (Forall PW Nx /\ Forall (ewf np lvl) Nx).
  Proof.
    induction items as [|it items IH]; intros HQ HW.
    - simpl. repeat split; constructor.
    - inversion HQ as [|? ? [HP Hsub] HQ']; subst. inversion HW as [|? ? Hw1 Hw2]; subst.
      specialize (IH HQ' Hw2). simpl epart_items. destruct (epart_items items) as [[Mx Sx] Nx].
      destruct IH as ((M1 & M2) & (S1 & S2) & (N1 & N2)).
      destruct it as [l|p nm it'|k sub].
      + repeat split; auto.
      + repeat split; auto.
      + apply ewf_op in Hw1 as Hws. destruct k; repeat split; auto; apply Forall_app; auto.
  Qed.

  Lemma json_struct : forall e, QW e.
  Proof.
    intros e. induction e as [l|p nm it [IH _]|k items IH] using eitem_ind'.
    - split; [|exact I]. intros j lvl (Hg & Hok & Hl) Hj. simpl in Hj.
      rewrite (nest_wf_leaf np j lvl (leaf_json_clause cfg l j Hsem Hg Hj)).
      destruct (leaf_clause_field cfg l j Hg Hok Hj) as [-> | ->]; [reflexivity|].
      rewrite Hl. apply level_eqb_refl.
    - split; [|exact I]. intros j lvl (H1 & H2 & H3) Hj. simpl in Hj.
      destruct (ejson cfg it) as [j'|] eqn:Hj'; [|discriminate]. inversion Hj; subst j.
      simpl app. rewrite nest_wf_nested, H1, H2. simpl. exact (IH j' _ H3 Hj').
    - assert (HP : Forall PW items).
      { rewrite Forall_forall in *. intros x Hx. exact (proj1 (IH x Hx)). }
      split; [|exact HP].
      intros j lvl Hw Hj. apply ewf_op in Hw.
      destruct k.
      + simpl in Hj. destruct (jmap (ejson cfg) items) as [js|] eqn:Hjs; [|discriminate].
        inversion Hj; subst j. rewrite nest_wf_bool1. exact (wf_list_items items js lvl HP Hw (jmap_inv _ _ _ Hjs)).
      + simpl in Hj. destruct (jmap (ejson cfg) items) as [js|] eqn:Hjs; [|discriminate].
        inversion Hj; subst j. rewrite nest_wf_bool1. exact (wf_list_items items js lvl HP Hw (jmap_inv _ _ _ Hjs)).
      + simpl in Hj. destruct (jmap (ejson cfg) items) as [js|] eqn:Hjs; [|discriminate].
        inversion Hj; subst j. rewrite nest_wf_bool1. exact (wf_list_items items js lvl HP Hw (jmap_inv _ _ _ Hjs)).
      + simpl in Hj. destruct (bool_parts (ejson cfg) items) as [[[m s] n]|] eqn:Hbp; [|discriminate].
        inversion Hj; subst j. rewrite nest_wf_bool_parts.
        pose proof (bool_parts_inv _ _ _ _ _ Hbp) as Hinv.
        pose proof (epart_items_W lvl items IH Hw) as HPs.
        destruct (epart_items items) as [[Mx Sx] Nx].
        destruct Hinv as (I1 & I2 & I3). destruct HPs as ((M1 & M2) & (S1 & S2) & (N1 & N2)).
        rewrite (wf_list_items Mx m lvl M1 M2 I1), (wf_list_items Sx s lvl S1 S2 I2),
                (wf_list_items Nx n lvl N1 N2 I3). reflexivity.
  Qed.
End JsonStructure.

(* each nested clause of the generated query sits on the innermost nested path of the fields it contains *)
Lemma build_nest_wf cfg t j :
  sem_config cfg = true -> nested_have_leaf cfg = true -> default_ok cfg t = true -> names_ok cfg t = true ->
  build cfg t = ROk j -> nest_wf (nested_paths cfg) j [] = true.
Proof.
  intros Hsem H8 H17 Hn Hbuild.
  unfold build, build_etree, build_etree_env in Hbuild.
  destruct (check_nested (ev_chk (mk_env cfg)) t); [discriminate Hbuild|].
  destruct (visit cfg (mk_env cfg) t None ctx0) as [[|e items]|] eqn:Hv; try discriminate Hbuild.
  assert (Hokc : okc cfg (nested_paths cfg) ctx0 t).
  { unfold okc. simpl. intros Hb. unfold default_ok in H17. rewrite Hb in H17. simpl in H17.
    apply level_eqb_nil. exact H17. }
  pose proof (visit_struct cfg (nested_paths cfg) (empty_prefix_free cfg) (nested_agree cfg H8)
                (empty_free cfg) (nested_paths_no_empty cfg) t None ctx0 _ (bpar_none cfg) Hokc Hn Hv) as Hw.
  inversion Hw as [|? ? He _]; subst.
  exact (proj1 (json_struct cfg (nested_paths cfg) Hsem e) j [] He Hbuild).
Qed.
