(* LayoutProofs.v — the parse result, up to layout, depends only on the (type, lexeme) sequence of
   the tokens: a lock-step simulation of two runs of the LR driver, for ANY tables (C03, clause
   "two queries that differ only in the whitespace between tokens give equal trees"). *)
Require Import Base Decimal Tree GenTree GenParser Lexer Print Actions LR Parser Erase TreeInd.
From Coq Require Import Lia.

Lemma erase_set_meta i m : erase (set_meta i m) = erase i.
Proof. destruct i; reflexivity. Qed.
Lemma erase_add_head i s : erase (add_head i s) = erase i.
Proof. apply erase_set_meta. Qed.
Lemma erase_add_tail i s : erase (add_tail_i i s) = erase i.
Proof. apply erase_set_meta. Qed.

Definition sim (v w : symval) : Prop := erase_sv v = erase_sv w.

Definition res_sim (r1 r2 : res (symval * list gev)) : Prop :=
  match r1, r2 with
  | Ok (v, _), Ok (w, _) => sim v w
  | Err (ESyntax _), Err (ESyntax _) => True
  | Err (EIllegal _), Err (EIllegal _) => True
  | Err (EOther n), Err (EOther m) => n = m
  | _, _ => False
  end.

Lemma sim_item i j : sim (VItem i) (VItem j) <-> erase i = erase j.
Proof. unfold sim. simpl. split; intro H; [inversion H; reflexivity|rewrite H; reflexivity]. Qed.

Lemma erase_same_op i j k : erase i = erase j ->
  match i with Op k' _ _ => opk_eqb k k' | _ => false end =
  match j with Op k' _ _ => opk_eqb k k' | _ => false end.
Proof. destruct i, j; simpl; intro H; try discriminate; try reflexivity. inversion H; subst. reflexivity. Qed.

Lemma erase_children i j : erase i = erase j -> map erase (children i) = map erase (children j).
Proof. destruct i, j; simpl; intro H; try discriminate; inversion H; subst; try reflexivity; congruence. Qed.

Lemma binary_sim k a a' o o' b b' :
  erase a = erase a' -> erase b = erase b' ->
  match o, o' with Some v, Some w => sim v w | None, None => True | _, _ => False end ->
  res_sim (binary k a o b) (binary k a' o' b').
Proof.
  intros Ha Hb Ho. unfold binary.
  rewrite <- (erase_same_op a a' k Ha), <- (erase_same_op b b' k Hb).
  pose proof (erase_children _ _ Ha) as Hca. pose proof (erase_children _ _ Hb) as Hcb.
  set (a_same := match a with Op k' _ _ => opk_eqb k k' | _ => false end).
  set (b_same := match b with Op k' _ _ => opk_eqb k k' | _ => false end).
  assert (HB : map erase (if b_same then children b else [b]) = map erase (if b_same then children b' else [b'])).
  { destruct b_same; [exact Hcb|simpl; rewrite Hb; reflexivity]. }
  assert (HA : map erase (if a_same then children a else [a]) = map erase (if a_same then children a' else [a'])).
  { destruct a_same; [exact Hca|simpl; rewrite Ha; reflexivity]. }
  destruct (if b_same then children b else [b]) as [|b0 br];
    destruct (if b_same then children b' else [b']) as [|b0' br']; simpl in HB; try discriminate.
  - simpl. reflexivity.
  - destruct (htm_pos _ false false) as [p1 s1]. destruct (htm_pos _ false false) as [p2 s2].
    simpl. apply sim_item. simpl. f_equal. rewrite !map_app, HA. f_equal. simpl.
    inversion HB as [[H0 Hr]]. rewrite !erase_add_head, H0, Hr. reflexivity.
Qed.

Lemma unary_sim mk mk' o o' x x' p p' :
  (forall m y m' y', erase y = erase y' -> erase (mk m y) = erase (mk' m' y')) ->
  erase x = erase x' ->
  sim (fst (unary_ht mk o x p)) (fst (unary_ht mk' o' x' p')).
Proof. intros Hmk Hx. unfold unary_ht. simpl. apply sim_item. apply Hmk. rewrite !erase_add_head. exact Hx. Qed.

Lemma post_unary_sim mk mk' o o' x x' e e' :
  (forall m y m' y', erase y = erase y' -> erase (mk m y) = erase (mk' m' y')) ->
  erase x = erase x' ->
  sim (fst (post_unary_ht mk x o e)) (fst (post_unary_ht mk' x' o' e')).
Proof. intros Hmk Hx. unfold post_unary_ht. simpl. apply sim_item. apply Hmk. rewrite !erase_add_tail. exact Hx. Qed.

Local Opaque htm_pos.

Lemma sim_tok_inv l v m w : sim (VTok l v m) w ->
  exists m', w = VTok l v m' /\ (m_pos m = None <-> m_pos m' = None).
Proof.
  destruct w; unfold sim; simpl; intro H; inversion H; subst. eexists. split; [reflexivity|].
  destruct (m_pos m), (m_pos m0); try discriminate; split; intro; try discriminate; reflexivity.
Qed.
Lemma sim_item_inv i w : sim (VItem i) w -> exists j, w = VItem j /\ erase i = erase j.
Proof. destruct w; unfold sim; simpl; intro H; inversion H; subst. eexists. split; [reflexivity|assumption]. Qed.

Ltac sim_inv :=
  repeat match goal with
  | H : Forall2 sim [] _ |- _ => inversion H; subst; clear H
  | H : Forall2 sim (_ :: _) _ |- _ => inversion H; subst; clear H
  | H : sim (VTok _ _ _) _ |- _ => apply sim_tok_inv in H; destruct H as [? [? ?]]; subst
  | H : sim (VItem _) _ |- _ => apply sim_item_inv in H; destruct H as [? [? ?]]; subst
  end.

Lemma number_error_sim v m m' : (m_pos m = None <-> m_pos m' = None) ->
  match number_error v m, number_error v m' with
  | ESyntax _, ESyntax _ => True
  | EOther n, EOther k => n = k
  | _, _ => False
  end.
Proof.
  unfold number_error. intros [H1 H2]. destruct (m_pos m), (m_pos m'); auto.
  - specialize (H2 eq_refl). discriminate.
  - specialize (H1 eq_refl). discriminate.
Qed.

Lemma sim_tok l v m m' : (m_pos m = None <-> m_pos m' = None) -> sim (VTok l v m) (VTok l v m').
Proof.
  intros [H1 H2]. unfold sim. simpl. destruct (m_pos m), (m_pos m'); try reflexivity.
  - specialize (H2 eq_refl). discriminate.
  - specialize (H1 eq_refl). discriminate.
Qed.

Lemma erase_fieldgroup e e' : erase e = erase e' ->
  erase (match e with Grp KGroup m1 x0 => Grp KFieldGroup (clone_meta_nameless m1) x0 | _ => e end) =
  erase (match e' with Grp KGroup m1 x0 => Grp KFieldGroup (clone_meta_nameless m1) x0 | _ => e' end).
Proof.
  destruct e, e'; simpl; intro H; try discriminate; try exact H.
  destruct k, k0; simpl in *; try discriminate; try exact H. inversion H; subst. congruence.
Qed.

Ltac solve_sim :=
  try assumption;
  try (apply sim_tok; assumption);
  try (apply sim_item; simpl;
       repeat (rewrite erase_add_head || rewrite erase_add_tail || rewrite erase_set_meta);
       try (f_equal; apply erase_fieldgroup; assumption); congruence).

Theorem run_action_sim a args args' :
  Forall2 sim args args' -> res_sim (run_action a args) (run_action a args').
Proof.
  intros HF.
  destruct a; simpl;
    repeat match goal with
    | |- res_sim (match ?l with [] => _ | _ :: _ => _ end) _ => destruct l as [|? ?]; sim_inv; simpl; try exact I; try reflexivity
    | |- res_sim (match ?x with VItem _ => _ | VTok _ _ _ => _ end) _ => destruct x; sim_inv; simpl; try exact I; try reflexivity
    | |- res_sim (match ?o with Some _ => _ | None => _ end) _ => destruct o eqn:?; simpl; try exact I; try reflexivity
    | |- res_sim (match ?i with Term _ _ _ => _ | _ => _ end) _ => destruct i; try discriminate; simpl; try exact I; try reflexivity
    end;
    repeat match goal with
    | H : erase ?l = erase ?b |- _ =>
        is_var b; tryif is_var l then fail else
        (destruct b; simpl in H; try discriminate; simpl; try reflexivity)
    end;
    try (match goal with H : Term _ _ _ = Term _ _ _ |- _ => inversion H; subst; clear H end);
    solve_sim;
    try (apply binary_sim; solve_sim; try exact I);
    try (match goal with H : m_pos ?m = None <-> m_pos ?x = None |- context [number_error ?s ?m] =>
           pose proof (number_error_sim s m x H) as Hn;
           destruct (number_error s m), (number_error s x); try exact Hn; try exact I; try contradiction end).
Qed.

(* ---- the driver *)

Definition cfg_sim (c1 c2 : config) : Prop :=
  c_states c1 = c_states c2 /\ Forall2 sim (c_vals c1) (c_vals c2) /\
  map tok_key (c_toks c1) = map tok_key (c_toks c2).

Definition step_sim (r1 r2 : stepres) : Prop :=
  match r1, r2 with
  | Next c1, Next c2 => cfg_sim c1 c2
  | Final x1 _, Final x2 _ => erase_res x1 = erase_res x2
  | _, _ => False
  end.

Lemma token_value_sim t1 t2 : tok_key t1 = tok_key t2 -> sim (token_value t1) (token_value t2).
Proof.
  unfold tok_key, token_value, sim. intros H. inversion H as [[Ht Hl]]. rewrite Ht, Hl.
  destruct (tk_type t2); reflexivity.
Qed.

Lemma Forall2_firstn {A B} (R : A -> B -> Prop) n : forall l l', Forall2 R l l' -> Forall2 R (firstn n l) (firstn n l').
Proof. induction n; intros l l' H; simpl; [constructor|]. destruct H; constructor; auto. Qed.
Lemma Forall2_skipn {A B} (R : A -> B -> Prop) n : forall l l', Forall2 R l l' -> Forall2 R (skipn n l) (skipn n l').
Proof. induction n; intros l l' H; simpl; [exact H|]. destruct H; [constructor|auto]. Qed.
Lemma Forall2_rev {A B} (R : A -> B -> Prop) : forall l l', Forall2 R l l' -> Forall2 R (rev l) (rev l').
Proof.
  induction 1; simpl; [constructor|]. apply Forall2_app; [assumption|constructor; [assumption|constructor]].
Qed.
Lemma Forall2_length {A B} (R : A -> B -> Prop) : forall l l', Forall2 R l l' -> length l = length l'.
Proof. induction 1; simpl; congruence. Qed.

Lemma shift_sim c1 c2 n : cfg_sim c1 c2 -> step_sim (do_shift c1 n) (do_shift c2 n).
Proof.
  intros [Hs [Hv Ht]]. unfold do_shift.
  destruct (c_toks c1) as [|t1 r1], (c_toks c2) as [|t2 r2]; simpl in Ht; try discriminate; simpl; [reflexivity|].
  injection Ht as Hk1 Hk2 Hr. split; [simpl; congruence|]. split; [|exact Hr].
  constructor; [apply token_value_sim; unfold tok_key; congruence|exact Hv].
Qed.

Lemma reduce_sim tb c1 c2 p : cfg_sim c1 c2 -> step_sim (do_reduce tb c1 p) (do_reduce tb c2 p).
Proof.
  intros [Hs [Hv Ht]]. unfold do_reduce.
  assert (Hlen : length (c_vals c1) = length (c_vals c2)) by (eapply Forall2_length; eassumption).
  destruct p as [|p']; [simpl; reflexivity|]. simpl.
  destruct (nth_error (tb_prods tb) p') as [[[lhs rhs] a]|]; [|simpl; reflexivity].
  rewrite <- Hlen, <- Hs. destruct (Nat.ltb (length (c_vals c1)) (length rhs)); [simpl; reflexivity|].
  pose proof (run_action_sim a _ _ (Forall2_rev _ _ _ (Forall2_firstn _ (length rhs) _ _ Hv))) as Hact.
  destruct (run_action a (rev (firstn (length rhs) (c_vals c1)))) as [[v1 d1]|e1];
    destruct (run_action a (rev (firstn (length rhs) (c_vals c2)))) as [[v2 d2]|e2]; simpl in Hact; try contradiction.
  - destruct (tb_goto tb (hd 0 (skipn (length rhs) (c_states c1))) lhs); [|simpl; reflexivity].
    simpl. split; [reflexivity|]. split; [|exact Ht].
    constructor; [exact Hact|apply Forall2_skipn; exact Hv].
  - destruct e1; contradiction.
  - destruct e1 as [m1|m1|n1], e2 as [m2|m2|n2]; simpl in *; try contradiction; try reflexivity. congruence.
Qed.

Lemma accept_sim le1 le2 c1 c2 : cfg_sim c1 c2 -> step_sim (do_accept le1 c1) (do_accept le2 c2).
Proof.
  intros [Hs [Hv Ht]]. unfold do_accept.
  destruct Hv as [|v1 v2 l1 l2 Hv0 Hvl]; [simpl; reflexivity|].
  destruct v1 as [i1|? ? ?], v2 as [i2|? ? ?]; simpl; try reflexivity.
  - apply sim_item in Hv0. rewrite Hv0. reflexivity.
  - unfold sim in Hv0. simpl in Hv0. discriminate.
  - unfold sim in Hv0. simpl in Hv0. discriminate.
Qed.

Lemma step_simulation tb le1 le2 c1 c2 :
  (le1 = None <-> le2 = None) -> cfg_sim c1 c2 ->
  step_sim (step tb le1 c1) (step tb le2 c2).
Proof.
  intros Hle Hc. pose proof Hc as [Hs [Hv Ht]]. unfold step. rewrite <- Hs.
  assert (Hlat : match hd_error (c_toks c1) with Some t => tk_type t | None => T_EOF end =
                 match hd_error (c_toks c2) with Some t => tk_type t | None => T_EOF end).
  { destruct (c_toks c1) as [|t1 r1], (c_toks c2) as [|t2 r2]; simpl in Ht; try discriminate; simpl; [reflexivity|].
    injection Ht as Hk1 Hk2 Hr. exact Hk1. }
  assert (Hmain : step_sim
    (match tb_action tb (hd 0 (c_states c1)) match hd_error (c_toks c1) with Some t => tk_type t | None => T_EOF end with
     | Shift n => do_shift c1 n | Reduce p => do_reduce tb c1 p | Accept => do_accept le1 c1
     | ActErr => Final (Err (syntax_error (hd_error (c_toks c1)))) [] end)
    (match tb_action tb (hd 0 (c_states c1)) match hd_error (c_toks c2) with Some t => tk_type t | None => T_EOF end with
     | Shift n => do_shift c2 n | Reduce p => do_reduce tb c2 p | Accept => do_accept le2 c2
     | ActErr => Final (Err (syntax_error (hd_error (c_toks c2)))) [] end)).
  { rewrite <- Hlat. destruct (tb_action tb _ _) as [n|p| |].
    - apply shift_sim; exact Hc.
    - apply reduce_sim; exact Hc.
    - apply accept_sim; exact Hc.
    - simpl. destruct (hd_error (c_toks c1)), (hd_error (c_toks c2)); reflexivity. }
  destruct (c_toks c1) as [|t1 r1] eqn:E1, (c_toks c2) as [|t2 r2] eqn:E2; simpl in Ht; try discriminate.
  - destruct le1 as [e1|], le2 as [e2|].
    + simpl. reflexivity.
    + destruct Hle as [_ Hle]. specialize (Hle eq_refl). discriminate.
    + destruct Hle as [Hle _]. specialize (Hle eq_refl). discriminate.
    + exact Hmain.
  - exact Hmain.
Qed.

Definition outcome_sim (o1 o2 : outcome) : Prop :=
  match o1, o2 with
  | Done r1 _, Done r2 _ => erase_res r1 = erase_res r2
  | OutOfFuel, OutOfFuel => True
  | _, _ => False
  end.

Lemma run_simulation tb le1 le2 : (le1 = None <-> le2 = None) ->
  forall fuel c1 c2, cfg_sim c1 c2 -> outcome_sim (run tb le1 fuel c1) (run tb le2 fuel c2).
Proof.
  intros Hle. induction fuel as [|f IH]; intros c1 c2 Hc; simpl; [exact I|].
  pose proof (step_simulation tb le1 le2 c1 c2 Hle Hc) as Hst.
  destruct (step tb le1 c1) as [c1'|r1 e1], (step tb le2 c2) as [c2'|r2 e2]; simpl in Hst; try contradiction.
  - apply IH. exact Hst.
  - exact Hst.
Qed.

(* C03, layout clause, for ANY tables: two inputs whose token (type, lexeme) sequences coincide (and
   which are both free of, or both cut by, a lexical error) have the same outcome up to layout: equal
   trees once positions, heads and tails are forgotten, or an error of the same class *)
Theorem parse_layout_independent tb s1 s2 :
  map tok_key (fst (lex s1)) = map tok_key (fst (lex s2)) ->
  (snd (lex s1) = None <-> snd (lex s2) = None) ->
  outcome_sim (parse_with tb s1) (parse_with tb s2).
Proof.
  unfold parse_with. destruct (lex s1) as [toks1 e1], (lex s2) as [toks2 e2]. simpl. intros Hk He.
  assert (Hf : parse_fuel toks1 = parse_fuel toks2).
  { unfold parse_fuel. rewrite <- (map_length tok_key toks1), Hk, map_length. reflexivity. }
  rewrite Hf. apply run_simulation; [exact He|].
  unfold cfg_sim, init_config. simpl. split; [reflexivity|]. split; [constructor|exact Hk].
Qed.
