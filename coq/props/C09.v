(* C09 — Tree equality means same meaning-bearing content; clone_item preserves it.
   Only statements, `exact`-closed theorems, non-vacuity examples, Print Assumptions.
   Model: model/Eq.v (`item_eqb` = the generic Item.__eq__ driven by the GENERATED per-class
   `_equality_attrs` tables gen/GenTree.v; `clone_item`), model/Print.v, model/Decimal.v.
   Specification vocabulary (hand-written, independent of the tables): model/EqSpec.v.
   Lemmas: proofs/EqProofs.v.  Every per-class case evaluates today's generated attribute list, so
   dropping an attribute from a class's `_equality_attrs` breaks C09_eq_iff_same_content (and
   C09_clone_shape).

   Clauses of the property text -> statements
     "Two trees compare equal exactly when they have the same node types, term values, field names,
      range and inequality inclusiveness, numeric degrees and forces, and the same children in the
      same order"                                              C09_eq_iff_same_content
     "whitespace (head/tail), positions and attached names never affect equality"
                                                               C09_layout_irrelevant
     "which is reflexive, symmetric and transitive"            C09_eq_equivalence
     "Cloning an item gives an item of the same type with the same content and layout whose children
      are placeholders"                                        C09_clone_shape,
                                                               C09_clone_content(_refuted/_partial)
     "which, once given the clones of the children, compares equal to ... the original"
                                                               C09_clone_roundtrip_eq(_refuted/_partial),
                                                               C09_deep_clone(_refuted/_partial)
     "... and prints like the original"                        C09_clone_roundtrip_print(_refuted/_partial),
                                                               C09_deep_clone(_refuted/_partial)
   The `_refuted` witnesses are NOT reachable through luqum's constructors: they need an attribute
   reassigned after construction (`f = Fuzzy(Word('a')); f.degree = Decimal(2)`,
   `b.force = Decimal('1.50')`).  The guards of the `_partial` theorems are proved to be exactly the
   conditions needed (C09_clone_guards_exact) and to follow from the invariant `wf_node` that every
   constructor establishes (C09_wf_node_established). *)
Require Import Base Decimal Tree GenTree Eq Print TreeInd EqSpec EqProofs.

(* ================================================================ equality *)

(* (1) == is "same fingerprint" *)
Definition C09_eq_iff_same_content_statement : Prop :=
  forall a b, item_eqb a b = true <-> fingerprint a = fingerprint b.

Theorem C09_eq_iff_same_content : C09_eq_iff_same_content_statement.
Proof. exact eq_iff_fingerprint. Qed.

(* (2) equivalence relation *)
Definition C09_eq_equivalence_statement : Prop :=
  (forall a, item_eqb a a = true) /\
  (forall a b, item_eqb a b = true -> item_eqb b a = true) /\
  (forall a b c, item_eqb a b = true -> item_eqb b c = true -> item_eqb a c = true).

Theorem C09_eq_equivalence : C09_eq_equivalence_statement.
Proof. exact (conj item_eqb_refl (conj item_eqb_sym item_eqb_trans)). Qed.

(* (3) layout, positions, names and the implicit-degree display flags are irrelevant.
   a and a' "differ at most in meta and implicit flags, anywhere" := their erasures are identical. *)
Definition layout_variant (a a' : item) : Prop := erase a = erase a'.

Definition C09_layout_irrelevant_statement : Prop :=
  (* resetting every pos/size/head/tail/name and every implicit flag gives an equal tree *)
  (forall a, item_eqb (erase a) a = true /\ item_eqb a (erase a) = true) /\
  (* layout variants are equal and interchangeable on either side of == *)
  (forall a a', layout_variant a a' ->
     item_eqb a a' = true /\ forall b, item_eqb a b = item_eqb a' b /\ item_eqb b a = item_eqb b a') /\
  (* more generally the answer of == depends on the fingerprints only *)
  (forall a a' b b', fingerprint a = fingerprint a' -> fingerprint b = fingerprint b' ->
     item_eqb a b = item_eqb a' b') /\
  (* what a layout variant is: any change of a node's meta (pos, size, head, tail, name) ... *)
  (forall a m, layout_variant (set_meta a m) a) /\
  (* ... or of its implicit flag ... *)
  (forall m m' t d i i', layout_variant (Fuzzy m t d i) (Fuzzy m' t d i')) /\
  (forall m m' t d i i', layout_variant (Proximity m t d i) (Proximity m' t d i')) /\
  (forall m m' e f i i', layout_variant (Boost m e f i) (Boost m' e f i')) /\
  (* ... at any depth: children replaced by layout variants *)
  (forall t cs cs', Forall2 layout_variant cs cs' -> layout_variant (rebuild t cs) (rebuild t cs')) /\
  (* and a layout variant has, node by node, the same class and own attributes *)
  (forall a, cls_of (erase a) = cls_of a /\ (forall at_, get_attr (erase a) at_ = get_attr a at_) /\
             children (erase a) = map erase (children a)).

Theorem C09_layout_irrelevant : C09_layout_irrelevant_statement.
Proof.
  repeat split.
  - apply eq_iff_fingerprint. apply fingerprint_erase.
  - apply eq_iff_fingerprint. symmetry. apply fingerprint_erase.
  - apply eq_iff_fingerprint. apply erase_same_fingerprint. assumption.
  - apply item_eqb_fp_congr; [apply erase_same_fingerprint; assumption|reflexivity].
  - apply item_eqb_fp_congr; [reflexivity|apply erase_same_fingerprint; assumption].
  - exact item_eqb_fp_congr.
  - intros a m. apply erase_set_meta.
  - exact erase_rebuild_congr.
  - apply cls_erase.
  - intros at_. apply get_attr_erase.
  - apply children_erase.
Qed.

(* ================================================================ clone_item *)

(* (4) the clone: never raises; same class; same pos/size/head/tail; no name; its own attributes
   are those of the original after a trip through the constructor (`reinit`: default recomputed for
   an implicit degree/force, explicit Boost force normalised again); implicit flag kept; every
   child a NONE_ITEM placeholder (operations: no operands); the clone satisfies the constructor
   invariant. *)
Definition C09_clone_shape_statement : Prop :=
  forall x, exists y, clone_item x = Some y /\
    cls_of y = cls_of x /\
    layout_of y = layout_of x /\ name_of y = None /\
    (forall a, get_attr y a = get_attr (reinit x) a) /\
    implicit_of y = implicit_of x /\
    children y = (if is_op x then [] else map (fun _ => none_item) (children x)) /\
    wf_node y.

Theorem C09_clone_shape : C09_clone_shape_statement.
Proof. exact clone_shape. Qed.

(* for an object as the constructors make it, `reinit` is the identity: same attributes exactly *)
Definition C09_clone_same_attrs_statement : Prop :=
  forall x y, wf_node x -> clone_item x = Some y -> forall a, get_attr y a = get_attr x a.

Theorem C09_clone_same_attrs : C09_clone_same_attrs_statement.
Proof.
  intros x y Hwf Hc a. destruct (clone_shape x) as [y' [Hy' [_ [_ [_ [Ha _]]]]]].
  rewrite Hc in Hy'. injection Hy' as <-. rewrite Ha.
  destruct (wf_node_guards x Hwf) as [_ [_ Hr]]. rewrite Hr. reflexivity.
Qed.

(* "same content" in luqum's own terms: the _equality_attrs compare equal *)
Definition C09_clone_content_statement : Prop :=
  forall x y, clone_item x = Some y -> attrs_eqb x y = true /\ attrs_eqb y x = true.

(* given back the original's children (the `children` setter; operations: the operands), the
   clone compares equal to the original ... *)
Definition C09_clone_roundtrip_eq_statement : Prop :=
  forall x y, clone_item x = Some y -> item_eqb (rebuild y (children x)) x = true.

(* ... and prints like it, with and without head/tail *)
Definition C09_clone_roundtrip_print_statement : Prop :=
  forall x y, clone_item x = Some y -> forall ht, print ht (rebuild y (children x)) = print ht x.

(* the same for deep clones: every node cloned, each clone given the clones of the children *)
Definition C09_deep_clone_statement : Prop :=
  forall x z, deep_clone x z -> item_eqb z x = true /\ forall ht, print ht z = print ht x.

(* ---- witnesses against the unguarded statements (attribute reassigned after construction) *)
(* f = Fuzzy(Word('a')); f.degree = Decimal(2) : the clone has degree 0.5 again *)
Definition bad_fuzzy : item := Fuzzy meta0 (Term KWord meta0 [97]%N) (mkDec false 2 0) true.
(* b = Boost(Word('a'), 1.5); b.force = Decimal('1.50') : the clone prints a^1.5, b prints a^1.50 *)
Definition bad_boost : item := Boost meta0 (Term KWord meta0 [97]%N) (mkDec false 150 (-2)) false.

Theorem C09_clone_content_refuted : ~ C09_clone_content_statement.
Proof.
  intros H. specialize (H bad_fuzzy _ eq_refl). destruct H as [H _]. vm_compute in H. discriminate H.
Qed.

Theorem C09_clone_roundtrip_eq_refuted : ~ C09_clone_roundtrip_eq_statement.
Proof. intros H. specialize (H bad_fuzzy _ eq_refl). vm_compute in H. discriminate H. Qed.

Theorem C09_clone_roundtrip_print_refuted : ~ C09_clone_roundtrip_print_statement.
Proof. intros H. specialize (H bad_boost _ eq_refl false). vm_compute in H. discriminate H. Qed.

Lemma bad_fuzzy_deep :
  deep_clone bad_fuzzy (Fuzzy meta0 (Term KWord meta0 [97]%N) dec_half true).
Proof.
  apply (deep_clone_node bad_fuzzy (Fuzzy meta0 none_item dec_half true) [Term KWord meta0 [97]%N] eq_refl).
  constructor; [|constructor]. exact (deep_clone_node (Term KWord meta0 [97]%N) _ [] eq_refl (Forall2_nil _)).
Qed.

Theorem C09_deep_clone_refuted : ~ C09_deep_clone_statement.
Proof. intros H. destruct (H _ _ bad_fuzzy_deep) as [H1 _]. vm_compute in H1. discriminate H1. Qed.

(* ---- the guarded statements *)
Definition C09_clone_content_partial_statement : Prop :=
  forall x y, implicit_is_default x -> clone_item x = Some y ->
    attrs_eqb x y = true /\ attrs_eqb y x = true.

Theorem C09_clone_content_partial : C09_clone_content_partial_statement.
Proof. intros x y Hg Hc. exact (clone_attrs_eqb x y Hc Hg). Qed.

(* given ANY children that compare equal to the original's (the original children themselves, or
   their clones), the clone compares equal to the original *)
Definition C09_clone_roundtrip_eq_partial_statement : Prop :=
  forall x y, implicit_is_default x -> clone_item x = Some y ->
    item_eqb (rebuild y (children x)) x = true /\
    forall cs, Forall2 (fun c c' => item_eqb c c' = true) cs (children x) ->
               item_eqb (rebuild y cs) x = true /\ item_eqb x (rebuild y cs) = true.

Theorem C09_clone_roundtrip_eq_partial : C09_clone_roundtrip_eq_partial_statement.
Proof.
  intros x y Hg Hc. split.
  - apply (clone_roundtrip_eq_exact x y Hc). exact Hg.
  - intros cs HF. pose proof (clone_rebuild_eq x y cs Hc Hg HF) as H. split; [exact H|].
    apply item_eqb_sym. exact H.
Qed.

Definition C09_clone_roundtrip_print_partial_statement : Prop :=
  forall x y, force_prints_normalized x -> clone_item x = Some y ->
    forall ht,
      print ht (rebuild y (children x)) = print ht x /\
      forall cs, Forall2 (fun c c' => print true c = print true c') cs (children x) ->
                 print ht (rebuild y cs) = print ht x.

Theorem C09_clone_roundtrip_print_partial : C09_clone_roundtrip_print_partial_statement.
Proof.
  intros x y Hg Hc ht. split.
  - apply (clone_roundtrip_print_exact x y Hc). exact Hg.
  - intros cs HF. exact (clone_rebuild_print x y cs Hc Hg HF ht).
Qed.

(* the guards are exactly what is needed: the narrowest possible *)
Definition C09_clone_guards_exact_statement : Prop :=
  forall x y, clone_item x = Some y ->
    (item_eqb (rebuild y (children x)) x = true <-> implicit_is_default x) /\
    ((forall ht, print ht (rebuild y (children x)) = print ht x) <-> force_prints_normalized x).

Theorem C09_clone_guards_exact : C09_clone_guards_exact_statement.
Proof.
  intros x y Hc. exact (conj (clone_roundtrip_eq_exact x y Hc) (clone_roundtrip_print_exact x y Hc)).
Qed.

(* deep clones exist for every tree; when every node is as its constructor made it, the deep
   clone compares equal to the original and prints like it *)
Definition C09_deep_clone_partial_statement : Prop :=
  (forall x, exists z, deep_clone x z) /\
  (forall x z, deep_clone x z -> everywhere implicit_is_default x -> item_eqb z x = true) /\
  (forall x z, deep_clone x z -> everywhere force_prints_normalized x -> forall ht, print ht z = print ht x) /\
  (forall x z, deep_clone x z -> everywhere wf_node x ->
     item_eqb z x = true /\ forall ht, print ht z = print ht x).

Theorem C09_deep_clone_partial : C09_deep_clone_partial_statement.
Proof.
  split; [exact deep_clone_exists|]. split; [exact deep_clone_eq|]. split; [exact deep_clone_print|].
  intros x z Hd Hw. split.
  - apply (deep_clone_eq x z Hd). apply (everywhere_impl wf_node); [|exact Hw].
    intros n Hn. exact (proj1 (wf_node_guards n Hn)).
  - apply (deep_clone_print x z Hd). apply (everywhere_impl wf_node); [|exact Hw].
    intros n Hn. exact (proj1 (proj2 (wf_node_guards n Hn))).
Qed.

(* the invariant: what each constructor stores satisfies wf_node, whatever the arguments; wf_node
   is "a trip through the constructor changes nothing"; it implies both guards *)
Definition C09_wf_node_established_statement : Prop :=
  (forall m t, wf_node (Fuzzy m t dec_half true)) /\            (* Fuzzy(term)            *)
  (forall m t d, wf_node (Fuzzy m t d false)) /\                (* Fuzzy(term, degree)    *)
  (forall m t, wf_node (Proximity m t 1%Z true)) /\             (* Proximity(term)        *)
  (forall m t d, wf_node (Proximity m t d false)) /\            (* Proximity(term, n)     *)
  (forall m e, wf_node (Boost m e dec_one true)) /\             (* Boost(expr, None)      *)
  (forall m e f, wf_node (Boost m e (dec_normalize f) false)) /\ (* Boost(expr, force)    *)
  (forall x, implicit_of x = None -> wf_node x) /\              (* every other class      *)
  (forall x, wf_node x <-> reinit x = x) /\
  (forall x, wf_node x -> implicit_is_default x /\ force_prints_normalized x).

Theorem C09_wf_node_established : C09_wf_node_established_statement.
Proof.
  split; [intros m t; reflexivity|]. split; [intros m t d; exact I|].
  split; [intros m t; reflexivity|]. split; [intros m t d; exact I|].
  split; [intros m e; reflexivity|]. split; [intros m e f; apply dec_normalize_idem|].
  split.
  { intros x. destruct x as [| | | |? ? ? []|? ? ? []|? ? ? []| | | |]; simpl; intros H; try exact I; discriminate H. }
  split.
  { intros x. split; [intros H; exact (proj2 (proj2 (wf_node_guards x H)))|apply reinit_wf]. }
  intros x H. exact (conj (proj1 (wf_node_guards x H)) (proj1 (proj2 (wf_node_guards x H)))).
Qed.

(* ================================================================ non-vacuity *)

(* a tree with layout, names, an implicit fuzzy, a 1.50-spelled degree and a boost *)
Definition ex_a : item :=
  Op KAnd (mkMeta (Some 0%Z) (Some 20%Z) [32]%N [] (Some [110]%N))
    [SearchField meta0 [102]%N (Fuzzy (mkMeta None None [] [32]%N None) (Term KWord meta0 [97]%N) dec_half true);
     Boost meta0 (Range meta0 (Term KWord meta0 [49]%N) (Term KWord meta0 [50]%N) true false) (mkDec false 15 (-1)) false;
     Fuzzy meta0 (Term KWord meta0 [98]%N) (mkDec false 150 (-2)) false].
(* the same content, other layout, other implicit flag, degree respelled 1.5 *)
Definition ex_b : item :=
  Op KAnd meta0
    [SearchField (mkMeta None None [9]%N [] None) [102]%N (Fuzzy meta0 (Term KWord meta0 [97]%N) dec_half false);
     Boost meta0 (Range meta0 (Term KWord (mkMeta (Some 7%Z) None [] [] None) [49]%N) (Term KWord meta0 [50]%N) true false)
           (mkDec false 15 (-1)) false;
     Fuzzy meta0 (Term KWord meta0 [98]%N) (mkDec false 15 (-1)) false].
(* one inclusiveness flag differs *)
Definition ex_c : item :=
  Op KAnd meta0
    [SearchField meta0 [102]%N (Fuzzy meta0 (Term KWord meta0 [97]%N) dec_half true);
     Boost meta0 (Range meta0 (Term KWord meta0 [49]%N) (Term KWord meta0 [50]%N) true true) (mkDec false 15 (-1)) false;
     Fuzzy meta0 (Term KWord meta0 [98]%N) (mkDec false 15 (-1)) false].

Example C09_nonvacuous_equal : item_eqb ex_a ex_b = true /\ fingerprint ex_a = fingerprint ex_b /\ ex_a <> ex_b.
Proof. split; [vm_compute; reflexivity|]. split; [vm_compute; reflexivity|]. intros H. discriminate H. Qed.

Example C09_nonvacuous_unequal : item_eqb ex_a ex_c = false /\ fingerprint ex_a <> fingerprint ex_c.
Proof. split; [vm_compute; reflexivity|]. vm_compute. intros H. discriminate H. Qed.

(* a layout variant that is not the same tree, differing below the root *)
Definition ex_b' : item :=
  Op KAnd meta0
    [SearchField (mkMeta None None [9]%N [] None) [102]%N (Fuzzy meta0 (Term KWord meta0 [97]%N) dec_half false);
     Boost meta0 (Range meta0 (Term KWord (mkMeta (Some 7%Z) None [] [] None) [49]%N) (Term KWord meta0 [50]%N) true false)
           (mkDec false 15 (-1)) false;
     Fuzzy meta0 (Term KWord meta0 [98]%N) (mkDec false 150 (-2)) false].
Example C09_nonvacuous_layout_variant : layout_variant ex_a ex_b' /\ ex_a <> ex_b'.
Proof. split; [vm_compute; reflexivity|]. intros H. discriminate H. Qed.

(* every node of ex_a is as its constructor made it; its deep clone is a different tree (the
   name is gone), equal to it and printing like it *)
Example C09_nonvacuous_wf : everywhere wf_node ex_a.
Proof. repeat (constructor; simpl; try reflexivity; try exact I). Qed.

Example C09_nonvacuous_clone :
  exists y, clone_item (Boost (mkMeta (Some 3%Z) (Some 5%Z) [32]%N [9]%N (Some [120]%N))
                              (Term KWord meta0 [97]%N) (mkDec false 15 (-1)) false) = Some y /\
            y = Boost (mkMeta (Some 3%Z) (Some 5%Z) [32]%N [9]%N None) none_item (mkDec false 15 (-1)) false.
Proof. eexists. split; vm_compute; reflexivity. Qed.

(* the guards are not trivially true: the witnesses violate them, and only them *)
Example C09_guards_not_trivial :
  ~ implicit_is_default bad_fuzzy /\ force_prints_normalized bad_fuzzy /\
  implicit_is_default bad_boost /\ ~ force_prints_normalized bad_boost.
Proof.
  split; [vm_compute; intros H; discriminate H|]. split; [exact I|]. split; [exact I|].
  vm_compute. intros H. discriminate H.
Qed.

Print Assumptions C09_eq_iff_same_content.
Print Assumptions C09_eq_equivalence.
Print Assumptions C09_layout_irrelevant.
Print Assumptions C09_clone_shape.
Print Assumptions C09_clone_same_attrs.
Print Assumptions C09_clone_content_refuted.
Print Assumptions C09_clone_content_partial.
Print Assumptions C09_clone_roundtrip_eq_refuted.
Print Assumptions C09_clone_roundtrip_eq_partial.
Print Assumptions C09_clone_roundtrip_print_refuted.
Print Assumptions C09_clone_roundtrip_print_partial.
Print Assumptions C09_clone_guards_exact.
Print Assumptions C09_deep_clone_refuted.
Print Assumptions C09_deep_clone_partial.
Print Assumptions C09_wf_node_established.
