"""C15 — auto_name: distinct names on exactly the operands of operations, mapped to their paths."""
import copy

import lib
import gentree
from runner import CorrResult


def oracle(T, naming, tree, mapping, prenamed=False):
    """the property, evaluated directly on the implementation's result; returns None or a reason.
    For a tree that carried names before (prenamed), stale names on elements that are no longer operands are
    outside the property's "after automatic naming" reading and are ignored: only the operands are judged."""
    named = [(p, naming.get_name(n)) for p, n in gentree.all_nodes(tree) if naming.get_name(n) is not None]
    if prenamed:
        operand_paths = set()
        for p, n in gentree.all_nodes(tree):
            if isinstance(n, T.BaseOperation):
                operand_paths.update(p + (i,) for i in range(len(n.children)))
        if operand_paths:
            named = [(p, nm) for p, nm in named if p in operand_paths]
    names = [nm for _, nm in named]
    if len(set(names)) != len(names):
        return "two elements carry the same name"
    expected = set()
    has_op = False
    for p, n in gentree.all_nodes(tree):
        if isinstance(n, T.BaseOperation):
            has_op = True
            for i in range(len(n.children)):
                expected.add(p + (i,))
    if not expected:
        expected = {()}
    if set(p for p, _ in named) != expected:
        return "named elements are not exactly the operands of operations (or the root)"
    if dict((nm, p) for p, nm in named) != dict(mapping):
        return "mapping does not send each name to the path of the element carrying it"
    for nm, p in mapping.items():
        if naming.get_name(naming.element_from_path(tree, p)) != nm:
            return "element_from_path(mapping[name]) does not carry the name"
    return None


def correspond(model_ok, res):
    import luqum.tree as T
    import luqum.naming as naming
    r = lib.rng("C15")
    n = 250 if lib.tier() == "quick" else 2500
    g = gentree.Gen(r, T, layout=0.2, odd=0.15, wide=[0, 1, 51, 52, 53, 60, 104, 110, 130])
    cases, payloads = [], []
    widths = {}
    seen = set()
    # fixed corpus first: widths around the alphabet size and its square
    corpus = [T.Word("a"), T.AndOperation(), T.Group(T.OrOperation()),
              T.AndOperation(*[T.Word("w") for _ in range(53)]),
              T.OrOperation(*[T.UnknownOperation(*[T.Word("w") for _ in range(30)]) for _ in range(3)]),
              T.Range(T.AndOperation(T.Word("a"), T.Word("b")), T.Word("c"))]
    if lib.tier() != "quick":
        corpus.append(T.AndOperation(*[T.Word("w") for _ in range(52 * 51 + 60)]))
    trees = corpus + [g.tree(r.randrange(0, 5)) for _ in range(n)]
    # histories: a tree that was named before, then edited (an operand inserted in front of an operation, a
    # named sub-tree embedded in a new operation), is named again: old names must be overwritten
    hist = []
    for _ in range(n // 3):
        t0 = g.tree(r.randrange(1, 4))
        naming.auto_name(t0)
        ops = [nd for _, nd in gentree.all_nodes(t0) if isinstance(nd, T.BaseOperation)]
        if ops and r.random() < 0.7:
            o = r.choice(ops)
            o.children = [g.leaf()] + list(o.children)
        else:
            t0 = r.choice([T.AndOperation, T.OrOperation, T.UnknownOperation])(g.leaf(), t0, g.leaf())
        hist.append(t0)
    trees += hist
    renamed = set(id(t) for t in hist)
    aborted = 0
    for ti_, tree in enumerate(trees):
        if ti_ % 40 == 7:
            # a call that cannot complete (a tree deeper than the interpreter's recursion limit): whatever it
            # raises, the calls that FOLLOW must not see anything of it
            deep = T.Word("x")
            for _ in range(3000):
                deep = T.AndOperation(T.Group(deep), T.Word("y"))
            try:
                naming.auto_name(deep)
            except RecursionError:
                aborted += 1
            except Exception as e:  # noqa
                res.notes.append("auto_name on a 3000-level tree raised %r" % (e,))
            del deep
        before = lib.g_item(tree)
        desc = gentree.describe(tree)
        w = max([len(nd.children) for _, nd in gentree.all_nodes(tree) if isinstance(nd, T.BaseOperation)] or [0])
        widths[min(w, 60) // 10 * 10] = widths.get(min(w, 60) // 10 * 10, 0) + 1
        t2 = copy.deepcopy(tree)
        try:
            mapping = naming.auto_name(t2)
        except Exception as e:  # the property says names are always produced
            res.failures.append(({"tree": desc[:2000], "exception": repr(e)}, None))
            expected = "None"
        else:
            why = oracle(T, naming, t2, mapping, prenamed=id(tree) in renamed)
            if why:
                res.failures.append(({"tree": desc[:2000], "why": why,
                                      "mapping": {k: list(v) for k, v in list(mapping.items())[:50]}}, None))
            expected = "(Some (%s, %s))" % (
                lib.g_item(t2),
                lib.g_list(["(%s, %s)" % (lib.g_str(nm), lib.g_path(p)) for nm, p in mapping.items()]))
        cases.append("(%s, %s)" % (before, expected))
        payloads.append(desc[:2000])
        if desc not in seen and gentree.count_nodes(tree) > 1:
            seen.add(desc)
    res.cases = len(cases)
    res.nontrivial = len(seen)
    res.rule = ("random programmatic trees of every item class (depth<=4, odd shapes: operations with 0/1 "
                "operands, NoneItem, operations under ranges), plus operations wider than the 52-letter "
                "alphabet; non-trivial = distinct tree with more than one node")
    res.samples = payloads[3:9]
    res.distribution = {"max_operation_width_bucket": widths, "aborted_calls_interleaved": aborted}
    if model_ok:
        defs = ("Definition chk (c : item * option (item * list (str * path))) : bool :=\n"
                "  match auto_name (fst c), snd c with\n"
                "  | None, None => true\n"
                "  | Some (t, m), Some (t', m') => item_beq t t' && named_paths_beq m m'\n"
                "  | _, _ => false end.")
        try:
            bad = lib.eval_cases("C15", "Base Decimal Tree TreeEq Naming", defs, cases, "chk", shard=60)
        except Exception as e:
            res.model_error = str(e)
            bad = []
        for i in bad:
            res.disagreements.append({"tree": payloads[i]})
    else:
        res.model_error = "model did not build"
    return res


SPEC = {
    "id": "C15",
    "targets": ["props/C15.vo"],
    "model_targets": ["model/Naming.vo", "model/TreeEq.vo"],
    "module": "C15",
    "theorems": ["C15_total", "C15_names_distinct", "C15_named_exactly_operands", "C15_mapping_exact",
                 "C15_next_name_never_repeats", "C15_mapping_sound_any_history"],
    "correspond": correspond,
    "statement": "auto_name never fails; all names distinct; named elements are exactly the operands of "
                 "operations (or the root alone); the mapping is exactly name -> path of the element",
    "trusted_base": [
        "Coq 8.16.1 kernel (vm_compute used for table facts and correspondence; no native_compute)",
        "no axioms (Print Assumptions: closed under the global context)",
        "gen/translate.py: LETTERS, _pos_letter shape, class MROs, TreeAutoNamer method table",
        "hand-written model coq/model/Naming.v of TreeAutoNamer / PathTrackingVisitor traversal, tied by "
        "differential correspondence (harness/c15.py) on every run",
        "value-based tree model: a Python object shared between two positions is not modelled",
    ],
    "assumptions": ["trees contain only luqum.tree classes; no node object occurs at two positions",
                    "input tree carries no names beforehand (auto_name never clears stale names)"],
}
