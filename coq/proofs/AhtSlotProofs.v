(* AhtSlotProofs.v — WHERE auto_head_tail puts a blank (used by props/C13.v, C13_fills_where_needed).
   The rule of the code, written on the tree's constructors (not on the handler dispatch):
     * AND / OR / Bool operation: between consecutive operands stands the operator, so every operand but the
       last gets a tail and every operand but the first gets a head (a single operand gets both);
     * implicit operation: every operand but the last gets a tail (no head: nothing stands between operands);
     * NOT: the operand gets a head (a blank between the word NOT and its operand);
     * range: the low bound gets a tail and the high bound a head (blanks around the word TO);
     * nowhere else: not the root, not after `(` / before `)` of a group, not after `field:`, not before `~` or
       `^`, not after `+` / `-` / `<` / `>`, not next to the brackets of a range.
   A designated slot is filled only when it is empty. *)
Require Import Base Decimal Tree GenTree GenVisitors GenParser Visitor Eq Traverse Print Lexer Actions LR Parser.
Require Import AutoHeadTail TreeInd TraverseProofs AutoHeadTailProofs.
From Coq Require Import Lia.

(* does the rule designate the head / the tail of child number i of node p ? *)
Definition head_needed_in (p : item) (i : nat) : bool :=
  match p with
  | Op KUnknown _ _ => false
  | Op _ _ ops => Nat.leb 1 i || Nat.eqb (length ops) 1
  | Unary KNot _ _ => true
  | Range _ _ _ _ _ => Nat.eqb i 1
  | _ => false
  end.

Definition tail_needed_in (p : item) (i : nat) : bool :=
  match p with
  | Op KUnknown _ ops => Nat.ltb (S i) (length ops)
  | Op _ _ ops => Nat.ltb (S i) (length ops) || Nat.eqb (length ops) 1
  | Range _ _ _ _ _ => Nat.eqb i 0
  | _ => false
  end.

(* the position q is child number i of a node p for which the rule designates that slot *)
Definition designated (f : item -> nat -> bool) (t : item) (q : path) : Prop :=
  exists q0 i p, q = q0 ++ [i] /\ subtree_at t q0 = Some p /\ f p i = true.

(* the value of a slot afterwards: a blank if it is designated and was empty, unchanged otherwise *)
Definition slot_after (needed : bool) (s : str) : str := if needed && is_empty s then SPACER else s.

Lemma head_add_head x : head_of (aht_add_head x) = slot_after true (head_of x).
Proof.
  unfold aht_add_head, slot_after. simpl. destruct (is_empty (head_of x)); [apply head_set_head|reflexivity].
Qed.

Lemma tail_add_tail x : tail_of (aht_add_tail x) = slot_after true (tail_of x).
Proof.
  unfold aht_add_tail, slot_after. simpl. destruct (is_empty (tail_of x)); [apply tail_set_tail|reflexivity].
Qed.

Lemma slot_after_idem b s : slot_after b (slot_after b s) = slot_after b s.
Proof. unfold slot_after. destruct b; simpl; [|reflexivity]. destruct s; reflexivity. Qed.

Lemma head_base_at n i x :
  i < n -> head_of (base_at n i x) = slot_after (Nat.leb 1 i || Nat.eqb n 1) (head_of x).
Proof.
  intros Hi. unfold base_at.
  destruct (Nat.eqb_spec i 0) as [E0|E0]; destruct (Nat.eqb_spec i (n - 1)) as [E1|E1];
    destruct (Nat.leb_spec 1 i) as [E2|E2]; destruct (Nat.ltb_spec i (n - 1)) as [E3|E3];
    destruct (Nat.eqb_spec n 1) as [E4|E4]; try lia; cbn [andb orb];
    rewrite ?head_add_head, ?head_add_tail, ?head_add_head, ?slot_after_idem; reflexivity.
Qed.

Lemma tail_base_at n i x :
  i < n -> tail_of (base_at n i x) = slot_after (Nat.ltb (S i) n || Nat.eqb n 1) (tail_of x).
Proof.
  intros Hi. unfold base_at.
  destruct (Nat.eqb_spec i 0) as [E0|E0]; destruct (Nat.eqb_spec i (n - 1)) as [E1|E1];
    destruct (Nat.leb_spec 1 i) as [E2|E2]; destruct (Nat.ltb_spec i (n - 1)) as [E3|E3];
    destruct (Nat.ltb_spec (S i) n) as [E5|E5];
    destruct (Nat.eqb_spec n 1) as [E4|E4]; try lia; cbn [andb orb];
    rewrite ?tail_add_head, ?tail_add_tail, ?tail_add_head, ?slot_after_idem; reflexivity.
Qed.

Lemma head_unknown_at n i x : head_of (unknown_at n i x) = head_of x.
Proof. unfold unknown_at. destruct (Nat.ltb i (n - 1)); [apply head_add_tail|reflexivity]. Qed.

Lemma tail_unknown_at n i x :
  i < n -> tail_of (unknown_at n i x) = slot_after (Nat.ltb (S i) n) (tail_of x).
Proof.
  intros Hi. unfold unknown_at.
  destruct (Nat.ltb_spec i (n - 1)) as [E3|E3]; destruct (Nat.ltb_spec (S i) n) as [E5|E5]; try lia;
    [apply tail_add_tail|reflexivity].
Qed.

Lemma head_fix_at p i x :
  i < length (children p) ->
  head_of (fix_at (hspec p) (length (children p)) i x) = slot_after (head_needed_in p i) (head_of x).
Proof.
  intros Hi.
  destruct p as [| | |m lo hi il ih| | | |k m ops|k m a| |]; try (simpl in Hi; lia); try reflexivity.
  - destruct i as [|[|i]]; [apply head_add_tail|apply head_add_head|simpl in Hi; lia].
  - destruct k; [exact (head_base_at _ _ _ Hi)|exact (head_base_at _ _ _ Hi)|apply head_unknown_at|
                 exact (head_base_at _ _ _ Hi)].
  - destruct i; [|simpl in Hi; lia]. destruct k; try reflexivity. apply head_add_head.
Qed.

Lemma tail_fix_at p i x :
  i < length (children p) ->
  tail_of (fix_at (hspec p) (length (children p)) i x) = slot_after (tail_needed_in p i) (tail_of x).
Proof.
  intros Hi.
  destruct p as [| | |m lo hi il ih| | | |k m ops|k m a| |]; try (simpl in Hi; lia); try reflexivity.
  - destruct i as [|[|i]]; [apply tail_add_tail|apply tail_add_head|simpl in Hi; lia].
  - destruct k; [exact (tail_base_at _ _ _ Hi)|exact (tail_base_at _ _ _ Hi)|exact (tail_unknown_at _ _ _ Hi)|
                 exact (tail_base_at _ _ _ Hi)].
  - destruct i; [|simpl in Hi; lia]. destruct k; try reflexivity. apply tail_add_head.
Qed.

Lemma children_add_head x : children (aht_add_head x) = children x.
Proof. unfold aht_add_head. destruct (is_empty (head_of x)); [apply children_set_meta|reflexivity]. Qed.
Lemma children_add_tail x : children (aht_add_tail x) = children x.
Proof. unfold aht_add_tail. destruct (is_empty (tail_of x)); [apply children_set_meta|reflexivity]. Qed.

Lemma children_fix_at h n i c : children (fix_at h n i c) = children c.
Proof.
  destruct h; simpl; unfold base_at, unknown_at, not_at, range_at;
    destruct (Nat.eqb i 0); destruct (Nat.eqb i (n - 1)); try destruct (Nat.leb 1 i && Nat.ltb i (n - 1));
    try destruct (Nat.ltb i (n - 1));
    repeat (rewrite children_add_head || rewrite children_add_tail); reflexivity.
Qed.

Lemma nth_error_mapi_from {A B} (g : nat -> A -> B) : forall l k i,
  nth_error (mapi_from k g l) i = option_map (g (k + i)) (nth_error l i).
Proof.
  induction l as [|x l IH]; intros k i; destruct i; simpl; try reflexivity.
  - rewrite Nat.add_0_r. reflexivity.
  - rewrite IH. replace (S k + i) with (k + S i) by lia. reflexivity.
Qed.

Lemma nth_children_daht p i c :
  nth_error (children p) i = Some c ->
  nth_error (children (daht p)) i = Some (fix_at (hspec p) (length (children p)) i (daht c)).
Proof.
  intros H. rewrite children_daht. unfold fixl, mapi. rewrite nth_error_mapi_from, map_length. simpl.
  rewrite (map_nth_error daht _ _ H). reflexivity.
Qed.

(* the node of the result at a position of the input has the children of the transformed input node *)
Lemma subtree_daht : forall q t p, subtree_at t q = Some p ->
  exists p', subtree_at (daht t) q = Some p' /\ children p' = children (daht p).
Proof.
  induction q as [|i q IH]; intros t p H; simpl in H.
  - inversion H; subst. exists (daht p). auto.
  - destruct (nth_error (children t) i) as [c|] eqn:Hc; [|discriminate].
    simpl. rewrite (nth_children_daht _ _ _ Hc).
    destruct q as [|j q].
    + simpl in H. inversion H; subst. eexists. split; [reflexivity|]. apply children_fix_at.
    + destruct (IH c p H) as [p' [Hp' Hch]]. exists p'. split; [|exact Hch].
      simpl. rewrite children_fix_at. exact Hp'.
Qed.

Lemma designated_root f t : ~ designated f t [].
Proof. intros [q0 [i [p [Hq _]]]]. destruct q0; discriminate. Qed.

Lemma designated_snoc f t q0 i p :
  subtree_at t q0 = Some p -> (designated f t (q0 ++ [i]) <-> f p i = true).
Proof.
  intros Hp. split.
  - intros [q1 [j [p1 [Hq [Hp1 Hf]]]]]. apply app_inj_tail in Hq. destruct Hq; subst. congruence.
  - intros Hf. exists q0, i, p. auto.
Qed.

(* every position of the input is a position of the result; its head (tail) is a blank when the rule
   designates the slot and it was empty, and is unchanged otherwise *)
Definition slots_as_designated (t t' : item) : Prop :=
  forall q n, subtree_at t q = Some n ->
    exists n', subtree_at t' q = Some n' /\
      (designated head_needed_in t q -> head_of n' = slot_after true (head_of n)) /\
      (~ designated head_needed_in t q -> head_of n' = head_of n) /\
      (designated tail_needed_in t q -> tail_of n' = slot_after true (tail_of n)) /\
      (~ designated tail_needed_in t q -> tail_of n' = tail_of n).

Theorem daht_slots t : slots_as_designated t (daht t).
Proof.
  intros q. destruct q as [|i0 q0 _] using rev_ind; intros n Hn.
  - simpl in Hn. inversion Hn; subst. exists (daht n). split; [reflexivity|].
    repeat split; intros H; try (exfalso; exact (designated_root _ _ H)); [apply head_daht|apply tail_daht].
  - rewrite subtree_at_app in Hn. destruct (subtree_at t q0) as [p|] eqn:Hp; [|discriminate].
    simpl in Hn. destruct (nth_error (children p) i0) as [c|] eqn:Hc; [|discriminate].
    inversion Hn; subst c; clear Hn.
    destruct (subtree_daht _ _ _ Hp) as [p' [Hp' Hch]].
    exists (fix_at (hspec p) (length (children p)) i0 (daht n)). split.
    + rewrite (subtree_at_snoc _ _ _ _ Hp'), Hch. apply nth_children_daht. exact Hc.
    + assert (Hi : i0 < length (children p)) by (apply nth_error_Some; congruence).
      rewrite (head_fix_at p i0 _ Hi), (tail_fix_at p i0 _ Hi), head_daht, tail_daht.
      rewrite !(designated_snoc _ _ _ _ _ Hp).
      repeat split; intros H.
      * rewrite H. reflexivity.
      * destruct (head_needed_in p i0); [congruence|reflexivity].
      * rewrite H. reflexivity.
      * destruct (tail_needed_in p i0); [congruence|reflexivity].
Qed.
