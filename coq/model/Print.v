(* Print.v — Item.__str__(head_tail) for every class.  Executable definitions only.
   Operator strings and bracket characters come from the generated tables. *)
Require Import Base Decimal Tree GenTree.

Definition op_str (c : cls) : str := match gen_op c with Some s => s | None => [] end.

Definition wrap (ht : bool) (m : meta) (v : str) : str :=
  if ht then m_head m ++ v ++ m_tail m else v.

Fixpoint print (ht : bool) (t : item) : str :=
  match t with
  | Term _ m v => wrap ht m v
  | SearchField m n e => wrap ht m (n ++ [c_colon] ++ print true e)
  | Grp _ m e => wrap ht m ([c_lparen] ++ print true e ++ [c_rparen])
  | Range m lo hi il ih =>
      wrap ht m (gen_low_char il ++ print true lo ++ s_TO ++ print true hi ++ gen_high_char ih)
  | Fuzzy m x d impl => wrap ht m (print true x ++ [c_tilde] ++ (if impl then [] else dec_to_fstr d))
  | Proximity m x d impl => wrap ht m (print true x ++ [c_tilde] ++ (if impl then [] else Z_to_str d))
  | Boost m e f impl => wrap ht m (print true e ++ [c_caret] ++ (if impl then [] else dec_to_fstr f))
  | Op k m ops => wrap ht m (join (op_str (cls_of_opk k)) (map (print true) ops))
  | Unary k m a => wrap ht m (op_str (cls_of_unk k) ++ print true a)
  | ORange k m a incl => wrap ht m (op_str (cls_of_ork k) ++ gen_openrange_char incl ++ print true a)
  | NoneItem _ => []      (* NoneItem.__str__ ignores head and tail *)
  end.
