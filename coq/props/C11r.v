(* C11r — the POSITIVE statement of C11 for UnknownOperationResolver (every target, the Lucene mode, any add_head) and
   OpenRangeTransformer (with and without merge_ranges, any add_head) — and for every other shipped transformer —
   under ONE executable guard on the transformer's OUTPUT, `Regen.regen_ok`.
   Only statements, `exact`-closed theorems (short glue), witnesses, non-vacuity examples and Print Assumptions.
   Guard: model/Regen.v.  Lemmas: proofs/ResolverRoundTripProofs.v.

   Clause of the property text (C11)                                     statement here
     "for any parsed query, after applying any shipped tree transformer,  C11_regen_statement            PROVED for ANY tree x with
      printing the result and parsing it again gives a tree with the       regen_ok x = true:  print true x  is accepted and the parsed
      same boolean meaning ... as the transformed tree"                    tree means what x means (`C11.reprints_same_meaning x`)
        implicit-operation resolution (AND / OR / Bool target, Lucene)    C11_resolve_partial_statement   = the clause, under the guard
        open-range conversion, with / without merging                     C11_openrange_partial_statement = the clause, under the guard
        resolve, then open ranges (the documented composition)            C11_resolve_open_partial_statement
        every shipped transformer                                          C11_shipped_partial_statement
     what happens in between                                               C11_regen_tokens_statement: the printed form has no lexical error,
                                                                           its (type, lexeme) sequence is `lexemes x` typed as each lexeme is
                                                                           typed standing alone, it is the yield of a well-formed syntax tree
                                                                           of the documented grammar that satisfies C03d's guard, and the tree
                                                                           the LR driver returns is the one the reference parser dictates

   The guard `regen_ok x = gshape x && scan_top (lexemes x) (print true x)` (model/Regen.v), component by component:
     levels        no operation of LOWER precedence directly under a higher one (OR / implicit under AND, implicit under OR,
                   any operation under NOT + - field: ^): what the resolver produces from `x OR y z`.      NEEDED: F10
                   C11r_levels_needed (the witnesses of C11.C11_resolve_and_refuted / _lucene_ / _or_refuted)
     no Bool       BoolOperation has no syntax.                                                              NEEDED: F10c
                   C11r_bool_needed
     scan          no lexeme of the printed form fuses with what follows it (local criterion `follow_ok`).  NEEDED: F10b, F1
                   C11r_scan_needed (`aAND (b)`; `-xT12:30`)
     node shapes   every node is what ONE grammar rule builds (Fuzzy on a word, ^ on a postfix expression, range bounds are
                   values ...), numerals read back as they print (`deg_ok` of C13r).  Parser-built trees and the outputs of
                   the shipped transformers always satisfy these (measured on every run by harness/c11.py: no generated
                   case fails them); they matter for the general theorem, which speaks of ANY tree: C11r_shape_needed
     not F4        in an implicit operation a signed operand does not follow an AND / OR operation: inherited from C03d
                   (on F4's inputs the LR tables do not follow the documented grammar).  Conservative: such inputs are
                   outside the guard although C11 holds of them (`a AND b -c` copied): C11r_f4_outside; validated only.
   An AND directly under an AND (the resolver makes one from `a b AND c`) is INSIDE the guard: it prints `a AND b AND c`,
   which is read flattened, with the same meaning (C11r_flatten_inside). *)
Require Import Base Decimal Tree TreeEq GenTree Eq EqSpec Print TreeInd GenParser Lexer Actions LR Parser Erase Grammar.
Require Import Traverse Resolver OpenRange AutoHeadTail Meaning Regen.
Require Import GrammarMoreProofs ResolverRoundTripProofs.
Require Import C11.

(* ---------------------------------------------------------------- statements *)

(* the general theorem: any tree inside the guard *)
Definition C11_regen_statement : Prop := forall x, regen_ok x = true -> reprints_same_meaning x.

(* ... with what happens in between *)
Definition C11_regen_tokens_statement : Prop :=
  forall x, regen_ok x = true ->
    snd (lex (print true x)) = None /\
    map tok_key (fst (lex (print true x))) = map (fun l => (ltype l, l)) (lexemes x) /\
    exists p t2,
      wfs p = true /\ f4free p = true /\ map tok_key (fst (lex (print true x))) = map tok_key (flq p) /\
      parse (print true x) = Some (Ok t2) /\ Erase.erase t2 = valq p /\
      spec_parse (map tok_key (fst (lex (print true x)))) = Some (Erase.erase t2) /\
      forall d v, Meaning.sem d v t2 = Meaning.sem d v x.

(* C11 for the resolver: every target (AND, OR, Bool), the Lucene-like mode (tg = None), ANY add_head *)
Definition C11_resolve_partial_statement : Prop :=
  forall s t tg ah t', parse s = Some (Ok t) -> valid_target tg = true -> resolve tg ah t = Some t' ->
    regen_ok t' = true -> reprints_same_meaning t'.

(* C11 for the open-range transformer: with and without merge_ranges, ANY add_head *)
Definition C11_openrange_partial_statement : Prop :=
  forall s t mg ah t', parse s = Some (Ok t) -> open_range mg ah t = Some t' ->
    regen_ok t' = true -> reprints_same_meaning t'.

(* the documented composition *)
Definition C11_resolve_open_partial_statement : Prop :=
  forall s t tg mg ah t', parse s = Some (Ok t) -> valid_target tg = true ->
    then_ (resolve tg ah) (open_range mg ah) t = Some t' -> regen_ok t' = true -> reprints_same_meaning t'.

(* every shipped transformer (C11.shipped) *)
Definition C11_shipped_partial_statement : Prop :=
  forall s t T t', parse s = Some (Ok t) -> shipped T -> T t = Some t' -> regen_ok t' = true ->
    reprints_same_meaning t'.

(* ---------------------------------------------------------------- theorems *)

Theorem C11_regen : C11_regen_statement.
Proof.
  intros x H. destruct (regen_parse x H) as [_ [_ [_ [_ [t2 [Hp [_ [_ Hs]]]]]]]].
  exists t2. split; [exact Hp|exact Hs].
Qed.

Theorem C11_regen_tokens : C11_regen_tokens_statement.
Proof.
  intros x H. destruct (regen_parse x H) as [He [Hk [W [F [t2 [Hp [Hv [Hsp Hs]]]]]]]].
  split; [exact He|].
  assert (H' := H). unfold regen_ok in H'. apply andb_true_iff in H'. destruct H' as [_ Hsc].
  split; [exact (proj1 (scan_top_lex _ _ Hsc))|].
  exists (qsyn x), t2. split; [exact W|]. split; [exact F|]. split; [exact Hk|]. split; [exact Hp|].
  split; [exact Hv|]. split; [exact Hsp|exact Hs].
Qed.

Theorem C11_resolve_partial : C11_resolve_partial_statement.
Proof. intros s t tg ah t' _ _ _ H. exact (C11_regen t' H). Qed.

Theorem C11_openrange_partial : C11_openrange_partial_statement.
Proof. intros s t mg ah t' _ _ H. exact (C11_regen t' H). Qed.

Theorem C11_resolve_open_partial : C11_resolve_open_partial_statement.
Proof. intros s t tg mg ah t' _ _ _ H. exact (C11_regen t' H). Qed.

Theorem C11_shipped_partial : C11_shipped_partial_statement.
Proof. intros s t T t' _ _ _ H. exact (C11_regen t' H). Qed.

(* ---------------------------------------------------------------- the guard is needed, component by component *)
(* conjunctions only are split (never an equation) *)
Ltac conj_vm := repeat match goal with |- _ /\ _ => split end; vm_compute; reflexivity.

(* what the executable statement says of a query under a transformer, with the two halves of the guard *)
Definition judge (T : tname) (s : str) : option (bool * bool * verdict) :=
  match parse s with
  | Some (Ok t) =>
      match run_t T t with
      | Some t' => Some (gshape t', scan_top (lexemes t') (print true t'), c11_verdict T t)
      | None => None
      end
  | _ => None
  end.

(* levels (F10): `x OR y z` resolved to AND (or in the Lucene mode) is And(Or(x,y), z); `a AND b -c` resolved to OR
   is And(a, Or(b, -c)): the shape fails, the lexemes are fine, the meanings differ *)
Example C11r_levels_needed :
  judge (TResolve (Some KAnd) blank) f10_query = Some (false, true, VDiffer) /\
  judge (TResolve None blank) f10_query = Some (false, true, VDiffer) /\
  judge (TResolve (Some KOr) blank) f10_or_query = Some (false, true, VDiffer) /\
  (exists t t', parse f10_query = Some (Ok t) /\ resolve (Some KAnd) blank t = Some t' /\
                lower_under_higher t' = true /\ has_bool t' = false).
Proof.
  split; [vm_compute; reflexivity|]. split; [vm_compute; reflexivity|]. split; [vm_compute; reflexivity|].
  eexists. eexists. split; [vm_compute; reflexivity|]. split; [vm_compute; reflexivity|]. conj_vm.
Qed.

(* no Bool (F10c): `a b` resolved to BoolOperation *)
Example C11r_bool_needed :
  judge (TResolve (Some KBool) blank) f10c_query = Some (false, true, VDiffer) /\
  (exists t t', parse f10c_query = Some (Ok t) /\ resolve (Some KBool) blank t = Some t' /\
                has_bool t' = true /\ lower_under_higher t' = false).
Proof.
  split; [vm_compute; reflexivity|].
  eexists. eexists. split; [vm_compute; reflexivity|]. split; [vm_compute; reflexivity|]. conj_vm.
Qed.

(* scan (F10b): `a(b)` resolved prints `aAND (b)`: the shape is fine, the word `a` is followed by `A`;
   (F1's consequence): `-xT12 :30` copied prints `-xT12:30`: after `xT12` the colon starts a time *)
Example C11r_scan_needed :
  judge (TResolve (Some KAnd) blank) f10b_query = Some (true, false, VDiffer) /\
  judge (TResolve (Some KOr) blank) f10b_query = Some (true, false, VDiffer) /\
  judge (TResolve None blank) f10b_query = Some (true, false, VDiffer) /\
  judge TCopy f1_query = Some (true, false, VDiffer) /\
  judge (TOpenRange true blank) f1_query = Some (true, false, VDiffer) /\
  follow_ok [97]%N [65;78;68;32;40;98;41]%N = false /\                       (* a | AND (b) *)
  follow_ok [120;84;49;50]%N [58;51;48]%N = false /\                         (* xT12 | :30 *)
  follow_ok [120;84;49]%N [58;51;48]%N = true.                               (* xT1 | :30 *)
Proof. conj_vm. Qed.

(* node shapes (hand-built trees: the parser and the transformers never build them): Boost(Or(a, b), 2) prints
   `a OR b^2` = Or(a, Boost(b, 2)); Not(Unknown(a, b)) prints `NOT a b` = Unknown(Not a, b); Fuzzy(a, -1) prints
   `a~-1` = Unknown(Fuzzy(a), -1): each is outside the guard and fails the conclusion *)
Definition wa := Term KWord meta0 [97]%N.
Definition wb := Term KWord (mkMeta None None [32]%N [] None) [98]%N.
Definition shape_boost : item := Boost meta0 (Op KOr meta0 [set_tail wa [32]%N; wb]) (mkDec false 2 0) false.
Definition shape_not : item := Unary KNot meta0 (Op KUnknown meta0 [set_head wa [32]%N; wb]).
Definition shape_fuzzy : item := Fuzzy meta0 wa (mkDec true 1 0) false.
Definition differs (x : item) : bool :=
  match parse (print true x) with Some (Ok t2) => negb (meaning_eqb t2 x) | _ => true end.
Example C11r_shape_needed :
  (gshape shape_boost = false /\ differs shape_boost = true) /\
  (gshape shape_not = false /\ differs shape_not = true) /\
  (gshape shape_fuzzy = false /\ differs shape_fuzzy = true).
Proof. conj_vm. Qed.

(* without the guard the general statement is false (and so is each transformer's: C11.C11_every_transformer_refuted) *)
Definition C11_regen_unguarded_statement : Prop := forall x, reprints_same_meaning x.
Theorem C11_regen_unguarded_refuted : ~ C11_regen_unguarded_statement.
Proof.
  intros H. destruct (H shape_not) as [t2 [Hp Hs]].
  vm_compute in Hp. inversion Hp; subst. specialize (Hs true (val_of (@nil atom))). vm_compute in Hs. discriminate.
Qed.

(* not F4: `a AND b -c` is And(a, Unknown(b, -c)) (F4); its default copy prints the query again and re-parses to the
   same tree, yet it is outside the guard: an implicit operation sits under an AND.  Resolved to AND it becomes
   And(a, And(b, -c)), which is inside *)
Definition f4_q : str := [97;32;65;78;68;32;98;32;45;99]%N.
Example C11r_f4_outside :
  judge TCopy f4_q = Some (false, true, VSame) /\
  judge (TOpenRange false blank) f4_q = Some (false, true, VSame) /\
  judge (TResolve (Some KAnd) blank) f4_q = Some (true, true, VSame).
Proof. conj_vm. Qed.

(* ---------------------------------------------------------------- non-vacuity *)

(* what the theorem gives for a query under a transformer: guard true, and hence the conclusion *)
Definition covered (T : tname) (s : str) : Prop :=
  exists t t', parse s = Some (Ok t) /\ run_t T t = Some t' /\ regen_ok t' = true /\ print true t' <> s /\
               reprints_same_meaning t'.
Ltac cover :=
  eexists; eexists; split; [vm_compute; reflexivity|]; split; [vm_compute; reflexivity|];
  match goal with |- regen_ok ?x = true /\ _ =>
    let H := fresh "H" in
    assert (H : regen_ok x = true) by (vm_compute; reflexivity);
    split; [exact H|]; split; [vm_compute; discriminate|exact (C11_regen x H)]
  end.

(* f:(a b) (c OR d) "e f"~2 [1 TO 2] g^2   — a field group, a group over OR, a proximity, a range, a boost *)
Definition ex_res1 : str :=
  [102;58;40;97;32;98;41;32;40;99;32;79;82;32;100;41;32;34;101;32;102;34;126;50;32;91;49;32;84;79;32;50;93;32;103;94;50]%N.
(* (a)(b) "c"(d) /r/ x   — operands that touch, none of them read by the TERM rule: `(a)AND (b) AND "c"AND (d) ...` *)
Definition ex_res3 : str := [40;97;41;40;98;41;32;34;99;34;40;100;41;32;47;114;47;32;120]%N.
(* a OR b (c d) NOT e -f *)
Definition ex_res4 : str := [97;32;79;82;32;98;32;40;99;32;100;41;32;78;79;84;32;101;32;45;102]%N.
(* a b AND c *)
Definition ex_res2 : str := [97;32;98;32;65;78;68;32;99]%N.
(* f:a AND (b c) *)
Definition ex_res5 : str := [102;58;97;32;65;78;68;32;40;98;32;99;41]%N.

Example C11r_resolve_and_nonvacuous :
  covered (TResolve (Some KAnd) blank) ex_res1 /\ covered (TResolve (Some KAnd) blank) ex_res3 /\
  covered (TResolve (Some KAnd) blank) ex_res5.
Proof. split; [cover|]. split; cover. Qed.

Example C11r_resolve_or_nonvacuous :
  covered (TResolve (Some KOr) blank) ex_res1 /\ covered (TResolve (Some KOr) blank) ex_res3 /\
  covered (TResolve (Some KOr) blank) ex_res4 /\ covered (TResolve (Some KOr) blank) f10_query.
Proof. split; [cover|]. split; [cover|]. split; cover. Qed.

(* the Lucene mode: the group of ex_res5 is resolved with the default AND, the top level of ex_res1 too *)
Example C11r_resolve_lucene_nonvacuous :
  covered (TResolve None blank) ex_res1 /\ covered (TResolve None blank) ex_res5.
Proof. split; cover. Qed.

(* the printed outputs, for the reader *)
Example C11r_resolve_prints :
  (match parse ex_res3 with Some (Ok t) => option_map (print true) (resolve (Some KAnd) blank t) | _ => None end)
  = Some [40;97;41;65;78;68;32;40;98;41;32;65;78;68;32;34;99;34;65;78;68;32;40;100;41;32;65;78;68;32;47;114;47;32;
          65;78;68;32;120]%N.                         (* (a)AND (b) AND "c"AND (d) AND /r/ AND x *)
Proof. vm_compute. reflexivity. Qed.

(* AND under AND: `a b AND c` resolved to AND is And(a, And(b, c)), prints `a AND b AND c`, read as And(a, b, c):
   inside the guard, the re-parsed tree is NOT the transformed one (not even up to layout) and means the same *)
Example C11r_flatten_inside :
  covered (TResolve (Some KAnd) blank) ex_res2 /\
  (exists t t' t2, parse ex_res2 = Some (Ok t) /\ resolve (Some KAnd) blank t = Some t' /\
                   parse (print true t') = Some (Ok t2) /\ item_eqb t2 t' = false /\ meaning_eqb t2 t' = true).
Proof.
  split; [cover|]. eexists. eexists. eexists.
  split; [vm_compute; reflexivity|]. split; [vm_compute; reflexivity|]. split; [vm_compute; reflexivity|]. conj_vm.
Qed.

(* >=1 AND <5 x:>"a b" -<=2 (>3)^2   — comparisons as operands of AND, under a field, a sign, a boosted group *)
Definition ex_or1 : str :=
  [62;61;49;32;65;78;68;32;60;53;32;120;58;62;34;97;32;98;34;32;45;60;61;50;32;40;62;51;41;94;50]%N.

Example C11r_openrange_nonvacuous :
  covered (TOpenRange false blank) ex_or1 /\ covered (TOpenRange true blank) ex_or1 /\
  covered (TResolveOpen (Some KAnd) true blank) ex_or1 /\ covered (TResolveOpen None false blank) ex_or1.
Proof. split; [cover|]. split; [cover|]. split; cover. Qed.

Example C11r_openrange_prints :
  (match parse ex_or1 with Some (Ok t) => option_map (print true) (open_range true blank t) | _ => None end)
  = Some [91;49;32;32;84;79;32;53;32;125;120;58;123;34;97;32;98;34;32;32;84;79;32;42;93;45;91;42;32;84;79;32;50;32;93;
          40;123;51;32;84;79;32;42;93;41;94;50]%N.    (* [1  TO 5 }x:{"a b"  TO *]-[* TO 2 ]({3 TO *])^2 *)
Proof. vm_compute. reflexivity. Qed.

(* the other shipped transformers are covered by the same theorem, without C01's guard: the copy and auto_head_tail
   of C11p.ex_tight2-like queries *)
Example C11r_copy_aht_nonvacuous :
  (exists t t', parse ex_res1 = Some (Ok t) /\ copy t = Some t' /\ regen_ok t' = true) /\
  covered TAht ex_res3.
Proof.
  split; [|cover]. eexists. eexists. split; [vm_compute; reflexivity|]. split; [vm_compute; reflexivity|].
  vm_compute. reflexivity.
Qed.

(* the guard's witnesses are outside, the hypotheses of the statements hold of the examples *)
Example C11r_statement_hypotheses :
  shipped (run_t (TResolve (Some KOr) blank)) /\ shipped (run_t (TOpenRange true blank)) /\
  valid_target (Some KOr) = true /\ valid_target None = true.
Proof. split; [apply sh_resolve; reflexivity|]. split; [apply sh_open_range|]. split; reflexivity. Qed.

Print Assumptions C11_regen.
Print Assumptions C11_regen_tokens.
Print Assumptions C11_resolve_partial.
Print Assumptions C11_openrange_partial.
Print Assumptions C11_resolve_open_partial.
Print Assumptions C11_shipped_partial.
Print Assumptions C11_regen_unguarded_refuted.
