(* AhtRoundTripMoreProofs.v — the C13 round trip `parse (print (auto_head_tail t)) == t` for the guard
   `AhtRoundTripMore.rt_ok2` = `AhtRoundTrip.rt_ok` + bracketed ranges + signed operands in juxtaposition
   outside F4 (props/C13x.v).

   Same route as AhtRoundTripProofs.v, whose lexer half (sections A, B: one token in a new context, chains of
   tokens built from the right), printed forms (D) and guard lemmas (E) are imported and reused as they are:

     t  --auto_head_tail-->  daht t  --print-->  text  --lexer-->  tokens  --LR driver-->  tree

   What is new here:
     A'  the four bracket tokens; a TERM-rule lexeme in front of `]` / `}` (the upper bound of a range);
         the chain of a range bound (value or `-` value) in front of ` TO` and in front of the closing bracket;
     C'  `synq t`: the syntax tree as a `GrammarMoreProofs.qtree` (ptree + QRange);
     F'  `CH2_all`: print (daht t) followed by any closing context IS the chain of `flq (synq t)`;
     G'  `WF2_all`: `synq t` is well-formed (`wfs`: level discipline and numerals, NO restriction on signs), its
         value is t without layout, and it satisfies C03d's guard `f4free` — from `f4_adjacent ops = false` at
         every implicit operation, i.e. from not-F4 alone;
     H'  `rt2_syntax`: the summary used by props/C13x.v, which concludes with C03d_grammar_trees_parse;
     I'  `rt_ok_rt_ok2`: the old guard implies the new one;
     J'  `rt2_no_f4`: inside the guard C13.v's predicate of finding F4 is false. *)
Require Import Base Decimal Tree GenTree GenVisitors GenChars GenParser Visitor Eq Traverse Print Lexer Actions LR Parser Erase Grammar Respace.
Require Import AutoHeadTail AhtRoundTrip AhtRoundTripMore.
Require Import TreeInd EqProofs LexerProofs RespaceProofs AutoHeadTailProofs PrecedenceProofs PrecedenceGeneral.
Require Import GrammarMoreProofs.
Require Import AhtRoundTripProofs.
From Coq Require Import Lia.

Local Arguments is_space : simpl never.
Local Arguments is_udigit : simpl never.
Local Arguments is_numchar : simpl never.
Local Arguments term_follow_char : simpl never.
Local Arguments term_first_char : simpl never.
Local Arguments term_step : simpl never.
Local Arguments lex_term : simpl never.
Local Arguments lex_one : simpl never.
Local Arguments lex_delimited : simpl never.
Local Arguments dec_to_fstr : simpl never.
Local Arguments Z_to_str : simpl never.
Local Arguments dec_of_lexeme : simpl never.
Local Arguments int_of_lexeme : simpl never.
Local Arguments dec_normalize : simpl never.

(* `tk` is AhtRoundTripProofs.tk (imported last; GrammarMoreProofs has another `tk`) *)

(* ================================================================ A'. brackets; a word in front of a closing bracket *)

(* what follows a range bound: a blank (before TO) or the closing bracket *)
Definition closer2 (c : char) : bool := closer c || mem_N c [c_rbrack; c_rbrace].
Definition closes2 (x : str) : Prop := match x with [] => True | c :: _ => closer2 c = true end.

Lemma closer2_props c : closer2 c = true ->
  term_follow_char c = false /\ N.eqb c c_bslash = false /\ N.eqb c c_colon = false /\ is_udigit c = false.
Proof.
  unfold closer2. intros H. apply orb_true_iff in H. destruct H as [H|H].
  - destruct (closer_props c H) as [H1 [H2 [H3 [H4 _]]]]. auto.
  - simpl in H. repeat (apply orb_true_iff in H; destruct H as [H|H]);
      try discriminate; apply N.eqb_eq in H; subst c; repeat split; reflexivity.
Qed.

Lemma term_step_closes2 rp x : closes2 x -> term_step rp x = None.
Proof.
  destruct x as [|c x]; [reflexivity|]. simpl. intros H.
  destruct (closer2_props c H) as [H1 [H2 [H3 _]]]. unfold term_step. rewrite H1, H2, H3. reflexivity.
Qed.

Lemma closes2_la_stop x : closes2 x -> la_stop x.
Proof.
  destruct x as [|c x]; [auto|]. simpl. intros H.
  destruct (closer2_props c H) as [_ [_ [H3 H4]]]. auto.
Qed.

(* K-term, in front of a blank or a closing bracket *)
Lemma lex_one_term_ctx2 rp l x : lex_term [] l = Some (l, []) -> safe rp -> closes2 x ->
  lex_one rp (l ++ x) = Some (RTok (rtype l), l, x).
Proof.
  intros H Hs Hx. apply lex_one_of_term; [intros E; subst l; discriminate H|].
  apply lex_term_ctx; [exact H|exact Hs| |apply term_step_closes2; exact Hx].
  right. apply tm2_app_stop. apply closes2_la_stop. exact Hx.
Qed.

Lemma CHN_term2 l w s2 ts :
  lex_term [] l = Some (l, []) -> all_space w = true -> closes2 (w ++ s2) -> CHN s2 ts ->
  CHN (l ++ w ++ s2) (tk (rtype l) l w :: ts).
Proof.
  intros H Hw Hx Hch. apply CHN_cons; [|exact Hw|exact Hch].
  intros rp Hs. destruct (lex_term_starts l (w ++ s2) rp H) as [y Hy].
  apply lex_one_term_ctx2; [exact H|exact (Hs y Hy)|exact Hx].
Qed.

(* K-bracket: [ { ] } are one-character tokens whatever precedes and follows; the characters are the ones the
   printer writes for the two inclusiveness flags (generated tables) *)
Lemma lex_one_lbracket rp b s : lex_one rp (gen_low_char b ++ s) = Some (RTok T_LBRACKET, gen_low_char b, s).
Proof. destruct b; reflexivity. Qed.
Lemma lex_one_rbracket rp b s : lex_one rp (gen_high_char b ++ s) = Some (RTok T_RBRACKET, gen_high_char b, s).
Proof. destruct b; reflexivity. Qed.

Lemma closes2_SP x : closes2 (SP ++ x).
Proof. reflexivity. Qed.
Lemma closes2_high b x : closes2 ([] ++ gen_high_char b ++ x).
Proof. destruct b; reflexivity. Qed.

(* ---- a range bound: phrase_or_term, or `-` phrase_or_term *)
Lemma leaf_val_inv a : leaf_val a = true ->
  exists m v, meta_free m = true /\
    ((a = Term KWord m v /\ lex_term [] v = Some (v, []) /\ rtype v = T_TERM) \/
     (a = Term KPhrase m v /\ lex_delimited c_quote v = Some (v, []))).
Proof.
  unfold leaf_val. intros H. apply orb_true_iff in H. destruct H as [H|H].
  - destruct (leaf_word_inv _ H) as [m [v [-> [Hm [Hl Ht]]]]]. exists m, v. auto.
  - destruct (leaf_phrase_inv _ H) as [m [v [-> [Hm Hl]]]]. exists m, v. auto.
Qed.

(* the syntax of a bound, w on its last token *)
Definition bnd_of (b : item) (w : str) : bnd :=
  match b with
  | Unary KProhibit _ a => BNeg (tk T_MINUS (op_str CProhibit) []) (add_tail (leaf_tok a) w)
  | _ => BVal (add_tail (leaf_tok b) w)
  end.

Lemma bound2_inv b : bound2 b = true ->
  (leaf_val b = true /\ forall w, bnd_of b w = BVal (add_tail (leaf_tok b) w)) \/
  (exists m a, b = Unary KProhibit m a /\ meta_free m = true /\ leaf_val a = true).
Proof.
  destruct b as [| | | | | | | |[] m a| |]; cbn [bound2]; intros H; try (left; split; [exact H|reflexivity]).
  apply andb_true_iff in H. right. exists m, a. split; [reflexivity|exact H].
Qed.

Lemma leaf_val_chain a : leaf_val a = true ->
  print true (daht a) <> [] /\
  forall w x ts2, all_space w = true -> closes2 (w ++ x) -> CHN x ts2 ->
    CHN (print true (daht a) ++ w ++ x) (add_tail (leaf_tok a) w :: ts2).
Proof.
  intros H. destruct (leaf_val_inv _ H) as [m [v [Hm [[-> [Hl Ht]]|[-> Hl]]]]].
  - change (print true (daht (Term KWord m v))) with (wrap true (clone_meta m) v). rewrite (wrap_free _ _ Hm).
    split; [intros E; subst v; discriminate Hl|].
    intros w x ts2 Hw Hx Hch. cbn [leaf_tok]. rewrite add_tail_tk, <- Ht. apply CHN_term2; assumption.
  - change (print true (daht (Term KPhrase m v))) with (wrap true (clone_meta m) v). rewrite (wrap_free _ _ Hm).
    split; [intros E; subst v; discriminate Hl|].
    intros w x ts2 Hw Hx Hch. cbn [leaf_tok]. rewrite add_tail_tk.
    apply CHN_cons; [intros rp _; apply lex_one_phrase_ctx; exact Hl|exact Hw|exact Hch].
Qed.

Lemma leaf_val_sem a w : leaf_val a = true ->
  is_value_tok (tk_type (add_tail (leaf_tok a) w)) = true /\ atom_item (add_tail (leaf_tok a) w) = erase a /\
  meta_free (meta_of a) = true /\ nn a = true /\ aht_defined a = true.
Proof.
  intros H. destruct (leaf_val_inv _ H) as [m [v [Hm [[-> _]|[-> _]]]]]; repeat split; try reflexivity; exact Hm.
Qed.

Lemma bound2_bare b : bound2 b = true -> bare (daht b) /\ aht_defined b = true.
Proof.
  intros H. assert (Hm : meta_free (meta_of b) = true /\ nn b = true /\ aht_defined b = true).
  { destruct (bound2_inv _ H) as [[Hl _]|[m [a [-> [Hm Hl]]]]].
    - destruct (leaf_val_sem b [] Hl) as [_ [_ Hx]]. exact Hx.
    - destruct (leaf_val_sem a [] Hl) as [_ [_ [_ [_ Hd]]]]. split; [exact Hm|]. split; [reflexivity|].
      unfold aht_defined in *. cbn [every_node]. rewrite Hd. reflexivity. }
  destruct Hm as [Hm [Hn Hd]]. apply meta_free_ht in Hm. destruct Hm as [Hh Ht].
  split; [|exact Hd]. split; [rewrite head_daht; exact Hh|]. split; [rewrite tail_daht; exact Ht|].
  rewrite nn_daht. exact Hn.
Qed.

(* the printed bound followed by a blank or by the closing bracket is the chain of its one or two tokens *)
Lemma bound2_chain b : bound2 b = true ->
  forall w x ts2, all_space w = true -> closes2 (w ++ x) -> CHN x ts2 ->
    CHN (print true (daht b) ++ w ++ x) (flb (bnd_of b w) ++ ts2).
Proof.
  intros H w x ts2 Hw Hx Hch. destruct (bound2_inv _ H) as [[Hl Hb]|[m [a [-> [Hm Hl]]]]].
  - rewrite Hb. cbn [flb app]. apply (proj2 (leaf_val_chain b Hl)); assumption.
  - change (print true (daht (Unary KProhibit m a)))
      with (wrap true (clone_meta m) (op_str CProhibit ++ print true (daht a))). rewrite (wrap_free _ _ Hm).
    cbn [bnd_of flb app]. rewrite <- !app_assoc.
    apply (CHN_cons T_MINUS (op_str CProhibit) [] _ _); [intros rp _; apply lex_one_punct; simpl; tauto|reflexivity|].
    apply (proj2 (leaf_val_chain a Hl)); assumption.
Qed.

Lemma bound2_sem b w : bound2 b = true -> wfbnd (bnd_of b w) = true /\ bval (bnd_of b w) = erase b.
Proof.
  intros H. destruct (bound2_inv _ H) as [[Hl Hb]|[m [a [-> [Hm Hl]]]]].
  - rewrite Hb. destruct (leaf_val_sem b w Hl) as [H1 [H2 _]]. split; [exact H1|exact H2].
  - destruct (leaf_val_sem a w Hl) as [H1 [H2 _]]. cbn [bnd_of wfbnd bval]. split.
    + rewrite H1. reflexivity.
    + rewrite H2. reflexivity.
Qed.

(* the chain of a printed range *)
Lemma CHN_range il ih lo hi w x ts2 : bound2 lo = true -> bound2 hi = true ->
  all_space w = true -> CHN x ts2 ->
  CHN ((gen_low_char il ++ (print true (daht lo) ++ SP) ++ s_TO ++ (SP ++ print true (daht hi)) ++ gen_high_char ih) ++ w ++ x)
      ((tk T_LBRACKET (gen_low_char il) [] :: flb (bnd_of lo SP) ++
        tk T_TO s_TO SP :: flb (bnd_of hi []) ++ [tk T_RBRACKET (gen_high_char ih) w]) ++ ts2).
Proof.
  intros Hlo Hhi Hw Hch.
  replace ((gen_low_char il ++ (print true (daht lo) ++ SP) ++ s_TO ++ (SP ++ print true (daht hi)) ++ gen_high_char ih) ++ w ++ x)
    with (gen_low_char il ++ [] ++ (print true (daht lo) ++ SP ++
            (s_TO ++ SP ++ (print true (daht hi) ++ [] ++ (gen_high_char ih ++ w ++ x)))))
    by (rewrite <- !app_assoc; reflexivity).
  replace ((tk T_LBRACKET (gen_low_char il) [] :: flb (bnd_of lo SP) ++
            tk T_TO s_TO SP :: flb (bnd_of hi []) ++ [tk T_RBRACKET (gen_high_char ih) w]) ++ ts2)
    with (tk T_LBRACKET (gen_low_char il) [] :: flb (bnd_of lo SP) ++
            (tk T_TO s_TO SP :: flb (bnd_of hi []) ++ (tk T_RBRACKET (gen_high_char ih) w :: ts2)))
    by (cbn [app]; rewrite <- !app_assoc; cbn [app]; rewrite <- !app_assoc; reflexivity).
  apply (CHN_cons T_LBRACKET (gen_low_char il) [] _ _); [intros rp _; apply lex_one_lbracket|reflexivity|].
  apply (bound2_chain lo Hlo); [reflexivity|apply closes2_SP|].
  refine (CHN_term s_TO SP _ _ eq_refl eq_refl (closes_SP _) _).
  apply (bound2_chain hi Hhi); [reflexivity|apply closes2_high|].
  apply (CHN_cons T_RBRACKET (gen_high_char ih) w _ _); [intros rp _; apply lex_one_rbracket|exact Hw|exact Hch].
Qed.

(* ================================================================ C'. the syntax tree of a tree, as a qtree *)

(* w appended to the tail of the last token *)
Fixpoint qtail (p : qtree) (w : str) : qtree :=
  match p with
  | QAtom t => QAtom (add_tail t w)
  | QApprox t a => QApprox t (add_tail a w)
  | QBoost p b => QBoost p (add_tail b w)
  | QNot n p => QNot n (qtail p w)
  | QField nm col p => QField nm col (qtail p w)
  | QGroup l q r => QGroup l q (add_tail r w)
  | QAnd a o b => QAnd a o (qtail b w)
  | QOr a o b => QOr a o (qtail b w)
  | QJuxt a b => QJuxt a (qtail b w)
  | QSign sg p => QSign sg (qtail p w)
  | QTo t => QTo (add_tail t w)
  | QOpen o v => QOpen o (add_tail v w)
  | QRange l lo t hi r => QRange l lo t hi (add_tail r w)
  end.
(* one more operand: the phrase so far gets a blank, then the operator word and a blank *)
Definition mk_opq (k : opk) (a b : qtree) : qtree :=
  match k with
  | KAnd => QAnd (qtail a SP) (tk T_AND_OP (op_str CAndOperation) SP) b
  | KOr => QOr (qtail a SP) (tk T_OR_OP (op_str COrOperation) SP) b
  | _ => QJuxt (qtail a SP) b
  end.

Definition synq_fold (f : item -> qtree) (k : opk) := fix go (acc : qtree) (l : list item) : qtree :=
  match l with [] => acc | x :: r => go (mk_opq k acc (f x)) r end.

Definition qdummy : qtree := QAtom (tk T_EOF [] []).

(* the syntax tree whose yield is the token list of print (auto_head_tail t), blanks included *)
Fixpoint synq (t : item) : qtree :=
  match t with
  | Term KWord _ v => if str_eqb v s_TO then QTo (tk T_TO v []) else QAtom (tk T_TERM v [])
  | Term _ _ _ => QAtom (leaf_tok t)
  | SearchField _ n e => QField (tk T_TERM n []) (tk T_COLUMN [c_colon] []) (synq e)
  | Grp _ _ e => QGroup (tk T_LPAREN [c_lparen] []) (synq e) (tk T_RPAREN [c_rparen] [])
  | Fuzzy _ x d impl => QApprox (leaf_tok x) (tk T_APPROX (c_tilde :: (if impl then [] else dec_to_fstr d)) [])
  | Proximity _ x z impl => QApprox (leaf_tok x) (tk T_APPROX (c_tilde :: (if impl then [] else Z_to_str z)) [])
  | Boost _ e f impl => QBoost (synq e) (tk T_BOOST (c_caret :: (if impl then [] else dec_to_fstr f)) [])
  | Unary KNot _ a => QNot (tk T_NOT (op_str CNot) SP) (synq a)
  | Unary KPlus _ a => QSign (tk T_PLUS (op_str CPlus) []) (synq a)
  | Unary KProhibit _ a => QSign (tk T_MINUS (op_str CProhibit) []) (synq a)
  | ORange k _ a incl => QOpen (open_tok k incl) (leaf_tok a)
  | Range _ lo hi il ih =>
      QRange (tk T_LBRACKET (gen_low_char il) []) (bnd_of lo SP) (tk T_TO s_TO SP) (bnd_of hi [])
             (tk T_RBRACKET (gen_high_char ih) [])
  | Op k _ (c :: r) => synq_fold synq k (synq c) r
  | _ => qdummy
  end.

(* ---- qtail changes tails only *)
Lemma qtail_nil : forall p, qtail p [] = p.
Proof. induction p; simpl; rewrite ?add_tail_nil, ?IHp, ?IHp1, ?IHp2; reflexivity. Qed.

Lemma lvl_qtail p w : lvq (qtail p w) = lvq p.
Proof. destruct p; reflexivity. Qed.

Lemma signed_qtail : forall p w, sgq (qtail p w) = sgq p.
Proof. induction p; intros w; simpl; auto. Qed.

Lemma semof_qtail : forall p w, semq (qtail p w) = semq p.
Proof.
  induction p; intros w; simpl; rewrite ?IHp, ?IHp1, ?IHp2; try reflexivity.
Qed.

Lemma wfb_qtail : forall p w, wfs (qtail p w) = wfs p.
Proof.
  induction p; intros w; simpl; rewrite ?lvl_qtail, ?signed_qtail, ?IHp, ?IHp1, ?IHp2; try reflexivity.
Qed.

Lemma flq_qtail_app : forall p w, exists ts t, flq p = ts ++ [t] /\ flq (qtail p w) = ts ++ [add_tail t w].
Proof.
  induction p; intros w; simpl.
  - exists [], t. auto.
  - exists [t], a. auto.
  - exists (flq p), b. auto.
  - destruct (IHp w) as [ts [t [E1 E2]]]. exists (n :: ts), t. rewrite E1, E2. auto.
  - destruct (IHp w) as [ts [t [E1 E2]]]. exists (name :: col :: ts), t. rewrite E1, E2. auto.
  - exists (l :: flq p), r. auto.
  - destruct (IHp2 w) as [ts [t [E1 E2]]]. exists (flq p1 ++ o :: ts), t. rewrite E1, E2, <- !app_assoc. auto.
  - destruct (IHp2 w) as [ts [t [E1 E2]]]. exists (flq p1 ++ o :: ts), t. rewrite E1, E2, <- !app_assoc. auto.
  - destruct (IHp2 w) as [ts [t [E1 E2]]]. exists (flq p1 ++ ts), t. rewrite E1, E2, <- !app_assoc. auto.
  - destruct (IHp w) as [ts [t [E1 E2]]]. exists (sg :: ts), t. rewrite E1, E2. auto.
  - exists [], t. auto.
  - exists [o], v. auto.
  - exists (l :: flb lo ++ t :: flb hi), r. split; simpl; rewrite <- app_assoc; reflexivity.
Qed.

Lemma keys_qtail p w : map tok_key (flq (qtail p w)) = map tok_key (flq p).
Proof.
  destruct (flq_qtail_app p w) as [ts [t [E1 E2]]]. rewrite E1, E2, !map_app. reflexivity.
Qed.
(* ================================================================ F'. the chain of a printed tree *)

(* the text P followed by the blank w and the text x is the token chain of the syntax tree p (w on its last
   token) followed by the chain of x, whenever w ++ x starts with a closer or is empty *)
Definition CHq (P : str) (p : qtree) : Prop :=
  forall w x ts2, all_space w = true -> closes (w ++ x) -> CHN x ts2 ->
    CHN (P ++ w ++ x) (flq (qtail p w) ++ ts2).
Definition CH2 (t : item) : Prop := CHq (print true (daht t)) (synq t).
Lemma CHq_mk_op k Pa a c : k <> KBool -> CHq Pa a -> CH2 c ->
  CHq (Pa ++ sepstr k ++ print true (daht c)) (mk_opq k a (synq c)).
Proof.
  intros Hk Ha Hc w x ts2 Hw Hx Hch. specialize (Hc w x ts2 Hw Hx Hch).
  destruct k; [| | |congruence]; cbn [mk_opq sepstr qtail flq cls_of_opk].
  - replace ((Pa ++ (SP ++ op_str CAndOperation ++ SP) ++ print true (daht c)) ++ w ++ x)
      with (Pa ++ SP ++ (op_str CAndOperation ++ SP ++ (print true (daht c) ++ w ++ x)))
      by (rewrite <- !app_assoc; reflexivity).
    rewrite <- app_assoc. cbn [app].
    apply Ha; [reflexivity|apply closes_SP|].
    exact (CHN_term (op_str CAndOperation) SP _ _ eq_refl eq_refl (closes_SP _) Hc).
  - replace ((Pa ++ (SP ++ op_str COrOperation ++ SP) ++ print true (daht c)) ++ w ++ x)
      with (Pa ++ SP ++ (op_str COrOperation ++ SP ++ (print true (daht c) ++ w ++ x)))
      by (rewrite <- !app_assoc; reflexivity).
    rewrite <- app_assoc. cbn [app].
    apply Ha; [reflexivity|apply closes_SP|].
    exact (CHN_term (op_str COrOperation) SP _ _ eq_refl eq_refl (closes_SP _) Hc).
  - replace ((Pa ++ SP ++ print true (daht c)) ++ w ++ x)
      with (Pa ++ SP ++ (print true (daht c) ++ w ++ x))
      by (rewrite <- !app_assoc; reflexivity).
    rewrite <- app_assoc.
    apply Ha; [reflexivity|apply closes_SP|exact Hc].
Qed.

Lemma CHq_fold k : k <> KBool -> forall r Pa a, CHq Pa a -> Forall CH2 r ->
  CHq (Pa ++ ops_tail k r) (synq_fold synq k a r).
Proof.
  intros Hk. induction r as [|c r IH]; intros Pa a Ha Hr.
  - unfold ops_tail. simpl. rewrite app_nil_r. exact Ha.
  - pose proof (Forall_inv Hr) as Hc. pose proof (Forall_inv_tail Hr) as Hr'.
    change (synq_fold synq k a (c :: r)) with (synq_fold synq k (mk_opq k a (synq c)) r).
    replace (Pa ++ ops_tail k (c :: r)) with ((Pa ++ sepstr k ++ print true (daht c)) ++ ops_tail k r)
      by (unfold ops_tail; simpl; rewrite <- !app_assoc; reflexivity).
    apply IH; [|exact Hr']. apply CHq_mk_op; assumption.
Qed.

(* the guard extended to the FieldGroup that stands directly under a field *)
Definition rtx2 (lv : nat) (t : item) : bool :=
  match t with Grp KFieldGroup me x => meta_free me && rt2_at 0 x | _ => rt2_at lv t end.

Lemma rtx2_of_rt lv t : rt2_at lv t = true -> rtx2 lv t = true.
Proof.
  destruct t; try (intros H; exact H). destruct k; [intros H; exact H|].
  cbn [rt2_at]. rewrite andb_false_r. discriminate.
Qed.

Lemma rtx2_meta lv t : rtx2 lv t = true -> meta_free (meta_of t) = true.
Proof.
  destruct t; cbn [rtx2 rt2_at meta_of]; try (intros H; apply andb_true_iff in H; apply H).
  destruct k; cbn [rt2_at meta_of]; intros H; apply andb_true_iff in H; apply H.
Qed.

Lemma rtx2_nn lv t : rtx2 lv t = true -> nn t = true.
Proof. destruct t; try reflexivity. cbn [rtx2 rt2_at]. rewrite andb_false_r. discriminate. Qed.

Lemma rtx2_bare lv t : rtx2 lv t = true -> bare (daht t).
Proof.
  intros H. pose proof (rtx2_meta _ _ H) as Hm. apply meta_free_ht in Hm. destruct Hm as [Hh Ht].
  repeat split.
  - rewrite head_daht. exact Hh.
  - rewrite tail_daht. exact Ht.
  - rewrite nn_daht. eapply rtx2_nn. exact H.
Qed.

Lemma CHq_nonempty P p : CHq P p -> P <> [].
Proof.
  intros H. specialize (H [] [] [] eq_refl I CHN_nil). specialize (H [] (fun _ _ => safe_nil)).
  rewrite !app_nil_r in H. pose proof (flq_len (qtail p [])) as Hl.
  destruct (flq (qtail p [])) as [|t ts]; [simpl in Hl; lia|]. eapply tchain_ne. exact H.
Qed.
(* every tree within the guard prints (after auto_head_tail) to the chain of its syntax tree *)
Theorem CH2_all : forall t lv, rtx2 lv t = true -> CH2 t.
Proof.
  induction t as [k m v|m n t IHt|k m t IHt|m lo hi il ih IHlo IHhi|m t d i IHt|m t d i IHt|m t f i IHt
                 |k m ops IHops|k m t IHt|k m t i IHt|m] using item_ind';
    intros lv H; pose proof (rtx2_meta _ _ H) as Hm; cbn [meta_of] in Hm.
  - (* Term *)
    cbn [rtx2 rt2_at meta_of] in H. apply andb_true_iff in H. destruct H as [_ H].
    unfold CH2. change (print true (daht (Term k m v))) with (wrap true (clone_meta m) v). rewrite (wrap_free _ _ Hm).
    intros w x ts2 Hw Hx Hch. destruct k; cbn [synq leaf_tok].
    + destruct (word_lexeme_inv _ _ H) as [Hl [Ht|[_ Ev]]].
      * rewrite (word_not_to _ Ht). cbn [qtail flq app]. rewrite add_tail_tk, <- Ht. apply CHN_term; assumption.
      * subst v. change (str_eqb s_TO s_TO) with true. cbn [qtail flq app]. rewrite add_tail_tk.
        exact (CHN_term s_TO w x ts2 Hl Hw Hx Hch).
    + cbn [qtail flq app]. rewrite add_tail_tk. apply phrase_lexeme_inv in H.
      apply CHN_cons; [intros rp _; apply lex_one_phrase_ctx; exact H|exact Hw|exact Hch].
    + cbn [qtail flq app]. rewrite add_tail_tk. apply regex_lexeme_inv in H.
      apply CHN_cons; [intros rp _; apply lex_one_regex_ctx; exact H|exact Hw|exact Hch].
  - (* SearchField *)
    cbn [rtx2 rt2_at meta_of] in H. apply andb_true_iff in H. destruct H as [_ H].
    apply andb_true_iff in H. destruct H as [H Hg]. apply andb_true_iff in H. destruct H as [Hn He].
    assert (Hex : rtx2 3 t = true).
    { destruct t; try exact He. destruct k; [discriminate|exact He]. }
    pose proof (IHt 3 Hex) as IH. clear IHt He.
    destruct (aht t) as [e'|] eqn:Ea; [|discriminate]. apply aht_some in Ea. destruct Ea as [_ Ea]. subst e'.
    destruct (word_lexeme_inv _ _ Hn) as [Hl [Ht|[Hf _]]]; [|discriminate].
    unfold CH2. change (print true (daht (SearchField m n t)))
      with (wrap true (clone_meta m) (n ++ [c_colon] ++ print true (daht t))). rewrite (wrap_free _ _ Hm).
    intros w x ts2 Hw Hx Hch. cbn [synq qtail flq].
    replace ((n ++ [c_colon] ++ print true (daht t)) ++ w ++ x)
      with (n ++ c_colon :: (print true (daht t) ++ w ++ x)) by (rewrite <- !app_assoc; reflexivity).
    cbn [app]. rewrite <- Ht. apply CHN_name; [exact Hl| |].
    + apply name_glue_app; [exact Hg|exact (CHq_nonempty _ _ IH)|exact Hx].
    + apply (CHN_cons T_COLUMN [c_colon] [] _ _); [intros rp _; apply lex_one_punct; simpl; tauto|reflexivity|].
      apply IH; assumption.
  - (* Group / FieldGroup *)
    assert (He : rt2_at 0 t = true).
    { destruct k; cbn [rtx2 rt2_at meta_of] in H; apply andb_true_iff in H; apply H. }
    pose proof (IHt 0 (rtx2_of_rt _ _ He)) as IH. clear IHt.
    unfold CH2. change (print true (daht (Grp k m t)))
      with (wrap true (clone_meta m) ([c_lparen] ++ print true (daht t) ++ [c_rparen])). rewrite (wrap_free _ _ Hm).
    intros w x ts2 Hw Hx Hch. cbn [synq qtail flq]. rewrite add_tail_tk.
    replace (([c_lparen] ++ print true (daht t) ++ [c_rparen]) ++ w ++ x)
      with ([c_lparen] ++ [] ++ (print true (daht t) ++ [] ++ ([c_rparen] ++ w ++ x)))
      by (rewrite <- !app_assoc; reflexivity).
    replace ((tk T_LPAREN [c_lparen] [] :: flq (synq t) ++ [tk T_RPAREN [c_rparen] w]) ++ ts2)
      with (tk T_LPAREN [c_lparen] [] :: flq (qtail (synq t) []) ++ (tk T_RPAREN [c_rparen] w :: ts2))
      by (rewrite qtail_nil; cbn [app]; rewrite <- app_assoc; reflexivity).
    apply CHN_cons; [intros rp _; apply lex_one_punct; simpl; tauto|reflexivity|].
    apply IH; [reflexivity|reflexivity|].
    apply CHN_cons; [intros rp _; apply lex_one_punct; simpl; tauto|exact Hw|exact Hch].
  - (* Range: `[` lo ` ` TO ` ` hi `]`, the two blanks being the tail auto_head_tail gives lo and the head it gives hi *)
    cbn [rtx2 rt2_at meta_of] in H. apply andb_true_iff in H. destruct H as [_ H].
    apply andb_true_iff in H. destruct H as [Hlo Hhi]. clear IHlo IHhi.
    destruct (bound2_bare _ Hlo) as [[_ [Hlt Hln]] _]. destruct (bound2_bare _ Hhi) as [[Hhh [_ Hhn]] _].
    unfold CH2. change (print true (daht (Range m lo hi il ih)))
      with (wrap true (clone_meta m)
              (gen_low_char il ++ print true (aht_add_tail (daht lo)) ++ s_TO ++
               print true (aht_add_head (daht hi)) ++ gen_high_char ih)).
    rewrite (wrap_free _ _ Hm), print_add_tail, print_add_head by assumption.
    intros w x ts2 Hw Hx Hch. cbn [synq qtail flq]. rewrite add_tail_tk.
    apply CHN_range; assumption.
  - (* Fuzzy *)
    cbn [rtx2 rt2_at meta_of] in H. apply andb_true_iff in H. destruct H as [_ H].
    apply andb_true_iff in H. destruct H as [Hx Hd].
    destruct (leaf_word_inv _ Hx) as [mx [v [-> [Hmx [Hl Ht]]]]]. clear IHt.
    set (ds := if i then [] else dec_to_fstr d).
    assert (Hds : forallb is_numchar ds = true).
    { unfold ds. destruct i; [reflexivity|]. apply deg_ok_inv in Hd. apply Hd. }
    assert (EP : print true (daht (Fuzzy m (Term KWord mx v) d i)) = v ++ [] ++ (c_tilde :: ds) ).
    { unfold ds. destruct i; cbn [daht print]; rewrite (wrap_free _ _ Hm), (wrap_free _ _ Hmx); reflexivity. }
    unfold CH2. rewrite EP. intros w x ts2 Hw Hxx Hch. cbn [synq leaf_tok qtail flq]. fold ds. rewrite add_tail_tk.
    rewrite <- !app_assoc. cbn [app]. rewrite <- Ht.
    apply (CHN_term v [] _ _ Hl eq_refl); [reflexivity|].
    change (c_tilde :: ds ++ w ++ x) with ((c_tilde :: ds) ++ w ++ x).
    apply CHN_cons; [intros rp _; apply lex_one_approx_ctx; assumption|exact Hw|exact Hch].
  - (* Proximity *)
    cbn [rtx2 rt2_at meta_of] in H. apply andb_true_iff in H. destruct H as [_ H].
    apply andb_true_iff in H. destruct H as [Hx Hd].
    destruct (leaf_phrase_inv _ Hx) as [mx [v [-> [Hmx Hl]]]]. clear IHt.
    set (ds := if i then [] else Z_to_str d).
    assert (Hds : forallb is_numchar ds = true).
    { unfold ds. destruct i; [reflexivity|]. apply prox_ok_inv in Hd. apply Hd. }
    assert (EP : print true (daht (Proximity m (Term KPhrase mx v) d i)) = v ++ [] ++ (c_tilde :: ds) ).
    { unfold ds. destruct i; cbn [daht print]; rewrite (wrap_free _ _ Hm), (wrap_free _ _ Hmx); reflexivity. }
    unfold CH2. rewrite EP. intros w x ts2 Hw Hxx Hch. cbn [synq leaf_tok qtail flq]. fold ds. rewrite add_tail_tk.
    rewrite <- !app_assoc. cbn [app].
    apply (CHN_cons T_PHRASE v [] _ _); [intros rp _; apply lex_one_phrase_ctx; exact Hl|reflexivity|].
    change (c_tilde :: ds ++ w ++ x) with ((c_tilde :: ds) ++ w ++ x).
    apply CHN_cons; [intros rp _; apply lex_one_approx_ctx; assumption|exact Hw|exact Hch].
  - (* Boost *)
    cbn [rtx2 rt2_at meta_of] in H. apply andb_true_iff in H. destruct H as [_ H].
    apply andb_true_iff in H. destruct H as [H Hd]. apply andb_true_iff in H. destruct H as [_ He].
    pose proof (IHt 3 (rtx2_of_rt _ _ He)) as IH. clear IHt.
    set (ds := if i then [] else dec_to_fstr f).
    assert (Hds : forallb is_numchar ds = true).
    { unfold ds. destruct i; [reflexivity|]. apply deg_ok_inv in Hd. apply Hd. }
    assert (EP : print true (daht (Boost m t f i)) = print true (daht t) ++ [] ++ (c_caret :: ds)).
    { unfold ds. destruct i; cbn [daht print]; rewrite (wrap_free _ _ Hm); [reflexivity|].
      rewrite (deg_ok_norm _ Hd). reflexivity. }
    unfold CH2. rewrite EP. intros w x ts2 Hw Hxx Hch. cbn [synq qtail flq]. fold ds. rewrite add_tail_tk.
    replace ((flq (synq t) ++ [tk T_BOOST (c_caret :: ds) w]) ++ ts2)
      with (flq (qtail (synq t) []) ++ (tk T_BOOST (c_caret :: ds) w :: ts2))
      by (rewrite qtail_nil, <- app_assoc; reflexivity).
    rewrite <- !app_assoc. cbn [app].
    apply (IH [] _ _ eq_refl); [reflexivity|].
    change (c_caret :: ds ++ w ++ x) with ((c_caret :: ds) ++ w ++ x).
    apply CHN_cons; [intros rp _; apply lex_one_boost_ctx; assumption|exact Hw|exact Hch].
  - (* Op *)
    assert (Hk : exists l, k <> KBool /\ Nat.leb 2 (length ops) = true /\ forallb (rt2_at l) ops = true).
    { cbn [rtx2 rt2_at meta_of] in H. apply andb_true_iff in H. destruct H as [_ H]. destruct k.
      - exists 3. repeat (apply andb_true_iff in H; destruct H as [H ?]). repeat split; [discriminate|assumption|assumption].
      - exists 2. repeat (apply andb_true_iff in H; destruct H as [H ?]). repeat split; [discriminate|assumption|assumption].
      - exists 1. repeat (apply andb_true_iff in H; destruct H as [H ?]). repeat split; [discriminate|assumption|assumption].
      - discriminate. }
    destruct Hk as [l [Hk [Hlen Hops]]].
    assert (Hrt : Forall (fun c => rtx2 l c = true) ops).
    { eapply forallb_Forall; [|exact Hops]. intros c Hc. apply rtx2_of_rt. exact Hc. }
    assert (HCH : Forall CH2 ops).
    { eapply Forall_imp2; [|exact IHops|exact Hrt]. intros c Hc Hr. exact (Hc l Hr). }
    assert (Hbare : Forall (fun c => bare (daht c)) ops).
    { eapply Forall_impl; [|exact Hrt]. intros c Hr. eapply rtx2_bare. exact Hr. }
    destruct (length_ge2 _ Hlen) as [c0 [c1 [r ->]]].
    unfold CH2. rewrite (print_daht_op _ _ _ _ _ Hm Hbare).
    change (synq (Op k m (c0 :: c1 :: r))) with (synq_fold synq k (synq c0) (c1 :: r)).
    apply CHq_fold; [exact Hk|exact (Forall_inv HCH)|exact (Forall_inv_tail HCH)].
  - (* Unary *)
    cbn [rtx2 rt2_at meta_of] in H. apply andb_true_iff in H. destruct H as [_ He].
    pose proof (rtx2_of_rt _ _ He) as Hex. pose proof (IHt 3 Hex) as IH. clear IHt.
    destruct (rtx2_bare _ _ Hex) as [Hb1 [Hb2 Hb3]].
    unfold CH2. intros w x ts2 Hw Hxx Hch. destruct k.
    + change (print true (daht (Unary KPlus m t)))
        with (wrap true (clone_meta m) (op_str CPlus ++ print true (daht t))). rewrite (wrap_free _ _ Hm).
      cbn [synq qtail flq]. rewrite <- !app_assoc.
      apply (CHN_cons T_PLUS (op_str CPlus) [] _ _); [intros rp _; apply lex_one_punct; simpl; tauto|reflexivity|].
      apply IH; assumption.
    + change (print true (daht (Unary KNot m t)))
        with (wrap true (clone_meta m) (op_str CNot ++ print true (aht_add_head (daht t)))). rewrite (wrap_free _ _ Hm).
      rewrite print_add_head by assumption.
      cbn [synq qtail flq]. rewrite <- !app_assoc.
      refine (CHN_term (op_str CNot) SP _ _ eq_refl eq_refl (closes_SP _) _).
      apply IH; assumption.
    + change (print true (daht (Unary KProhibit m t)))
        with (wrap true (clone_meta m) (op_str CProhibit ++ print true (daht t))). rewrite (wrap_free _ _ Hm).
      cbn [synq qtail flq]. rewrite <- !app_assoc.
      apply (CHN_cons T_MINUS (op_str CProhibit) [] _ _); [intros rp _; apply lex_one_punct; simpl; tauto|reflexivity|].
      apply IH; assumption.
  - (* open range *)
    cbn [rtx2 rt2_at meta_of] in H. apply andb_true_iff in H. destruct H as [_ H].
    apply andb_true_iff in H. destruct H as [Ha Hi]. clear IHt.
    assert (Hleaf : exists ma kk v, t = Term kk ma v /\ meta_free ma = true /\
              (forall w x ts2, all_space w = true -> closes (w ++ x) -> CHN x ts2 ->
                 CHN (v ++ w ++ x) (add_tail (leaf_tok t) w :: ts2)) /\
              (i = false -> exists c v', v = c :: v' /\ N.eqb c c_eq = false)).
    { apply orb_true_iff in Ha. destruct Ha as [Ha|Ha].
      - destruct (leaf_word_inv _ Ha) as [ma [v [-> [Hma [Hl Ht]]]]]. exists ma, KWord, v.
        split; [reflexivity|]. split; [exact Hma|]. split.
        + intros w x ts2 Hw Hx Hch. cbn [leaf_tok]. rewrite add_tail_tk, <- Ht. apply CHN_term; assumption.
        + intros ->. simpl in Hi. destruct v as [|c v']; [discriminate Hl|].
          exists c, v'. split; [reflexivity|]. apply negb_true_iff in Hi. exact Hi.
      - destruct (leaf_phrase_inv _ Ha) as [ma [v [-> [Hma Hl]]]]. exists ma, KPhrase, v.
        split; [reflexivity|]. split; [exact Hma|]. split.
        + intros w x ts2 Hw Hx Hch. cbn [leaf_tok]. rewrite add_tail_tk.
          apply CHN_cons; [intros rp _; apply lex_one_phrase_ctx; exact Hl|exact Hw|exact Hch].
        + intros _. destruct v as [|c v']; [discriminate Hl|]. exists c, v'. split; [reflexivity|].
          unfold lex_delimited in Hl. destruct (N.eqb c c_quote) eqn:E; [|discriminate].
          apply N.eqb_eq in E. subst c. reflexivity. }
    destruct Hleaf as [ma [kk [v [-> [Hma [Hv Hne]]]]]].
    unfold CH2. change (print true (daht (ORange k m (Term kk ma v) i)))
      with (wrap true (clone_meta m) (op_str (cls_of_ork k) ++ gen_openrange_char i ++ wrap true (clone_meta ma) v)).
    rewrite (wrap_free _ _ Hm), (wrap_free _ _ Hma).
    intros w x ts2 Hw Hxx Hch. cbn [synq qtail flq app]. unfold open_tok.
    specialize (Hv w x ts2 Hw Hxx Hch).
    destruct k, i; cbn [cls_of_ork gen_openrange_char]; rewrite <- ?app_assoc.
    + refine (CHN_cons T_GREATERTHAN [c_gt; c_eq] [] (v ++ w ++ x) _ _ eq_refl Hv).
      intros rp _. apply lex_one_ge.
    + destruct (Hne eq_refl) as [c [v' [-> Hc]]].
      refine (CHN_cons T_GREATERTHAN [c_gt] [] ((c :: v') ++ w ++ x) _ _ eq_refl Hv).
      intros rp _. apply lex_one_gt. exact Hc.
    + refine (CHN_cons T_LESSTHAN [c_lt; c_eq] [] (v ++ w ++ x) _ _ eq_refl Hv).
      intros rp _. apply lex_one_le.
    + destruct (Hne eq_refl) as [c [v' [-> Hc]]].
      refine (CHN_cons T_LESSTHAN [c_lt] [] ((c :: v') ++ w ++ x) _ _ eq_refl Hv).
      intros rp _. apply lex_one_lt. exact Hc.
  - (* NoneItem *)
    cbn [rtx2 rt2_at] in H. rewrite andb_false_r in H. discriminate.
Qed.

(* ================================================================ G'. the syntax tree is well-formed and its value is the tree *)

Definition WF2 (lv : nat) (t : item) : Prop :=
  wfs (synq t) = true /\ Nat.min lv 3 <= lvq (synq t) /\ valq (synq t) = gfix (erase t) /\
  sgq (synq t) = is_sign (leftmost t).

Lemma mk_opq_wfs k a b : k <> KBool -> wfs a = true -> opl k <= lvq a -> wfs b = true -> S (opl k) <= lvq b ->
  wfs (mk_opq k a b) = true /\ lvq (mk_opq k a b) = opl k.
Proof.
  intros Hk Wa La Wb Lb. destruct k; [| | |congruence]; cbn [mk_opq wfs lvq opl tk_type tk] in *;
    rewrite ?lvl_qtail, ?wfb_qtail, Wa, Wb; split; try reflexivity.
  - apply Nat.leb_le in La. apply Nat.leb_le in Lb. rewrite La, Lb. reflexivity.
  - apply Nat.leb_le in La. apply Nat.leb_le in Lb. rewrite La, Lb. reflexivity.
  - apply Nat.leb_le in Lb. rewrite Lb. reflexivity.
Qed.

Lemma qfold_wfb k : k <> KBool -> forall r a, wfs a = true -> opl k <= lvq a ->
  Forall (fun c => wfs (synq c) = true /\ S (opl k) <= lvq (synq c)) r ->
  wfs (synq_fold synq k a r) = true /\ (r <> [] -> lvq (synq_fold synq k a r) = opl k).
Proof.
  intros Hk. induction r as [|c r IH]; intros a Wa La Hr; [split; [exact Wa|congruence]|].
  pose proof (Forall_inv Hr) as [Wc Lc]. pose proof (Forall_inv_tail Hr) as Hr'.
  destruct (mk_opq_wfs k a (synq c) Hk Wa La Wc Lc) as [W1 L1].
  change (synq_fold synq k a (c :: r)) with (synq_fold synq k (mk_opq k a (synq c)) r).
  destruct (IH (mk_opq k a (synq c)) W1 ltac:(lia) Hr') as [W2 L2]. split; [exact W2|]. intros _.
  destruct r as [|c2 r2]; [exact L1|]. apply L2. discriminate.
Qed.

Lemma qfold_signed k : k <> KBool -> forall r a, sgq (synq_fold synq k a r) = sgq a.
Proof.
  intros Hk. induction r as [|c r IH]; intros a; [reflexivity|].
  change (synq_fold synq k a (c :: r)) with (synq_fold synq k (mk_opq k a (synq c)) r). rewrite IH.
  destruct k; [| | |congruence]; cbn [mk_opq sgq]; apply signed_qtail.
Qed.

Lemma qfold_sem k : k <> KBool -> forall r a,
  match k with KAnd => qops_and | KOr => qops_or | _ => qops_j end (synq_fold synq k a r) =
  match k with KAnd => qops_and | KOr => qops_or | _ => qops_j end a ++ map (fun c => valq (synq c)) r.
Proof.
  intros Hk. induction r as [|c r IH]; intros a; [rewrite app_nil_r; reflexivity|].
  change (synq_fold synq k a (c :: r)) with (synq_fold synq k (mk_opq k a (synq c)) r). rewrite IH.
  destruct k; [| | |congruence]; unfold qops_and, qops_or, qops_j; cbn [mk_opq semq sa so sj];
    rewrite semof_qtail, <- app_assoc; reflexivity.
Qed.

Lemma gfix_rt2 lv t : rt2_at lv t = true -> gfix (erase t) = erase t.
Proof.
  destruct t; try reflexivity. destruct k; [reflexivity|]. cbn [rt2_at]. rewrite andb_false_r. discriminate.
Qed.

Lemma boostable_lvq e : boostable e = true -> rt2_at 3 e = true -> lvq (synq e) = 4.
Proof.
  destruct e as [[] m v| |[]| | | | | | | |]; try discriminate; try reflexivity.
  intros _ _. cbn [synq]. destruct (str_eqb v s_TO); reflexivity.
Qed.

Lemma qsingle_j p : (forall a b, p <> QJuxt a b) -> qops_j p = [valq p].
Proof. destruct p; intros H; try reflexivity. exfalso. eapply H. reflexivity. Qed.

Theorem WF2_all : forall t lv, rtx2 lv t = true -> WF2 lv t.
Proof.
  induction t as [k m v|m n t IHt|k m t IHt|m lo hi il ih IHlo IHhi|m t d i IHt|m t d i IHt|m t f i IHt
                 |k m ops IHops|k m t IHt|k m t i IHt|m] using item_ind';
    intros lv H.
  - (* Term *)
    cbn [rtx2 rt2_at meta_of] in H. apply andb_true_iff in H. destruct H as [_ H]. unfold WF2.
    destruct k; cbn [synq leaf_tok].
    + destruct (word_lexeme_inv _ _ H) as [Hl [Ht|[_ Ev]]].
      * pose proof (word_not_to _ Ht) as E. rewrite E. cbn [leftmost]. rewrite E.
        repeat split; try reflexivity. simpl. lia.
      * subst v. change (str_eqb s_TO s_TO) with true. cbn [leftmost].
        change (str_eqb s_TO s_TO) with true. repeat split; try reflexivity. simpl. lia.
    + repeat split; try reflexivity. simpl. lia.
    + repeat split; try reflexivity. simpl. lia.
  - (* SearchField *)
    cbn [rtx2 rt2_at meta_of] in H. apply andb_true_iff in H. destruct H as [_ H].
    apply andb_true_iff in H. destruct H as [H _]. apply andb_true_iff in H. destruct H as [_ He].
    assert (Hex : rtx2 3 t = true).
    { destruct t; try exact He. destruct k; [discriminate|exact He]. }
    destruct (IHt 3 Hex) as [W [L [V S]]]. unfold WF2. cbn [synq].
    split; [|split; [|split]].
    + cbn [wfs tk tk_type tok_eqb]. rewrite W. simpl in L. apply Nat.leb_le in L. rewrite L. reflexivity.
    + simpl. lia.
    + unfold valq. cbn [semq sv leaf tk tk_lexeme]. fold (valq (synq t)). rewrite V.
      cbn [erase gfix]. f_equal.
      destruct t; try reflexivity. destruct k; [discriminate He|reflexivity].
    + reflexivity.
  - (* Group *)
    assert (He : rt2_at 0 t = true).
    { destruct k; cbn [rtx2 rt2_at meta_of] in H; apply andb_true_iff in H; apply H. }
    destruct (IHt 0 (rtx2_of_rt _ _ He)) as [W [L [V S]]]. unfold WF2. cbn [synq].
    split; [|split; [|split]].
    + cbn [wfs tk tk_type tok_eqb]. rewrite W. reflexivity.
    + simpl. lia.
    + unfold valq. cbn [semq sv leaf]. fold (valq (synq t)). rewrite V, (gfix_rt2 _ _ He).
      destruct k; reflexivity.
    + reflexivity.
  - (* Range *)
    cbn [rtx2 rt2_at meta_of] in H. apply andb_true_iff in H. destruct H as [_ H].
    apply andb_true_iff in H. destruct H as [Hlo Hhi]. clear IHlo IHhi.
    destruct (bound2_sem lo SP Hlo) as [Wlo Vlo]. destruct (bound2_sem hi [] Hhi) as [Whi Vhi].
    unfold WF2. cbn [synq]. split; [|split; [|split]].
    + cbn [wfs tk tk_type tok_eqb]. rewrite Wlo, Whi. reflexivity.
    + simpl. lia.
    + unfold valq. cbn [semq sv leaf]. unfold range_item. rewrite Vlo, Vhi. cbn [erase gfix tk tk_lexeme].
      destruct il, ih; reflexivity.
    + reflexivity.
  - (* Fuzzy *)
    cbn [rtx2 rt2_at meta_of] in H. apply andb_true_iff in H. destruct H as [_ H].
    apply andb_true_iff in H. destruct H as [Hx Hd].
    destruct (leaf_word_inv _ Hx) as [mx [v [-> [Hmx [Hl Ht]]]]]. clear IHt.
    unfold WF2. cbn [synq leaf_tok]. pose proof (word_not_to _ Ht) as E.
    destruct i.
    + apply dec_struct_eqb_iff in Hd. subst d.
      repeat split; try reflexivity; [simpl; lia|]. cbn [leftmost]. rewrite E. reflexivity.
    + destruct (deg_ok_inv _ Hd) as [_ [Hne [x0 [Ex En]]]].
      split; [|split; [|split]].
      * cbn [wfs tk tk_type tok_eqb]. unfold dec_ok. cbn [tk tk_lexeme].
        rewrite (degree_of_cons _ _ Hne), Ex. reflexivity.
      * simpl. lia.
      * unfold valq. cbn [semq sv leaf]. unfold approx_item. cbn [tk tk_type tk_lexeme].
        rewrite (degree_of_cons _ _ Hne), Ex, En. reflexivity.
      * cbn [leftmost]. rewrite E. reflexivity.
  - (* Proximity *)
    cbn [rtx2 rt2_at meta_of] in H. apply andb_true_iff in H. destruct H as [_ H].
    apply andb_true_iff in H. destruct H as [Hx Hd].
    destruct (leaf_phrase_inv _ Hx) as [mx [v [-> [Hmx Hl]]]]. clear IHt.
    unfold WF2. cbn [synq leaf_tok].
    destruct i.
    + apply Z.eqb_eq in Hd. subst d. repeat split; try reflexivity. simpl; lia.
    + destruct (prox_ok_inv _ Hd) as [_ [Hne Ex]].
      split; [|split; [|split]].
      * cbn [wfs tk tk_type tok_eqb]. unfold int_ok. cbn [tk tk_lexeme].
        rewrite (degree_of_cons _ _ Hne), Ex. reflexivity.
      * simpl. lia.
      * unfold valq. cbn [semq sv leaf]. unfold approx_item. cbn [tk tk_type tk_lexeme].
        rewrite (degree_of_cons _ _ Hne), Ex. reflexivity.
      * reflexivity.
  - (* Boost *)
    cbn [rtx2 rt2_at meta_of] in H. apply andb_true_iff in H. destruct H as [_ H].
    apply andb_true_iff in H. destruct H as [H Hd]. apply andb_true_iff in H. destruct H as [Hb He].
    destruct (IHt 3 (rtx2_of_rt _ _ He)) as [W [L [V S]]]. clear IHt.
    pose proof (boostable_lvq _ Hb He) as L4.
    unfold WF2. cbn [synq]. destruct i.
    + apply dec_struct_eqb_iff in Hd. subst f.
      split; [|split; [|split]].
      * cbn [wfs tk tk_type tok_eqb]. rewrite L4, W. reflexivity.
      * simpl. lia.
      * unfold valq. cbn [semq sv leaf]. fold (valq (synq t)). rewrite V, (gfix_rt2 _ _ He). reflexivity.
      * cbn [sgq leftmost]. exact S.
    + destruct (deg_ok_inv _ Hd) as [_ [Hne [x0 [Ex En]]]].
      split; [|split; [|split]].
      * cbn [wfs tk tk_type tok_eqb]. rewrite L4, W. unfold dec_ok. cbn [tk tk_lexeme].
        rewrite (degree_of_cons _ _ Hne), Ex. reflexivity.
      * simpl. lia.
      * unfold valq. cbn [semq sv leaf]. fold (valq (synq t)). unfold boost_item. cbn [tk tk_lexeme].
        rewrite (degree_of_cons _ _ Hne), Ex, En, V, (gfix_rt2 _ _ He). reflexivity.
      * cbn [sgq leftmost]. exact S.
  - (* Op *)
    assert (Hk : k <> KBool /\ lv <= opl k /\ Nat.leb 2 (length ops) = true /\
                 forallb (rt2_at (S (opl k))) ops = true).
    { cbn [rtx2 rt2_at meta_of] in H. apply andb_true_iff in H. destruct H as [_ H]. destruct k; cbn [opl].
      - repeat (apply andb_true_iff in H; destruct H as [H ?]). apply Nat.leb_le in H.
        repeat split; [discriminate|assumption|assumption|assumption].
      - repeat (apply andb_true_iff in H; destruct H as [H ?]). apply Nat.leb_le in H.
        repeat split; [discriminate|assumption|assumption|assumption].
      - repeat (apply andb_true_iff in H; destruct H as [H ?]). apply Nat.leb_le in H.
        repeat split; [discriminate|assumption|assumption|assumption].
      - discriminate. }
    destruct Hk as [Hk [Hlv [Hlen Hops]]].
    assert (Hrt : Forall (fun c => rt2_at (S (opl k)) c = true) ops).
    { eapply forallb_Forall; [|exact Hops]. auto. }
    assert (HWF : Forall (WF2 (S (opl k))) ops).
    { eapply Forall_imp2; [|exact IHops|exact Hrt]. intros c Hc Hr. exact (Hc _ (rtx2_of_rt _ _ Hr)). }
    destruct (length_ge2 _ Hlen) as [c0 [c1 [r ->]]].
    pose proof (Forall_inv HWF) as [W0 [L0 [V0 S0]]]. pose proof (Forall_inv_tail HWF) as HWr.
    assert (Lk : forall c, WF2 (S (opl k)) c -> S (opl k) <= lvq (synq c)).
    { intros c [_ [Lc _]]. destruct k; simpl in *; lia. }
    assert (Hr : Forall (fun c => wfs (synq c) = true /\ S (opl k) <= lvq (synq c)) (c1 :: r)).
    { eapply Forall_impl; [|exact HWr]. intros c Hc. split; [apply Hc|apply Lk; exact Hc]. }
    unfold WF2. change (synq (Op k m (c0 :: c1 :: r))) with (synq_fold synq k (synq c0) (c1 :: r)).
    pose proof (Lk _ (Forall_inv HWF)) as L0'.
    destruct (qfold_wfb k Hk (c1 :: r) (synq c0) W0 ltac:(lia) Hr) as [Wf Lf].
    specialize (Lf ltac:(discriminate)).
    split; [exact Wf|]. split; [rewrite Lf; lia|]. split.
    + assert (Ev : forall c, In c (c0 :: c1 :: r) -> valq (synq c) = erase c).
      { intros c Hin. rewrite Forall_forall in HWF, Hrt. destruct (HWF c Hin) as [_ [_ [Vc _]]].
        rewrite Vc. eapply gfix_rt2. apply Hrt. exact Hin. }
      assert (Em : map (fun c => valq (synq c)) (c1 :: r) = map erase (c1 :: r)).
      { apply map_ext_in. intros c Hin. apply Ev. right. exact Hin. }
      pose proof (qfold_sem k Hk (c1 :: r) (synq c0)) as Es.
      cbn [erase gfix]. destruct k; [| | |congruence].
      * rewrite <- qval_and, Es, qsingle_and by (intros a o b Eq; rewrite Eq in L0'; simpl in L0'; lia).
        rewrite Em, (Ev c0 (or_introl eq_refl)). reflexivity.
      * rewrite <- qval_or, Es, qsingle_or by (intros a o b Eq; rewrite Eq in L0'; simpl in L0'; lia).
        rewrite Em, (Ev c0 (or_introl eq_refl)). reflexivity.
      * rewrite <- qval_j, Es, qsingle_j by (intros a b Eq; rewrite Eq in L0'; simpl in L0'; lia).
        rewrite Em, (Ev c0 (or_introl eq_refl)). reflexivity.
    + rewrite (qfold_signed k Hk). cbn [leftmost]. exact S0.
  - (* Unary *)
    cbn [rtx2 rt2_at meta_of] in H. apply andb_true_iff in H. destruct H as [_ He].
    destruct (IHt 3 (rtx2_of_rt _ _ He)) as [W [L [V S]]]. clear IHt. simpl in L.
    apply Nat.leb_le in L. unfold WF2.
    destruct k; cbn [synq]; (split; [|split; [|split]]);
      try (cbn [wfs tk tk_type tok_eqb is_sign_tok]; rewrite W, L; reflexivity);
      try (simpl; lia);
      try (unfold valq; cbn [semq sv leaf]; fold (valq (synq t)); rewrite V, (gfix_rt2 _ _ He); reflexivity);
      reflexivity.
  - (* open range *)
    cbn [rtx2 rt2_at meta_of] in H. apply andb_true_iff in H. destruct H as [_ H].
    apply andb_true_iff in H. destruct H as [Ha _]. clear IHt. unfold WF2.
    apply orb_true_iff in Ha. destruct Ha as [Ha|Ha].
    + destruct (leaf_word_inv _ Ha) as [ma [v [-> _]]].
      destruct k, i; repeat split; try reflexivity; simpl; lia.
    + destruct (leaf_phrase_inv _ Ha) as [ma [v [-> _]]].
      destruct k, i; repeat split; try reflexivity; simpl; lia.
  - cbn [rtx2 rt2_at] in H. rewrite andb_false_r in H. discriminate.
Qed.

(* ================================================================ G''. C03d's guard, from not-F4 alone *)

Lemma f4free_qtail : forall p w, f4free (qtail p w) = f4free p.
Proof. induction p; intros w; simpl; rewrite ?signed_qtail, ?IHp, ?IHp1, ?IHp2; reflexivity. Qed.

Lemma lastj_lvq_qtail p w : lvq (lastj (qtail p w)) = lvq (lastj p).
Proof. destruct p; cbn [qtail lastj]; try reflexivity. apply lvl_qtail. Qed.

Lemma lastj_self p : 1 <= lvq p -> lastj p = p.
Proof. destruct p; simpl; intros H; try reflexivity. lia. Qed.

Lemma f4_adjacent_cons2 a b l :
  f4_adjacent (a :: b :: l) = (is_and_or a && is_sign (leftmost b)) || f4_adjacent (b :: l).
Proof. reflexivity. Qed.

(* the level of an operation's syntax tree *)
Lemma synq_fold_lvq k : k <> KBool -> forall r a c, lvq (synq_fold synq k a (c :: r)) = opl k.
Proof.
  intros Hk. induction r as [|c2 r IH]; intros a c.
  - destruct k; [| | |congruence]; reflexivity.
  - change (synq_fold synq k a (c :: c2 :: r)) with (synq_fold synq k (mk_opq k a (synq c)) (c2 :: r)). apply IH.
Qed.

(* an operand of an implicit operation is an AND / OR operation, or a level-3 phrase *)
Lemma opnd_lvq c : rt2_at 1 c = true -> Nat.leb 3 (lvq (synq c)) = negb (is_and_or c).
Proof.
  destruct c as [[] m v| |[]| | | | |k m ops|[]| |]; try (intros _; reflexivity).
  - intros _. cbn [synq]. destruct (str_eqb v s_TO); reflexivity.
  - intros H. cbn [rt2_at meta_of] in H. apply andb_true_iff in H. destruct H as [_ H]. destruct k.
    + repeat (apply andb_true_iff in H; destruct H as [H ?]).
      match goal with Hl : Nat.leb 2 (length ops) = true |- _ => destruct (length_ge2 _ Hl) as [c0 [c1 [r ->]]] end.
      change (synq (Op KAnd m (c0 :: c1 :: r))) with (synq_fold synq KAnd (synq c0) (c1 :: r)).
      rewrite synq_fold_lvq by discriminate. reflexivity.
    + repeat (apply andb_true_iff in H; destruct H as [H ?]).
      match goal with Hl : Nat.leb 2 (length ops) = true |- _ => destruct (length_ge2 _ Hl) as [c0 [c1 [r ->]]] end.
      change (synq (Op KOr m (c0 :: c1 :: r))) with (synq_fold synq KOr (synq c0) (c1 :: r)).
      rewrite synq_fold_lvq by discriminate. reflexivity.
    + simpl in H. discriminate.
    + discriminate.
Qed.

Definition opnd_ok (c : item) : Prop :=
  f4free (synq c) = true /\ sgq (synq c) = is_sign (leftmost c) /\
  Nat.leb 3 (lvq (synq c)) = negb (is_and_or c).

(* juxtaposition: `prev` is the operand added last *)
Lemma qfold_f4_j : forall r acc prev,
  f4free acc = true -> Nat.leb 3 (lvq (lastj acc)) = negb (is_and_or prev) ->
  f4_adjacent (prev :: r) = false -> Forall opnd_ok r ->
  f4free (synq_fold synq KUnknown acc r) = true.
Proof.
  induction r as [|c r IH]; intros acc prev Fa La Hadj Hr; [exact Fa|].
  pose proof (Forall_inv Hr) as [Fc [Sc Lc]]. pose proof (Forall_inv_tail Hr) as Hr'.
  change (synq_fold synq KUnknown acc (c :: r)) with (synq_fold synq KUnknown (mk_opq KUnknown acc (synq c)) r).
  rewrite f4_adjacent_cons2 in Hadj. apply orb_false_iff in Hadj. destruct Hadj as [H1 H2].
  apply (IH _ c); [| |exact H2|exact Hr'].
  - cbn [mk_opq f4free]. rewrite f4free_qtail, Fa, Fc, lastj_lvq_qtail, La, Sc. cbn [andb].
    destruct (is_and_or prev), (is_sign (leftmost c)); try reflexivity. discriminate H1.
  - cbn [mk_opq lastj]. exact Lc.
Qed.

Lemma qfold_f4 k : k = KAnd \/ k = KOr -> forall r acc, f4free acc = true ->
  Forall (fun c => f4free (synq c) = true) r -> f4free (synq_fold synq k acc r) = true.
Proof.
  intros Hk. induction r as [|c r IH]; intros acc Fa Hr; [exact Fa|].
  pose proof (Forall_inv Hr) as Fc. pose proof (Forall_inv_tail Hr) as Hr'.
  change (synq_fold synq k acc (c :: r)) with (synq_fold synq k (mk_opq k acc (synq c)) r).
  apply IH; [|exact Hr'].
  destruct Hk as [-> | ->]; cbn [mk_opq f4free]; rewrite f4free_qtail, Fa, Fc; reflexivity.
Qed.

(* the syntax tree of a tree within the guard satisfies C03d's guard *)
Theorem F4_all : forall t lv, rtx2 lv t = true -> f4free (synq t) = true.
Proof.
  induction t as [k m v|m n t IHt|k m t IHt|m lo hi il ih IHlo IHhi|m t d i IHt|m t d i IHt|m t f i IHt
                 |k m ops IHops|k m t IHt|k m t i IHt|m] using item_ind';
    intros lv H.
  - destruct k; cbn [synq]; [destruct (str_eqb v s_TO)| |]; reflexivity.
  - cbn [rtx2 rt2_at meta_of] in H. apply andb_true_iff in H. destruct H as [_ H].
    apply andb_true_iff in H. destruct H as [H _]. apply andb_true_iff in H. destruct H as [_ He].
    assert (Hex : rtx2 3 t = true).
    { destruct t; try exact He. destruct k; [discriminate|exact He]. }
    cbn [synq f4free]. exact (IHt 3 Hex).
  - assert (He : rt2_at 0 t = true).
    { destruct k; cbn [rtx2 rt2_at meta_of] in H; apply andb_true_iff in H; apply H. }
    cbn [synq f4free]. exact (IHt 0 (rtx2_of_rt _ _ He)).
  - reflexivity.
  - reflexivity.
  - reflexivity.
  - cbn [rtx2 rt2_at meta_of] in H. apply andb_true_iff in H. destruct H as [_ H].
    apply andb_true_iff in H. destruct H as [H _]. apply andb_true_iff in H. destruct H as [_ He].
    cbn [synq f4free]. exact (IHt 3 (rtx2_of_rt _ _ He)).
  - (* Op *)
    assert (Hk : k <> KBool /\ Nat.leb 2 (length ops) = true /\ forallb (rt2_at (S (opl k))) ops = true /\
                 (k = KUnknown -> f4_adjacent ops = false)).
    { cbn [rtx2 rt2_at meta_of] in H. apply andb_true_iff in H. destruct H as [_ H]. destruct k; cbn [opl].
      - repeat (apply andb_true_iff in H; destruct H as [H ?]).
        repeat split; [discriminate|assumption|assumption|discriminate].
      - repeat (apply andb_true_iff in H; destruct H as [H ?]).
        repeat split; [discriminate|assumption|assumption|discriminate].
      - repeat (apply andb_true_iff in H; destruct H as [H ?]).
        repeat split; [discriminate|assumption|assumption|].
        intros _. apply negb_true_iff. assumption.
      - discriminate. }
    destruct Hk as [Hk [Hlen [Hops Hadj]]].
    assert (Hrt : Forall (fun c => rt2_at (S (opl k)) c = true) ops).
    { eapply forallb_Forall; [|exact Hops]. auto. }
    assert (HF : Forall (fun c => f4free (synq c) = true) ops).
    { eapply Forall_imp2; [|exact IHops|exact Hrt]. intros c Hc Hr. exact (Hc _ (rtx2_of_rt _ _ Hr)). }
    destruct (length_ge2 _ Hlen) as [c0 [c1 [r ->]]].
    change (synq (Op k m (c0 :: c1 :: r))) with (synq_fold synq k (synq c0) (c1 :: r)).
    destruct k; [| | |congruence].
    + apply (qfold_f4 KAnd); [left; reflexivity|exact (Forall_inv HF)|exact (Forall_inv_tail HF)].
    + apply (qfold_f4 KOr); [right; reflexivity|exact (Forall_inv HF)|exact (Forall_inv_tail HF)].
    + cbn [opl] in Hrt. pose proof (Forall_inv Hrt) as R0.
      apply (qfold_f4_j (c1 :: r) (synq c0) c0); [exact (Forall_inv HF)| |exact (Hadj eq_refl)|].
      * destruct (WF2_all c0 1 (rtx2_of_rt _ _ R0)) as [_ [L0 _]]. simpl in L0.
        rewrite (lastj_self _ L0). exact (opnd_lvq c0 R0).
      * eapply Forall_imp2; [|exact (Forall_inv_tail Hrt)|exact (Forall_inv_tail HF)].
        intros c Hr Hf. destruct (WF2_all c 1 (rtx2_of_rt _ _ Hr)) as [_ [_ [_ Sc]]].
        split; [exact Hf|]. split; [exact Sc|exact (opnd_lvq c Hr)].
  - cbn [rtx2 rt2_at meta_of] in H. apply andb_true_iff in H. destruct H as [_ He].
    destruct k; cbn [synq f4free]; exact (IHt 3 (rtx2_of_rt _ _ He)).
  - reflexivity.
  - reflexivity.
Qed.

(* ================================================================ H'. summary for props/C13x.v *)

Lemma rt2_defined : forall t lv, rtx2 lv t = true -> aht_defined t = true.
Proof.
  unfold aht_defined.
  induction t as [k m v|m n t IHt|k m t IHt|m lo hi il ih IHlo IHhi|m t d i IHt|m t d i IHt|m t f i IHt
                 |k m ops IHops|k m t IHt|k m t i IHt|m] using item_ind';
    intros lv H.
  - reflexivity.
  - cbn [rtx2 rt2_at meta_of] in H. apply andb_true_iff in H. destruct H as [_ H].
    apply andb_true_iff in H. destruct H as [H _]. apply andb_true_iff in H. destruct H as [_ He].
    assert (Hex : rtx2 3 t = true).
    { destruct t; try exact He. destruct k; [discriminate|exact He]. }
    cbn [every_node]. rewrite (IHt 3 Hex). reflexivity.
  - assert (He : rt2_at 0 t = true).
    { destruct k; cbn [rtx2 rt2_at meta_of] in H; apply andb_true_iff in H; apply H. }
    cbn [every_node]. rewrite (IHt 0 (rtx2_of_rt _ _ He)). destruct k; reflexivity.
  - cbn [rtx2 rt2_at meta_of] in H. apply andb_true_iff in H. destruct H as [_ H].
    apply andb_true_iff in H. destruct H as [Hlo Hhi].
    destruct (bound2_bare _ Hlo) as [_ Dlo]. destruct (bound2_bare _ Hhi) as [_ Dhi].
    unfold aht_defined in Dlo, Dhi. cbn [every_node]. rewrite Dlo, Dhi. reflexivity.
  - cbn [rtx2 rt2_at meta_of] in H. apply andb_true_iff in H. destruct H as [_ H].
    apply andb_true_iff in H. destruct H as [Hx _].
    destruct (leaf_word_inv _ Hx) as [mx [v [-> _]]]. reflexivity.
  - cbn [rtx2 rt2_at meta_of] in H. apply andb_true_iff in H. destruct H as [_ H].
    apply andb_true_iff in H. destruct H as [Hx _].
    destruct (leaf_phrase_inv _ Hx) as [mx [v [-> _]]]. reflexivity.
  - cbn [rtx2 rt2_at meta_of] in H. apply andb_true_iff in H. destruct H as [_ H].
    apply andb_true_iff in H. destruct H as [H _]. apply andb_true_iff in H. destruct H as [_ He].
    cbn [every_node]. rewrite (IHt 3 (rtx2_of_rt _ _ He)). reflexivity.
  - assert (Hk : exists l, Nat.leb 2 (length ops) = true /\ forallb (rt2_at l) ops = true).
    { cbn [rtx2 rt2_at meta_of] in H. apply andb_true_iff in H. destruct H as [_ H]. destruct k.
      - exists 3. repeat (apply andb_true_iff in H; destruct H as [H ?]). split; assumption.
      - exists 2. repeat (apply andb_true_iff in H; destruct H as [H ?]). split; assumption.
      - exists 1. repeat (apply andb_true_iff in H; destruct H as [H ?]). split; assumption.
      - discriminate. }
    destruct Hk as [l [Hlen Hops]].
    cbn [every_node]. apply andb_true_iff. split.
    + destruct (length_ge2 _ Hlen) as [c0 [c1 [r ->]]]. destruct k; reflexivity.
    + clear Hlen H. induction IHops as [|c r Hc _ IH]; [reflexivity|].
      simpl in Hops. apply andb_true_iff in Hops. destruct Hops as [H1 H2].
      cbn [every_list]. rewrite (Hc l (rtx2_of_rt _ _ H1)). exact (IH H2).
  - cbn [rtx2 rt2_at meta_of] in H. apply andb_true_iff in H. destruct H as [_ He].
    cbn [every_node]. rewrite (IHt 3 (rtx2_of_rt _ _ He)). destruct k; reflexivity.
  - cbn [rtx2 rt2_at meta_of] in H. apply andb_true_iff in H. destruct H as [_ H].
    apply andb_true_iff in H. destruct H as [Ha _]. apply orb_true_iff in Ha. destruct Ha as [Ha|Ha].
    + destruct (leaf_word_inv _ Ha) as [ma [v [-> _]]]. destruct k; reflexivity.
    + destruct (leaf_phrase_inv _ Ha) as [ma [v [-> _]]]. destruct k; reflexivity.
  - cbn [rtx2 rt2_at] in H. rewrite andb_false_r in H. discriminate.
Qed.

(* For a tree within the guard: auto_head_tail succeeds; its printed result lexes, without error, to the
   yield of the syntax tree `synq t` (blanks aside); that syntax tree is well-formed for the documented grammar,
   satisfies C03d's guard `f4free`, and its value is t without layout. *)
Theorem rt2_syntax t : rt_ok2 t = true ->
  aht t = Some (daht t) /\
  wfs (synq t) = true /\ f4free (synq t) = true /\ valq (synq t) = erase t /\
  map tok_key (fst (lex (print true (daht t)))) = map tok_key (flq (synq t)) /\
  snd (lex (print true (daht t))) = None.
Proof.
  unfold rt_ok2. intros H. pose proof (rtx2_of_rt _ _ H) as Hx.
  split; [rewrite aht_daht, (rt2_defined _ _ Hx); reflexivity|].
  destruct (WF2_all t 0 Hx) as [W [_ [V _]]]. split; [exact W|]. split; [exact (F4_all t 0 Hx)|].
  split; [rewrite V; eapply gfix_rt2; exact H|].
  pose proof (CH2_all t 0 Hx [] [] [] eq_refl I CHN_nil) as Hc.
  rewrite !app_nil_r, qtail_nil in Hc.
  apply CHN_lex; [exact Hc|]. pose proof (flq_len (synq t)) as Hl. destruct (flq (synq t)); [simpl in Hl; lia|discriminate].
Qed.

(* ================================================================ I'. the old guard implies the new one *)

Lemma f4_adjacent_unsigned : forall ops,
  forallb (fun c => negb (is_sign (leftmost c))) (tl ops) = true -> f4_adjacent ops = false.
Proof.
  destruct ops as [|a l]; [reflexivity|]. simpl tl. revert a.
  induction l as [|b l IH]; intros a H; [reflexivity|].
  rewrite f4_adjacent_cons2. simpl in H. apply andb_true_iff in H. destruct H as [H1 H2].
  apply negb_true_iff in H1. rewrite H1, andb_false_r. simpl. apply IH. exact H2.
Qed.

Lemma rt_up e : (forall lv, rtx lv e = true -> rtx2 lv e = true) ->
  forall lv, rt_at lv e = true -> rt2_at lv e = true.
Proof.
  intros IH lv H. pose proof (IH lv (rtx_of_rt _ _ H)) as H2.
  destruct e; try exact H2. destruct k; [exact H2|].
  cbn [rt_at] in H. rewrite andb_false_r in H. discriminate.
Qed.

Lemma forallb_up ops : Forall (fun c => forall lv, rtx lv c = true -> rtx2 lv c = true) ops ->
  forall l, forallb (rt_at l) ops = true -> forallb (rt2_at l) ops = true.
Proof.
  induction 1 as [|c r Hc _ IH]; intros l H; [reflexivity|].
  simpl in H. apply andb_true_iff in H. destruct H as [H1 H2].
  simpl. rewrite (rt_up c Hc l H1), (IH l H2). reflexivity.
Qed.

Theorem rt_rt2 : forall t lv, rtx lv t = true -> rtx2 lv t = true.
Proof.
  induction t as [k m v|m n t IHt|k m t IHt|m lo hi il ih IHlo IHhi|m t d i IHt|m t d i IHt|m t f i IHt
                 |k m ops IHops|k m t IHt|k m t i IHt|m] using item_ind';
    intros lv H.
  - exact H.
  - cbn [rtx rt_at meta_of] in H. cbn [rtx2 rt2_at meta_of].
    apply andb_true_iff in H. destruct H as [Hm H]. apply andb_true_iff in H. destruct H as [H Hg].
    apply andb_true_iff in H. destruct H as [Hn He]. rewrite Hm, Hn, Hg, andb_true_r. cbn [andb].
    destruct t; try exact (rt_up _ IHt 3 He).
    destruct k; [discriminate He|exact (IHt 3 He)].
  - assert (He : meta_free m = true /\ rt_at 0 t = true).
    { destruct k; cbn [rtx rt_at meta_of] in H; apply andb_true_iff in H; exact H. }
    destruct He as [Hm He]. pose proof (rt_up _ IHt 0 He) as H2.
    destruct k; cbn [rtx2 rt2_at meta_of]; rewrite Hm, H2; reflexivity.
  - cbn [rtx rt_at] in H. rewrite andb_false_r in H. discriminate.
  - exact H.
  - exact H.
  - cbn [rtx rt_at meta_of] in H. cbn [rtx2 rt2_at meta_of].
    apply andb_true_iff in H. destruct H as [Hm H]. apply andb_true_iff in H. destruct H as [H Hd].
    apply andb_true_iff in H. destruct H as [Hb He].
    rewrite Hm, Hb, (rt_up _ IHt 3 He), Hd. reflexivity.
  - cbn [rtx rt_at meta_of] in H. cbn [rtx2 rt2_at meta_of].
    apply andb_true_iff in H. destruct H as [Hm H]. rewrite Hm. cbn [andb]. destruct k.
    + repeat (apply andb_true_iff in H; destruct H as [H ?]).
      rewrite H, (forallb_up ops IHops 3) by assumption.
      match goal with Hl : Nat.leb 2 (length ops) = true |- _ => rewrite Hl end. reflexivity.
    + repeat (apply andb_true_iff in H; destruct H as [H ?]).
      rewrite H, (forallb_up ops IHops 2) by assumption.
      match goal with Hl : Nat.leb 2 (length ops) = true |- _ => rewrite Hl end. reflexivity.
    + repeat (apply andb_true_iff in H; destruct H as [H ?]).
      rewrite H, (forallb_up ops IHops 1), (f4_adjacent_unsigned ops) by assumption.
      match goal with Hl : Nat.leb 2 (length ops) = true |- _ => rewrite Hl end. reflexivity.
    + discriminate.
  - cbn [rtx rt_at meta_of] in H. cbn [rtx2 rt2_at meta_of].
    apply andb_true_iff in H. destruct H as [Hm He]. rewrite Hm, (rt_up _ IHt 3 He). reflexivity.
  - exact H.
  - exact H.
Qed.

(* every tree of C13r's guard is inside the new one *)
Theorem rt_ok_rt_ok2 t : rt_ok t = true -> rt_ok2 t = true.
Proof.
  unfold rt_ok, rt_ok2. intros H. exact (rt_up t (rt_rt2 t) 0 H).
Qed.

(* ================================================================ J'. the guard contains not-F4 (C13.v's predicate of the finding) *)

Lemma some_list_false (f : item -> bool) l : Forall (fun c => f c = false) l -> some_list f l = false.
Proof. induction 1 as [|c r Hc _ IH]; [reflexivity|]. cbn [some_list]. rewrite Hc, IH. reflexivity. Qed.

Lemma rt2_no_f4 : forall t lv, rtx2 lv t = true ->
  some_node (fun n => match n with Op KUnknown _ ops => f4_adjacent ops | _ => false end) t = false.
Proof.
  induction t as [k m v|m n t IHt|k m t IHt|m lo hi il ih IHlo IHhi|m t d i IHt|m t d i IHt|m t f i IHt
                 |k m ops IHops|k m t IHt|k m t i IHt|m] using item_ind';
    intros lv H.
  - reflexivity.
  - cbn [rtx2 rt2_at meta_of] in H. apply andb_true_iff in H. destruct H as [_ H].
    apply andb_true_iff in H. destruct H as [H _]. apply andb_true_iff in H. destruct H as [_ He].
    assert (Hex : rtx2 3 t = true).
    { destruct t; try exact He. destruct k; [discriminate|exact He]. }
    cbn [some_node orb]. exact (IHt 3 Hex).
  - assert (He : rt2_at 0 t = true).
    { destruct k; cbn [rtx2 rt2_at meta_of] in H; apply andb_true_iff in H; apply H. }
    cbn [some_node orb]. exact (IHt 0 (rtx2_of_rt _ _ He)).
  - cbn [rtx2 rt2_at meta_of] in H. apply andb_true_iff in H. destruct H as [_ H].
    apply andb_true_iff in H. destruct H as [Hlo Hhi].
    assert (B : forall b, bound2 b = true ->
              some_node (fun n => match n with Op KUnknown _ ops => f4_adjacent ops | _ => false end) b = false).
    { intros b Hb. destruct (bound2_inv _ Hb) as [[Hl _]|[mb [a [-> [_ Hl]]]]].
      - destruct (leaf_val_inv _ Hl) as [mm [v [_ [[-> _]|[-> _]]]]]; reflexivity.
      - destruct (leaf_val_inv _ Hl) as [mm [v [_ [[-> _]|[-> _]]]]]; reflexivity. }
    cbn [some_node orb]. rewrite (B lo Hlo), (B hi Hhi). reflexivity.
  - cbn [rtx2 rt2_at meta_of] in H. apply andb_true_iff in H. destruct H as [_ H].
    apply andb_true_iff in H. destruct H as [Hx _].
    destruct (leaf_word_inv _ Hx) as [mx [v [-> _]]]. reflexivity.
  - cbn [rtx2 rt2_at meta_of] in H. apply andb_true_iff in H. destruct H as [_ H].
    apply andb_true_iff in H. destruct H as [Hx _].
    destruct (leaf_phrase_inv _ Hx) as [mx [v [-> _]]]. reflexivity.
  - cbn [rtx2 rt2_at meta_of] in H. apply andb_true_iff in H. destruct H as [_ H].
    apply andb_true_iff in H. destruct H as [H _]. apply andb_true_iff in H. destruct H as [_ He].
    cbn [some_node orb]. exact (IHt 3 (rtx2_of_rt _ _ He)).
  - assert (Hk : exists l, forallb (rt2_at l) ops = true /\ (k = KUnknown -> f4_adjacent ops = false)).
    { cbn [rtx2 rt2_at meta_of] in H. apply andb_true_iff in H. destruct H as [_ H]. destruct k.
      - exists 3. repeat (apply andb_true_iff in H; destruct H as [H ?]). split; [assumption|discriminate].
      - exists 2. repeat (apply andb_true_iff in H; destruct H as [H ?]). split; [assumption|discriminate].
      - exists 1. repeat (apply andb_true_iff in H; destruct H as [H ?]). split; [assumption|].
        intros _. apply negb_true_iff. assumption.
      - discriminate. }
    destruct Hk as [l [Hops Hadj]].
    assert (Hrt : Forall (fun c => rt2_at l c = true) ops).
    { eapply forallb_Forall; [|exact Hops]. auto. }
    cbn [some_node]. fold (some_list (some_node (fun n => match n with Op KUnknown _ ops => f4_adjacent ops | _ => false end))).
    rewrite some_list_false.
    + destruct k; try reflexivity. rewrite (Hadj eq_refl). reflexivity.
    + eapply Forall_imp2; [|exact IHops|exact Hrt]. intros c Hc Hr. exact (Hc l (rtx2_of_rt _ _ Hr)).
  - cbn [rtx2 rt2_at meta_of] in H. apply andb_true_iff in H. destruct H as [_ He].
    cbn [some_node]. rewrite (IHt 3 (rtx2_of_rt _ _ He)). destruct k; reflexivity.
  - cbn [rtx2 rt2_at meta_of] in H. apply andb_true_iff in H. destruct H as [_ H].
    apply andb_true_iff in H. destruct H as [Ha _]. apply orb_true_iff in Ha. destruct Ha as [Ha|Ha].
    + destruct (leaf_word_inv _ Ha) as [ma [v [-> _]]]. reflexivity.
    + destruct (leaf_phrase_inv _ Ha) as [ma [v [-> _]]]. reflexivity.
  - reflexivity.
Qed.
