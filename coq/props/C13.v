(* C13 — auto_head_tail makes a programmatic tree print to a query that parses back to it.
   Only statements, short glue proofs, non-vacuity examples, Print Assumptions.
   Model: model/AutoHeadTail.v (+ shared Eq.v clone_item/item_eqb, Print.v, Visitor.v dispatch, Traverse.v
   copy_list, Lexer.v/LR.v/Actions.v/Parser.v); lemmas: proofs/AutoHeadTailProofs.v.
   The class MROs, `_equality_attrs`, the AutoHeadTail method table, the operator strings, the lexer
   character classes and the LR tables are the generated ones: every table fact is re-checked against
   the code of today.

   Clauses of the property text -> statements
     (when a result exists at all)                          C13_fails_exactly
     "the tree returned by auto_head_tail is equal to the input"      C13_equal_to_input
     "only inserts a single space where a head or tail is empty ..., never alters a non-empty head or
      tail" (and nothing else changes)                                C13_only_fills_empty
     "... AND a separator is needed": WHICH empty slots get the blank — exactly those the rule designates (between
      the operands and the operator of an operation, between the operands of an implicit operation, after NOT,
      around TO), no other empty slot, no guard                       C13_fills_where_needed
     "is idempotent"                                                  C13_idempotent
     "leaves its argument untouched"        mutation is outside a value model (the model builds new
                                            values by construction); checked on the implementation by
                                            harness/c13.py (snapshot before / after)
     "for any tree built without layout whose shape the grammar can express ... its printed form is
      accepted by the parser and parses to an equal tree"
          C13_roundtrip_statement            REFUTED  (C13_roundtrip_refuted: F4)
          C13_roundtrip_noF4_statement       REFUTED  (C13_roundtrip_noF4_refuted: F15, two witnesses)
          C13_roundtrip_guarded_statement    stated in full, NOT proved (needs a print->lex->parse theory);
                                             validated by correspondence only (harness/c13.py)
          C13_roundtrip_partial              PROVED for an infinite family: a flat AND or OR operation of
                                             any number >= 2 of plain words (non-empty, lowercase ASCII
                                             letters), by induction on the number of words, directly on
                                             the lexer and LR-driver models with the generated tables
                                             (proofs/AutoHeadTailRoundtrip.v) *)
Require Import Base Decimal Tree GenTree GenVisitors GenParser Visitor Eq Traverse Print Lexer Actions LR Parser.
Require Import AutoHeadTail TreeInd TraverseProofs AutoHeadTailProofs AutoHeadTailRoundtrip AhtSlotProofs.

(* ---------------------------------------------------------------- tie obligations on generated data *)
Lemma aht_methods_known_ok : aht_methods_known = true.
Proof. vm_compute. reflexivity. Qed.

(* UnknownOperation has its own handler; the three other operation classes reach visit_base_operation
   through BaseOperation in their MRO; Not and Range have theirs; everything else is the generic copy *)
Lemma aht_handlers : forall t, handler_of (cls_of t) = Some (hspec t).
Proof. exact handler_table. Qed.

(* ---------------------------------------------------------------- statements *)

(* what every luqum constructor establishes on degrees and forces (TraverseProofs.wf_node): an implicit
   degree / force has its default value, an explicit force is normalised *)
Definition well_formed (t : item) : Prop := all_nodes wf_node t.

(* auto_head_tail raises (IndexError) exactly when some AND / OR / Bool operation of the tree has no operand *)
Definition C13_fails_exactly_statement : Prop :=
  forall t, aht t = None <->
            exists q k m, subtree_at t q = Some (Op k m []) /\ k <> KUnknown.

(* the result is equal to the input in luqum's sense (Item.__eq__) *)
Definition C13_equal_to_input_statement : Prop :=
  forall t t', all_nodes eq_stable t -> aht t = Some t' -> item_eqb t' t = true.

(* node by node: same class, same attributes, same pos/size; each head/tail unchanged or changed from
   "" to " " (so a non-empty one is never altered); the result carries no name *)
Definition C13_only_fills_empty_statement : Prop :=
  forall t t', well_formed t -> aht t = Some t' -> fills t t'.

(* WHERE the blanks go ("where a head or tail is empty AND a separator is needed").  The rule, on the tree's
   constructors (proofs/AhtSlotProofs.v head_needed_in / tail_needed_in, for child number i of a node p):
     p an AND / OR / Bool operation   head: every operand but the first; tail: every operand but the last
                                      (a single operand: both)          -- the operator stands between operands
     p an implicit operation          tail: every operand but the last; no head
     p a NOT                          head of the operand                -- after the word NOT
     p a range                        tail of the low bound, head of the high bound   -- around the word TO
     anything else                    nothing: not the root, not inside the parentheses of a group, not after
                                      `field:`, not before `~` / `^`, not after `+` `-` `<` `>`, not next to the
                                      brackets of a range
   `designated f t q`: q is child number i of a node p of t with f p i.  Every position of the input is a
   position of the result and there: a designated head (tail) that was empty is one blank, a designated non-empty
   one is unchanged (`slot_after true`), and a head (tail) that is NOT designated is unchanged, empty or not.
   No guard: heads and tails do not depend on the constructor invariant. *)
Definition C13_fills_where_needed_statement : Prop :=
  forall t t', aht t = Some t' ->
    forall q n, subtree_at t q = Some n ->
      exists n', subtree_at t' q = Some n' /\
        (designated head_needed_in t q -> head_of n' = slot_after true (head_of n)) /\
        (~ designated head_needed_in t q -> head_of n' = head_of n) /\
        (designated tail_needed_in t q -> tail_of n' = slot_after true (tail_of n)) /\
        (~ designated tail_needed_in t q -> tail_of n' = tail_of n).

(* a second application returns its argument, exactly (names included: the result has none) *)
Definition C13_idempotent_statement : Prop :=
  forall t t', aht t = Some t' -> aht t' = Some t'.

Definition layout_free (t : item) : Prop := layout_freeb t = true.
Definition expressible (t : item) : Prop := expressibleb t = true.

(* what the round trip asks of one tree *)
Definition roundtrips (t : item) : Prop :=
  exists t' b, aht t = Some t' /\ parse (print true t') = Some (Ok b) /\ item_eqb b t = true.

Definition C13_roundtrip_statement : Prop :=
  forall t, well_formed t -> layout_free t -> expressible t -> roundtrips t.

Definition C13_roundtrip_noF4_statement : Prop :=
  forall t, well_formed t -> layout_free t -> expressible t -> f4_patternb t = false -> roundtrips t.

(* believed true (no counter-example among ~180 000 grammar-derived trees on the real parser, and the
   model agrees with the real parser on every case of every run); not proved *)
Definition C13_roundtrip_guarded_statement : Prop :=
  forall t, well_formed t -> layout_free t -> expressible t ->
            f4_patternb t = false -> f15_patternb t = false -> roundtrips t.

(* the proved family: AND / OR of at least two plain words (any number, any lengths) *)
Definition flat_family (t : item) : Prop :=
  exists k w1 w2 l, (k = KAnd \/ k = KOr) /\ forallb plain_word (w1 :: w2 :: l) = true /\
                    t = Op k meta0 (map W (w1 :: w2 :: l)).

Definition C13_roundtrip_partial_statement : Prop := forall t, flat_family t -> roundtrips t.

(* ---------------------------------------------------------------- theorems *)

Theorem C13_fails_exactly : C13_fails_exactly_statement.
Proof. intros t. rewrite aht_none. apply aht_defined_false. Qed.

Theorem C13_equal_to_input : C13_equal_to_input_statement.
Proof. intros t t' Hg H. apply aht_some in H. destruct H as [_ H]. subst. apply daht_eq. exact Hg. Qed.

Theorem C13_only_fills_empty : C13_only_fills_empty_statement.
Proof. intros t t' Hg H. apply aht_some in H. destruct H as [_ H]. subst. apply daht_fills. exact Hg. Qed.

Theorem C13_fills_where_needed : C13_fills_where_needed_statement.
Proof. intros t t' H. apply aht_some in H. destruct H as [_ H]. subst. exact (daht_slots t). Qed.

Theorem C13_idempotent : C13_idempotent_statement.
Proof. exact aht_idempotent. Qed.

Theorem C13_roundtrip_partial : C13_roundtrip_partial_statement.
Proof.
  intros t [k [w1 [w2 [l [[->| ->] [Hp ->]]]]]]; [exact (and_roundtrip w1 w2 l Hp)|exact (or_roundtrip w1 w2 l Hp)].
Qed.

(* the family lies inside the guards of the full statement *)
Example C13_family_nonvacuous :
  let t := Op KOr meta0 (map W [[102;111;111]; [98;97;114]; [98;97;122]; [113;117;120]]%N) in
  flat_family t /\ layout_free t /\ expressible t /\ f4_patternb t = false /\ f15_patternb t = false /\
  roundtripb t = true.
Proof.
  split.
  - exists KOr, [102;111;111]%N, [98;97;114]%N, [[98;97;122]; [113;117;120]]%N. split; [auto|]. split; reflexivity.
  - vm_compute. auto 10.
Qed.

Lemma roundtrips_b t : roundtrips t -> roundtripb t = true.
Proof.
  intros [t' [b [H1 [H2 H3]]]]. unfold roundtripb. rewrite H1, H2. exact H3.
Qed.

Lemma wfb_ok t : all_nodesb wf_nodeb t = true -> well_formed t.
Proof. apply all_nodesb_spec. exact wf_nodeb_ok. Qed.


(* F4: Unknown(And(a, b), Prohibit(c)) prints `a AND b -c`, which parses as And(a, Unknown(b, -c)) *)
Definition f4_witness : item :=
  Op KUnknown meta0 [Op KAnd meta0 [W [97]%N; W [98]%N]; Unary KProhibit meta0 (W [99]%N)].
(* F15: SearchField('xT12', Word('30')) prints `xT12:30`, one TERM (time syntax);
        To(Word('=a'), include=False) prints `<=a`, which parses as To(Word('a'), include=True) *)
Definition f15_witness_colon : item := SearchField meta0 [120;84;49;50]%N (W [51;48]%N).
Definition f15_witness_lt : item := ORange KTo meta0 (W [61;97]%N) false.

Theorem C13_roundtrip_refuted : ~ C13_roundtrip_statement.
Proof.
  intros H. specialize (H f4_witness).
  assert (R : roundtripb f4_witness = true).
  { apply roundtrips_b. apply H; [apply wfb_ok|..]; vm_compute; reflexivity. }
  vm_compute in R. discriminate.
Qed.

Theorem C13_roundtrip_noF4_refuted : ~ C13_roundtrip_noF4_statement.
Proof.
  intros H. specialize (H f15_witness_colon).
  assert (R : roundtripb f15_witness_colon = true).
  { apply roundtrips_b. apply H; [apply wfb_ok|..]; vm_compute; reflexivity. }
  vm_compute in R. discriminate.
Qed.

(* the second F15 joint, independently *)
Example C13_f15_lt_fails :
  well_formed f15_witness_lt /\ layout_free f15_witness_lt /\ expressible f15_witness_lt /\
  f4_patternb f15_witness_lt = false /\ roundtripb f15_witness_lt = false /\
  (exists t', aht f15_witness_lt = Some t' /\
     parse (print true t') = Some (Ok (ORange KTo (mkMeta (Some 0%Z) (Some 3%Z) [] [] None)
                                          (Term KWord (mkMeta (Some 2%Z) (Some 1%Z) [] [] None) [97]%N) true))).
Proof.
  split; [apply wfb_ok; vm_compute; reflexivity|].
  split; [vm_compute; reflexivity|]. split; [vm_compute; reflexivity|].
  split; [vm_compute; reflexivity|]. split; [vm_compute; reflexivity|].
  eexists. split; [vm_compute; reflexivity|]. vm_compute. reflexivity.
Qed.

(* the findings are recognised by the classification predicates, and only they *)
Example C13_witnesses_classified :
  f4_patternb f4_witness = true /\ f15_patternb f4_witness = false /\
  f15_patternb f15_witness_colon = true /\ f4_patternb f15_witness_colon = false /\
  f15_patternb f15_witness_lt = true.
Proof. vm_compute. auto. Qed.

(* ---------------------------------------------------------------- non-vacuity *)

(* a tree with partial layout: the result exists, differs from the input exactly by the blanks, the
   non-empty tail "\t" of b and head "  " of c are kept *)
Definition ex_partial : item :=
  Op KAnd meta0 [W [97]%N;
                 Term KWord (mkMeta None None [] [9]%N None) [98]%N;
                 Unary KNot (mkMeta None None [32;32]%N [] (Some [110]%N)) (W [99]%N)].
Example C13_nonvacuous_partial_layout :
  well_formed ex_partial /\
  aht ex_partial =
    Some (Op KAnd meta0 [Term KWord (mkMeta None None [] [32]%N None) [97]%N;
                         Term KWord (mkMeta None None [32]%N [9]%N None) [98]%N;
                         Unary KNot (mkMeta None None [32;32]%N [] None)
                               (Term KWord (mkMeta None None [32]%N [] None) [99]%N)]).
Proof. split; [apply wfb_ok|]; vm_compute; reflexivity. Qed.

(* one operand: the same node gets the tail, then the head *)
Example C13_single_operand :
  aht (Op KOr meta0 [W [97]%N]) = Some (Op KOr meta0 [Term KWord (mkMeta None None [32]%N [32]%N None) [97]%N]).
Proof. vm_compute. reflexivity. Qed.

(* no operand: IndexError for AND / OR / Bool, fine for the implicit operation *)
Example C13_no_operand :
  aht (Op KAnd meta0 []) = None /\ aht (Op KOr meta0 []) = None /\ aht (Op KBool meta0 []) = None /\
  aht (Op KUnknown meta0 []) = Some (Op KUnknown meta0 []) /\
  aht (Grp KGroup meta0 (Op KBool meta0 [])) = None.
Proof. vm_compute. auto. Qed.

(* the guards of the round trip are satisfiable together by a tree using most constructs, and the
   round trip holds on it (by computation on the parser model):
   f:(a OR "b c") AND NOT x~2 AND [1 TO -2} AND >=y^3 *)
Definition ex_rich : item :=
  Op KAnd meta0
    [SearchField meta0 [102]%N (Grp KFieldGroup meta0 (Op KOr meta0 [W [97]%N; Term KPhrase meta0 [34;98;32;99;34]%N]));
     Unary KNot meta0 (Fuzzy meta0 (W [120]%N) (mkDec false 2 0) false);
     Range meta0 (W [49]%N) (Unary KProhibit meta0 (W [50]%N)) true false;
     Boost meta0 (ORange KFrom meta0 (W [121]%N) true) (mkDec false 3 0) false].
Example C13_guards_nonvacuous :
  well_formed ex_rich /\ layout_free ex_rich /\ expressible ex_rich /\
  f4_patternb ex_rich = false /\ f15_patternb ex_rich = false /\ roundtripb ex_rich = true.
Proof. split; [apply wfb_ok; vm_compute; reflexivity|]. vm_compute. auto 10. Qed.

(* the guard of C13_equal_to_input is needed only for values no constructor produces: a Fuzzy flagged
   "implicit degree" whose degree is not the default 0.5 (the clone recomputes the default) *)
Example C13_equal_needs_constructor_invariant :
  exists t t', aht t = Some t' /\ item_eqb t' t = false.
Proof. exists (Fuzzy meta0 (W [97]%N) (mkDec false 2 0) true). eexists. split; [vm_compute; reflexivity|]. vm_compute. reflexivity. Qed.

(* ... and so is the guard of C13_only_fills_empty (`fills` also says that no attribute changes): same value *)
Example C13_only_fills_needs_constructor_invariant :
  exists t t', aht t = Some t' /\ ~ fills t t'.
Proof.
  exists (Fuzzy meta0 (W [97]%N) (mkDec false 2 0) true). eexists. split; [vm_compute; reflexivity|].
  intros H. inversion H.
Qed.

(* where the blanks go, on a tree using every construct: only between operands and operators, after NOT and
   around TO — none after `f:`, inside `( )`, before `~2` / `^3`, after `-` `>=` `+`, next to `[` `}`:
   f:(a OR "b c") AND NOT x~2 AND [1 TO -2} AND >=y^3 AND +(p q) *)
Definition ex_slots : item :=
  Op KAnd meta0
    [SearchField meta0 [102]%N (Grp KFieldGroup meta0 (Op KOr meta0 [W [97]%N; Term KPhrase meta0 [34;98;32;99;34]%N]));
     Unary KNot meta0 (Fuzzy meta0 (W [120]%N) (mkDec false 2 0) false);
     Range meta0 (W [49]%N) (Unary KProhibit meta0 (W [50]%N)) true false;
     Boost meta0 (ORange KFrom meta0 (W [121]%N) true) (mkDec false 3 0) false;
     Unary KPlus meta0 (Grp KGroup meta0 (Op KUnknown meta0 [W [112]%N; W [113]%N]))].
Example C13_slots_nonvacuous :
  option_map (print true) (aht ex_slots) = Some [102;58;40;97;32;79;82;32;34;98;32;99;34;41;32;65;78;68;32;78;79;84;32;120;126;50;32;65;78;68;32;91;49;32;84;79;32;45;50;125;32;65;78;68;32;62;61;121;94;51;32;65;78;68;32;43;40;112;32;113;41]%N /\
  designated tail_needed_in ex_slots [0] /\ ~ designated head_needed_in ex_slots [0] /\
  designated head_needed_in ex_slots [1; 0] /\ ~ designated tail_needed_in ex_slots [1; 0] /\
  ~ designated head_needed_in ex_slots [0; 0] /\ ~ designated head_needed_in ex_slots [4; 0; 0; 1].
Proof.
  split; [vm_compute; reflexivity|].
  split; [exists [], 0, ex_slots; repeat split|].
  split; [rewrite (designated_snoc _ ex_slots [] 0 ex_slots eq_refl); vm_compute; discriminate|].
  split; [exists [1], 0; eexists; repeat split|].
  split; [rewrite (designated_snoc _ ex_slots [1] 0 _ eq_refl); vm_compute; discriminate|].
  split; [rewrite (designated_snoc _ ex_slots [0] 0 _ eq_refl); vm_compute; discriminate|].
  rewrite (designated_snoc _ ex_slots [4; 0; 0] 1 _ eq_refl); vm_compute; discriminate.
Qed.

Print Assumptions C13_fails_exactly.
Print Assumptions C13_fills_where_needed.
Print Assumptions C13_equal_to_input.
Print Assumptions C13_only_fills_empty.
Print Assumptions C13_idempotent.
Print Assumptions C13_roundtrip_refuted.
Print Assumptions C13_roundtrip_noF4_refuted.
Print Assumptions C13_roundtrip_partial.
