"""C09 — equality means same meaning-bearing content; clone_item preserves it.
Also the tie of the shared models Print.v (Item.__str__), Eq.v (Item.__eq__, clone_item)."""
import copy
from decimal import Decimal
from fractions import Fraction

import lib
import gentree


def fingerprint(T, n):
    """independent statement of 'same meaning-bearing content'"""
    k = type(n).__name__
    if isinstance(n, T.Term):
        return (k, n.value)
    if isinstance(n, T.SearchField):
        return (k, n.name, fingerprint(T, n.expr))
    if isinstance(n, T.Range):
        return (k, bool(n.include_low), bool(n.include_high), fingerprint(T, n.low), fingerprint(T, n.high))
    if isinstance(n, T.BaseApprox):
        return (k, Fraction(Decimal(n.degree)), fingerprint(T, n.term))
    if isinstance(n, T.Boost):
        return (k, Fraction(Decimal(n.force)), fingerprint(T, n.expr))
    if isinstance(n, T.OpenRange):
        return (k, bool(n.include), fingerprint(T, n.a))
    return (k,) + tuple(fingerprint(T, c) for c in n.children)


def share(T, a, b):
    """b with every sub-tree that has the same content as the sub-tree of a at the same position replaced by a's
    OBJECT (maximal sharing of node objects between the two trees; contents unchanged)"""
    if fingerprint(T, a) == fingerprint(T, b) and (a.head, a.tail, a.pos, a.size) == (b.head, b.tail, b.pos, b.size):
        return a
    if type(a) is type(b) and len(a.children) == len(b.children) and b.children:
        b.children = [share(T, ca, cb) for ca, cb in zip(a.children, b.children)]
    return b


def mutate(r, T, g, tree):
    """return (mutant, kind) — a deep copy of tree with exactly one change at a random node"""
    t = copy.deepcopy(tree)
    nodes = list(gentree.all_nodes(t))
    kind = r.choice(["layout", "value", "name", "flag", "degree_same", "degree_diff", "child",
                     "swap", "arity", "class", "none", "lookalike", "lookalike"])
    applicable = {
        "value": lambda n: isinstance(n, T.Term),
        "lookalike": lambda n: isinstance(n, (T.Term, T.SearchField)),
        "name": lambda n: isinstance(n, T.SearchField),
        "flag": lambda n: isinstance(n, (T.Range, T.OpenRange)),
        "degree_same": lambda n: isinstance(n, (T.Fuzzy, T.Boost)),
        "degree_diff": lambda n: isinstance(n, (T.Fuzzy, T.Proximity, T.Boost)),
        "child": lambda n: bool(n.children),
        "swap": lambda n: len(n.children) >= 2,
        "arity": lambda n: isinstance(n, T.BaseOperation),
        "class": lambda n: isinstance(n, (T.Word, T.BaseGroup, T.BaseOperation, T.UnaryOperator, T.OpenRange)),
    }.get(kind, lambda n: True)
    cands = [(p, n) for p, n in nodes if applicable(n)]
    if not cands:
        return t, "identical"
    path, n = r.choice(cands)
    def replace(new):
        if not path:
            return new
        parent = t
        for i in path[:-1]:
            parent = parent.children[i]
        cs = list(parent.children)
        cs[path[-1]] = new
        parent.children = cs
        return t
    if kind == "none":
        return t, "identical"
    if kind == "layout":
        n.head = r.choice(gentree.SPACES) + "x"
        n.tail = r.choice(gentree.SPACES)
        n.pos = r.randrange(100)
        n.size = r.randrange(100)
        setattr(n, "_luqum_name", "nm")
        return t, "layout-only"
    if kind == "lookalike":
        # a different value / name that a lenient comparison (unescaping, case folding, stripping, Unicode
        # normalisation, prefix) would take for the same one
        import unicodedata
        attr = "value" if isinstance(n, T.Term) else "name"
        v = getattr(n, attr)
        i = r.randrange(0, len(v) + 1)
        variants = [v.swapcase(), v[:i] + "\\" + v[i:], v.replace("\\", "", 1), v + " ", " " + v, v[:i] + " " + v[i:],
                    unicodedata.normalize("NFD", v), unicodedata.normalize("NFC", v),
                    unicodedata.normalize("NFKC", v), v[:-1], v + v[-1:], v.replace("*", "\\*"), v.replace("?", "*")]
        variants = [x for x in variants if x != v]
        setattr(n, attr, r.choice(variants))
        return t, "%s-lookalike" % attr
    if kind == "value" and isinstance(n, T.Term):
        n.value = n.value[:-1] + "z" + n.value[-1:] if n.value else "z"
        return t, "value"
    if kind == "name" and isinstance(n, T.SearchField):
        n.name = n.name + "_"
        return t, "field-name"
    if kind == "flag":
        if isinstance(n, T.Range):
            if r.random() < 0.5:
                n.include_low = not n.include_low
            else:
                n.include_high = not n.include_high
            return t, "range-flag"
        if isinstance(n, T.OpenRange):
            n.include = not n.include
            return t, "openrange-flag"
    if kind == "degree_same":
        if isinstance(n, T.Fuzzy):
            return replace(T.Fuzzy(n.term, Decimal(str(n.degree) if "E" not in str(n.degree) else n.degree)
                                   .scaleb(0) + Decimal("0.00"), head=n.head, tail=n.tail)), "degree-respelled"
        if isinstance(n, T.Boost):
            return replace(T.Boost(n.expr, str(Decimal(n.force) + Decimal("0.0")))), "force-respelled"
    if kind == "degree_diff":
        if isinstance(n, T.Fuzzy):
            return replace(T.Fuzzy(n.term, Decimal(n.degree) + 1)), "degree"
        if isinstance(n, T.Proximity):
            return replace(T.Proximity(n.term, n.degree + 1)), "degree"
        if isinstance(n, T.Boost):
            return replace(T.Boost(n.expr, Decimal(n.force) + 1)), "force"
    if kind == "child" and n.children:
        cs = list(n.children)
        i = r.randrange(len(cs))
        cs[i] = g.tree(1)
        n.children = cs
        return t, "child-replaced"
    if kind == "swap" and len(n.children) >= 2:
        cs = list(n.children)
        cs[0], cs[-1] = cs[-1], cs[0]
        n.children = cs
        return t, "children-swapped"
    if kind == "arity" and isinstance(n, T.BaseOperation):
        cs = list(n.children)
        x = r.random()
        if cs and x < 0.4:
            cs.pop()
        elif x < 0.7:
            cs.append(T.NoneItem())      # a trailing placeholder is still one more operand
        else:
            cs.append(g.leaf())
        n.children = cs
        return t, "operand-count"
    if kind == "class":
        swaps = {T.Word: T.Phrase, T.Group: T.FieldGroup, T.FieldGroup: T.Group,
                 T.AndOperation: T.OrOperation, T.OrOperation: T.UnknownOperation,
                 T.UnknownOperation: T.BoolOperation, T.BoolOperation: T.AndOperation,
                 T.Plus: T.Not, T.Not: T.Prohibit, T.Prohibit: T.Plus, T.From: T.To, T.To: T.From}
        k2 = swaps.get(type(n))
        if k2 is T.Phrase:
            return replace(T.Phrase('"%s"' % n.value.replace('"', ''))), "class"
        if k2 is not None:
            if issubclass(k2, T.BaseOperation):
                return replace(k2(*n.children)), "class"
            if issubclass(k2, T.OpenRange):
                return replace(k2(n.a, n.include)), "class"
            return replace(k2(n.children[0])), "class"
    return t, "identical"


def correspond(model_ok, res):
    import luqum.tree as T
    r = lib.rng("C09")
    quick = lib.tier() == "quick"
    g = gentree.Gen(r, T, layout=0.5, odd=0.15, positions=0.3)
    npairs = 400 if quick else 4000
    eq_cases, eq_payload = [], []
    kinds = {}
    seen = set()
    # instances of the documented base classes and of user subclasses (outside the Coq model, whose node kinds are
    # the concrete classes): Python oracle only.  Equal exactly when same class and same content; symmetric.
    class MyWord(T.Word):
        pass

    class MyAnd(T.AndOperation):
        pass

    W = T.Word
    singles = [T.Term("a"), W("a"), MyWord("a"), T.Phrase('"a"'), T.Regex("/a/"), T.Item(), T.NoneItem(),
               T.Unary(W("a")), T.Plus(W("a")), T.Not(W("a")), T.Prohibit(W("a")),
               T.BaseOperation(W("a"), W("b")), T.AndOperation(W("a"), W("b")), MyAnd(W("a"), W("b")),
               T.OrOperation(W("a"), W("b")), T.UnknownOperation(W("a"), W("b")), T.BoolOperation(W("a"), W("b")),
               T.BaseGroup(W("a")), T.Group(W("a")), T.FieldGroup(W("a")),
               T.OpenRange(W("a")), T.From(W("a")), T.To(W("a"))]
    import copy as _copy
    wrappers = [lambda x: x, lambda x: T.Group(x), lambda x: T.Not(T.Group(x)),
                lambda x: T.AndOperation(W("z"), x), lambda x: T.SearchField("f", x)]
    base_pairs = 0
    for wi, wrap in enumerate(wrappers):
        objs = [(type(o).__name__, wrap(_copy.deepcopy(o))) for o in singles]
        for i, (ka, a) in enumerate(objs):
            for j, (kb, b) in enumerate(objs):
                base_pairs += 1
                want = i == j
                try:
                    got = (a == b)
                except Exception as e:
                    got = "raised %r" % (e,)
                if got is not want:
                    res.failures.append(({"why": "equality between items of classes %s and %s (base classes / user "
                                                 "subclasses included): equal exactly when same class and content"
                                                 % (ka, kb), "wrapper": wi, "a": repr(a)[:200], "b": repr(b)[:200],
                                          "a==b": got, "expected": want}, None))
    # fixed pairs first: an IMPLICIT degree / force against explicit ones (equal and different), both
    # inclusiveness flags, under a few wrappers; both directions are compared below
    P_ = T.Phrase('"a b"')
    numeral_pairs = [
        (lambda: T.Boost(W("a"), None), lambda: T.Boost(W("a"), 2), "implicit-force-vs-2"),
        (lambda: T.Boost(W("a"), None), lambda: T.Boost(W("a"), "0.5"), "implicit-force-vs-0.5"),
        (lambda: T.Boost(W("a"), None), lambda: T.Boost(W("a"), 1), "implicit-force-vs-1"),
        (lambda: T.Boost(W("a"), None), lambda: T.Boost(W("a"), "1.0"), "implicit-force-vs-1.0"),
        (lambda: T.Boost(W("a"), 2), lambda: T.Boost(W("a"), "2.0"), "force-2-vs-2.0"),
        (lambda: T.Boost(W("a"), 2), lambda: T.Boost(W("a"), 3), "force-2-vs-3"),
        (lambda: T.Fuzzy(W("a")), lambda: T.Fuzzy(W("a"), 2), "implicit-degree-vs-2"),
        (lambda: T.Fuzzy(W("a")), lambda: T.Fuzzy(W("a"), "0.5"), "implicit-degree-vs-0.5"),
        (lambda: T.Fuzzy(W("a")), lambda: T.Fuzzy(W("a"), "0.50"), "implicit-degree-vs-0.50"),
        (lambda: T.Fuzzy(W("a"), 1), lambda: T.Fuzzy(W("a"), "1.0"), "degree-1-vs-1.0"),
        (lambda: T.Proximity(P_), lambda: T.Proximity(P_, 2), "implicit-proximity-vs-2"),
        (lambda: T.Proximity(P_), lambda: T.Proximity(P_, 1), "implicit-proximity-vs-1"),
        (lambda: T.Proximity(P_, 3), lambda: T.Proximity(P_, "3"), "proximity-3-vs-'3'"),
        (lambda: T.From(W("1"), True), lambda: T.From(W("1"), False), "from-flag"),
        (lambda: T.To(W("1"), True), lambda: T.To(W("1"), False), "to-flag"),
        (lambda: T.From(W("1")), lambda: T.From(W("1"), True), "from-default-flag"),
        (lambda: T.Range(W("1"), W("2"), True, False), lambda: T.Range(W("1"), W("2"), False, False), "range-low-flag"),
        (lambda: T.Range(W("1"), W("2"), True, False), lambda: T.Range(W("1"), W("2"), True, True), "range-high-flag"),
        # the bracket next to a `*` bound still counts
        (lambda: T.Range(W("1"), W("*"), True, False), lambda: T.Range(W("1"), W("*"), True, True), "range-high-flag-wildcard"),
        (lambda: T.Range(W("*"), W("5"), False, True), lambda: T.Range(W("*"), W("5"), True, True), "range-low-flag-wildcard"),
        (lambda: T.Range(W("*"), W("*"), False, False), lambda: T.Range(W("*"), W("*"), True, True), "range-flags-both-wildcards"),
        (lambda: T.From(W("*"), True), lambda: T.From(W("*"), False), "from-flag-wildcard"),
        (lambda: T.SearchField("f", T.Range(W("1"), W("*"), True, False)), lambda: T.SearchField("f", T.Range(W("1"), W("*"))), "range-default-flags-wildcard"),
    ]
    fixed_pairs = []
    for mk_s in (lambda: W("s"), lambda: T.Group(T.OrOperation(W("p"), W("q"))), lambda: T.NoneItem(),
                 lambda: T.Range(W("1"), W("2")), lambda: T.Fuzzy(W("z"), 2)):
        # ONE object s at the same position of two trees that differ in a sibling before / after it
        s_ = mk_s()
        for cls in (T.AndOperation, T.OrOperation, T.UnknownOperation, T.BoolOperation):
            fixed_pairs.append((cls(W("a"), s_), cls(W("b"), s_), "fixed:shared-object-last"))
            fixed_pairs.append((cls(s_, W("a")), cls(s_, W("b")), "fixed:shared-object-first"))
            fixed_pairs.append((cls(W("a"), s_, W("c")), cls(W("b"), s_, W("c")), "fixed:shared-object-middle"))
            fixed_pairs.append((T.Group(cls(W("a"), T.Not(s_))), T.Group(cls(W("b"), T.Not(s_))), "fixed:shared-object-deep"))
        fixed_pairs.append((T.Range(W("1"), s_), T.Range(W("2"), s_), "fixed:shared-bound-high"))
        fixed_pairs.append((T.Range(s_, W("1")), T.Range(s_, W("2")), "fixed:shared-bound-low"))
        fixed_pairs.append((T.SearchField("f", s_), T.SearchField("g", s_), "fixed:shared-field-expr"))
    # two half-filled clones: the placeholder NONE_ITEM is one shared object
    rg = T.Range(W("1"), W("9"))
    c1, c2 = rg.clone_item(), rg.clone_item()
    c1.children = [W("1"), c1.children[1]]
    c2.children = [W("2"), c2.children[1]]
    fixed_pairs.append((c1, c2, "fixed:half-filled-clones"))
    for mk_a, mk_b, kind in numeral_pairs:
        for wrap in wrappers[:4]:
            fixed_pairs.append((wrap(mk_a()), wrap(mk_b()), "fixed:" + kind))
            fixed_pairs.append((wrap(mk_b()), wrap(mk_a()), "fixed:" + kind + ":swapped"))
    for pi in range(len(fixed_pairs) + npairs):
        if pi < len(fixed_pairs):
            a, b, kind = fixed_pairs[pi]
        else:
            a = g.tree(r.randrange(0, 4))
            if r.random() < 0.8:
                for _try in range(8):
                    b, kind = mutate(r, T, g, a)
                    if kind != "identical":
                        break
            else:
                b, kind = g.tree(r.randrange(0, 3)), "unrelated"
            if kind not in ("identical", "unrelated") and pi % 2:
                # the two trees SHARE every sub-tree object they have in common (a query rebuilt around reused parts)
                b = share(T, a, b)
                kind += "+shared-objects"
        kinds[kind] = kinds.get(kind, 0) + 1
        try:
            ga, gb = lib.g_item(a), lib.g_item(b)
        except lib.Unmodelled:
            continue
        ab, ba, aa = (a == b), (b == a), (a == a)
        fa, fb = fingerprint(T, a), fingerprint(T, b)
        da, db = gentree.describe(a), gentree.describe(b)
        payload = {"a": da[:1500], "b": db[:1500], "mutation": kind, "a==b": ab}
        if ab != (fa == fb):
            res.failures.append((dict(payload, why="a == b is %s but same-content is %s" % (ab, fa == fb)), None))
        if ab != ba:
            res.failures.append((dict(payload, why="equality is not symmetric"), None))
        if not aa:
            res.failures.append((dict(payload, why="equality is not reflexive"), None))
        eq_cases.append("(%s, %s, %s)" % (ga, gb, lib.g_bool(ab)))
        eq_payload.append(payload)
        if (da, db) not in seen and kind != "identical":
            seen.add((da, db))
    # transitivity probe on triples a ~ b ~ c built from layout / respelling mutations
    # clone + print cases
    cl_cases, cl_payload = [], []
    for _ in range(250 if quick else 2500):
        a = g.tree(r.randrange(0, 4))
        for path, n in list(gentree.all_nodes(a))[:6]:
            try:
                gn = lib.g_item(n)
            except lib.Unmodelled:
                continue
            before = gn
            s_false, s_true = n.__str__(), n.__str__(head_tail=True)
            try:
                c = n.clone_item()
            except Exception as e:
                res.failures.append(({"node": gentree.describe(n)[:800], "why": "clone_item raised %r" % e}, None))
                continue
            if lib.g_item(n) != before:
                res.failures.append(({"node": gentree.describe(n)[:800], "why": "clone_item modified its receiver"}, None))
            gc = lib.g_item(c)
            # oracle: same type, same content attrs, same layout, children are placeholders
            why = None
            if type(c) is not type(n):
                why = "clone has another type"
            elif (c.pos, c.size, c.head, c.tail) != (n.pos, n.size, n.head, n.tail):
                why = "clone has another layout"
            elif any(type(ch) is not T.NoneItem for ch in c.children):
                why = "clone's children are not placeholders"
            else:
                c2 = copy.deepcopy(c)
                if isinstance(n, T.BaseOperation) or len(n.children) == len(c2.children):
                    c2.children = list(n.children)
                    if not (c2 == n):
                        why = "clone given the children does not compare equal to the original"
                    elif c2.__str__(head_tail=True) != s_true:
                        fid = None
                        res.failures.append(({"node": gentree.describe(n)[:800], "printed": s_true,
                                              "clone_printed": c2.__str__(head_tail=True),
                                              "why": "clone given the children prints differently"}, fid))
            if why:
                res.failures.append(({"node": gentree.describe(n)[:800], "why": why}, None))
            cl_cases.append("(%s, %s, %s, %s)" % (gn, gc, lib.g_str(s_false), lib.g_str(s_true)))
            cl_payload.append({"node": gentree.describe(n)[:800]})
    res.cases = len(eq_cases) + len(cl_cases)
    res.nontrivial = len(seen)
    res.rule = ("pairs (tree, single-mutation mutant): layout-only, value, field name, inclusiveness flags, "
                "numerically-equal respelling of degree/force, different degree/force, child replaced, children "
                "swapped, operand count, class swap, identical, unrelated; plus every node of random trees for "
                "clone_item/__str__. non-trivial = distinct (a,b) pair that is not an identical copy")
    res.samples = eq_payload[:4] + cl_payload[:2]
    res.distribution = {"mutation_kinds": kinds, "equal_pairs": sum(1 for p in eq_payload if p["a==b"]),
                        "unequal_pairs": sum(1 for p in eq_payload if not p["a==b"])}
    if not model_ok:
        res.model_error = "model did not build"
        return res
    try:
        defs = ("Definition chk (c : item * item * bool) : bool :=\n"
                "  let '(a, b, e) := c in Bool.eqb (item_eqb a b) e && Bool.eqb (item_eqb b a) e.")
        canary = "(Term KWord meta0 [97], Term KWord meta0 [97], false)"
        bad = lib.eval_cases("C09eq", "Base Decimal Tree TreeEq Eq", defs, eq_cases + [canary], "chk", shard=150)
        assert len(eq_cases) in bad, "canary not detected"
        for i in bad:
            if i < len(eq_cases):
                res.disagreements.append(dict(eq_payload[i], what="item_eqb"))
        # EqSpec.wf_nodeb = wf_node as a boolean (EqProofs.wf_nodeb_spec): every object built through
        # luqum's constructors satisfies the guard of the C09 clone theorems (canary2: one that does not)
        defs = ("Definition chk (c : item * item * str * str) : bool :=\n"
                "  let '(n, cl, s0, s1) := c in\n"
                "  oitem_beq (clone_item n) (Some cl) && str_eqb (print false n) s0 && str_eqb (print true n) s1\n"
                "  && wf_nodeb n.")
        canary = "(Term KWord meta0 [97], Term KWord meta0 [97], [97], [98])"
        canary2 = ("(Boost meta0 (Term KWord meta0 [97]) (mkDec false 150 (-2)) false, "
                   "Boost meta0 (NoneItem meta0) (mkDec false 15 (-1)) false, [97;94;49;46;53;48], [97;94;49;46;53;48])")
        bad = lib.eval_cases("C09cl", "Base Decimal Tree TreeEq Print Eq EqSpec", defs,
                             cl_cases + [canary, canary2], "chk", shard=150)
        assert len(cl_cases) in bad, "canary not detected"
        assert len(cl_cases) + 1 in bad, "wf_node canary not detected"
        for i in bad:
            if i < len(cl_cases):
                res.disagreements.append(dict(cl_payload[i], what="clone_item/print"))
    except Exception as e:
        res.model_error = "%s: %s" % (type(e).__name__, e)
    return res


SPEC = {
    "id": "C09",
    "targets": ["props/C09.vo"],
    "model_targets": ["model/Eq.vo", "model/Print.vo", "model/TreeEq.vo", "model/EqSpec.vo"],
    "module": "C09",
    "theorems": ["C09_eq_iff_same_content", "C09_eq_equivalence", "C09_layout_irrelevant",
                 "C09_clone_shape", "C09_clone_same_attrs",
                 "C09_clone_content_refuted", "C09_clone_content_partial",
                 "C09_clone_roundtrip_eq_refuted", "C09_clone_roundtrip_eq_partial",
                 "C09_clone_roundtrip_print_refuted", "C09_clone_roundtrip_print_partial",
                 "C09_clone_guards_exact", "C09_deep_clone_refuted", "C09_deep_clone_partial",
                 "C09_wf_node_established"],
    "correspond": correspond,
    "statement": "item equality <-> equal hand-written content fingerprints (class, value, field name, inclusiveness "
                 "flags, numeric degree/force, ordered children; no layout, name or implicit flag); equivalence "
                 "relation; any change of pos/size/head/tail/name/implicit flag at any depth is irrelevant; "
                 "clone_item never raises and keeps class, layout (name dropped), own attributes (as re-run through "
                 "the constructor) and implicit flag, children are NONE_ITEM placeholders (operations: none); the "
                 "clone given children equal to / printing like the original's (in particular their deep clones) "
                 "is equal to and prints like the original, exactly when an implicit degree/force holds its default "
                 "and an explicit Boost force is normalised, which every constructor establishes (wf_node); the "
                 "unguarded forms are refuted only by objects whose degree/force was reassigned after construction",
    "trusted_base": [
        "Coq 8.16.1 kernel (vm_compute for table facts and correspondence; no native_compute)",
        "no axioms (Print Assumptions: closed under the global context)",
        "gen/translate.py: _equality_attrs, _children_attrs, MRO, op strings, bracket characters",
        "hand-written models coq/model/Eq.v (generic __eq__, clone_item), Print.v (__str__), Decimal.v "
        "(decimal.Decimal subset) tied by differential correspondence on every run",
    ],
    "assumptions": ["degrees/forces are ints, digit strings or finite Decimals (no float, NaN, Infinity)",
                    "trees contain only luqum.tree classes"],
}
