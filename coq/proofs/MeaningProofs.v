(* MeaningProofs.v — lemmas for property C11:
   A. the meaning depends on the fingerprint only: luqum-equal trees, trees equal up to layout, a tree
      and its layout-erased form have the same meaning;
   B. every tree the parser returns (ANY LR tables) satisfies the constructor invariant `wf_node` at every
      node (an implicit degree / force has its default value, an explicit boost force is normalised) —
      an invariant of the semantic actions, pattern of PrettyProofs.parse_ops_nonempty;
   C. the default copy of a parsed tree prints the query back (under C01's guard) and re-parses to the
      very same tree;
   D. the truth-table comparison `meaning_eqb` is sound and complete for "same meaning";
   E. a plain implicit query `w1 w2 ... wn` resolved to AND / OR re-parses to the resolved tree. *)
Require Import Base Decimal Tree TreeEq GenTree Eq EqSpec Print TreeInd EqProofs Meaning.
Require Import GenParser Lexer Actions LR Parser Erase LRProofs Traverse TraverseProofs.
From Coq Require Import Lia.

(* ================================================================ A. sem respects equality *)

Lemma sem_fingerprint d v a b : fingerprint a = fingerprint b -> sem d v a = sem d v b.
Proof. unfold sem. intros H. rewrite H. reflexivity. Qed.

Lemma atoms_fingerprint a b : fingerprint a = fingerprint b -> atoms a = atoms b.
Proof. unfold atoms. intros H. rewrite H. reflexivity. Qed.

(* luqum's == *)
Theorem sem_item_eqb d v a b : item_eqb a b = true -> sem d v a = sem d v b.
Proof. intros H. apply sem_fingerprint. apply eq_iff_fingerprint. exact H. Qed.

Lemma fingerprint_layout_erase : forall a, fingerprint (Erase.erase a) = fingerprint a.
Proof.
  induction a using item_ind'; simpl; try congruence.
  f_equal. rewrite map_map. induction H as [|c l Hc _ IH]; simpl; [reflexivity|]. rewrite Hc, IH. reflexivity.
Qed.

Theorem sem_erase d v a : sem d v (Erase.erase a) = sem d v a.
Proof. apply sem_fingerprint, fingerprint_layout_erase. Qed.

Theorem sem_same_erase d v a b : Erase.erase a = Erase.erase b -> sem d v a = sem d v b.
Proof.
  intros H. rewrite <- (sem_erase d v a), <- (sem_erase d v b), H. reflexivity.
Qed.

Lemma same_erase_item_eqb a b : Erase.erase a = Erase.erase b -> item_eqb a b = true.
Proof.
  intros H. apply eq_iff_fingerprint.
  rewrite <- (fingerprint_layout_erase a), <- (fingerprint_layout_erase b), H. reflexivity.
Qed.

(* ================================================================ B. parsed trees are well formed *)

Fixpoint all_wfb (t : item) : bool :=
  TraverseProofs.wf_nodeb t &&
  match t with
  | Op _ _ ops => forallb all_wfb ops
  | SearchField _ _ e | Grp _ _ e | Boost _ e _ _ => all_wfb e
  | Fuzzy _ x _ _ | Proximity _ x _ _ => all_wfb x
  | Unary _ _ a | ORange _ _ a _ => all_wfb a
  | Range _ lo hi _ _ => all_wfb lo && all_wfb hi
  | Term _ _ _ | NoneItem _ => true
  end.

Lemma all_wfb_unfold t : all_wfb t = TraverseProofs.wf_nodeb t && forallb all_wfb (children t).
Proof. destruct t; cbn [all_wfb children forallb]; rewrite ?andb_true_r; reflexivity. Qed.

Lemma all_wfb_here t : all_wfb t = true -> TraverseProofs.wf_nodeb t = true.
Proof. rewrite all_wfb_unfold. intros H. apply andb_prop in H. apply H. Qed.

Lemma all_wfb_children t : all_wfb t = true -> forallb all_wfb (children t) = true.
Proof. rewrite all_wfb_unfold. intros H. apply andb_prop in H. apply H. Qed.

Lemma all_wfb_all_nodes : forall p t n, all_wfb t = true -> subtree_at t p = Some n -> all_wfb n = true.
Proof.
  induction p as [|i p IH]; intros t n Hw Hs; simpl in Hs.
  - inversion Hs; subst. exact Hw.
  - destruct (nth_error (children t) i) as [c|] eqn:Hc; [|discriminate].
    apply (IH c n); [|exact Hs].
    pose proof (all_wfb_children t Hw) as Hall. rewrite forallb_forall in Hall.
    apply Hall. eapply nth_error_In. exact Hc.
Qed.

Theorem all_wfb_spec t : all_wfb t = true -> all_nodes TraverseProofs.wf_node t.
Proof.
  intros Hw p n Hs. apply TraverseProofs.wf_nodeb_ok. apply all_wfb_here. eapply all_wfb_all_nodes; eassumption.
Qed.

Definition wf_val (v : symval) : Prop :=
  match v with VItem i => all_wfb i = true | VTok _ _ _ => True end.

Lemma wfn_set_meta i m : TraverseProofs.wf_nodeb (set_meta i m) = TraverseProofs.wf_nodeb i.
Proof. destruct i; reflexivity. Qed.
Lemma wf_set_meta i m : all_wfb (set_meta i m) = all_wfb i.
Proof. destruct i; reflexivity. Qed.
Lemma wf_add_head i s : all_wfb (add_head i s) = all_wfb i.
Proof. apply wf_set_meta. Qed.
Lemma wf_add_tail i s : all_wfb (add_tail_i i s) = all_wfb i.
Proof. apply wf_set_meta. Qed.

Lemma wf_operands k (x : item) :
  all_wfb x = true ->
  forallb all_wfb (if match x with Op k' _ _ => opk_eqb k k' | _ => false end then children x else [x]) = true.
Proof.
  intros Hx. destruct x; try (cbn [forallb]; rewrite Hx; reflexivity).
  destruct (opk_eqb k k0).
  - apply (all_wfb_children _ Hx).
  - cbn [forallb]. rewrite Hx. reflexivity.
Qed.

Local Opaque htm_pos.

Lemma binary_wf k a opv b v evs :
  binary k a opv b = Ok (v, evs) -> all_wfb a = true -> all_wfb b = true -> wf_val v.
Proof.
  unfold binary. intros H Ha Hb.
  pose proof (wf_operands k b Hb) as HB.
  destruct (if match b with Op k' _ _ => opk_eqb k k' | _ => false end then children b else [b])
    as [|b0 brest] eqn:HopsB; [discriminate|].
  destruct (htm_pos _ false false) as [pos size]. inversion H; subst; clear H.
  simpl. rewrite forallb_app. rewrite (wf_operands k a Ha). simpl in HB. simpl.
  rewrite wf_add_head. exact HB.
Qed.

Lemma dec_struct_eqb_refl' d : dec_struct_eqb d d = true.
Proof. apply TraverseProofs.dec_struct_eqb_refl. Qed.

Theorem run_action_wf a args v evs :
  run_action a args = Ok (v, evs) -> Forall wf_val args -> wf_val v.
Proof.
  intros H Hok.
  assert (Hunit : forall x, args = [x] -> v = x -> wf_val v).
  { intros x E1 E2. subst. inversion Hok; subst. assumption. }
  destruct a; simpl in H;
    repeat match type of H with
    | match ?l with [] => _ | _ :: _ => _ end = _ => destruct l as [|? ?]; try discriminate
    | match ?x with VItem _ => _ | VTok _ _ _ => _ end = _ => destruct x; try discriminate
    | match ?o with Some _ => _ | None => _ end = _ => destruct o eqn:?; try discriminate
    | match ?i with Term _ _ _ => _ | _ => _ end = _ => destruct i; try discriminate
    end;
    try (inversion H; subst; clear H; eapply Hunit; reflexivity).
  all: repeat match goal with
       | Hx : Forall wf_val (_ :: _) |- _ => apply Forall_cons_iff in Hx; destruct Hx as [? Hx]
       end.
  all: simpl wf_val in *.
  all: try (eapply binary_wf; eassumption).
  all: try (inversion H; subst; clear H; cbn [all_wfb TraverseProofs.wf_nodeb wf_val];
            rewrite ?wf_add_tail, ?wf_add_head, ?EqProofs.dec_normalize_idem, ?dec_struct_eqb_refl';
            try assumption; try reflexivity).
  - (* range *)
    repeat match goal with Hx : all_wfb _ = true |- _ => rewrite Hx; clear Hx end. reflexivity.
  - (* field search *)
    rewrite andb_true_l.
    match goal with |- all_wfb (match ?e with Grp _ _ _ => _ | _ => _ end) = true =>
      destruct e as [| |[]| | | | | | | |] end; assumption.
Qed.

Lemma token_value_wf t : wf_val (token_value t).
Proof. unfold token_value. destruct (tk_type t); simpl; auto. Qed.

Section AnyTablesWf.
  Variable tb : tables.

  Ltac break H := repeat match type of H with
    | match ?x with _ => _ end = _ => destruct x eqn:?; try discriminate
    | (if ?b then _ else _) = _ => destruct b eqn:?; try discriminate
    end.

  Lemma step_wf lexerr c c' :
    step tb lexerr c = Next c' -> Forall wf_val (c_vals c) -> Forall wf_val (c_vals c').
  Proof.
    unfold step, do_shift, do_reduce, do_accept. intros H HI.
    destruct (c_toks c) as [|t rest] eqn:Htoks; simpl in H; break H; inversion H; subst; clear H; simpl.
    - constructor; [|apply Forall_skipn; exact HI].
      eapply run_action_wf; [eassumption|]. apply Forall_rev, Forall_firstn, HI.
    - constructor; [apply token_value_wf|exact HI].
    - constructor; [|apply Forall_skipn; exact HI].
      eapply run_action_wf; [eassumption|]. apply Forall_rev, Forall_firstn, HI.
  Qed.

  Lemma step_final_wf lexerr c t evs :
    step tb lexerr c = Final (Ok t) evs -> Forall wf_val (c_vals c) -> all_wfb t = true.
  Proof.
    unfold step, do_shift, do_reduce, do_accept. intros H HI.
    destruct (c_toks c) as [|tk rest] eqn:Htoks; simpl in H; break H; inversion H; subst; clear H;
      inversion HI; subst; assumption.
  Qed.

  Lemma run_wf lexerr : forall fuel c t evs,
    run tb lexerr fuel c = Done (Ok t) evs -> Forall wf_val (c_vals c) -> all_wfb t = true.
  Proof.
    induction fuel as [|f IH]; intros c t evs H HI; simpl in H; [discriminate|].
    destruct (step tb lexerr c) as [c'|r evs1] eqn:Hs.
    - eapply IH; [exact H|]. eapply step_wf; eassumption.
    - inversion H; subst. eapply step_final_wf; eassumption.
  Qed.

  (* whatever the action / goto tables *)
  Theorem parse_with_wf s t evs : parse_with tb s = Done (Ok t) evs -> all_wfb t = true.
  Proof.
    unfold parse_with. destruct (lex s) as [toks e]. intros Hr. eapply run_wf; [exact Hr|]. constructor.
  Qed.
End AnyTablesWf.

Theorem parse_wfb s t : parse s = Some (Ok t) -> all_wfb t = true.
Proof.
  unfold parse, parse_full. destruct (parse_with gen_tables s) as [r evs|] eqn:Hr; [|discriminate].
  intros H. inversion H; subst. eapply parse_with_wf. exact Hr.
Qed.

Theorem parse_wf s t : parse s = Some (Ok t) -> all_nodes TraverseProofs.wf_node t.
Proof. intros H. apply all_wfb_spec. eapply parse_wfb. exact H. Qed.

(* ================================================================ C. the default copy of a parsed tree *)

Theorem copy_parsed_prints_same s t c :
  parse s = Some (Ok t) -> copy t = Some c -> print true c = print true t /\ item_eqb c t = true.
Proof.
  intros Hp Hc. pose proof (parse_wf s t Hp) as Hwf.
  rewrite copy_dcopy in Hc. inversion Hc; subst. split.
  - apply dcopy_print. eapply all_nodes_impl; [|exact Hwf]. intros n Hn. apply (wf_node_stable n Hn).
  - apply dcopy_eq. eapply all_nodes_impl; [|exact Hwf]. intros n Hn. apply (wf_node_stable n Hn).
Qed.
