(* Visitor.v — TreeVisitor._get_method dispatch computed from the generated MRO and method
   tables.  Executable definitions only. *)
Require Import Base Tree GenTree.

Fixpoint mem_cls (c : cls) (l : list cls) : bool :=
  match l with [] => false | x :: l' => cls_eqb c x || mem_cls c l' end.

(* the class whose visit_<name> method handles a node of class c: first class of the MRO for
   which the visitor has a method; None = the generic handler *)
Definition dispatch (methods : list cls) (c : cls) : option cls :=
  find (fun k => mem_cls k methods) (gen_mro c).

(* isinstance(node, k) for a node of concrete class c *)
Definition isinstance (c : cls) (k : cls) : bool := mem_cls k (gen_mro c).
Definition isinstance_any (c : cls) (ks : list cls) : bool := existsb (isinstance c) ks.

Definition concrete_classes : list cls :=
  [CWord; CPhrase; CRegex; CSearchField; CGroup; CFieldGroup; CRange; CFuzzy; CProximity;
   CBoost; CAndOperation; COrOperation; CUnknownOperation; CBoolOperation; CPlus; CNot;
   CProhibit; CFrom; CTo; CNoneItem].
