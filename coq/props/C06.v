(* C06 — each query term becomes exactly one ES clause: right field, value, kind, name; plain JSON;
   identical on every call.  Statements, theorems, witnesses, examples, Print Assumptions only.
   Model: model/EsBuild.v; vocabulary: model/EsSpec.v; lemmas: proofs/EsProofs.v.

   What is PROVED here is deliberately small (see the final report of the worker / MANIFEST):
   * the history clause in the model (a call's result depends on (configuration, tree) only) and the
     fact that the per-instance key lists only ever extend the class-level tuples;
   * the `_name` clause is REFUTED on the unchanged code (F16): a named element of the same class as
     the operation (or `+`) it is an operand of is spliced into its parent and its name is lost.
   The leaf-clause table itself (field, value, kind, options) is checked on the implementation by
   the independent Python oracle of harness/c06.py on every run, and the model that these
   statements are about is tied to the code by the call-sequence correspondence. *)
Require Import Base Decimal Tree GenTree GenVisitors Visitor Json EsSpecs EsCheck EsBuild EsSpec
               TreeInd EsProofs.

(* ---- history clause: "identical on every call of the same or of a fresh builder" *)
(* call number k of a builder instance returns what a fresh builder returns for that tree *)
Definition C06_calls_independent_statement : Prop :=
  forall cfg ts k t, nth_error ts k = Some t ->
    nth_error (build_calls cfg ts) k = Some (build cfg t).

Theorem C06_calls_independent : C06_calls_independent_statement.
Proof. intros cfg ts k t H. unfold build_calls. apply map_nth_error. exact H. Qed.

(* what makes the pure model adequate: the per-instance ADDITIONAL_KEYS_TO_ADD is always the class-level
   tuple followed by what the instance appended (E-CONST values hard-coded in EsBuild.v), for every
   way the builder creates or updates a leaf item *)
Definition keys_extend_class (l : leaf) : Prop :=
  exists extra, l_addkeys l = class_addkeys (l_kind l) ++ extra.

Definition C06_class_defaults_untouched_statement : Prop :=
  (forall q m f n, keys_extend_class (mk_word q m f n)) /\
  (forall p f n, keys_extend_class (mk_phrase p f n)) /\
  (forall lk lo hk hi f n, keys_extend_class (mk_range lk lo hk hi f n)) /\
  (forall l d, keys_extend_class l ->
     keys_extend_class (leaf_set_boost d l) /\ keys_extend_class (leaf_set_fuzziness d l) /\
     keys_extend_class (leaf_set_slop d l) /\ forall z, keys_extend_class (leaf_set_ztq z l)).

Theorem C06_class_defaults_untouched : C06_class_defaults_untouched_statement.
Proof.
  unfold keys_extend_class. repeat split.
  - intros. exists []. reflexivity.
  - intros. exists []. reflexivity.
  - intros. eexists. reflexivity.
  - destruct H as [extra H]. exists extra. exact H.
  - destruct H as [extra H]. exists extra. exact H.
  - destruct H as [extra H]. unfold keys_extend_class. simpl. rewrite H.
    destruct (l_kind l); try (exists extra; reflexivity).
    exists (extra ++ [k_slop]). rewrite app_assoc. reflexivity.
  - intros z. destruct H as [extra H]. exists extra. exact H.
Qed.

(* ---- the `_name` clause: every leaf clause carries the name of the nearest named enclosing element *)
Definition C06_leaf_names_statement : Prop :=
  forall cfg t e, supported t = true -> wf_config cfg = true -> build_etree cfg t = ROk e ->
    map l_name (eleaves e) = expected_names t None.

(* F16:  + +a  with the inner Plus named "x" *)
Definition named_as (n : str) (t : item) : item := set_name t (Some n).
Definition t_F16 : item :=
  Unary KPlus meta0 (named_as [120]%N (Unary KPlus meta0 (Term KWord meta0 [97]%N))).

Theorem C06_leaf_names_refuted : ~ C06_leaf_names_statement.
Proof.
  intros H.
  assert (Hb : exists e, build_etree default_config t_F16 = ROk e /\ map l_name (eleaves e) = [None]).
  { eexists. split; vm_compute; reflexivity. }
  destruct Hb as [e [Hb Hn]]. specialize (H default_config t_F16 e eq_refl eq_refl Hb).
  rewrite Hn in H. vm_compute in H. discriminate.
Qed.

Example F16_guard : no_named_flattened t_F16 = false /\ supported t_F16 = true.
Proof. vm_compute. split; reflexivity. Qed.

(* ---- rows of the documented table, evaluated in the model (regression examples) *)
(* a.b:"x  y"~2^3 OR c:w?ld* with a.b nested and c not analysed, names n1 on the phrase *)
Definition cfg_tab : es_config :=
  mkEsConfig DShould [116;101;120;116]%N [[99]%N] (SDict [([97]%N, SList [[98]%N])]) SNone SNone
             [([97;46;98]%N, [([97;110;97;108;121;122;101;114]%N, JStr [115;116;100]%N)])] false.
Definition t_tab : item :=
  Op KOr meta0
     [SearchField meta0 [97;46;98]%N
        (Boost meta0 (Proximity meta0 (named_as [110;49]%N (Term KPhrase meta0 [34;120;32;32;121;34]%N)) 2 false)
               (mkDec false 3 0) false);
      SearchField meta0 [99]%N (Term KWord meta0 [119;63;108;100;42]%N)].

Example C06_table_rows :
  build cfg_tab t_tab =
  ROk (JObj [(k_bool, JObj [(k_should, JList [
    JObj [(k_nested, JObj [(k_path, JStr [97]%N);
      (k_query, JObj [(k_match_phrase, JObj [([97;46;98]%N, JObj [
         ([97;110;97;108;121;122;101;114]%N, JStr [115;116;100]%N);
         (k_boost, JNum (mkDec false 3 0)); (k_name, JStr [110;49]%N);
         (k_query, JStr [120;32;121]%N); (k_slop, JNum (mkDec false 2 0))])])])])];
    JObj [(k_wildcard, JObj [([99]%N, JObj [(k_value, JStr [119;63;108;100;42]%N)])])]])])]).
Proof. vm_compute. reflexivity. Qed.

Example C06_names_nonvacuous :
  exists e, build_etree cfg_tab t_tab = ROk e /\
            map l_name (eleaves e) = expected_names t_tab None /\
            expected_names t_tab None = [Some [110;49]%N; None] /\
            no_named_flattened t_tab = true.
Proof. eexists. split; [vm_compute; reflexivity|]. vm_compute. repeat split. Qed.

Print Assumptions C06_calls_independent.
Print Assumptions C06_class_defaults_untouched.
Print Assumptions C06_leaf_names_refuted.
