(* C03e — clause (c) of C03 INSIDE finding F4's class: the narrowness of C03d's guard, and what the
   parser does there.  Only statements, short glue, non-vacuity examples, Print Assumptions.
   Lemmas: proofs/F4Proofs.v.

   C03d.v proves: outside F4's class (`Grammar.f4_input = false`) parse agrees with the documented
   grammar's reference parser `Grammar.spec_parse`.  What was only MEASURED on every run
   (harness/c03.py, `distribution.f4_class_inputs_agreeing_with_spec`, expected 0) is a theorem here:

     every accepted input of F4's class gets a tree DIFFERENT from the dictated one
                                                       C03e_f4_always_differs  (propositional)
                                                       C03e_f4_never_agrees    (the boolean comparison
                                                                                the harness uses)
     because the parser never builds F4's pattern at all  C03e_never_f4_pattern
     because the tables never reduce E OR E / E AND E / E E in front of + - TO
                                                       C03e_no_binary_before_sign  (table fact)
   and more than "refuted by a witness", F4 is described exactly:
     for EVERY query of the documented grammar (no guard) the returned tree is the value of an
     executable operator-precedence machine `valp` that attaches a juxtaposed operand starting with
     + - TO to the innermost open operand                C03e_f4_tree         (token lists)
                                                       C03e_f4_tree_parse   (strings)
     under C03d's guard the machine's tree is the dictated one   C03e_machine_under_guard
     the returned tree is the dictated one EXACTLY outside F4's class   C03e_agrees_iff_outside_f4
   Can one parser reject what the other accepts, inside the class or outside?  No:
     inside F4's class both accept                       C03e_f4_class_accepted
     accepted by parse <=> a query of the documented grammar   C03e_same_language *)
Require Import Base Decimal Tree GenTree GenParser Lexer Print Actions LR Parser Erase Grammar.
Require Import TreeEq LayoutProofs LRTermination LRTyping PrecedenceProofs PrecedenceGeneral GrammarMoreProofs F4Proofs C03d.

(* ---- the table fact everything rests on: with lookahead + - TO no state reduces a binary production *)
Definition C03e_no_binary_before_sign_statement : Prop :=
  forall s la p lhs rhs a, gen_action s la = Reduce p -> prod_of p = Some (lhs, rhs, a) -> In la SG ->
    a <> A_expression_or /\ a <> A_expression_and /\ a <> A_expression_implicit.

Theorem C03e_no_binary_before_sign : C03e_no_binary_before_sign_statement.
Proof.
  intros s la p lhs rhs a Ha Hp Hla. pose proof (bin_not_on_sign _ _ _ _ _ _ Ha Hp Hla) as H.
  destruct a; try discriminate H; repeat split; discriminate.
Qed.

(* it is not vacuous: such states exist, they SHIFT (C03d_sign_table_facts), and on other lookaheads
   they do reduce these productions *)
Example C03e_table_fact_nonvacuous :
  (exists p, gen_action (gotoE SAND) T_EOF = Reduce (S p) /\
             nth_error gen_prods p = Some (N_expression, [SN N_expression; ST T_AND_OP; SN N_expression], A_expression_and)) /\
  (exists n, gen_action (gotoE SAND) T_MINUS = Shift n).
Proof.
  split.
  - destruct C03d.C03d_sign_table_facts as [_ [_ [_ H]]]. apply H. unfold K3, K2, K1. simpl. tauto.
  - destruct C03d.C03d_sign_table_facts as [H _]. destruct (H T_MINUS) as [_ [H2 _]]; [simpl; tauto|exact H2].
Qed.

(* ---- whatever parse accepts, the tree does not contain F4's pattern (an implicit operation with
   an AND/OR operand directly followed by an operand starting with + - TO) *)
Definition C03e_never_f4_pattern_statement : Prop :=
  forall s t, snd (lex s) = None -> parse s = Some (Ok t) -> has_f4 (erase t) = false.

Theorem C03e_never_f4_pattern : C03e_never_f4_pattern_statement.
Proof. exact parse_no_f4. Qed.

(* ---- THE narrowness of C03d's guard *)
Definition C03e_f4_always_differs_statement : Prop :=
  forall s t t0, snd (lex s) = None -> f4_input (map tok_key (fst (lex s))) = true ->
    parse s = Some (Ok t) -> spec_parse (map tok_key (fst (lex s))) = Some t0 -> erase t <> t0.

Theorem C03e_f4_always_differs : C03e_f4_always_differs_statement.
Proof. exact f4_always_differs. Qed.

Definition C03e_f4_never_agrees_statement : Prop :=
  forall s t t0, snd (lex s) = None -> f4_input (map tok_key (fst (lex s))) = true ->
    parse s = Some (Ok t) -> spec_parse (map tok_key (fst (lex s))) = Some t0 -> item_beq (erase t) t0 = false.

Theorem C03e_f4_never_agrees : C03e_f4_never_agrees_statement.
Proof. exact f4_never_agrees. Qed.

(* in the form the harness measures it (`C03d.agree`): no input of F4's class agrees *)
Theorem C03e_measured_count_is_zero :
  forall s, snd (lex s) = None -> f4_input (map tok_key (fst (lex s))) = true -> C03d.agree s = false.
Proof.
  intros s He Hf. unfold C03d.agree.
  destruct (parse s) as [[t|e]|] eqn:Hp; try reflexivity.
  destruct (spec_parse (map tok_key (fst (lex s)))) as [u|] eqn:Hs; [|reflexivity].
  exact (f4_never_agrees s t u He Hf Hp Hs).
Qed.

(* ---- the exact description: for every syntax tree of the documented grammar — `wfs`, NO guard —
   and every token list with its (type, lexeme) sequence, the driver accepts and returns the tree
   the machine `valp` computes *)
Definition C03e_f4_tree_statement : Prop :=
  forall p toks ev0, wfs p = true -> map tok_key toks = map tok_key (flq p) ->
    exists t evs,
      run gen_tables None (parse_fuel toks) (init_config toks ev0) = Done (Ok t) evs /\ erase t = valp p.

Theorem C03e_f4_tree : C03e_f4_tree_statement.
Proof. intros p toks ev0 W Hk. exact (machine_core_keys toks ev0 p W Hk). Qed.

(* on strings: every query of the documented grammar (dictated tree u) is the yield of a syntax tree p
   with valq p = u; parse accepts it and returns valp p *)
Definition C03e_f4_tree_parse_statement : Prop :=
  forall s u, snd (lex s) = None -> spec_parse (map tok_key (fst (lex s))) = Some u ->
    exists p t, wfs p = true /\ map tok_key (flq p) = map tok_key (fst (lex s)) /\ valq p = u /\
                parse s = Some (Ok t) /\ erase t = valp p.

Theorem C03e_f4_tree_parse : C03e_f4_tree_parse_statement.
Proof. exact query_accepted. Qed.

(* under the guard of C03d the machine computes the dictated tree *)
Definition C03e_machine_under_guard_statement : Prop :=
  forall p, wfs p = true -> f4free p = true -> valp p = valq p.

Theorem C03e_machine_under_guard : C03e_machine_under_guard_statement.
Proof. exact valp_f4free. Qed.

(* ---- acceptance: inside F4's class the reference parser accepts by definition of the class, and so
   does parse; in general the two have the same language *)
Definition C03e_f4_class_accepted_statement : Prop :=
  forall s, snd (lex s) = None -> f4_input (map tok_key (fst (lex s))) = true ->
    (exists u, spec_parse (map tok_key (fst (lex s))) = Some u) /\ (exists t, parse s = Some (Ok t)).

Theorem C03e_f4_class_accepted : C03e_f4_class_accepted_statement.
Proof.
  intros s He Hf. destruct (f4_input_spec _ Hf) as [u [Hs _]]. split; [eauto|].
  destruct (query_accepted s u He Hs) as [p [t [_ [_ [_ [Hp _]]]]]]. eauto.
Qed.

Definition C03e_same_language_statement : Prop :=
  forall s, snd (lex s) = None ->
    ((exists t, parse s = Some (Ok t)) <-> (exists u, spec_parse (map tok_key (fst (lex s))) = Some u)).

Theorem C03e_same_language : C03e_same_language_statement.
Proof. exact accepted_iff_query. Qed.

(* ---- C03d and C03e together: the returned tree is the dictated one exactly outside F4's class *)
Definition C03e_agrees_iff_outside_f4_statement : Prop :=
  forall s u, snd (lex s) = None -> spec_parse (map tok_key (fst (lex s))) = Some u ->
    exists t, parse s = Some (Ok t) /\ (erase t = u <-> f4_input (map tok_key (fst (lex s))) = false).

Theorem C03e_agrees_iff_outside_f4 : C03e_agrees_iff_outside_f4_statement.
Proof. exact agrees_iff_outside_f4. Qed.

(* ================================================================ non-vacuity: inputs of F4's class *)
Definition kk (s : str) (i : nat) : token := nth i (fst (lex s)) (mkTok T_EOF [] 0 [] []).

(* a AND b -c          luqum: AndOperation(Word('a'), UnknownOperation(Word('b'), Prohibit(Word('c')))) *)
Definition e1 : str := [97;32;65;78;68;32;98;32;45;99]%N.
Definition p1 : qtree := let k := kk e1 in
  QJuxt (QAnd (QAtom (k 0)) (k 1) (QAtom (k 2))) (QSign (k 3) (QAtom (k 4))).
(* a OR b +c d         luqum: UnknownOperation(OrOperation(Word('a'), UnknownOperation(Word('b'), Plus(Word('c')))), Word('d')) *)
Definition e2 : str := [97;32;79;82;32;98;32;43;99;32;100]%N.
Definition p2 : qtree := let k := kk e2 in
  QJuxt (QJuxt (QOr (QAtom (k 0)) (k 1) (QAtom (k 2))) (QSign (k 3) (QAtom (k 4)))) (QAtom (k 5)).
(* (a AND b -c) d      luqum: UnknownOperation(Group(AndOperation(Word('a'), UnknownOperation(Word('b'), Prohibit(Word('c'))))), Word('d')) *)
Definition e3 : str := [40;97;32;65;78;68;32;98;32;45;99;41;32;100]%N.
Definition p3 : qtree := let k := kk e3 in
  QJuxt (QGroup (k 0) (QJuxt (QAnd (QAtom (k 1)) (k 2) (QAtom (k 3))) (QSign (k 4) (QAtom (k 5)))) (k 6)) (QAtom (k 7)).
(* a AND b TO          luqum: AndOperation(Word('a'), UnknownOperation(Word('b'), Word('TO'))) *)
Definition e4 : str := [97;32;65;78;68;32;98;32;84;79]%N.
Definition p4 : qtree := let k := kk e4 in
  QJuxt (QAnd (QAtom (k 0)) (k 1) (QAtom (k 2))) (QTo (k 3)).
(* x a AND b -c AND d -e OR f g      three F4 points, nested
   luqum: UnknownOperation(Word('x'), AndOperation(Word('a'), UnknownOperation(Word('b'), AndOperation(Prohibit(Word('c')),
          UnknownOperation(Word('d'), OrOperation(Prohibit(Word('e')), Word('f')))))), Word('g')) *)
Definition e5 : str := [120;32;97;32;65;78;68;32;98;32;45;99;32;65;78;68;32;100;32;45;101;32;79;82;32;102;32;103]%N.
Definition p5 : qtree := let k := kk e5 in
  QJuxt (QJuxt (QJuxt (QJuxt (QAtom (k 0)) (QAnd (QAtom (k 1)) (k 2) (QAtom (k 3))))
                      (QAnd (QSign (k 4) (QAtom (k 5))) (k 6) (QAtom (k 7))))
               (QOr (QSign (k 8) (QAtom (k 9))) (k 10) (QAtom (k 11))))
        (QAtom (k 12)).
(* a OR b AND c -d^2 (e OR f +g)     under OR then AND, a boosted operand, and one level down in a group
   luqum: UnknownOperation(OrOperation(Word('a'), AndOperation(Word('b'), UnknownOperation(Word('c'), Prohibit(Boost(Word('d'), 2))))),
          Group(OrOperation(Word('e'), UnknownOperation(Word('f'), Plus(Word('g')))))) *)
Definition e6 : str := [97;32;79;82;32;98;32;65;78;68;32;99;32;45;100;94;50;32;40;101;32;79;82;32;102;32;43;103;41]%N.
Definition p6 : qtree := let k := kk e6 in
  QJuxt (QJuxt (QOr (QAtom (k 0)) (k 1) (QAnd (QAtom (k 2)) (k 3) (QAtom (k 4))))
               (QSign (k 5) (QBoost (QAtom (k 6)) (k 7))))
        (QGroup (k 8) (QJuxt (QOr (QAtom (k 9)) (k 10) (QAtom (k 11))) (QSign (k 12) (QAtom (k 13)))) (k 14)).
(* a AND b -c -d e     a run of signed operands is attached as a whole, the unsigned one is not
   luqum: UnknownOperation(AndOperation(Word('a'), UnknownOperation(Word('b'), Prohibit(Word('c')), Prohibit(Word('d')))), Word('e')) *)
Definition e7 : str := [97;32;65;78;68;32;98;32;45;99;32;45;100;32;101]%N.
Definition p7 : qtree := let k := kk e7 in
  QJuxt (QJuxt (QJuxt (QAnd (QAtom (k 0)) (k 1) (QAtom (k 2))) (QSign (k 3) (QAtom (k 4)))) (QSign (k 5) (QAtom (k 6))))
        (QAtom (k 7)).

(* every hypothesis of the theorems holds of each of them: the lexer accepts, the input is in F4's
   class, the tree is well-formed with this yield and NOT f4free, both parsers accept *)
Definition in_class (s : str) (p : qtree) : bool :=
  match snd (lex s) with None => true | Some _ => false end &&
  f4_input (map tok_key (fst (lex s))) && wfs p && negb (f4free p) && lexok p &&
  match spec_parse (map tok_key (fst (lex s))) with Some u => item_beq u (valq p) | None => false end.
(* the conclusions, evaluated: parse returns the machine's tree and not the dictated one *)
Definition machine_not_spec (s : str) (p : qtree) : bool :=
  match parse s with
  | Some (Ok t) => item_beq (erase t) (valp p) && negb (item_beq (erase t) (valq p)) && negb (has_f4 (erase t)) &&
                   has_f4 (valq p)
  | _ => false
  end.

Example C03e_examples_in_class :
  map (fun sp => in_class (fst sp) (snd sp)) [(e1, p1); (e2, p2); (e3, p3); (e4, p4); (e5, p5); (e6, p6); (e7, p7)]
  = [true; true; true; true; true; true; true].
Proof. vm_compute. reflexivity. Qed.

Example C03e_examples_yields :
  flq p1 = fst (lex e1) /\ flq p2 = fst (lex e2) /\ flq p3 = fst (lex e3) /\ flq p4 = fst (lex e4) /\
  flq p5 = fst (lex e5) /\ flq p6 = fst (lex e6) /\ flq p7 = fst (lex e7).
Proof. vm_compute. tauto. Qed.

Example C03e_examples_result :
  map (fun sp => machine_not_spec (fst sp) (snd sp)) [(e1, p1); (e2, p2); (e3, p3); (e4, p4); (e5, p5); (e6, p6); (e7, p7)]
  = [true; true; true; true; true; true; true].
Proof. vm_compute. reflexivity. Qed.

(* the structural difference, at a position one can name: the signed operand sits under the last
   AND/OR operand (parse) instead of beside the AND/OR operation (dictated) *)
Example C03e_e1_shapes :
  exists t, parse e1 = Some (Ok t) /\
    match erase t with
    | Op KAnd _ [Term KWord _ _; Op KUnknown _ [Term KWord _ _; Unary KProhibit _ _]] => True | _ => False end /\
    match valq p1 with
    | Op KUnknown _ [Op KAnd _ [Term KWord _ _; Term KWord _ _]; Unary KProhibit _ _] => True | _ => False end.
Proof. eexists. split; [vm_compute; reflexivity|]. vm_compute. tauto. Qed.

Example C03e_e2_shapes :
  exists t, parse e2 = Some (Ok t) /\
    match erase t with
    | Op KUnknown _ [Op KOr _ [_; Op KUnknown _ [_; Unary KPlus _ _]]; Term KWord _ _] => True | _ => False end /\
    match valq p2 with
    | Op KUnknown _ [Op KOr _ [_; _]; Unary KPlus _ _; Term KWord _ _] => True | _ => False end.
Proof. eexists. split; [vm_compute; reflexivity|]. vm_compute. tauto. Qed.

Example C03e_e3_shapes :
  exists t, parse e3 = Some (Ok t) /\
    match erase t with
    | Op KUnknown _ [Grp KGroup _ (Op KAnd _ [_; Op KUnknown _ [_; Unary KProhibit _ _]]); _] => True | _ => False end /\
    match valq p3 with
    | Op KUnknown _ [Grp KGroup _ (Op KUnknown _ [Op KAnd _ [_; _]; Unary KProhibit _ _]); _] => True | _ => False end.
Proof. eexists. split; [vm_compute; reflexivity|]. vm_compute. tauto. Qed.

Example C03e_e4_shapes :
  exists t, parse e4 = Some (Ok t) /\
    match erase t with
    | Op KAnd _ [_; Op KUnknown _ [_; Term KWord _ _]] => True | _ => False end /\
    match valq p4 with
    | Op KUnknown _ [Op KAnd _ [_; _]; Term KWord _ _] => True | _ => False end.
Proof. eexists. split; [vm_compute; reflexivity|]. vm_compute. tauto. Qed.

Example C03e_e5_shapes :
  exists t, parse e5 = Some (Ok t) /\
    match erase t with
    | Op KUnknown _ [_; Op KAnd _ [_; Op KUnknown _ [_; Op KAnd _ [Unary KProhibit _ _;
                        Op KUnknown _ [_; Op KOr _ [Unary KProhibit _ _; _]]]]]; _] => True | _ => False end /\
    match valq p5 with
    | Op KUnknown _ [_; Op KAnd _ [_; _]; Op KAnd _ [Unary KProhibit _ _; _]; Op KOr _ [Unary KProhibit _ _; _]; _] => True
    | _ => False end.
Proof. eexists. split; [vm_compute; reflexivity|]. vm_compute. tauto. Qed.

Example C03e_e7_shapes :
  exists t, parse e7 = Some (Ok t) /\
    match erase t with
    | Op KUnknown _ [Op KAnd _ [_; Op KUnknown _ [_; Unary KProhibit _ _; Unary KProhibit _ _]]; Term KWord _ _] => True
    | _ => False end.
Proof. eexists. split; [vm_compute; reflexivity|]. vm_compute. exact I. Qed.

(* outside the class the machine gives the dictated tree (C03e_machine_under_guard is not vacuous):
   `a b -c` and the two large examples of C03d *)
Definition o1 : str := [97;32;98;32;45;99]%N.
Definition q1 : qtree := let k := kk o1 in QJuxt (QJuxt (QAtom (k 0)) (QAtom (k 1))) (QSign (k 2) (QAtom (k 3))).
Example C03e_outside_class :
  wfs q1 = true /\ f4free q1 = true /\ flq q1 = fst (lex o1) /\ item_beq (valp q1) (valq q1) = true /\
  item_beq (valp C03d.ex_sgn_tree) (valq C03d.ex_sgn_tree) = true /\
  item_beq (valp C03d.ex_rng_tree) (valq C03d.ex_rng_tree) = true /\
  f4_input (map tok_key (fst (lex o1))) = false.
Proof. vm_compute. tauto. Qed.

(* C03e_same_language is not vacuous in either direction: `a AND` is rejected by both *)
Example C03e_rejected_by_both :
  let s := [97;32;65;78;68]%N in
  snd (lex s) = None /\ spec_parse (map tok_key (fst (lex s))) = None /\
  match parse s with Some (Err (ESyntax _)) => True | _ => False end.
Proof. vm_compute. tauto. Qed.

Print Assumptions C03e_no_binary_before_sign.
Print Assumptions C03e_never_f4_pattern.
Print Assumptions C03e_f4_always_differs.
Print Assumptions C03e_f4_never_agrees.
Print Assumptions C03e_measured_count_is_zero.
Print Assumptions C03e_f4_tree.
Print Assumptions C03e_f4_tree_parse.
Print Assumptions C03e_machine_under_guard.
Print Assumptions C03e_f4_class_accepted.
Print Assumptions C03e_same_language.
Print Assumptions C03e_agrees_iff_outside_f4.
