"""C08 — visitors reach every node once with true context (probe visitors, dispatch cache over
histories of visits); the default transformer deep-copies."""
from decimal import Decimal

import lib
import gentree
from runner import CorrResult  # noqa: F401

CLASS_NAMES = ["Word", "Phrase", "Regex", "SearchField", "Group", "FieldGroup", "Range", "Fuzzy",
               "Proximity", "Boost", "AndOperation", "OrOperation", "UnknownOperation", "BoolOperation",
               "Plus", "Not", "Prohibit", "From", "To", "NoneItem"]
ABSTRACT_NAMES = ["Item", "Term", "BaseGroup", "BaseApprox", "BaseOperation", "Unary", "UnaryOperator",
                  "OpenRange"]


def g_cls(name):
    return "CObject" if name == "object" else "C" + name


def g_ocls(name):
    return "(@None cls)" if name is None else "(Some %s)" % g_cls(name)


def g_tlist(items, ty):
    items = list(items)
    return "(@nil %s)" % ty if not items else lib.g_list(items)


def g_opath(p):
    return "(@None path)" if p is None else "(Some %s)" % (lib.g_path(p) if p else "(@nil nat)")


def g_vconf(vc):
    return "(mkV %s %s %s %s)" % (g_tlist([g_cls(k) for k in vc["H"]], "cls"), lib.g_bool(vc["pt"]),
                                  lib.g_bool(vc["lg"]), lib.g_bool(vc["tp"]))


# ------------------------------------------------------------------ probe visitors

def make_probe_class(V, name, H, pt, lg, parent=None):
    """a visitor class with a visit_<k> probe handler for every k in H (and a wrapped generic_visit
    when lg); every handler yields one event, then runs the library's own generic_visit"""
    base = V.PathTrackingVisitor if pt else V.TreeVisitor

    def mk(kname):
        def handler(self, node, context):
            yield (id(self), context.get("path"), kname, tuple(context.get("parents", ())), node)
            yield from base.generic_visit(self, node, context)
        handler._probe = kname
        return handler

    ns = {"visit_" + V.camel_to_lower(k): mk(k) for k in H}
    if lg:
        ns["generic_visit"] = mk(None)
    return type(name, (parent or base,), ns)


def most_specific(T, H, node):
    """independent statement of 'the most specific class for which a handler exists'"""
    classes = {k: (object if k == "object" else getattr(T, k)) for k in H}
    cands = [k for k, c in classes.items() if isinstance(node, c)]
    best = [k for k in cands if all(issubclass(classes[k], classes[o]) for o in cands)]
    if not cands:
        return None
    assert len(best) == 1, (cands, best)
    return best[0]


def visit_oracle(T, vc, inst, tree, events):
    """the traversal clauses evaluated on the implementation's events; None or a reason"""
    expected = []
    for path, node in gentree.all_nodes(tree):      # document pre-order, computed from .children
        h = most_specific(T, vc["H"], node)
        if h is not None or vc["lg"]:
            expected.append((path, node, h))
    if len(events) != len(expected):
        return "number of events %d != number of nodes with a handler %d" % (len(events), len(expected))
    for (self_id, cpath, hname, parents, node), (path, xnode, h) in zip(events, expected):
        if node is not xnode:
            return "event out of pre-order / wrong node at %r" % (path,)
        if self_id != id(inst):
            return "handler ran on another instance at %r" % (path,)
        if hname != h:
            return "handler %r is not the most specific one (%r) at %r" % (hname, h, path)
        chain, cur = [], tree
        for i in path:
            chain.append(cur)
            cur = cur.children[i]
        if vc["tp"]:
            if len(parents) != len(chain) or any(a is not b for a, b in zip(parents, chain)):
                return "parents context is not the chain of ancestors at %r" % (path,)
        elif parents != ():
            return "parents present without track_parents at %r" % (path,)
        if cpath != (path if vc["pt"] else None):
            return "tracked path %r is not the real path %r" % (cpath, path)
    return None


def g_event(ev):
    _self, cpath, hname, parents, node = ev
    return "(%s, %s, %s, %s)" % (g_opath(cpath), g_ocls(hname),
                                 g_tlist([g_cls(type(p).__name__) for p in parents], "cls"),
                                 g_cls(type(node).__name__))


def sample_nodes(T):
    w = T.Word("a")
    return {"Word": T.Word("a"), "Phrase": T.Phrase('"a"'), "Regex": T.Regex("/a/"),
            "SearchField": T.SearchField("f", w), "Group": T.Group(w), "FieldGroup": T.FieldGroup(w),
            "Range": T.Range(w, w), "Fuzzy": T.Fuzzy(w), "Proximity": T.Proximity(T.Phrase('"a b"')),
            "Boost": T.Boost(w, 2), "AndOperation": T.AndOperation(w, w), "OrOperation": T.OrOperation(w, w),
            "UnknownOperation": T.UnknownOperation(w, w), "BoolOperation": T.BoolOperation(w, w),
            "Plus": T.Plus(w), "Not": T.Not(w), "Prohibit": T.Prohibit(w), "From": T.From(w),
            "To": T.To(w), "NoneItem": T.NoneItem()}


HIST_DEFS = """
Definition pyev := (option path * option cls * list cls * cls)%type.
Definition ev_proj (e : event) : pyev :=
  (ev_path e, ev_handler e, map cls_of (ev_parents e), cls_of (ev_node e)).
Definition opath_eqb (a b : option path) : bool :=
  match a, b with None, None => true | Some x, Some y => path_eqb x y | _, _ => false end.
Definition ocls_eqb (a b : option cls) : bool :=
  match a, b with None, None => true | Some x, Some y => cls_eqb x y | _, _ => false end.
Definition pyev_eqb (a b : pyev) : bool :=
  let '(p, h, ps, c) := a in let '(p', h', ps', c') := b in
  opath_eqb p p' && ocls_eqb h h' && list_eqb cls_eqb ps ps' && cls_eqb c c'.
Definition chk_hist (c : list vconf * list item * list (nat * nat) * list (list pyev)) : bool :=
  let '(vcs, trees, visits, expected) := c in
  let vc := fun i => nth i vcs (mkV [] false false false) in
  let h := map (fun it => (fst it, nth (snd it) trees (NoneItem meta0))) visits in
  list_eqb (list_eqb pyev_eqb) (map (map ev_proj) (fst (run_visits code_cache_shared vc h []))) expected
  && list_eqb (list_eqb pyev_eqb) (map (fun it => map ev_proj (traverse (vc (fst it)) (snd it))) h) expected.
Definition bound_eqb (a b : nat * option cls) : bool := Nat.eqb (fst a) (fst b) && ocls_eqb (snd a) (snd b).
Definition chk_lookup (c : list (list cls) * list (nat * cls) * list (nat * option cls)) : bool :=
  let '(Hs, ops, expected) := c in
  let Hof := fun i => nth i Hs [] in
  list_eqb bound_eqb (fst (run_history code_cache_shared Hof (map (fun o => Visit (fst o) (snd o)) ops) []))
           expected.
"""

COPY_DEFS = """
Definition chk_copy (c : item * option item * bool) : bool :=
  let '(t, expected, wf) := c in
  oitem_beq (copy t) expected && Bool.eqb (all_nodesb wf_nodeb t) wf.
"""


def random_handlers(r):
    x = r.random()
    if x < 0.1:
        return []
    n = r.choice([1, 1, 2, 2, 3, 4, 6])
    pool = CLASS_NAMES + ABSTRACT_NAMES * 3 + (["object"] if r.random() < 0.1 else [])
    H = []
    for _ in range(n):
        k = r.choice(pool)
        if k not in H:
            H.append(k)
    return H


def histories(T, V, r, n, res, stats):
    g = gentree.Gen(r, T, layout=0.0, odd=0.15, max_ops=4)
    samples = sample_nodes(T)
    hist_cases, hist_payloads, look_cases, look_payloads = [], [], [], []
    nontrivial = set()
    for ci in range(n):
        nclasses = r.randrange(2, 5)
        classes = []
        for k in range(nclasses):
            pt = r.random() < 0.5
            parent = None
            H = random_handlers(r)
            lg = r.random() < 0.35
            # sometimes derive from an earlier probe class of the same kind: handlers are inherited
            earlier = [c for c in classes if c["pt"] == pt]
            if earlier and r.random() < 0.25:
                p = r.choice(earlier)
                parent = p["cls"]
                H = list(p["H"]) + [k2 for k2 in H if k2 not in p["H"]]
                lg = lg or p["lg"]
            cls = make_probe_class(V, "Probe%d_%d" % (ci, k), H, pt, lg, parent)
            classes.append({"cls": cls, "H": H, "pt": pt, "lg": lg})
        insts = []
        for c in classes:
            for _ in range(r.randrange(1, 4)):
                tp = r.random() < 0.6
                insts.append(({"H": c["H"], "pt": c["pt"], "lg": c["lg"], "tp": tp}, c["cls"](track_parents=tp)))
        r.shuffle(insts)
        trees = [g.tree(r.randrange(0, 4)) for _ in range(r.randrange(2, 4))]
        gtrees = [lib.g_item(t) for t in trees]
        snaps = [[id(nd) for _, nd in gentree.all_nodes(t)] for t in trees]
        visits = [(r.randrange(len(insts)), r.randrange(len(trees))) for _ in range(r.randrange(5, 13))]
        expected = []
        seen_types = {}
        cache_hits = 0
        for ii, ti in visits:
            vc, inst = insts[ii]
            for _, nd in gentree.all_nodes(trees[ti]):
                key = (ii, type(nd))
                cache_hits += key in seen_types
                seen_types[key] = True
            try:
                events = inst.visit(trees[ti])
            except Exception as e:
                res.failures.append(({"kind": "visit raised", "exception": repr(e),
                                      "tree": gentree.describe(trees[ti])[:1500], "visitor": repr(vc)}, None))
                events = []
            try:
                why = visit_oracle(T, vc, inst, trees[ti], events)
                gev = g_tlist([g_event(e) for e in events], "pyev")
            except Exception as e:
                why = "malformed events (not yielded by this visitor's probes): %r" % (e,)
                gev = "(@nil pyev)"
            if why:
                res.failures.append(({"kind": "traversal", "why": why, "visitor": repr(vc),
                                      "history": [(i, insts[i][0]["H"], t) for i, t in visits],
                                      "tree": gentree.describe(trees[ti])[:1500]}, None))
            expected.append(gev)
            stats["events"] += len(events)
        for t, gt, sn in zip(trees, gtrees, snaps):
            if lib.g_item(t) != gt or [id(nd) for _, nd in gentree.all_nodes(t)] != sn:
                res.failures.append(({"kind": "visitor modified the tree", "tree": gentree.describe(t)[:1500]}, None))
        hist_cases.append("(%s, %s, %s, %s)" % (
            lib.g_list([g_vconf(vc) for vc, _ in insts]), lib.g_list(gtrees),
            lib.g_list(["(%d%%nat, %d%%nat)" % v for v in visits]), lib.g_list(expected)))
        desc = {"classes": [(c["H"], "path" if c["pt"] else "plain", c["lg"]) for c in classes],
                "instances": [(vc["H"], vc["tp"]) for vc, _ in insts], "visits": visits,
                "trees": [gentree.describe(t)[:300] for t in trees]}
        hist_payloads.append(desc)
        stats["classes"][nclasses] = stats["classes"].get(nclasses, 0) + 1
        stats["abstract_handlers"] += sum(1 for c in classes for k in c["H"] if k in ABSTRACT_NAMES + ["object"])
        stats["handlers"] += sum(len(c["H"]) for c in classes)
        stats["cache_hits"] += cache_hits
        if cache_hits and len({tuple(sorted(c["H"])) for c in classes}) >= 2:
            nontrivial.add(repr(desc))

        # --- a history of bare _get_method look-ups on fresh instances of the same classes
        linsts = []
        for c in classes:
            for _ in range(r.randrange(1, 3)):
                linsts.append((c, c["cls"]()))
        ops, got = [], []
        for _ in range(r.randrange(8, 25)):
            ii = r.randrange(len(linsts))
            k = r.choice(CLASS_NAMES)
            c, inst = linsts[ii]
            m = inst._get_method(samples[k])
            owner = [j for j, (_, x) in enumerate(linsts) if x is getattr(m, "__self__", None)]
            hname = getattr(getattr(m, "__func__", None), "_probe", None)
            if len(owner) != 1 or owner[0] != ii:
                res.failures.append(({"kind": "cache", "why": "method bound to another instance",
                                      "classes": [x["H"] for x, _ in linsts], "ops": ops + [(ii, k)]}, None))
            if hname != most_specific(T, c["H"], samples[k]):
                res.failures.append(({"kind": "cache", "why": "look-up returned %r, most specific is %r" % (
                    hname, most_specific(T, c["H"], samples[k])),
                    "classes": [x["H"] for x, _ in linsts], "ops": ops + [(ii, k)]}, None))
            ops.append((ii, k))
            got.append((owner[0] if owner else 999, hname))
        look_cases.append("(%s, %s, %s)" % (
            lib.g_list([g_tlist([g_cls(k) for k in c["H"]], "cls") for c, _ in linsts]),
            lib.g_list(["(%d%%nat, %s)" % (i, g_cls(k)) for i, k in ops]),
            lib.g_list(["(%d%%nat, %s)" % (i, g_ocls(h)) for i, h in got])))
        look_payloads.append({"classes": [c["H"] for c, _ in linsts], "ops": ops})
    return hist_cases, hist_payloads, look_cases, look_payloads, nontrivial


# ------------------------------------------------------------------ default transformer

def _norm(T):
    return getattr(T, "_normalize_number", lambda v: Decimal(v).normalize())


def not_wellformed(T, tree):
    """executable recognition of objects whose degree / force was assigned after construction in a
    way no constructor produces (implicit flag with a non-default value, un-normalised force)"""
    for _, n in gentree.all_nodes(tree):
        if isinstance(n, T.Fuzzy) and n._implicit_degree and str(n.degree) != "0.5":
            return True
        if isinstance(n, T.Proximity) and n._implicit_degree and n.degree != 1:
            return True
        if isinstance(n, T.Boost):
            if n.implicit_force and not (type(n.force) is int and n.force == 1):
                return True
            if not n.implicit_force and isinstance(n.force, Decimal) and \
                    _norm(T)(n.force).as_tuple() != n.force.as_tuple():
                return True
    return False


def copy_oracle(T, tree, new, ids_before):
    if not (new == tree):
        return "copy != input"
    if new.__str__(head_tail=True) != tree.__str__(head_tail=True) or str(new) != str(tree):
        return "copy prints %r, input prints %r" % (new.__str__(head_tail=True), tree.__str__(head_tail=True))
    a, b = list(gentree.all_nodes(new)), list(gentree.all_nodes(tree))
    if [p for p, _ in a] != [p for p, _ in b]:
        return "copy has another shape"
    for (p, x), (_, y) in zip(a, b):
        if type(x) is not type(y) or (x.pos, x.size, x.head, x.tail) != (y.pos, y.size, y.head, y.tail):
            return "class / pos / size / head / tail differ at %r" % (p,)
    shared = [p for p, x in a if id(x) in ids_before]
    if shared:
        return "copy shares a node with the input at %r" % (shared[0],)
    return None


def mutated_corpus(T):
    f = T.Fuzzy(T.Word("a"))
    f.degree = Decimal(2)
    p = T.Proximity(T.Phrase('"a b"'))
    p.degree = 3
    b = T.Boost(T.Word("a"), None)
    b.force = Decimal("2.5")
    b2 = T.Boost(T.Word("a"), 2)
    b2.force = Decimal("1.50")
    return [f, p, b, b2, T.AndOperation(T.Word("x"), T.Group(b2))]


def copies(T, V, r, n, res, stats):
    g = gentree.Gen(r, T, layout=0.5, odd=0.15, positions=0.4)
    corpus = [T.Fuzzy(T.Word("a")), T.Proximity(T.Phrase('"a b"')), T.Boost(T.Word("a"), None),
              T.Fuzzy(T.Word("a"), Decimal("1.50")), T.Boost(T.Word("a"), "10"), T.Boost(T.Word("a"), "1.50"),
              T.Boost(T.Word("a"), "1234567890123456789012345678901"), T.AndOperation(), T.OrOperation(T.Word("a")),
              T.Range(T.AndOperation(T.Word("a"), T.Word("b")), T.NoneItem()), T.NoneItem(head=" ", tail=" "),
              T.UnknownOperation(*[T.Word("w%d" % i, pos=i, size=2, tail=" ") for i in range(40)])]
    mutated = mutated_corpus(T)
    trees = corpus + mutated + [g.tree(r.randrange(0, 5)) for _ in range(n)]
    cases, payloads = [], []
    seen = set()
    witnesses = 0
    for idx, tree in enumerate(trees):
        if idx >= len(corpus) + len(mutated):
            for _, nd in gentree.all_nodes(tree):
                if r.random() < 0.15:
                    setattr(nd, "_luqum_name", r.choice(["a", "b", "nm"]))
                # a few objects no constructor builds: degree / force re-assigned after construction
                if r.random() < 0.03:
                    if isinstance(nd, T.Fuzzy):
                        nd.degree = r.choice([Decimal(2), Decimal("0.50"), Decimal("0.5")])
                    elif isinstance(nd, T.Proximity):
                        nd.degree = r.choice([1, 4])
                    elif isinstance(nd, T.Boost):
                        nd.force = r.choice([Decimal("1.50"), Decimal("3"), Decimal("1E+1"), 1])
        before = lib.g_item(tree)
        desc = gentree.describe(tree)[:1500]
        ids_before = {id(nd) for _, nd in gentree.all_nodes(tree)}
        order_before = [id(nd) for _, nd in gentree.all_nodes(tree)]
        nwf = not_wellformed(T, tree)
        kind = r.choice(["plain", "path", "tracking"])
        tr = {"plain": lambda: V.TreeTransformer(), "path": lambda: V.PathTrackingTransformer(),
              "tracking": lambda: V.TreeTransformer(track_new_parents=True, track_parents=True)}[kind]()
        stats["transformers"][kind] = stats["transformers"].get(kind, 0) + 1
        try:
            new = tr.visit(tree)
        except Exception as e:
            res.failures.append(({"kind": "copy raised", "exception": repr(e), "tree": desc}, None))
            expected = "None"
        else:
            try:
                why = copy_oracle(T, tree, new, ids_before)
            except Exception as e:
                why = "result of visit() is not a tree: %r" % (e,)
            if nwf:
                # refutation witnesses of C08_copy_equal / C08_copy_print (attributes assigned after
                # construction): outside "parsed or built"; only recorded
                witnesses += 1
                if idx < len(corpus) + len(mutated):
                    res.notes.append("non-constructible object %s: %s" % (desc[:80], why or "copy agrees"))
            elif why:
                res.failures.append(({"kind": "copy", "why": why, "tree": desc, "transformer": kind}, None))
            try:
                expected = "(Some %s)" % lib.g_item(new)
            except Exception:
                expected = "None"
        if lib.g_item(tree) != before or [id(nd) for _, nd in gentree.all_nodes(tree)] != order_before:
            res.failures.append(({"kind": "copy modified its input", "tree": desc}, None))
        cases.append("(%s, %s, %s)" % (before, expected, lib.g_bool(not nwf)))
        payloads.append({"tree": desc, "transformer": kind})
        if gentree.count_nodes(tree) > 1:
            seen.add(desc)
    stats["copy_witnesses_replayed"] = witnesses
    return cases, payloads, seen


def correspond(model_ok, res):
    import luqum.tree as T
    import luqum.visitor as V
    r = lib.rng("C08")
    quick = lib.tier() == "quick"
    names = [V.camel_to_lower(k) for k in CLASS_NAMES + ABSTRACT_NAMES + ["object"]]
    assert len(set(names)) == len(names), "camel_to_lower is not injective on the class names"
    for k in CLASS_NAMES + ABSTRACT_NAMES:
        assert getattr(T, k).__name__ == k
    stats = {"classes": {}, "events": 0, "handlers": 0, "abstract_handlers": 0, "cache_hits": 0,
             "transformers": {}}
    hc, hp, lc, lp, nontrivial = histories(T, V, r, 120 if quick else 1200, res, stats)
    cc, cp, seen = copies(T, V, r, 250 if quick else 2500, res, stats)
    res.cases = len(hc) + len(lc) + len(cc)
    res.nontrivial = len(nontrivial) + len(seen)
    res.rule = ("histories: 2-4 dynamically generated probe visitor classes (random handler sets over the 20 "
                "concrete and 8 abstract classes, plain / path tracking, generic wrapped or not, some derived "
                "from another probe), 1-3 instances each (track_parents random), 5-12 visits over 2-3 random "
                "trees with instances reused; non-trivial = distinct history with >= 2 different handler sets "
                "and at least one cache hit.  look-ups: 8-24 bare _get_method calls on fresh instances.  "
                "copies: random trees of every class with layout, positions, names; non-trivial = distinct "
                "tree with more than one node")
    res.samples = hp[:3] + cp[14:17]
    res.distribution = stats
    if not model_ok:
        res.model_error = "model did not build"
        return res
    imports = "Base Decimal Tree TreeEq GenTree GenVisitors Visitor Eq Traverse TraverseProofs"
    try:
        # canaries: a corrupted expectation must be reported
        canary_h = hc[0].replace("CWord", "CPhrase", 1) if "CWord" in hc[0] else hc[0] + " (* no canary *)"
        bad = lib.eval_cases("C08h", imports, HIST_DEFS, hc + [canary_h], "chk_hist", shard=12)
        if "CWord" in hc[0]:
            assert len(hc) in bad, "canary (history) not detected"
            bad = [i for i in bad if i != len(hc)]
        for i in bad:
            res.disagreements.append({"kind": "history", "case": hp[i]})
        canary_l = "(%s, [(0%%nat, CWord)], [(1%%nat, @None cls)])" % lib.g_list(["[CTerm]"])
        bad = lib.eval_cases("C08l", imports, HIST_DEFS, lc + [canary_l], "chk_lookup", shard=60)
        assert len(lc) in bad, "canary (look-up) not detected"
        for i in bad:
            if i != len(lc):
                res.disagreements.append({"kind": "look-ups", "case": lp[i]})
        canary_c = "(Term KWord meta0 [97]%N, Some (Term KWord meta0 [98]%N), true)"
        bad = lib.eval_cases("C08c", imports, COPY_DEFS, cc + [canary_c], "chk_copy", shard=40)
        assert len(cc) in bad, "canary (copy) not detected"
        for i in bad:
            if i != len(cc):
                res.disagreements.append({"kind": "copy", "case": cp[i]})
    except Exception as e:
        res.model_error = str(e)
    return res


SPEC = {
    "id": "C08",
    "targets": ["props/C08.vo"],
    "model_targets": ["model/Traverse.vo", "model/TreeEq.vo", "proofs/TraverseProofs.vo"],
    "module": "C08",
    "theorems": ["C08_positions", "C08_document_order", "C08_every_node_once", "C08_handled_nodes_once", "C08_paths_in_preorder",
                 "C08_handler_most_specific", "C08_handler_first_in_mro", "C08_mro_class_before_bases",
                 "C08_context_true", "C08_cache_lookups", "C08_cache_visits", "C08_cache_shared_refuted",
                 "C08_copy_total", "C08_copy_equal_refuted", "C08_copy_equal_partial",
                 "C08_copy_print_refuted", "C08_copy_print_partial", "C08_copy_wellformed",
                 "C08_copy_layout", "C08_copy_drops_names"],
    "correspond": correspond,
    "statement": "probe visitors get every node exactly once in pre-order, at the handler of the most specific "
                 "class that has one, with the true ancestors / index path as context, for every history of "
                 "visits by several classes and instances (per-instance dispatch cache); the default "
                 "transformer never fails and returns a tree equal to the input, with the same text, classes "
                 "and layout at every position (names are not copied)",
    "trusted_base": [
        "Coq 8.16.1 kernel (vm_compute for table facts, witnesses and correspondence; no native_compute)",
        "no axioms (Print Assumptions: closed under the global context)",
        "gen/translate.py: class MROs, _equality_attrs, operator strings, cache scope of TreeVisitor._get_method",
        "hand-written models coq/model/Traverse.v (visit_iter / generic_visit / child_context / _get_method / "
        "TreeTransformer.generic_visit), Eq.v (clone_item, __eq__), Print.v (__str__), tied by differential "
        "correspondence (harness/c08.py) on every run",
        "visitor classes are identified with their set of visit_<class> handlers (camel_to_lower checked "
        "injective on the class names at run time); handlers are probes that call the library's generic_visit",
        "value-based tree model: object identity is not modelled",
    ],
    "assumptions": [
        "trees contain only luqum.tree classes; no node object occurs at two positions",
        "'the copy shares no node with the input' and 'the input is left unmodified' are object-identity / "
        "mutation facts outside the value model: checked on the implementation only (id() sets of all nodes, "
        "Gallina snapshot + id() sequence before and after every visit) by harness/c08.py",
        "copy == input and same text are proved for trees in which an implicit degree/force has its default "
        "value and an explicit boost force is normalised (what every constructor and the parser establish); "
        "objects whose degree/force attribute was re-assigned after construction are refutation witnesses "
        "(C08_copy_equal_refuted, C08_copy_print_refuted), replayed on the implementation and listed in notes",
        "the attached name (_luqum_name) is not copied by the default transformer (C08_copy_drops_names)",
        "visitors that override traversal (do not call generic_visit, or change child_context) are out of scope",
    ],
}
