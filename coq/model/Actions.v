(* Actions.v — the semantic actions p_* of luqum/parser.py with HeadTailManager
   (luqum/head_tail.py) and create_operation (luqum/tree.py), as value-passing functions.
   Executable definitions only.

   Python mutates objects that are already referenced from p[0]; the model applies the same
   head/tail updates to the right-hand-side values first and then builds the node, which is
   observationally the same because a parse never shares nodes.  Besides the value every action
   returns the list of texts it DROPS (ghost, not in the Python code): this is what makes F1
   (`foo :bar` loses the blank) an executable predicate. *)
Require Import Base Decimal Tree GenTree GenParser Lexer Print.

(* value on the parser's value stack: a tree item (Word/Phrase/Regex token values and every
   reduced node) or a TokenValue (value = its `.value`: the lexeme, or the degree/force or None for
   APPROX/BOOST).  `lexeme` is a ghost copy of the token text. *)
Inductive symval :=
| VItem (i : item)
| VTok (lexeme : str) (value : option str) (m : meta).

Inductive perr :=
| ESyntax (msg : str)         (* luqum.exceptions.ParseSyntaxError *)
| EIllegal (msg : str)        (* luqum.exceptions.IllegalCharacterError *)
| EOther (what : nat).        (* any other exception (never with the tables PLY generates) *)

Inductive res (A : Type) := Ok (a : A) | Err (e : perr).

(* ghost events (not in the Python code): text an action drops from the printed form, and numerals
   it re-spells *)
Inductive gev := GDrop (s : str) | GRespell (orig printed : str).
Definition drops (l : list str) : list gev := map GDrop l.
Arguments Ok {A}. Arguments Err {A}.

(* the text a stack value stands for (ghost) *)
Definition full_text (v : symval) : str :=
  match v with
  | VItem i => print true i
  | VTok l _ m => m_head m ++ l ++ m_tail m
  end.

Definition sv_meta (v : symval) : meta := match v with VItem i => meta_of i | VTok _ _ m => m end.
Definition sv_set_meta (v : symval) (m : meta) : symval :=
  match v with VItem i => VItem (set_meta i m) | VTok l x _ => VTok l x m end.
Definition sv_head v := m_head (sv_meta v).
Definition sv_tail v := m_tail (sv_meta v).

Definition zlen (s : str) : Z := Z.of_nat (length s).
Definition oz (o : option Z) : Z := match o with Some z => z | None => 0%Z end.

(* HeadTailManager.pos : (pos, size) of p[0] from the parts p[1:] *)
Definition htm_pos (args : list symval) (head_transfer tail_transfer : bool) : option Z * option Z :=
  match args with
  | [] => (None, None)
  | p1 :: _ =>
      let pos := match m_pos (sv_meta p1) with
                 | Some x => Some (if head_transfer then x else x - zlen (sv_head p1))%Z
                 | None => None end in
      let total := fold_left (fun acc v => (acc + oz (m_size (sv_meta v)) + zlen (sv_head v) + zlen (sv_tail v))%Z)
                             args 0%Z in
      let total := if head_transfer then (total - zlen (sv_head p1))%Z else total in
      let lastv := last args p1 in
      let total := if tail_transfer then (total - zlen (sv_tail lastv))%Z else total in
      (pos, Some total)
  end.

Definition mk_meta (ps : option Z * option Z) (h t : str) : meta := mkMeta (fst ps) (snd ps) h t None.

Definition add_head (i : item) (s : str) : item := set_head i (s ++ head_of i).      (* x.head = s + x.head *)
Definition add_tail_i (i : item) (s : str) : item := set_tail i (tail_of i ++ s).    (* x.tail += s *)

(* group_to_fieldgroup copies pos, size, head, tail only *)
Definition clone_meta_nameless (m : meta) : meta := mkMeta (m_pos m) (m_size m) (m_head m) (m_tail m) None.

Definition opk_eqb (a b : opk) : bool :=
  match a, b with KAnd, KAnd | KOr, KOr | KUnknown, KUnknown | KBool, KBool => true | _, _ => false end.

Definition op_str_of (c : cls) : str := match gen_op c with Some s => s | None => [] end.
Definition op_text (k : opk) : str := op_str_of (cls_of_opk k).

(* create_operation + HeadTailManager.binary_operation.
   Result: node, dropped texts.  EOther 1: right operand is an operation of the class with no operand. *)
Definition binary (k : opk) (a : item) (opv : option symval) (b : item) : res (symval * list gev) :=
  let op_tail := match opv with Some v => sv_tail v | None => [] end in
  let a_same := match a with Op k' _ _ => opk_eqb k k' | _ => false end in
  let b_same := match b with Op k' _ _ => opk_eqb k k' | _ => false end in
  let opsA := if a_same then children a else [a] in
  let dropA := if a_same then [head_of a; tail_of a] else [] in
  match (if b_same then children b else [b]) with
  | [] => Err (EOther 1)
  | b0 :: brest =>
      let opsB := add_head b0 op_tail :: brest in       (* left_operands[0].head += op_tail *)
      let dropB := if b_same then [head_of b; tail_of b] else [] in
      (* p[3] as HeadTailManager.pos sees it afterwards *)
      let b_after := if b_same then b else add_head b op_tail in
      let args := match opv with
                  | Some v => [VItem a; v; VItem b_after]
                  | None => [VItem a; VItem b_after] end in
      let '(pos, size) := htm_pos args false false in
      let size := match size with Some z => Some (z - zlen op_tail)%Z | None => None end in
      let dropOp := match opv with
                    | Some (VTok l _ m) =>
                        (* the operator token's own head is never printed; the operator is printed as
                           the class's `op` string, whatever the lexeme was *)
                        [m_head m]
                    | Some (VItem _) => [[0%N]]     (* never: an item where the operator token is expected *)
                    | None => [] end in
      (* (never with real tables) a left operand that is an operation of the class with no operand
         vanishes, and the operator text with it *)
      let dropEmpty := match opsA with [] => [op_text k] | _ => [] end in
      let respell := match opv with
                     | Some (VTok l _ _) => [GRespell l (op_text k)]   (* printed as the class's `op` string *)
                     | Some (VItem _) => []
                     | None => [GRespell [] (op_text k)] end in
      Ok (VItem (Op k (mk_meta (pos, size) [] []) (opsA ++ opsB)), drops (dropA ++ dropB ++ dropOp ++ dropEmpty) ++ respell)
  end.

(* HeadTailManager.unary: OP expr *)
Definition tok_lex (v : symval) : str := match v with VTok l _ _ => l | VItem _ => [] end.

(* `printed` = the text the new node prints in place of the operator token (ghost) *)
Definition unary_ht (mk : meta -> item -> item) (opv : symval) (x : item) (printed : str)
  : symval * list gev :=
  let ps := htm_pos [opv; VItem x] true false in
  (VItem (mk (mk_meta ps (sv_head opv) []) (add_head x (sv_tail opv))), [GRespell (tok_lex opv) printed]).

(* HeadTailManager.post_unary: expr OP *)
Definition post_unary_ht (mk : meta -> item -> item) (x : item) (opv : symval) (ev : list gev) : symval * list gev :=
  let ps := htm_pos [VItem x; opv] false true in
  (VItem (mk (mk_meta ps [] (sv_tail opv)) (add_tail_i x (sv_head opv))), ev).

Definition s_invalid_number : str :=   (* "Syntax error in input : invalid number '" *)
  [83;121;110;116;97;120;32;101;114;114;111;114;32;105;110;32;105;110;112;117;116;32;58;32;105;110;118;97;108;105;100;32;110;117;109;98;101;114;32;39]%N.
Definition s_at_position : str := [39;32;97;116;32;112;111;115;105;116;105;111;110;32]%N.  (* "' at position " *)
Definition s_bang : str := [33]%N.

Definition number_error (v : str) (m : meta) : perr :=
  match m_pos m with
  | Some p => ESyntax (s_invalid_number ++ v ++ s_at_position ++ Z_to_str p ++ s_bang)
  | None => EOther 2
  end.

Definition mem_char (c : char) (s : str) : bool := mem_N c s.

(* one semantic action.  `args` = p[1:], in order.  EOther 3 = the values do not have the kinds the
   action expects (AttributeError / TypeError in Python; never with PLY's own tables). *)
Definition run_action (a : action_name) (args : list symval) : res (symval * list gev) :=
  match a, args with
  | A_expression_or, [VItem x; (VTok _ _ _) as o; VItem y] => binary KOr x (Some o) y
  | A_expression_and, [VItem x; (VTok _ _ _) as o; VItem y] => binary KAnd x (Some o) y
  | A_expression_implicit, [VItem x; VItem y] => binary KUnknown x None y
  | A_expression_plus, [(VTok _ _ _) as o; VItem x] => Ok (unary_ht (Unary KPlus) o x (op_str_of CPlus))
  | A_expression_minus, [(VTok _ _ _) as o; VItem x] => Ok (unary_ht (Unary KProhibit) o x (op_str_of CProhibit))
  | A_expression_not, [(VTok _ _ _) as o; VItem x] => Ok (unary_ht (Unary KNot) o x (op_str_of CNot))
  | A_expression_unary, [v] => Ok (v, [])
  | A_grouping, [(VTok _ _ _) as l; VItem e; (VTok _ _ _) as r] =>
      let ps := htm_pos args true true in
      let e' := add_tail_i (add_head e (sv_tail l)) (sv_head r) in
      Ok (VItem (Grp KGroup (mk_meta ps (sv_head l) (sv_tail r)) e'),
          [GRespell (tok_lex l) [c_lparen]; GRespell (tok_lex r) [c_rparen]])
  | A_range, [(VTok _ lv _) as l; VItem lo; (VTok _ _ _) as t; VItem hi; (VTok _ rv _) as r] =>
      let ps := htm_pos args true true in
      let lo' := add_tail_i (add_head lo (sv_tail l)) (sv_head t) in
      let hi' := add_tail_i (add_head hi (sv_tail t)) (sv_head r) in
      let il := ostr_eqb lv (Some [c_lbrack]) in
      let ih := ostr_eqb rv (Some [c_rbrack]) in
      Ok (VItem (Range (mk_meta ps (sv_head l) (sv_tail r)) lo' hi' il ih),
          [GRespell (tok_lex l) (gen_low_char il); GRespell (tok_lex t) s_TO;
           GRespell (tok_lex r) (gen_high_char ih)])
  | A_possibly_negative_term, [(VTok _ _ _) as o; VItem x] => Ok (unary_ht (Unary KProhibit) o x (op_str_of CProhibit))
  | A_possibly_negative_term, [v] => Ok (v, [])
  | A_phrase_or_possibly_negative_term, [v] => Ok (v, [])
  | A_lessthan, [(VTok _ (Some v) _) as o; VItem x] =>
      Ok (unary_ht (fun m y => ORange KTo m y (mem_char c_eq v)) o x
                   (op_str_of CTo ++ gen_openrange_char (mem_char c_eq v)))
  | A_greaterthan, [(VTok _ (Some v) _) as o; VItem x] =>
      Ok (unary_ht (fun m y => ORange KFrom m y (mem_char c_eq v)) o x
                   (op_str_of CFrom ++ gen_openrange_char (mem_char c_eq v)))
  | A_field_search, [VItem (Term _ _ name as w); (VTok _ _ _) as c; VItem e] =>
      let e1 := match e with Grp KGroup m x => Grp KFieldGroup (clone_meta_nameless m) x | _ => e end in
      let ps := htm_pos args true false in
      Ok (VItem (SearchField (mk_meta ps (head_of w) []) name (add_head e1 (sv_tail c))),
          drops [tail_of w; sv_head c]                    (* FIXME in the code: these are lost *)
          ++ [GRespell (tok_lex c) [c_colon]])
  | A_quoting, [v] => Ok (v, [])
  | A_proximity, [VItem x; (VTok _ d m) as o] =>
      match d with
      | None => Ok (post_unary_ht (fun m' y => Proximity m' y 1%Z true) x o [GRespell (tok_lex o) [c_tilde]])
      | Some ds => match int_of_lexeme ds with
                   | Some z => Ok (post_unary_ht (fun m' y => Proximity m' y z false) x o
                                                 [GRespell (tok_lex o) (c_tilde :: Z_to_str z)])
                   | None => Err (number_error ds m)
                   end
      end
  | A_boosting, [VItem x; (VTok _ d m) as o] =>
      match d with
      | None => Ok (post_unary_ht (fun m' y => Boost m' y dec_one true) x o [GRespell (tok_lex o) [c_caret]])
      | Some ds => match dec_of_lexeme ds with
                   | Some f => Ok (post_unary_ht (fun m' y => Boost m' y (dec_normalize f) false) x o
                                                 [GRespell (tok_lex o) (c_caret :: dec_to_fstr (dec_normalize f))])
                   | None => Err (number_error ds m)
                   end
      end
  | A_terms, [v] => Ok (v, [])
  | A_fuzzy, [VItem x; (VTok _ d m) as o] =>
      match d with
      | None => Ok (post_unary_ht (fun m' y => Fuzzy m' y dec_half true) x o [GRespell (tok_lex o) [c_tilde]])
      | Some ds => match dec_of_lexeme ds with
                   | Some f => Ok (post_unary_ht (fun m' y => Fuzzy m' y (dec_normalize f) false) x o
                                                 [GRespell (tok_lex o) (c_tilde :: dec_to_fstr (dec_normalize f))])
                   | None => Err (number_error ds m)
                   end
      end
  | A_regex, [v] => Ok (v, [])
  | A_to_as_term, [(VTok _ (Some v) m) as o] =>
      let ps := htm_pos args true true in
      Ok (VItem (Term KWord (mk_meta ps (m_head m) (m_tail m)) v), [GRespell (tok_lex o) v])
  | A_phrase_or_term, [v] => Ok (v, [])
  | _, _ => Err (EOther 3)
  end.
