"""C19 — schema-derived options make the builder nest and type each mapped field right.

Correspondence (model coq/model/Schema.v against luqum.elasticsearch.schema.SchemaAnalyzer):
  * every method of the analyzer on generated index descriptions (both layouts, several document types,
    objects with / without explicit type, nested, multi-fields, legacy string / not_analyzed, to depth 4):
    iter_fields(False), iter_fields(True) (entries in order), not_analyzed_fields, nested_fields (dict key
    order included), object_fields, sub_fields, default_field
  * for every mapped leaf x both query spellings (dotted name, chain of field groups, both built by the real
    parser): ElasticsearchQueryBuilder(**query_builder_options())(tree) against `build (options m) tree`.
Oracle (independent of the model and of SchemaAnalyzer: leaves are found by a recursive descent of the raw
mapping dict): the outcome is a JSON clause on the full path, `term` iff the leaf's OWN mapped type is not
analysed text, inside `nested{path P}` iff P is the innermost nested ancestor (bare iff there is none).
Known findings are recognised by executable predicates on (mapping, field): F12 and F12b below.
"""
import copy
import json

import lib
import es_common as E
from runner import CorrResult  # noqa: F401

NAMES = ["a", "ab", "b", "n", "n1", "o", "h", "raw", "t", "k"]
# name collisions: 3-4 names reused at every level (the same container name at several places, the same leaf
# names under different parents, "a" / "ab" named like a prefix of one another)
COLLIDING = [["a", "b", "c"], ["n", "o", "a", "ab"], ["x", "y", "x1"], ["comments", "attachment", "author"]]
_pool = [NAMES]


def pick_name(r):
    return r.choice(_pool[0])
LEAF_DEFS = [
    {"type": "text"}, {"type": "keyword"}, {"type": "integer"}, {"type": "date"}, {"type": "boolean"},
    {"type": "string"}, {"type": "string", "index": "not_analyzed"}, {"type": "string", "index": "analyzed"},
    {"type": "string", "index": "no"}, {"type": "text", "index": "not_analyzed"}, {"type": "keyword", "index": "no"},
    {"type": "alias", "path": "text"}, {"type": "ip"}, {"type": "geo_point"},
]
SUB_DEFS = LEAF_DEFS + [{}, {"index": "not_analyzed"}, {"index": "analyzed"}, {"type": "string"}]


# ------------------------------------------------------------------ generation

def gen_field(r, depth, odd):
    x = r.random()
    if depth <= 0 or x < 0.45:
        d = copy.deepcopy(r.choice(LEAF_DEFS))
        if odd and r.random() < 0.05:
            d = {}                                             # no type at all
        if r.random() < 0.25:
            d["fields"] = {}
            for _ in range(r.randrange(0 if odd else 1, 3)):
                d["fields"][pick_name(r)] = copy.deepcopy(r.choice(SUB_DEFS if odd or r.random() < 0.3
                                                                    else LEAF_DEFS))
        return d
    kind = r.choice(["object", "implicit", "nested", "nested", "object"])
    d = {}
    if kind != "implicit":
        d["type"] = kind
    nprops = r.randrange(0 if (odd or r.random() < 0.08) else 1, 4)
    props = gen_props(r, depth - 1, nprops, odd)
    if props or r.random() < 0.5:
        d["properties"] = props
    if odd and r.random() < 0.08:
        # a container that also has multi-fields (the walk re-binds fname / fdef)
        d["fields"] = {pick_name(r): copy.deepcopy(r.choice(LEAF_DEFS)) for _ in range(r.randrange(1, 3))}
        if r.random() < 0.4:
            k = r.choice(list(d["fields"]))
            d["fields"][k]["properties"] = gen_props(r, 1, r.randrange(1, 3), False)
    return d


# parameters that decide neither the kind of clause (term-level / full text) nor the nesting
LEAF_DECOR = [("analyzer", "keyword"), ("analyzer", "standard"), ("search_analyzer", "keyword"), ("norms", False),
              ("store", True), ("null_value", "NULL"), ("ignore_above", 256), ("boost", 2), ("doc_values", False),
              ("copy_to", "all"), ("fielddata", True), ("normalizer", "lc"), ("index_options", "docs"),
              ("format", "yyyy-MM-dd"), ("eager_global_ordinals", True), ("similarity", "boolean")]
CONTAINER_DECOR = [("include_in_parent", True), ("include_in_root", True), ("include_in_parent", False),
                   ("dynamic", "strict"), ("dynamic", False), ("enabled", True), ("include_in_all", False)]


def decorate(r, d):
    is_cont = d.get("type") in ("object", "nested") or "properties" in d
    if r.random() < 0.3:
        for _ in range(r.randrange(1, 3)):
            k, v = r.choice(CONTAINER_DECOR if is_cont else LEAF_DECOR)
            d.setdefault(k, v)
    for sub in (d.get("fields") or {}).values():
        if isinstance(sub, dict) and r.random() < 0.2:
            k, v = r.choice(LEAF_DECOR)
            sub.setdefault(k, v)
    return d


def gen_props(r, depth, n, odd):
    props = {}
    for _ in range(n):
        name = pick_name(r)
        if odd and r.random() < 0.04:
            name = r.choice(["a.b", "n.o"])
        props[name] = decorate(r, gen_field(r, depth, odd))
    return props


def gen_schema(r, odd=False, collide=False):
    _pool[0] = r.choice(COLLIDING) if collide else NAMES
    try:
        return _gen_schema(r, odd, 4 if collide and r.random() < 0.6 else r.randrange(1, 5))
    finally:
        _pool[0] = NAMES


def _gen_schema(r, odd, depth):
    schema = {}
    if r.random() < 0.3:
        schema["settings"] = r.choice([{}, {"query": {}}, {"query": {"default_field": r.choice(["text", "a", "n.o"])}},
                                       {"index": {"x": 1}}])
    if r.random() < 0.6:
        m = {"properties": gen_props(r, depth - 1, r.randrange(0 if odd else 1, 5), odd)}
        if r.random() < 0.2:
            m["dynamic"] = "strict"
    else:
        m = {}
        ntypes = r.randrange(1, 4)
        first = None
        for i in range(ntypes):
            doc = {}
            if r.random() < 0.92:
                doc["properties"] = gen_props(r, depth - 1, r.randrange(0 if odd else 1, 4), odd)
                if first is not None and r.random() < 0.5 and first.get("properties"):
                    # share a field (same definition, as ES demands) with the first document type
                    k = r.choice(list(first["properties"]))
                    doc["properties"][k] = copy.deepcopy(first["properties"][k])
                    if odd and r.random() < 0.3:
                        doc["properties"][k] = gen_field(r, depth - 1, odd)     # conflicting definition
            m[["d1", "d2", "d3"][i]] = doc
            if first is None:
                first = doc
        if odd and r.random() < 0.1:
            m["properties"] = {}
    if r.random() < 0.97:
        schema["mappings"] = m
    return schema


KW, TX = {"type": "keyword"}, {"type": "text"}


def fixed_schemas():
    def cur(p):
        return {"mappings": {"properties": p}}
    return [
        # multi-fields whose ORDER matters if definitions leak between siblings: a term-level sub-field first, then
        # an analysed one; a sub-field without a type of its own (it has its parent's) after one that changes it
        cur({"title": {"type": "string", "fields": {"raw": {"type": "string", "index": "not_analyzed"},
                                                     "fr": {"type": "string", "analyzer": "french"}}}}),
        cur({"n": {"type": "nested", "properties": {"lastname": {"type": "text", "fields": {
            "raw": KW, "english": {"analyzer": "english"}, "raw2": KW, "plain": {"type": "text"}}}}}}),
        cur({"o": {"properties": {"city": {"type": "keyword", "fields": {
            "words": TX, "lower": {"normalizer": "lc"}, "w2": TX, "lower2": {"normalizer": "lc"}}}}}}),
        # F12 as first suspected (DESIGN): nested -> object -> leaf.  NOT a defect (see report)
        cur({"n1": {"type": "nested", "properties": {"o": {"type": "object", "properties": {"h": KW}}}}}),
        # F12, the real one: the only children of nested n1 lead to a deeper nested field
        cur({"n1": {"type": "nested", "properties": {"o": {"type": "object", "properties": {
            "g": KW, "n2": {"type": "nested", "properties": {"h": TX}}}}}}}),
        cur({"n1": {"type": "nested", "properties": {"o": {"properties": {
            "g": TX, "n2": {"type": "nested", "properties": {"h": TX}}}}}}}),
        cur({"n1": {"type": "nested", "properties": {"n2": {"type": "nested", "properties": {"h": TX}}}}}),
        # not F12: the nested field has a leaf of its own, and an object (with leaves) that leads to a deeper
        # nested field: the object's leaves belong to n1, not to a nested path "n1.o"
        cur({"n1": {"type": "nested", "properties": {"l": KW, "o": {"type": "object", "properties": {
            "g": KW, "n2": {"type": "nested", "properties": {"h": TX}}}}}}}),
        cur({"n1": {"type": "nested", "properties": {"l": TX, "o": {"properties": {
            "g": TX, "p": {"properties": {"q": KW, "n2": {"type": "nested", "properties": {"h": KW}}}}}}}}}),
        cur({"n1": {"type": "nested", "properties": {"g": KW, "n2": {"type": "nested", "properties": {"h": TX}}}}}),
        cur({"o": {"type": "object", "properties": {"n": {"type": "nested", "properties": {"h": TX}}, "k": KW}}}),
        cur({"o": {"properties": {"k": KW, "t": TX, "p": {"properties": {"n": {"type": "nested", "properties": {
            "h": KW}}}}}}}),
        cur({"n1": {"type": "nested", "properties": {"t": {"type": "text", "fields": {"raw": KW, "en": TX}}}},
             "t": {"type": "text", "fields": {"raw": KW}}}),
        # F12b: legacy multi-field, the sub-field inherits the parent's index
        {"mappings": {"d": {"properties": {"city": {"type": "string", "index": "not_analyzed",
                                                    "fields": {"an": {"type": "string"}}}}}}},
        {"mappings": {"d1": {"properties": {"s": {"type": "string"}, "k": {"type": "string", "index": "not_analyzed"},
                                            "a": {"type": "string", "index": "no"}}},
                      "d2": {"properties": {"s": {"type": "string"}, "i": {"type": "integer"}}}}},
        # a leaf named like a prefix of another, same names at several levels
        cur({"a": KW, "ab": TX, "n": {"type": "nested", "properties": {"n": {"type": "nested", "properties": {
            "n": TX, "a": KW}}, "a": TX}}}),
        # several document types re-declaring a nested field
        {"mappings": {"d1": {"properties": {"n1": {"type": "nested", "properties": {
            "n2": {"type": "nested", "properties": {"h": TX}}, "g": KW}}}},
                      "d2": {"properties": {"n1": {"type": "nested", "properties": {
                          "n2": {"type": "nested", "properties": {"k": KW}}}}}}}},
        # F12c: a later document type re-declares the nested field n2 without properties: its children are wiped
        {"mappings": {"d1": {"properties": {"n1": {"type": "nested", "properties": {
            "n2": {"type": "nested", "properties": {"h": TX}}}}}},
                      "d2": {"properties": {"n1": {"type": "nested", "properties": {"n2": {"type": "nested"}}}}}}},
        # name collisions: a nested field X walked first, a later sibling object / nested field with its own X
        cur({"comments": {"type": "nested", "properties": {"author": KW}},
             "attachment": {"type": "object", "properties": {
                 "comments": {"type": "nested", "properties": {"author": KW, "text": TX}}}}}),
        cur({"attachment": {"properties": {"comments": {"type": "nested", "properties": {"author": KW}}}},
             "comments": {"type": "nested", "properties": {"author": TX}}}),
        cur({"x": {"type": "nested", "properties": {"a": KW, "y": {"type": "nested", "properties": {
            "x": {"type": "nested", "properties": {"a": TX}}, "a": KW}}}},
             "y": {"type": "nested", "properties": {"x": {"type": "object", "properties": {
                 "x": {"type": "nested", "properties": {"a": KW}}, "a": TX}}}}}),
        {"mappings": {"d": {"properties": {
            "a": {"type": "nested", "properties": {"b": KW}},
            "ab": {"properties": {"a": {"type": "nested", "properties": {"b": TX}},
                                  "b": {"properties": {"a": {"type": "nested", "properties": {"b": KW}}}}}},
            "b": {"type": "nested", "properties": {"a": {"type": "object", "properties": {
                "a": {"type": "nested", "properties": {"b": KW}}, "b": TX}}}}}}}},
        {"settings": {"query": {"default_field": "a"}}, "mappings": {"properties": {"a": KW}}},
        {"settings": {"query": {}}, "mappings": {}},
        {},
        # container with multi-fields: fname / fdef re-bound by the inner loop of _walk_properties
        cur({"o": {"type": "object", "fields": {"raw": KW}, "properties": {"h": TX}}}),
        cur({"o": {"type": "nested", "fields": {"r1": KW, "r2": {"type": "object", "properties": {"z": KW}}},
                   "properties": {"h": TX}}}),
        {"mappings": {"properties": {}, "d": {"properties": {"a": KW}}}},
        # mapping parameters that decide neither the kind of clause nor the nesting: an analyzer named "keyword" on
        # a text field is still analysed text (and so is a plain text sub-field below it); a nested field copied to
        # its parent / the root is still a nested field, also inside an object or another nested field
        cur({"code": {"type": "text", "analyzer": "keyword", "fields": {"words": {"type": "text"}, "raw": KW,
                                                                          "std": {"type": "text", "analyzer": "standard"}}}}),
        {"mappings": {"d": {"properties": {"code": {"type": "string", "analyzer": "keyword",
                                                    "fields": {"words": {"type": "string"}}}}}}},
        cur({"n": {"type": "nested", "properties": {"code": {"type": "text", "analyzer": "keyword", "search_analyzer": "keyword",
                                                               "fields": {"words": TX}}}}}),
        # a field type that refers to another field: its class is that of ITS OWN mapped type (not analysed text)
        cur({"title": TX, "headline": {"type": "alias", "path": "title"},
             "meta": {"properties": {"abstract": {"type": "alias", "path": "title"}, "k": KW}},
             "comments": {"type": "nested", "properties": {"content": {"type": "alias", "path": "title"}, "text": TX}}}),
        cur({"comment": {"type": "nested", "include_in_root": True, "properties": {"stars": KW, "text": TX}},
             "o": {"properties": {"c": {"type": "nested", "include_in_parent": True, "properties": {"k": KW}}}}}),
        cur({"order": {"type": "nested", "properties": {"ref": KW, "line": {
            "type": "nested", "include_in_parent": True, "properties": {"sku": KW, "label": TX}}}}}),
        cur({"order": {"type": "nested", "include_in_parent": False, "include_in_root": False, "properties": {"line": {
            "type": "nested", "include_in_root": True, "properties": {"sku": KW}}}}}),
        {"mappings": {"d": {"properties": {"comment": {"type": "nested", "include_in_parent": True,
                                                       "properties": {"stars": {"type": "string", "index": "not_analyzed"}}}}}}},
    ]


# ------------------------------------------------------------------ serialisation

def g_ostr(v):
    if v is None:
        return "None"
    if not isinstance(v, str):
        raise lib.Unmodelled("type/index value of type %s" % type(v).__name__)
    return "(Some (%s : str))" % lib.g_str(v)


def g_fdef(d, is_sub=False):
    if not isinstance(d, dict):
        raise lib.Unmodelled("field definition of type %s" % type(d).__name__)
    if is_sub and "properties" in d and not d["properties"]:
        raise lib.Unmodelled("sub-field with an explicit empty properties")
    for k in ("type", "index"):
        if k in d and d[k] is None:
            raise lib.Unmodelled("explicit None for %s" % k)
    return "(FDef %s %s %s %s)" % (g_ostr(d.get("type")), g_ostr(d.get("index")),
                                   g_props(d.get("fields") or {}, True), g_props(d.get("properties") or {}))


def g_props(p, is_sub=False):
    if not isinstance(p, dict):
        raise lib.Unmodelled("properties of type %s" % type(p).__name__)
    return lib.g_list(["(%s, %s)" % (lib.g_str(k), g_fdef(v, is_sub)) for k, v in p.items()])


def g_schema(schema):
    settings = schema.get("settings", {})
    try:
        df = settings["query"]["default_field"]
    except KeyError:
        df = None
    m = schema.get("mappings", {})
    top = "(Some %s)" % g_props(m["properties"]) if "properties" in m else "None"
    types = []
    for k, v in m.items():
        if k == "properties":
            continue
        if not isinstance(v, dict):
            if m.get("properties"):
                continue          # never looked at in the one-document-type layout
            raise lib.Unmodelled("document type that is not a dict")
        types.append("(%s, %s)" % (lib.g_str(k), "(Some %s)" % g_props(v["properties"]) if "properties" in v
                                   else "None"))
    return "(mkSchema %s (mkMappings %s %s))" % (g_ostr(df), top, lib.g_list(types))


def g_entry(fname, fdef, parents):
    return "(%s, %s, %s, %s, %s, %s)" % (
        lib.g_str(fname), g_ostr(fdef.get("type")), g_ostr(fdef.get("index")),
        lib.g_list([lib.g_str(k) for k in (fdef.get("fields") or {})]),
        lib.g_list([lib.g_str(k) for k in (fdef.get("properties") or {})]),
        lib.g_list(["(%s, %s)" % (lib.g_str(n), g_ostr(d.get("type"))) for n, d in parents]))


def g_strs(l):
    return lib.g_list([lib.g_str(x) for x in l])


DEFS_A = """
Definition esum := (str * option str * option str * list str * list str * list (str * option str))%type.
Definition summary (e : entry) : esum :=
  (e_name e, fd_type (e_def e), fd_index (e_def e), map fst (fd_fields (e_def e)),
   map fst (fd_props (e_def e)), map (fun p => (fst p, fd_type (snd p))) (e_parents e)).
Definition strs_eqb := list_eqb str_eqb.
Definition esum_eqb (a b : esum) : bool :=
  let '(n, t, i, f, p, ps) := a in let '(n', t', i', f', p', ps') := b in
  str_eqb n n' && ostr_eqb t t' && ostr_eqb i i' && strs_eqb f f' && strs_eqb p p' &&
  list_eqb (fun x y => str_eqb (fst x) (fst y) && ostr_eqb (snd x) (snd y)) ps ps'.
Fixpoint spec_eqb (a b : spec) : bool :=
  match a, b with
  | SNone, SNone => true
  | SList x, SList y => strs_eqb x y
  | SDict x, SDict y =>
      (fix go (x y : list (str * spec)) : bool :=
         match x, y with
         | [], [] => true
         | (k, v) :: x', (k', v') :: y' => str_eqb k k' && spec_eqb v v' && go x' y'
         | _, _ => false
         end) x y
  | _, _ => false
  end.
Definition chk (c : schema * (list esum * list esum * list str * spec * list str * list str * str)) : bool :=
  let '(s, (ef, et, na, ne, ob, su, df)) := c in
  list_eqb esum_eqb (map summary (iter_fields s false)) ef &&
  list_eqb esum_eqb (map summary (iter_fields s true)) et &&
  strs_eqb (not_analyzed_fields s) na && spec_eqb (nested_fields s) ne &&
  strs_eqb (object_fields s) ob && strs_eqb (sub_fields s) su && str_eqb (default_field s) df.
"""

# every case carries its type: a shard whose first case has only empty lists would not type-check otherwise
TYPED_A = "(%s : schema * (list esum * list esum * list str * spec * list str * list str * str))"

DEFS_B = """
Definition chk (c : schema * item * eres json) : bool :=
  let '(s, t, expected) := c in
  match build (options s) t, expected with
  | ROk j, ROk j' => json_ceqb j j' && json_ceqb j' j
  | RExc e, RExc e' => es_exc_eqb e e'
  | _, _ => false
  end.
"""
DEFS_C = """
(* (description, index of the document type, name components, the property held on the implementation) *)
Definition guards (c : schema * nat * list str * bool) : option bool :=
  let '(s, k, comps, held) := c in
  match nth_error (doc_props s) k with
  | None => None
  | Some props =>
      match resolve props [] comps with
      | None => None
      | Some (d, anc) =>
          Some (wf_schema s && coherent s && walk_sane s && subfield_ok anc d && anchor_survives s anc &&
                is_leaf_def d && forallb nodot comps && forallb nonempty_name comps)
      end
  end.
(* the theorem C19_query_partial read on the implementation: guards => the property held *)
Definition chk_sound (c : schema * nat * list str * bool) : bool :=
  match guards c with Some g => negb g || snd c | None => false end.
(* narrowness of the guards: the property held => the guards hold *)
Definition chk_narrow (c : schema * nat * list str * bool) : bool :=
  match guards c with Some g => g || negb (snd c) | None => false end.
"""
IMPORTS = "Base Decimal Tree Json EsSpecs EsCheck EsBuild Schema"
IMPORTS_C = IMPORTS + " SchemaSpec SchemaProofs"
DEFS_E = """
(* C19w: the guards of C19_query_mapping_partial — predicates on the MAPPING only — evaluated on
   (description, index of the document type, name components, the property held on the implementation,
    harness anchor_registered(ancestors), harness redeclared(description, ancestors)) *)
Definition mcase := (schema * nat * list str * bool * bool * bool)%type.
Definition mresolved (c : mcase) : option (schema * fdef * list (str * fdef) * bool * bool * bool) :=
  let '(s, k, comps, held, reg, red) := c in
  match nth_error (doc_props s) k with
  | None => None
  | Some props =>
      match resolve props [] comps with
      | None => None
      | Some (d, anc) => Some (s, d, anc, held, reg, red)
      end
  end.
Definition mguards (c : mcase) : option bool :=
  match mresolved c with
  | None => None
  | Some (s, d, anc, _, _, _) =>
      Some (wf_schema s && coherent s && types_agree s && subfield_ok anc d && anchor_registered anc &&
            negb (redeclared s anc) && is_leaf_def d)
  end.
(* C19_query_mapping_partial read on the implementation: guards => the property held *)
Definition chk_msound (c : mcase) : bool :=
  match mguards c, mresolved c with Some g, Some (_, _, _, held, _, _) => negb g || held | _, _ => false end.
(* narrowness: the property held => the guards hold *)
Definition chk_mnarrow (c : mcase) : bool :=
  match mguards c, mresolved c with Some g, Some (_, _, _, held, _, _) => g || negb held | _, _ => false end.
(* the Coq predicates ARE the executable predicates of F12 and F12c of this harness *)
Definition chk_mpred (c : mcase) : bool :=
  match mresolved c with
  | Some (s, _, anc, _, reg, red) => Bool.eqb (anchor_registered anc) reg && Bool.eqb (redeclared s anc) red
  | None => false
  end.
(* C19_walk_sane_derived / C19_anchor_link read on the generated descriptions: the mapping-level guards imply
   the walk-level ones *)
Definition chk_mlink (c : mcase) : bool :=
  match mresolved c with
  | Some (s, _, anc, _, _, _) =>
      negb (wf_schema s && types_agree s) ||
      (walk_sane s && (negb (anchor_registered anc && negb (redeclared s anc)) || anchor_survives s anc))
  | None => false
  end.
"""
IMPORTS_E = IMPORTS_C + " SchemaMoreProofs"


# ------------------------------------------------------------------ independent oracle

def doc_types(schema):
    """the property dicts of the document types, read from the raw description (ES conventions)"""
    m = schema.get("mappings", {})
    if m.get("properties"):
        return [m["properties"]]
    # (a falsy "properties" entry of the legacy layout is a document type without fields: skipped, so that the
    # positions agree with Schema.doc_props)
    return [v.get("properties") or {} for k, v in m.items() if isinstance(v, dict) and k != "properties"]


def is_container(d):
    return bool(d.get("properties")) or d.get("type") in ("object", "nested")


def leaves(props, anc=()):
    """(names, own definition, ancestors [(name, def)], is_sub) of every mapped leaf, multi-fields included"""
    for name, d in props.items():
        if is_container(d):
            if d.get("properties"):
                yield from leaves(d["properties"], anc + ((name, d),))
            continue
        yield (tuple(n for n, _ in anc) + (name,), d, anc, False)
        for sname, sd in (d.get("fields") or {}).items():
            yield (tuple(n for n, _ in anc) + (name, sname), sd, anc + ((name, d),), True)


def analysed_text(d):
    t = d.get("type")
    return t == "text" or (t == "string" and d.get("index") != "not_analyzed")


def innermost_nested(anc):
    path = None
    for i, (n, d) in enumerate(anc):
        if d.get("type") == "nested":
            path = ".".join(x for x, _ in anc[:i + 1])
    return path


def has_nested_container(d):
    """d or something below it is a nested field with at least one property"""
    if d.get("type") == "nested" and d.get("properties"):
        return True
    return any(has_nested_container(c) for c in (d.get("properties") or {}).values())


def anchor_registered(anc):
    """F12 predicate: the innermost nested ancestor has a direct child under which (itself included) there is no
    nested field with properties — only then does its path end up in the builder's nested prefix set"""
    inner = None
    for n, d in anc:
        if d.get("type") == "nested":
            inner = d
    if inner is None:
        return True
    return any(not has_nested_container(c) for c in inner.get("properties", {}).values())


def sub_inherits_index(d, anc, is_sub):
    """F12b predicate: a legacy `string` sub-field without its own index under a not_analyzed parent"""
    if not is_sub:
        return False
    parent = anc[-1][1]
    return d.get("type") == "string" and "index" not in d and parent.get("index") == "not_analyzed"


def plain(schema):
    """the shape the theorems are about: names without dots, leaves and sub-fields carry a type, no field has
    both multi-fields and properties, typed containers only where ES puts them"""
    def ok_props(props):
        for name, d in props.items():
            if "." in name or name == "":
                return False
            if d.get("properties") and d.get("fields"):
                return False
            if d.get("properties"):
                if d.get("type") not in (None, "object", "nested"):
                    return False
                if not ok_props(d["properties"]):
                    return False
            elif d.get("type") in ("object", "nested"):
                if d.get("fields"):
                    return False
            else:
                if not isinstance(d.get("type"), str):
                    return False
                for sn, sd in (d.get("fields") or {}).items():
                    if "." in sn or sn == "" or not isinstance(sd.get("type"), str):
                        return False
                    if sd.get("type") in ("object", "nested") or sd.get("properties") or sd.get("fields"):
                        return False
        return True
    return all(ok_props(p) for p in doc_types(schema))


def path_kinds(schema):
    """dotted path -> set of descriptions over the document types (to recognise conflicting declarations)"""
    out = {}

    def rec(props, prefix):
        for name, d in props.items():
            p = prefix + (name,)
            kind = ("container", d.get("type") or "object") if is_container(d) else \
                ("leaf", d.get("type"), d.get("index"))
            out.setdefault(".".join(p), set()).add(kind)
            for sn, sd in ([] if is_container(d) else (d.get("fields") or {}).items()):
                out.setdefault(".".join(p + (sn,)), set()).add(("leaf", sd.get("type"), sd.get("index")))
            if d.get("properties"):
                rec(d["properties"], p)
    for props in doc_types(schema):
        rec(props, ())
    return out


def expected_clause(names, d, anc):
    return {"field": ".".join(names), "term": not analysed_text(d), "nested": innermost_nested(anc)}


def observed_clause(j):
    """decompose the builder's JSON: nested wrappers (outermost first), method, field"""
    wrappers = []
    while isinstance(j, dict) and list(j) == ["nested"]:
        wrappers.append(j["nested"].get("path"))
        j = j["nested"].get("query")
    if not (isinstance(j, dict) and len(j) == 1):
        return None
    method = list(j)[0]
    body = j[method]
    if not (isinstance(body, dict) and len(body) == 1):
        return None
    return {"wrappers": wrappers, "method": method, "field": list(body)[0], "body": body[list(body)[0]]}


def judge(exp, outcome, word):
    """None if the outcome is what the property demands, else a reason"""
    if outcome[0] != "ok":
        return "refused: %s" % outcome[1]
    ob = observed_clause(outcome[1])
    if ob is None:
        return "not a single clause"
    if ob["field"] != exp["field"]:
        return "clause on %r" % ob["field"]
    if ob["method"] not in ("term", "match"):
        return "method %r" % ob["method"]
    if (ob["method"] == "term") != exp["term"]:
        return "typing: %s on a field that is %s" % (ob["method"], "not analysed text" if exp["term"]
                                                      else "analysed text")
    val = ob["body"].get("value" if ob["method"] == "term" else "query")
    if val != word:
        return "value %r" % (val,)
    want = [] if exp["nested"] is None else [exp["nested"]]
    if ob["wrappers"] != want:
        return "nesting: wrapped in %r, expected %r" % (ob["wrappers"], want)
    return None


def redeclared(schema, anc):
    """F12c predicate: a nested ancestor of the field is declared by more than one document type"""
    n = 0
    for i, (_, a) in enumerate(anc):
        if a.get("type") == "nested":
            path = [x for x, _ in anc[:i + 1]]
            count = 0
            for props in doc_types(schema):
                cur = props
                for comp in path:
                    nxt = cur.get(comp) if isinstance(cur, dict) else None
                    cur = nxt.get("properties", {}) if isinstance(nxt, dict) else None
                    if nxt is None:
                        break
                else:
                    count += 1
            n = max(n, count)
    return n > 1


def classify(why, names, d, anc, is_sub, schema):
    if why.startswith("nesting") and not anchor_registered(anc):
        return "F12"
    if why.startswith("nesting") and redeclared(schema, anc):
        return "F12c"
    if why.startswith("typing") and sub_inherits_index(d, anc, is_sub):
        return "F12b"
    return None


# ------------------------------------------------------------------ the check

SPELL_PROPERTIES = {
    "title": {"type": "text", "fields": {"raw": {"type": "keyword"}}},
    "author": {"type": "nested", "properties": {
        "name": {"type": "text", "fields": {"raw": {"type": "keyword"}}}, "tag": {"type": "keyword"},
        "book": {"type": "nested", "properties": {
            "title": {"type": "text"}, "isbn": {"type": "keyword"},
            "format": {"type": "nested", "properties": {"ftype": {"type": "keyword"}}}}}}},
    "manager": {"type": "object", "properties": {
        "firstname": {"type": "text"},
        "subteams": {"type": "nested", "properties": {"label": {"type": "text"}, "size": {"type": "long"}}}}},
}
# the same nested fields, spelled in different ways (all denote the same set of dotted names)
SPELLINGS = {
    "nested dicts": {"author": {"name": {}, "tag": {}, "book": {"title": {}, "isbn": {}, "format": {"ftype": {}}}},
                     "manager": {"subteams": {"label": {}, "size": {}}}},
    "None and lists for the leaves": {"author": {"name": None, "tag": None,
                                                 "book": {"title": None, "isbn": None, "format": ["ftype"]}},
                                      "manager.subteams": ["label", "size"]},
    "flat list of dotted names": ["author.name", "author.tag", "author.book.title", "author.book.isbn",
                                  "author.book.format.ftype", "manager.subteams.label", "manager.subteams.size"],
    "dict of dotted names": {"author.name": None, "author.tag": None, "author.book.title": None,
                             "author.book.isbn": None, "author.book.format.ftype": None,
                             "manager.subteams.label": None, "manager.subteams.size": None},
    "lists with dotted names inside": {"author": ["name", "tag", "book.title", "book.isbn", "book.format.ftype"],
                                       "manager": ["subteams.label", "subteams.size"]},
    "one dotted key per nested field, outermost first": {"author": ["name", "tag"], "author.book": ["title", "isbn"],
                                                         "author.book.format": ["ftype"],
                                                         "manager.subteams": ["label", "size"]},
    "one dotted key per nested field, innermost first": {"author.book.format": ["ftype"],
                                                         "author.book": ["title", "isbn"], "author": ["name", "tag"],
                                                         "manager.subteams": ["label", "size"]},
    "dotted key first, then a nested dict": {"author.book": {"title": None, "isbn": None, "format": ["ftype"]},
                                             "author": {"name": None, "tag": None},
                                             "manager.subteams": {"label": None, "size": None}},
}


# object_fields / sub_fields of the same mapping, spelled in different ways (C19w.v: ob1-ob3, su1-su2 are among them)
OBJECT_SPELLINGS = {
    "list": ["manager.firstname"],
    "dict of list": {"manager": ["firstname"]},
    "nested dicts": {"manager": {"firstname": None}},
    "dotted key": {"manager.firstname": {}},
}
SUB_SPELLINGS = {
    "list": ["title.raw", "author.name.raw"],
    "dict, dotted key": {"title": ["raw"], "author.name": {"raw": {}}},
    "nested dicts": {"title": {"raw": None}, "author": {"name": ["raw"]}},
    "dotted names inside": {"title.raw": None, "author": ["name.raw"]},
}


def spelling_oracle(res):
    """last clause of the property, on the implementation: equivalent spellings of the nested-fields specification
    configure identical behaviour (every leaf in both query spellings, every container queried directly)"""
    import copy as _copy
    from luqum.parser import parser
    from luqum.elasticsearch import ElasticsearchQueryBuilder, SchemaAnalyzer

    def denoted(spec, prefix=""):
        if not spec:
            return {prefix[:-1]} if prefix else set()
        if isinstance(spec, dict):
            return set().union(*(denoted(v, prefix + k + ".") for k, v in spec.items()))
        return {prefix + name for name in spec}

    def walk(props, path=()):
        for name, fdef in props.items():
            here = path + (name,)
            yield here
            if fdef.get("type") in ("object", "nested"):
                yield from walk(fdef.get("properties", {}), here)
            else:
                for sub in fdef.get("fields", {}):
                    yield here + (sub,)

    def queries(path):
        yield ".".join(path) + ":x"
        if len(path) > 1:
            q = path[-1] + ":x"
            for name in reversed(path[:-1]):
                q = "%s:(%s)" % (name, q)
            yield q

    def run(options, q):
        try:
            return ("ok", ElasticsearchQueryBuilder(**_copy.deepcopy(options))(parser.parse(q)))
        except Exception as e:  # noqa
            return ("exc", type(e).__name__)
    base = SchemaAnalyzer({"mappings": {"properties": SPELL_PROPERTIES}}).query_builder_options()
    names = {k: denoted(v) for k, v in SPELLINGS.items()}
    assert len({frozenset(v) for v in names.values()}) == 1, "the spellings of the harness do not denote the same names"
    n = 0
    for path in walk(SPELL_PROPERTIES):
        for q in queries(path):
            want = run(base, q)
            for label, spec in SPELLINGS.items():
                n += 1
                got = run(dict(base, nested_fields=spec), q)
                if got != want:
                    res.failures.append(({"why": "an equivalent spelling of nested_fields configures another behaviour",
                                          "spelling": label, "nested_fields": repr(spec), "query": q,
                                          "with_this_spelling": repr(got)[:500],
                                          "with_the_analyzer_options": repr(want)[:500]}, None))
    # object_fields and sub_fields (C19_spellings_behaviour covers them too): every combination of spellings, with
    # two spellings of the nested fields, on every path of the mapping and on unknown fields (sub_fields given:
    # an unknown dotted name is refused); then {} against [] (C19_spellings_behaviour_named: parsed trees have no
    # empty field name)
    def denoted_all(spec):
        return denoted(spec) if spec else set()
    for group in (OBJECT_SPELLINGS, SUB_SPELLINGS):
        assert len({frozenset(denoted_all(v)) for v in group.values()}) == 1, "spellings that do not denote the same names"
    paths = list(walk(SPELL_PROPERTIES)) + [("manager", "label"), ("author", "zzz"), ("title", "fr"), ("zzz",),
                                            ("author", "name", "zzz")]
    first_o, first_s = list(OBJECT_SPELLINGS.values())[0], list(SUB_SPELLINGS.values())[0]
    for path in paths:
        for q in queries(path):
            want = run(dict(base, object_fields=first_o, sub_fields=first_s), q)
            for nlabel in ("flat list of dotted names", "dotted key first, then a nested dict"):
                for olabel, ospec in OBJECT_SPELLINGS.items():
                    for slabel, sspec in SUB_SPELLINGS.items():
                        n += 1
                        got = run(dict(base, nested_fields=SPELLINGS[nlabel], object_fields=ospec, sub_fields=sspec), q)
                        if got != want:
                            res.failures.append(({"why": "equivalent spellings of object_fields / sub_fields configure "
                                                         "another behaviour", "nested_fields": nlabel,
                                                  "object_fields": repr(ospec), "sub_fields": repr(sspec), "query": q,
                                                  "with_these_spellings": repr(got)[:500],
                                                  "with_the_first_spellings": repr(want)[:500]}, None))
            for empty_o, empty_s in (({}, []), ([], {}), ({}, {})):
                n += 1
                want_e = run(dict(base, object_fields=[], sub_fields=[]), q)
                got_e = run(dict(base, object_fields=empty_o, sub_fields=empty_s), q)
                if got_e != want_e:
                    res.failures.append(({"why": "{} and [] as object_fields / sub_fields configure another behaviour on "
                                                 "a parsed query", "object_fields": repr(empty_o),
                                          "sub_fields": repr(empty_s), "query": q, "got": repr(got_e)[:500],
                                          "with_empty_lists": repr(want_e)[:500]}, None))
    return n


def correspond(model_ok, res):
    import luqum.tree as T
    from luqum.parser import parser
    from luqum.elasticsearch import SchemaAnalyzer, ElasticsearchQueryBuilder
    r = lib.rng("C19")
    n = 140 if lib.tier() == "quick" else 1400
    schemas = [(s, "fixed") for s in fixed_schemas()]
    for i in range(n):
        odd = r.random() < 0.3
        collide = r.random() < 0.35
        schemas.append((gen_schema(r, odd, collide), ("odd" if odd else "plain") + ("-collide" if collide else "")))

    cases_a, payload_a, cases_b, payload_b = [], [], [], []
    cases_c, payload_c = [], []
    cases_e = []
    dist = {"schemas": {}, "layout": {"current": 0, "legacy": 0}, "leaves": 0, "sub_leaves": 0,
            "nested_depth": {}, "spelling": {"dotted": 0, "chain": 0}, "outcome": {"ok": 0, "exc": 0},
            "oracle": {"judged": 0, "held": 0, "F12": 0, "F12b": 0, "F12c": 0, "skipped_not_plain": 0,
                       "skipped_conflict": 0, "held_although_F12_predicate": 0,
                       "held_although_F12b_predicate": 0, "held_although_F12c_predicate": 0}, "expected": {"term": 0, "match": 0, "nested": 0, "bare": 0}}
    seen = set()
    skipped = 0
    for schema, kind in schemas:
        dist["schemas"][kind] = dist["schemas"].get(kind, 0) + 1
        try:
            gs = g_schema(schema)
        except lib.Unmodelled:
            skipped += 1
            continue
        snapshot = copy.deepcopy(schema)
        sa = SchemaAnalyzer(schema)
        try:
            ef = [g_entry(*e) for e in sa.iter_fields(subfields=False)]
            et = [g_entry(*e) for e in sa.iter_fields(subfields=True)]
            na = list(sa.not_analyzed_fields())
            ne = sa.nested_fields()
            ob = list(sa.object_fields())
            su = list(sa.sub_fields())
            df = sa.default_field()
            opts = sa.query_builder_options()
        except lib.Unmodelled:
            skipped += 1
            continue
        if schema != snapshot:
            res.failures.append(({"schema": snapshot, "why": "the analyzer modified the index description"}, None))
        if opts != {"default_field": df, "not_analyzed_fields": na, "nested_fields": ne, "object_fields": ob}:
            res.failures.append(({"schema": snapshot, "why": "query_builder_options differs from its parts"}, None))
        cases_a.append(TYPED_A % "(%s, (%s, %s, %s, %s, %s, %s, %s))" % (
            gs, lib.g_list(ef), lib.g_list(et), g_strs(na), E.g_spec(ne), g_strs(ob), g_strs(su), lib.g_str(df)))
        payload_a.append({"schema": snapshot, "options": repr(opts)})
        dist["layout"]["current" if schema.get("mappings", {}).get("properties") else "legacy"] += 1
        is_plain = plain(schema)
        kinds = path_kinds(schema)
        b = ElasticsearchQueryBuilder(**opts)
        for doc_index, props in enumerate(doc_types(schema)):
            for names, d, anc, is_sub in leaves(props):
                if any((not nm) or any(ch in nm for ch in " :()\"'*?\\/+-~^[]{}!") for nm in names):
                    continue
                dist["sub_leaves" if is_sub else "leaves"] += 1
                depth = len([1 for _, a in anc if a.get("type") == "nested"])
                dist["nested_depth"][depth] = dist["nested_depth"].get(depth, 0) + 1
                word = r.choice(["x", "foo"])
                dotted = ".".join(names)
                chain = word
                for nm in reversed(names):
                    chain = "%s:(%s)" % (nm, chain) if chain != word else "%s:%s" % (nm, chain)
                for spelling, q in (("dotted", "%s:%s" % (dotted, word)), ("chain", chain)):
                    try:
                        tree = parser.parse(q)
                    except Exception:  # noqa
                        continue
                    gt = lib.g_item(tree)
                    outcome = E.run(b, tree)
                    dist["spelling"][spelling] += 1
                    dist["outcome"][outcome[0]] += 1
                    try:
                        cases_b.append("(%s, %s, %s)" % (gs, gt, E.g_outcome(T, outcome, tree)))
                    except lib.Unmodelled as e:
                        res.disagreements.append({"schema": snapshot, "query": q, "unmodelled": str(e)})
                        continue
                    payload_b.append({"schema": snapshot, "query": q, "outcome": repr(outcome)[:500]})
                    seen.add((json.dumps(snapshot, sort_keys=True), q))
                    # ---- the property itself, on the implementation
                    if not is_plain:
                        dist["oracle"]["skipped_not_plain"] += 1
                        continue
                    conflict = any(len(kinds.get(".".join(names[:i + 1]), ())) > 1 for i in range(len(names)))
                    if conflict:
                        dist["oracle"]["skipped_conflict"] += 1
                        continue
                    exp = expected_clause(names, d, anc)
                    dist["oracle"]["judged"] += 1
                    dist["expected"]["term" if exp["term"] else "match"] += 1
                    dist["expected"]["nested" if exp["nested"] else "bare"] += 1
                    why = judge(exp, outcome, word)
                    cases_c.append("(%s, %d%%nat, %s, %s)" % (gs, doc_index, g_strs(names), lib.g_bool(why is None)))
                    payload_c.append({"schema": snapshot, "query": q, "field": dotted, "held": why is None})
                    cases_e.append("(%s, %d%%nat, %s, %s, %s, %s)" % (
                        gs, doc_index, g_strs(names), lib.g_bool(why is None), lib.g_bool(anchor_registered(anc)),
                        lib.g_bool(redeclared(schema, anc))))
                    if why is None:
                        dist["oracle"]["held"] += 1
                        # exactness of the guards: the predicates of the findings on inputs where the property held
                        if not anchor_registered(anc):
                            dist["oracle"]["held_although_F12_predicate"] += 1
                        if sub_inherits_index(d, anc, is_sub):
                            dist["oracle"]["held_although_F12b_predicate"] += 1
                        if redeclared(schema, anc):
                            dist["oracle"]["held_although_F12c_predicate"] += 1
                        continue
                    fid = classify(why, names, d, anc, is_sub, schema)
                    if fid:
                        dist["oracle"][fid] += 1
                    res.failures.append(({"schema": snapshot, "query": q, "field": dotted, "why": why,
                                          "expected": exp, "outcome": repr(outcome)[:500]}, fid))
    res.cases = len(cases_a) + len(cases_b)
    res.nontrivial = len(seen)
    res.rule = ("index descriptions: fixed corpus + random (depth <= 4; text / keyword / numeric / date / legacy "
                "string with index variants; objects with and without explicit type; nested; multi-fields; both "
                "layouts, 1-3 document types sharing fields; 35% drawn from a pool of 3-4 names reused at every level (name "
                "collisions between containers / leaves at different places); 30% 'odd': untyped leaves, empty containers, dotted "
                "keys, containers with multi-fields, conflicting re-declarations).  One analyzer case per description "
                "(all seven methods) + one builder case per mapped leaf and spelling; non-trivial = distinct "
                "(description, query) pairs")
    res.distribution = dist
    res.samples = payload_b[3:400:70]
    if skipped:
        res.notes.append("%d descriptions without a counterpart in the model were skipped" % skipped)
    dist["spec_spelling_cases"] = spelling_oracle(res)
    if not model_ok:
        res.model_error = "model did not build"
        return res
    # canaries: a corrupted expectation must be reported by each comparison
    canary_a = ("(mkSchema None (mkMappings (Some [([97]%N, FDef (Some ([116;101;120;116]%N : str)) None [] [])]) []), "
                "([], [], [], SDict [], [], [], [42]%N))")
    canary_b = ("(mkSchema None (mkMappings None []), Term KWord meta0 [120]%N, "
                "ROk (JObj [([116;101;114;109]%N, JObj [])]))")
    try:
        bad_a = lib.eval_cases("C19a", IMPORTS, DEFS_A, cases_a + [TYPED_A % canary_a], "chk", shard=40)
        bad_b = lib.eval_cases("C19b", IMPORTS, DEFS_B, cases_b + [canary_b], "chk", shard=60)
    except Exception as e:  # noqa
        res.model_error = str(e)[-3000:]
        return res
    if len(cases_a) not in bad_a or len(cases_b) not in bad_b:
        res.model_error = "canary case not reported: the comparison is vacuous"
    # the guards of C19_query_partial evaluated by Coq on every judged (description, leaf):
    #   guards => the property held on the implementation (anything else contradicts the theorem or the model)
    #   the property held => guards (narrowness; measured, reported in the distribution)
    try:
        canary_c = "(mkSchema None (mkMappings None []), 0%nat, [[97]%N], true)"     # nothing resolves: reported
        bad_sound = lib.eval_cases("C19c", IMPORTS_C, DEFS_C, cases_c + [canary_c], "chk_sound", shard=80)
        bad_narrow = lib.eval_cases("C19d", IMPORTS_C, DEFS_C, cases_c, "chk_narrow", shard=80)
    except Exception as e:  # noqa
        res.model_error = str(e)[-3000:]
        return res
    if len(cases_c) not in bad_sound:
        res.model_error = "canary case not reported: the guard comparison is vacuous"
    for i in bad_sound:
        if i < len(cases_c):
            res.disagreements.append(dict(payload_c[i], which="guards of C19_query_partial hold but the property "
                                                               "failed on the implementation (or the leaf did not resolve)"))
    dist["guards"] = {"evaluated": len(cases_c), "hold": len([1 for i, p in enumerate(payload_c)
                                                              if p["held"] and i not in set(bad_narrow)]),
                      "property_held_but_guard_false": len(bad_narrow),
                      "first_held_but_guard_false": [payload_c[i] for i in bad_narrow[:3]]}
    res.cases += len(cases_c)
    # C19w: the same with the guards of C19_query_mapping_partial, which are predicates on the mapping only
    try:
        canary_e = "(mkSchema None (mkMappings None []), 0%nat, [[97]%N], true, true, false)"     # nothing resolves
        bad_ms = lib.eval_cases("C19e", IMPORTS_E, DEFS_E, cases_e + [canary_e], "chk_msound", shard=80)
        bad_mn = lib.eval_cases("C19f", IMPORTS_E, DEFS_E, cases_e, "chk_mnarrow", shard=80)
        bad_mp = lib.eval_cases("C19g", IMPORTS_E, DEFS_E, cases_e, "chk_mpred", shard=80)
        bad_ml = lib.eval_cases("C19h", IMPORTS_E, DEFS_E, cases_e, "chk_mlink", shard=80)
    except Exception as e:  # noqa
        res.model_error = str(e)[-3000:]
        return res
    if len(cases_e) not in bad_ms:
        res.model_error = "canary case not reported: the mapping-guard comparison is vacuous"
    for i in bad_ms:
        if i < len(cases_e):
            res.disagreements.append(dict(payload_c[i], which="guards of C19_query_mapping_partial hold but the "
                                                               "property failed on the implementation"))
    for i in bad_mp:
        res.disagreements.append(dict(payload_c[i], which="SchemaSpec.anchor_registered / SchemaMoreProofs.redeclared "
                                                           "differ from the harness predicates of F12 / F12c"))
    for i in bad_ml:
        res.disagreements.append(dict(payload_c[i], which="mapping-level guards hold but walk_sane / anchor_survives "
                                                           "evaluate to false (contradicts C19_walk_sane_derived / "
                                                           "C19_anchor_link)"))
    dist["mapping_guards"] = {"evaluated": len(cases_e),
                              "hold": len([1 for i, p in enumerate(payload_c) if p["held"] and i not in set(bad_mn)]),
                              "property_held_but_guard_false": len(bad_mn),
                              "first_held_but_guard_false": [payload_c[i] for i in bad_mn[:3]]}
    res.cases += len(cases_e)
    for i in bad_a:
        if i < len(cases_a):
            res.disagreements.append(dict(payload_a[i], which="analyzer methods"))
    for i in bad_b:
        if i < len(cases_b):
            res.disagreements.append(dict(payload_b[i], which="builder"))
    return res


SPEC = {
    "id": "C19",
    "targets": ["props/C19.vo"],
    "model_targets": ["model/Schema.vo", "model/SchemaSpec.vo", "model/EsBuild.vo"],
    "module": "C19",
    "theorems": ["C19_query_partial", "C19_nesting_partial", "C19_nested_fields",
                 "C19_builder_side", "C19_spellings_agree", "C19_query_refuted", "C19_nesting_refuted",
                 "C19_nesting_registered_refuted",
                 "C19_typing_refuted", "C19_typing_partial", "C19_typing_walk_partial", "C19_subfield_typing_partial",
                 "C19_not_analyzed_fields", "C19_object_fields", "C19_nested_spellings", "C19_object_spellings"],
    # the gaps an audit listed for C19, closed: walk_sane derived from the mapping, anchor_survives linked to the
    # executable predicates of F12 / F12c, spellings of nested / object / sub field specifications on `build`
    "more": [{"module": "C19w", "target": "props/C19w.vo",
              "theorems": ["C19_walk_sane_derived", "C19_types_agree_single", "C19_coherent_single", "C19_anchor_link",
                           "C19_query_mapping_partial", "C19_query_modern", "C19w_types_agree_needed",
                           "C19_reads_sets", "C19_nested_spellings_exact", "C19_spellings_behaviour",
                           "C19_spellings_behaviour_named", "C19w_empty_dict_needed"]}],
    "correspond": correspond,
    "statement": "C19w.v — C19_query_mapping_partial (proved): the statement of C19_query_partial with guards on the "
                 "MAPPING (and the resolved field) only: wf_schema s; coherent s; types_agree s (the document types "
                 "agree, at every path they both declare, on being nested / an explicit object; trivially true with "
                 "one document type); subfield_ok anc d (not F12b); anchor_registered anc (not F12: the executable "
                 "predicate of this harness); redeclared s anc = false (not F12c: the executable predicate of this "
                 "harness); query word without wildcard; un-named query nodes. walk_sane is DERIVED "
                 "(C19_walk_sane_derived: wf_schema + types_agree => walk_sane; not from wf_schema alone: "
                 "C19w_types_agree_needed, d1: a nested / d2: a object, replayed), anchor_survives is DERIVED "
                 "(C19_anchor_link), the dot-free / non-empty path components follow from wf_schema. "
                 "C19_query_modern: with one document type (the current layout) the guards are wf_schema, "
                 "subfield_ok, anchor_registered only (coherent is derived too: C19_coherent_single). "
                 "Spellings: C19_spellings_behaviour (proved): configurations that differ only in the spelling of "
                 "nested_fields / object_fields / sub_fields (same denoted dotted names; for object and sub fields "
                 "also None with None and {} with {}) give the same result of `build` on EVERY tree — the builder "
                 "reads the three specifications only through the normalised name / prefix sets (C19_reads_sets), "
                 "which are exactly equal, \"\" included, for nested specifications (C19_nested_spellings_exact); "
                 "{} against [] (they flatten to {\"\"} and {}) agree on every tree without an empty field name "
                 "(C19_spellings_behaviour_named), and only there (C19w_empty_dict_needed: object_fields={} / [] on "
                 "SearchField('', Word('x')), replayed). Non-vacuity: the mapping and the eight spellings of "
                 "SPELL_PROPERTIES / SPELLINGS (ex_spell_mapping, ex_spellings_same_names, ex_spellings_behaviour, "
                 "ex_spelled_queries), object / sub spellings (ex_object_sub_spellings, ex_sub_fields_used), two "
                 "document types (ex_mapping_two_doctypes). The harness evaluates the mapping-level guards on every "
                 "judged leaf (guards => the property held on the implementation), checks that the Coq predicates "
                 "anchor_registered / redeclared equal the Python ones, and that they imply walk_sane / "
                 "anchor_survives. ---- C19.v — C19_query_partial (proved): a mapped leaf queried in either spelling is never refused and gives "
                 "exactly the expected JSON, under ALL of these guards: wf_schema s (names without dots, distinct "
                 "keys, only leaves have multi-fields ...); coherent s (walked fields with the same dotted name "
                 "agree on being analysed); walk_sane s (a decidable sanity condition on the analyzer's walk - "
                 "a hypothesis of THIS theorem, derived from the mapping in C19w.v); subfield_ok anc d "
                 "(F12b guard); anchor_survives s anc (F12 / F12c guard - a predicate on the MODELLED WALK "
                 "iter_fields s, derived from mapping-level predicates in C19w.v); every component of the path dot-free and non-empty "
                 "(forallb nodot / nonempty_name); query word without wildcard; query nodes unnamed (in `spelling`). "
                 "Non-vacuity: g_simple, and the legacy two-document-type mapping g_legacy2 "
                 "(ex_query_partial_two_doctypes, a leaf of each document type). Options m fed to the builder: both spellings of a mapped path give the same outcome, decided by "
                 "not_analyzed_fields / the nested and object prefix sets (proved for every description); the clause "
                 "is term-level iff the walked field is not analysed text (proved on coherent descriptions; "
                 "multi-fields under the F12b guard); the full statement, its nesting clause and its typing clause "
                 "are refuted (C19_query_refuted / C19_nesting_refuted: F12; C19_typing_refuted: F12b; "
                 "C19_nesting_registered_refuted: F12c - the nesting clause under the structural F12 guard "
                 "anchor_registered is still false with two document types); equivalent spellings of a nested / "
                 "object field specification (C19_nested_spellings, C19_object_spellings) conclude equality of the "
                 "name sets and prefix sets of the builder and its checker, up to the empty name \"\" (the theorems on "
                 "`build`, sub_fields included, are in C19w.v)",
    "trusted_base": [
        "Coq 8.16.1 kernel (vm_compute used for the refuting witnesses, examples and correspondence)",
        "no axioms (Print Assumptions: closed under the global context)",
        "hand-written model coq/model/Schema.v of SchemaAnalyzer (walk with the re-binding of fname/fdef, "
        "insertion-ordered dicts, cumulated-key construction of nested_fields), tied by differential "
        "correspondence (harness/c19.py) on every run: all seven methods + builder outcome per leaf and spelling",
        "builder model coq/model/EsBuild.v, EsCheck.v, EsSpecs.v (owned by C06/C07, validated by their correspondence)",
        "gen/translate.py: visitor method tables, class MROs, E-item class constants",
        "walk_sane / anchor_survives are hypotheses of C19_query_partial only; C19w.v derives them from predicates on "
        "the mapping (wf_schema, types_agree, anchor_registered, not redeclared); Coq evaluates both sets of guards "
        "on every generated case (guards => property held; narrowness measured)",
    ],
    "assumptions": ["type / index values are str; no explicit None values; sub-fields carry no explicit empty "
                    "properties", "query word without wildcard characters; unnamed query nodes",
                    "typing theorems: fields with the same dotted name agree on being analysed (coherent; derived "
                    "from wf_schema when there is one document type), name components without dots",
                    "several document types: they agree on which shared paths are nested / explicit objects "
                    "(types_agree; what Elasticsearch >= 2 demands of the types of one index)",
                    "spellings: for object_fields / sub_fields None is not a spelling of the empty specification, "
                    "and {} differs from [] on a field with the empty name (never parsed)"],
}
