(* EsKindProofs.v — the documented kind table (model/EsKindTable.v) against the model of the builder
   (model/EsBuild.v) and the expected leaves of C06 (model/EsSpec.v).

   A. text normalisation: between_quotes = s[1:-1] of the model, collapse_blanks = re.sub(r'\s+', ' ', .) of the
      model, the regular expression of Term.has_wildcard = "an unescaped * or ?" on texts without a run of three
      backslashes (and a witness that it is not outside).
   B. association lists.
   C. the E-item the builder makes for a described term (`leaf_of`), the expected leaves of a tree are the E-items
      of its expected terms (`xl_xt`).
   D. the table: leaf_json of that E-item is the clause of the table (`kind_table`).
   E. corollaries on trees.
   F. what "merged in" means, key by key (obj_get of overwrite / unless_given). *)
Require Import Base Decimal Tree GenTree GenVisitors GenChars GenEs Visitor Json EsSpecs EsCheck EsBuild EsSpec
               TreeInd EsProofs EsKindTable.
From Coq Require Import Lia Permutation.

(* ================================================================ A. text normalisation *)
Lemma between_quotes_strip_ends s : between_quotes s = strip_ends s.
Proof.
  unfold between_quotes, strip_ends. rewrite removelast_firstn_len.
  destruct s as [|c s]; [reflexivity|]. simpl skipn. simpl tl. f_equal. simpl. lia.
Qed.

Definition starts_blank (s : str) : bool := match s with c :: _ => blank c | [] => false end.

Lemma collapse_blanks_spec : forall s,
  collapse_ws false s = collapse_blanks s /\
  collapse_ws true s = (if starts_blank s then tl (collapse_blanks s) else collapse_blanks s) /\
  (starts_blank s = true -> exists X, collapse_blanks s = c_space :: X).
Proof.
  induction s as [|c s [IH1 [IH2 IH3]]]; [repeat split; discriminate|].
  change (is_space c) with (blank c) in *.
  assert (H3 : starts_blank (c :: s) = true -> exists X, collapse_blanks (c :: s) = c_space :: X).
  { simpl. intros Hb. rewrite Hb. destruct s as [|c' s]; [eexists; reflexivity|].
    destruct (blank c') eqn:Hc'; [apply IH3; exact Hc'|eexists; reflexivity]. }
  split; [|split; [|exact H3]].
  - simpl. change (is_space c) with (blank c). destruct (blank c) eqn:Hb.
    + rewrite IH2. destruct s as [|c' s]; [reflexivity|]. simpl starts_blank.
      destruct (blank c') eqn:Hc'; [|reflexivity].
      destruct (IH3 Hc') as [X HX]. rewrite HX. reflexivity.
    + rewrite IH1. reflexivity.
  - simpl. change (is_space c) with (blank c). destruct (blank c) eqn:Hb.
    + rewrite IH2. destruct s as [|c' s]; [reflexivity|]. simpl starts_blank.
      destruct (blank c'); reflexivity.
    + rewrite IH1. reflexivity.
Qed.

Lemma collapse_blanks_eq s : collapse_blanks s = collapse_ws false s.
Proof. symmetry. apply collapse_blanks_spec. Qed.

(* ---- wildcards *)
Lemma no_run3_tl a s : no_backslash_run3 (a :: s) = true -> no_backslash_run3 s = true.
Proof.
  destruct s as [|b [|c s]]; try reflexivity. intros H.
  change (negb (N.eqb a 92 && N.eqb b 92 && N.eqb c 92) && no_backslash_run3 (b :: c :: s) = true) in H.
  apply andb_prop in H. apply H.
Qed.

Definition prev_ok (prev : option char) : bool :=
  match prev with None => true | Some p => negb (N.eqb p 92) end.
Definition look (s : str) : bool :=
  match s with c1 :: c2 :: _ => N.eqb c1 92 && is_wild c2 | _ => false end.

Lemma hw_cons prev (c : char) (s : str) :
  has_wildcard_from prev (c :: s) =
  (is_wild c && prev_ok prev) || (N.eqb c 92 && look s) || has_wildcard_from (Some c) s.
Proof. reflexivity. Qed.
Lemma uw_cons (c : char) (s : str) :
  unescaped_wildcard (c :: s) =
  if N.eqb c 92 then match s with [] => false | _ :: s'' => unescaped_wildcard s'' end
  else is_wild c || unescaped_wildcard s.
Proof. reflexivity. Qed.
Lemma look_nb (e : char) (s : str) : N.eqb e 92 = false -> look (e :: s) = false.
Proof. intros He. unfold look. destruct s; [reflexivity|]. rewrite He. reflexivity. Qed.

Lemma wildcard_regex_unescaped : forall n s prev, length s <= n -> no_backslash_run3 s = true ->
  prev_ok prev = true -> has_wildcard_from prev s = unescaped_wildcard s.
Proof.
  induction n as [|n IH]; intros s prev Hlen Hr Hp.
  - destruct s; [reflexivity|simpl in Hlen; lia].
  - destruct s as [|c s]; [reflexivity|].
    assert (Hs : no_backslash_run3 s = true) by (eapply no_run3_tl; exact Hr).
    simpl in Hlen. rewrite hw_cons, uw_cons, Hp, andb_true_r.
    destruct (N.eqb c 92) eqn:Hc.
    + (* an escaping backslash *)
      apply N.eqb_eq in Hc. subst c. change (is_wild 92%N) with false. cbn [andb orb].
      destruct s as [|d s]; [reflexivity|].
      assert (Hs2 : no_backslash_run3 s = true) by (eapply no_run3_tl; exact Hs).
      simpl in Hlen. rewrite hw_cons. change (prev_ok (Some 92%N)) with false. rewrite andb_false_r.
      cbn [orb].
      destruct (N.eqb d 92) eqn:Hd.
      * (* an escaped backslash: the run stops here *)
        apply N.eqb_eq in Hd. subst d. cbn [andb].
        destruct s as [|e s]; [reflexivity|].
        simpl in Hlen.
        assert (He : N.eqb e 92 = false).
        { destruct (N.eqb e 92) eqn:He; [|reflexivity]. apply N.eqb_eq in He. subst e.
          change (no_backslash_run3 (92%N :: 92%N :: 92%N :: s)) with
            (negb true && no_backslash_run3 (92%N :: 92%N :: s)) in Hr. discriminate Hr. }
        rewrite (look_nb e s He). cbn [orb].
        rewrite hw_cons. change (prev_ok (Some 92%N)) with false. rewrite andb_false_r, He. cbn [andb orb].
        rewrite (IH s (Some e)); [| lia | eapply no_run3_tl; exact Hs2 | simpl; rewrite He; reflexivity].
        rewrite uw_cons, He.
        change (look (92%N :: e :: s)) with (true && is_wild e). cbn [andb].
        destruct (is_wild e); reflexivity.
      * rewrite (look_nb d s Hd). cbn [andb orb].
        rewrite (IH s (Some d)); [reflexivity | lia | exact Hs2 | simpl; rewrite Hd; reflexivity].
    + cbn [andb orb]. rewrite orb_false_r.
      rewrite (IH s (Some c)); [reflexivity | lia | exact Hs | simpl; rewrite Hc; reflexivity].
Qed.

Lemma has_wildcard_unescaped s : no_backslash_run3 s = true -> has_wildcard s = unescaped_wildcard s.
Proof. intros H. apply (wildcard_regex_unescaped (length s)); [lia|exact H|reflexivity]. Qed.

(* ================================================================ B. association lists *)
Lemma obj_set_present {A} k (v : A) o : obj_get k o = Some v -> obj_set k v o = o.
Proof.
  induction o as [|[k' v'] o IH]; simpl; [discriminate|].
  destruct (str_eqb k k'); [intros H; inversion H; reflexivity|].
  intros H. rewrite (IH H). reflexivity.
Qed.

Lemma obj_set_absent {A} k (v : A) o : obj_get k o = None -> obj_set k v o = o ++ [(k, v)].
Proof.
  induction o as [|[k' v'] o IH]; simpl; [reflexivity|].
  destruct (str_eqb k k'); [discriminate|]. intros H. rewrite (IH H). reflexivity.
Qed.

Lemma obj_set_idem {A} k (v : A) o : obj_set k v (obj_set k v o) = obj_set k v o.
Proof.
  induction o as [|[k' v'] o IH]; simpl.
  - rewrite str_eqb_refl. reflexivity.
  - destruct (str_eqb k k') eqn:E; simpl; rewrite E; [reflexivity|]. rewrite IH. reflexivity.
Qed.

(* d[k] = d.get(k, v)  is  "v unless given" *)
Lemma set_default_unless_given k v o : obj_set k (obj_get_default k v o) o = unless_given k v o.
Proof.
  unfold obj_get_default, unless_given, obj_has. destruct (obj_get k o) as [v'|] eqn:E.
  - apply obj_set_present. exact E.
  - apply obj_set_absent. exact E.
Qed.

Lemma overwrite_app o a b : overwrite o (a ++ b) = overwrite (overwrite o a) b.
Proof. unfold overwrite. apply fold_left_app. Qed.

(* ================================================================ C. descriptions and E-items *)
(* ---- small correspondences *)
Lemma bound_text_eq b : range_bound_value b = bound_text b.
Proof.
  destruct b as [k m v| | | | | | | k m ops | k m a | k m a i |]; try reflexivity;
    try (destruct k; reflexivity).
  destruct k; try reflexivity. destruct a; reflexivity.
Qed.

Lemma unbounded_kept v : unbounded v = negb (bound_kept v).
Proof. destruct v; [reflexivity|]. unfold unbounded, bound_kept. rewrite negb_involutive. reflexivity. Qed.

(* conjunction = "the element becomes a must clause" *)
Lemma conjunction_ztq cfg t :
  (conjunction cfg t = true /\ ztq_of_op (ekind cfg t) = Some kw_all) \/
  (conjunction cfg t = false /\ (ztq_of_op (ekind cfg t) = None \/ ztq_of_op (ekind cfg t) = Some kw_none)).
Proof.
  destruct t as [k m v| | | | | | | k m ops | k m a | k m a i |];
    try (right; split; [reflexivity|right; reflexivity]).
  - destruct k; simpl; try destruct (c_default_operator cfg);
      first [ left; split; reflexivity
            | right; split; [reflexivity|left; reflexivity]
            | right; split; [reflexivity|right; reflexivity] ].
  - destruct k;
      first [ left; split; reflexivity
            | right; split; [reflexivity|left; reflexivity]
            | right; split; [reflexivity|right; reflexivity] ].
Qed.

(* ---- the E-item the builder makes for a described term: the constructor for its sort (the one visit_word /
   visit_phrase / visit_range call), zero_terms_query pushed by an enclosing EMust, then the setters of the
   modifiers, innermost first *)
Definition apply_mod (m : modifier) (l : leaf) : leaf :=
  match m with
  | MBoost f => leaf_set_boost f l
  | MFuzziness dg => leaf_set_fuzziness dg l
  | MSlop dg => leaf_set_slop dg l
  end.

Definition new_leaf (cfg : es_config) (d : tdesc) : leaf :=
  let fs := d_fields d in
  match d_term d with
  | QWord v =>
      mk_word v (if analysed cfg (dotted fs)
                 then (if c_match_word_as_phrase cfg then k_match_phrase else k_match) else k_term)
              fs (d_name d)
  | QPhrase v =>
      if analysed cfg (dotted fs) then mk_phrase v fs (d_name d)
      else mk_word (strip_ends v) k_term fs (d_name d)
  | QRange lo il hi ih =>
      mk_range (if il then k_gte else k_gt) lo (if ih then k_lte else k_lt) hi fs (d_name d)
  end.

Definition base_leaf (cfg : es_config) (d : tdesc) : leaf :=
  if d_conj d then leaf_set_ztq gen_EMust_zero_terms_query (new_leaf cfg d) else new_leaf cfg d.

Definition leaf_of (cfg : es_config) (d : tdesc) : leaf :=
  fold_left (fun l m => apply_mod m l) (d_mods d) (base_leaf cfg d).

Lemma ztq_apply_mod z m l : leaf_set_ztq z (apply_mod m l) = apply_mod m (leaf_set_ztq z l).
Proof. destruct m; reflexivity. Qed.

Lemma ztq_fold z ms : forall l,
  leaf_set_ztq z (fold_left (fun l m => apply_mod m l) ms l) =
  fold_left (fun l m => apply_mod m l) ms (leaf_set_ztq z l).
Proof.
  induction ms as [|m ms IH]; intros l; [reflexivity|]. simpl. rewrite IH, ztq_apply_mod. reflexivity.
Qed.

Lemma leaf_of_add_modifier cfg m d : leaf_of cfg (add_modifier m d) = apply_mod m (leaf_of cfg d).
Proof. unfold leaf_of. simpl. rewrite fold_left_app. reflexivity. Qed.

Lemma leaf_of_under_conjunction cfg d :
  leaf_of cfg (under_conjunction d) = leaf_set_ztq kw_all (leaf_of cfg d).
Proof.
  unfold leaf_of. rewrite ztq_fold. simpl. f_equal. unfold base_leaf. simpl.
  destruct (d_conj d); reflexivity.
Qed.

Lemma new_leaf_ztq_none cfg d : leaf_set_ztq kw_none (new_leaf cfg d) = new_leaf cfg d.
Proof.
  unfold new_leaf. destruct (d_term d) as [v|v|lo il hi ih]; try reflexivity.
  - destruct (analysed cfg (dotted (d_fields d))); reflexivity.
Qed.

Lemma leaf_of_ztq_none cfg d : d_conj d = false -> leaf_set_ztq kw_none (leaf_of cfg d) = leaf_of cfg d.
Proof.
  intros H. unfold leaf_of. rewrite ztq_fold. f_equal. unfold base_leaf. rewrite H. apply new_leaf_ztq_none.
Qed.

(* ---- contexts: the analysed flag of a context is the one of its field path *)
Definition coherent (cfg : es_config) (cx : ectx) : Prop :=
  ctx_is_analyzed cfg cx = analysed cfg (dotted (ctx_fields cfg cx)).

Lemma coherent_ctx0 cfg : coherent cfg ctx0.
Proof. reflexivity. Qed.

Lemma ctx_propagate cfg t cx :
  ctx_is_analyzed cfg (propagate_name t cx) = ctx_is_analyzed cfg cx /\
  ctx_fields cfg (propagate_name t cx) = ctx_fields cfg cx.
Proof.
  unfold propagate_name. destruct (name_of t) as [n|]; [|split; reflexivity].
  destruct (nonempty n); split; reflexivity.
Qed.

Lemma coherent_propagate cfg t cx : coherent cfg cx -> coherent cfg (propagate_name t cx).
Proof.
  unfold coherent. destruct (ctx_propagate cfg t cx) as [H1 H2]. rewrite H1, H2. auto.
Qed.

Lemma coherent_field_ctx cfg t n cx : coherent cfg (field_ctx cfg t n cx).
Proof. unfold field_ctx. apply coherent_propagate. reflexivity. Qed.

(* ---- a single term is not yet marked as an item of a conjunction *)
Lemma map_conj_false (g : tdesc -> tdesc) ds :
  (forall d, d_conj (g d) = d_conj d) ->
  Forall (fun d => d_conj d = false) ds -> Forall (fun d => d_conj d = false) (map g ds).
Proof.
  intros Hg H. induction H as [|d ds Hd _ IH]; simpl; constructor; [rewrite Hg; exact Hd|exact IH].
Qed.

Lemma single_leaf_not_conj cfg : forall t cx,
  single_leaf t = true -> Forall (fun d => d_conj d = false) (xt cfg t cx).
Proof.
  intros t. induction t using item_ind'; intros cx Hs; try discriminate Hs.
  - destruct k; simpl; repeat constructor.
  - simpl. apply IHt. exact Hs.
  - simpl. apply IHt. exact Hs.
  - simpl. destruct (bound_text t1), (bound_text t2); repeat constructor.
  - simpl in *. rewrite Hs. apply map_conj_false; [reflexivity|]. apply IHt. exact Hs.
  - simpl in *. rewrite Hs. apply map_conj_false; [reflexivity|]. apply IHt. exact Hs.
  - simpl in *. rewrite Hs. apply map_conj_false; [reflexivity|]. apply IHt. exact Hs.
Qed.

(* ---- one operand of an operation / unary operator *)
Lemma sub_eq cfg t (lf : bool) ls ds :
  ls = map (leaf_of cfg) ds ->
  (lf = true -> Forall (fun d => d_conj d = false) ds) ->
  tagz (ztq_of_op (ekind cfg t)) lf ls =
  map (leaf_of cfg) (if conjunction cfg t && lf then map under_conjunction ds else ds).
Proof.
  intros -> Hn. unfold tagz.
  destruct (conjunction_ztq cfg t) as [[Hc Hz]|[Hc [Hz|Hz]]]; rewrite Hc, Hz; simpl.
  - destruct lf; [|reflexivity]. rewrite !map_map. apply map_ext. intros d.
    symmetry. apply leaf_of_under_conjunction.
  - reflexivity.
  - destruct lf; [|reflexivity]. specialize (Hn eq_refl).
    induction Hn as [|d ds Hd _ IH]; [reflexivity|]. simpl. rewrite IH, (leaf_of_ztq_none cfg d Hd). reflexivity.
Qed.

Lemma direct_single cfg pre c : direct_leaf cfg pre c = true -> single_leaf c = true.
Proof. unfold direct_leaf. intros H. apply andb_prop in H. apply H. Qed.

(* ---- the expected leaves of C06 are the E-items of the expected terms *)
Lemma xl_xt cfg : forall t cx, coherent cfg cx -> xl cfg t cx = map (leaf_of cfg) (xt cfg t cx).
Proof.
  intros t. induction t using item_ind'; intros cx Hcx.
  - destruct k; simpl; [| |reflexivity].
    + unfold word_leaf, leaf_of, base_leaf, new_leaf. simpl. rewrite Hcx. reflexivity.
    + unfold phrase_leaf, leaf_of, base_leaf, new_leaf. simpl. rewrite Hcx. reflexivity.
  - simpl. apply IHt. apply coherent_field_ctx.
  - simpl. apply IHt. apply coherent_propagate. exact Hcx.
  - simpl. rewrite !bound_text_eq. destruct (bound_text t1), (bound_text t2); reflexivity.
  - simpl. rewrite (IHt _ (coherent_propagate cfg _ cx Hcx)).
    destruct (single_leaf t); [|reflexivity]. rewrite !map_map. apply map_ext. intros d0.
    rewrite leaf_of_add_modifier. reflexivity.
  - simpl. rewrite (IHt _ (coherent_propagate cfg _ cx Hcx)).
    destruct (single_leaf t); [|reflexivity]. rewrite !map_map. apply map_ext. intros d0.
    rewrite leaf_of_add_modifier. destruct (ctx_is_analyzed cfg cx); reflexivity.
  - simpl. rewrite (IHt _ (coherent_propagate cfg _ cx Hcx)).
    destruct (single_leaf t); [|reflexivity]. rewrite !map_map. apply map_ext. intros d0.
    rewrite leaf_of_add_modifier. reflexivity.
  - change (xl cfg (Op k m ops) cx) with
      ((fix go (l : list item) : list leaf :=
          match l with
          | [] => []
          | c :: l' =>
              tagz (ztq_of_op (ekind cfg (Op k m ops)))
                   (direct_leaf cfg (field_prefix (propagate_name (Op k m ops) cx)) c)
                   (xl cfg c (propagate_name (Op k m ops) cx)) ++ go l'
          end) ops).
    change (xt cfg (Op k m ops) cx) with
      ((fix go (l : list item) : list tdesc :=
          match l with
          | [] => []
          | c :: l' =>
              (if conjunction cfg (Op k m ops) &&
                  direct_leaf cfg (field_prefix (propagate_name (Op k m ops) cx)) c
               then map under_conjunction (xt cfg c (propagate_name (Op k m ops) cx))
               else xt cfg c (propagate_name (Op k m ops) cx)) ++ go l'
          end) ops).
    pose proof (coherent_propagate cfg (Op k m ops) cx Hcx) as Hc'.
    revert Hc'. generalize (propagate_name (Op k m ops) cx) as cx'. intros cx' Hc'.
    set (t0 := Op k m ops). clearbody t0.
    induction H as [|c l Hc _ IHl]; [reflexivity|]. rewrite map_app, <- IHl. f_equal.
    apply sub_eq; [apply Hc; exact Hc'|].
    intros Hd. apply single_leaf_not_conj. eapply direct_single. exact Hd.
  - change (xl cfg (Unary k m t) cx) with
      (tagz (ztq_of_op (ekind cfg (Unary k m t)))
            (direct_leaf cfg (field_prefix (propagate_name (Unary k m t) cx)) t)
            (xl cfg t (propagate_name (Unary k m t) cx))).
    change (xt cfg (Unary k m t) cx) with
      (if conjunction cfg (Unary k m t) &&
          direct_leaf cfg (field_prefix (propagate_name (Unary k m t) cx)) t
       then map under_conjunction (xt cfg t (propagate_name (Unary k m t) cx))
       else xt cfg t (propagate_name (Unary k m t) cx)).
    apply sub_eq; [apply IHt; apply coherent_propagate; exact Hcx|].
    intros Hd. apply single_leaf_not_conj. eapply direct_single. exact Hd.
  - simpl. apply IHt. apply coherent_propagate. exact Hcx.
  - reflexivity.
Qed.

Lemma expected_leaves_terms cfg t : expected_leaves cfg t = map (leaf_of cfg) (expected_terms cfg t).
Proof. apply xl_xt. apply coherent_ctx0. Qed.

(* ================================================================ D. the table *)
(* the spelling of kinds and parameters *)
Ltac kw :=
  change kw_term with k_term in *; change kw_match with k_match in *;
  change kw_match_phrase with k_match_phrase in *; change kw_range with k_range in *;
  change kw_fuzzy with k_fuzzy in *; change kw_wildcard with k_wildcard in *;
  change kw_query_string with k_query_string in *; change kw_multi_match with k_multi_match in *;
  change kw_exists with k_exists in *; change kw_match_type with k_match_type in *;
  change kw_type with k_type in *; change kw_boost with k_boost in *;
  change kw_fuzziness with k_fuzziness in *; change kw_name with k_name in *;
  change kw_slop with k_slop in *; change kw_lt with k_lt in *; change kw_lte with k_lte in *;
  change kw_gt with k_gt in *; change kw_gte with k_gte in *; change kw_query with k_query in *;
  change kw_zero_terms_query with k_zero_terms_query in *; change kw_default_field with k_default_field in *;
  change kw_analyze_wildcard with k_analyze_wildcard in *;
  change kw_allow_leading_wildcard with k_allow_leading_wildcard in *;
  change kw_value with k_value in *; change kw_field with k_field in *;
  change kw_all with k_all in *; change kw_none with k_none in *; change kw_star with k_star in *.

(* ---- modifiers *)
Lemma outermost_snoc pick ms m :
  outermost pick (ms ++ [m]) = match pick m with Some x => Some x | None => outermost pick ms end.
Proof. unfold outermost. rewrite fold_left_app. reflexivity. Qed.

Definition slops (ms : list modifier) : list str :=
  flat_map (fun m => match m with MSlop _ => [k_slop] | _ => [] end) ms.

Lemma slops_snoc ms m : slops (ms ++ [m]) = slops ms ++ match m with MSlop _ => [k_slop] | _ => [] end.
Proof. unfold slops. rewrite flat_map_app. simpl. rewrite app_nil_r. reflexivity. Qed.

Lemma slops_nil ms : slops ms = [] -> outermost slop_of ms = None.
Proof.
  induction ms as [|m ms IH] using rev_ind; [reflexivity|]. rewrite slops_snoc, outermost_snoc.
  intros H. apply app_eq_nil in H as [H1 H2]. destruct m; try discriminate H2; simpl; apply IH; exact H1.
Qed.

Lemma slops_all ms : Forall (fun k => k = k_slop) (slops ms).
Proof.
  induction ms as [|m ms IH]; [constructor|]. unfold slops. simpl. apply Forall_app. split; [|exact IH].
  destruct m; repeat constructor.
Qed.

(* the E-item after the setters, explicitly *)
Lemma fold_mods ms : forall l0, l_boost l0 = None -> l_fuzzy l0 = None -> l_slop l0 = None ->
  fold_left (fun l m => apply_mod m l) ms l0 =
  mkLeaf (l_kind l0)
         (match outermost fuzziness_of ms with Some _ => k_fuzzy | None => l_method l0 end)
         (l_fields l0) (l_q l0) (l_bounds l0)
         (outermost boost_of ms) (outermost fuzziness_of ms) (outermost slop_of ms)
         (l_ztq l0) (l_name l0)
         (l_addkeys l0 ++ match l_kind l0 with LPhrase => slops ms | _ => [] end).
Proof.
  induction ms as [|m ms IH] using rev_ind; intros l0 Hb Hf Hs.
  - destruct l0; simpl in *; subst. destruct l_kind; rewrite app_nil_r; reflexivity.
  - rewrite fold_left_app. simpl. rewrite (IH l0 Hb Hf Hs). rewrite !outermost_snoc, slops_snoc.
    destruct m; simpl; unfold leaf_set_boost, leaf_set_fuzziness, leaf_set_slop; simpl; try reflexivity.
    + destruct (l_kind l0); rewrite ?app_nil_r; reflexivity.
    + destruct (l_kind l0); rewrite ?app_nil_r; reflexivity.
    + destruct (l_kind l0); rewrite ?app_nil_r, ?app_assoc; reflexivity.
Qed.

(* ---- rendering, for any E-item *)
Definition is_star_of (l : leaf) : bool :=
  match l_kind l, l_q l with LWord, Some q => str_eqb q k_star | _, _ => false end.

Lemma leaf_json_unfold cfg l m :
  is_star_of l = false -> leaf_method cfg l = JStr m ->
  leaf_json cfg l =
  ROk (layout m (leaf_field l)
         (fold_left (add_key l m) (class_keys (l_kind l) ++ l_addkeys l) (base_options cfg (leaf_field l)))).
Proof.
  intros Hs Hm. unfold leaf_json. fold (is_star_of l). rewrite Hs, Hm. unfold layout. kw.
  destruct (str_eqb m k_query_string || str_eqb m k_multi_match); reflexivity.
Qed.

Lemma add_key_plain l m o key :
  str_eqb key k_q = false ->
  add_key l m o key = match leaf_attr l key with Some v => obj_set key v o | None => o end.
Proof. intros H. unfold add_key. rewrite H. reflexivity. Qed.

(* boost, fuzziness, _name *)
Lemma fold_mod_keys l m o :
  fold_left (add_key l m) [k_boost; k_fuzziness; k_name] o =
  overwrite o (mod_params (l_boost l) (l_fuzzy l) (l_name l)).
Proof.
  simpl fold_left. rewrite !add_key_plain by reflexivity.
  change (leaf_attr l k_boost) with (option_map JNum (l_boost l)).
  change (leaf_attr l k_fuzziness) with (option_map JNum (l_fuzzy l)).
  change (leaf_attr l k_name) with (option_map JStr (l_name l)).
  unfold mod_params, overwrite. kw.
  destruct (l_boost l), (l_fuzzy l), (l_name l); reflexivity.
Qed.

(* the text *)
Lemma add_key_q l m o q :
  l_q l = Some q ->
  add_key l m o k_q = wildcard_switches m (overwrite o (text_params m (leaf_field l) q (l_ztq l))).
Proof.
  intros Hq. unfold add_key. change (leaf_attr l k_q) with (option_map JStr (l_q l)). rewrite Hq.
  change (str_eqb k_q k_q) with true. cbv iota. simpl option_map. cbv iota.
  unfold text_params, wildcard_switches. kw.
  destruct (contains k_match m) eqn:Hc.
  - assert (Hn : str_eqb m k_query_string = false).
    { destruct (str_eqb m k_query_string) eqn:E; [|reflexivity]. apply str_eqb_eq in E. subst m.
      vm_compute in Hc. discriminate Hc. }
    rewrite Hn. destruct (str_eqb m k_match); reflexivity.
  - destruct (str_eqb m k_query_string) eqn:E; [|reflexivity].
    unfold overwrite. simpl fold_left. cbv zeta. rewrite !set_default_unless_given. reflexivity.
Qed.

(* the slop of a phrase: `slop` may be listed several times, once per ~ *)
Lemma fold_slop_keys l m ks : Forall (fun k => k = k_slop) ks -> (ks = [] -> l_slop l = None) ->
  forall o, fold_left (add_key l m) ks o = overwrite o (param kw_slop (option_map JNum (l_slop l))).
Proof.
  intros Hall Hnil.
  set (F := fun o => overwrite o (param kw_slop (option_map JNum (l_slop l)))).
  assert (Hk : forall o, add_key l m o k_slop = F o).
  { intros o. rewrite add_key_plain by reflexivity. unfold F.
    change (leaf_attr l k_slop) with (option_map JNum (l_slop l)). kw.
    destruct (l_slop l); reflexivity. }
  assert (Hidem : forall o, F (F o) = F o).
  { intros o. unfold F. destruct (l_slop l); [|reflexivity]. unfold overwrite. simpl. apply obj_set_idem. }
  assert (Hfix : forall ks, Forall (fun k => k = k_slop) ks -> forall o, fold_left (add_key l m) ks (F o) = F o).
  { intros ks' H. induction H as [|k ks' Hk1 _ IH]; intros o; [reflexivity|].
    subst k. simpl. rewrite Hk, Hidem. apply IH. }
  intros o. fold (F o). destruct Hall as [|k ks Hk1 Hall].
  - unfold F. rewrite (Hnil eq_refl). reflexivity.
  - subst k. simpl. rewrite Hk. apply Hfix. exact Hall.
Qed.

(* ---- options *)
Lemma default_params_eq cfg f : default_params (options_of cfg f) = base_options cfg f.
Proof.
  unfold default_params, base_options. change (options_of cfg f) with (field_opts cfg f). kw.
  destruct (obj_get k_match_type (field_opts cfg f)) as [v|]; [destruct (json_truthy v)|]; reflexivity.
Qed.

Lemma match_kind_eq cfg f base : wf_config cfg = true ->
  match obj_get k_match_type (field_opts cfg f) with
  | Some v => v
  | None => match obj_get k_type (field_opts cfg f) with Some v => v | None => JStr base end
  end = JStr (match_kind cfg f base).
Proof.
  intros Hwf. destruct (field_opts_methods cfg f Hwf) as [H1 H2].
  unfold match_kind, kind_option. change (options_of cfg f) with (field_opts cfg f). kw.
  destruct (obj_get k_match_type (field_opts cfg f)) as [[]|]; try discriminate H1; try reflexivity.
  destruct (obj_get k_type (field_opts cfg f)) as [[]|]; try discriminate H2; reflexivity.
Qed.

(* the `method` property, as a table *)
Lemma method_eq cfg l : wf_config cfg = true ->
  leaf_method cfg l =
  JStr (if leaf_has_wildcard l
        then (if analysed cfg (leaf_field l) then k_query_string else k_wildcard)
        else if analysed cfg (leaf_field l) && starts_with k_match (l_method l)
             then match_kind cfg (leaf_field l) (l_method l)
             else l_method l).
Proof.
  intros Hwf. unfold leaf_method, analysed.
  destruct (negb (mem_str (leaf_field l) (c_not_analyzed cfg))), (leaf_has_wildcard l);
    cbn [negb andb]; try reflexivity.
  destruct (starts_with k_match (l_method l)); [|reflexivity].
  apply match_kind_eq. exact Hwf.
Qed.

(* zero_terms_query pushed by an enclosing conjunction *)
Definition conj_wrap (c : bool) (l : leaf) : leaf :=
  if c then leaf_set_ztq gen_EMust_zero_terms_query l else l.

(* ---- the rows *)
Lemma word_row cfg tm fields mods conj name q :
  wf_config cfg = true -> no_backslash_run3 q = true ->
  leaf_json cfg
    (fold_left (fun l m => apply_mod m l) mods
       (conj_wrap conj
          (mk_word q (if analysed cfg (dotted fields)
                      then (if c_match_word_as_phrase cfg then k_match_phrase else k_match) else k_term)
                   fields name))) =
  ROk (word_clause cfg (mkT tm fields mods conj name) q).
Proof.
  intros Hwf Hq.
  rewrite fold_mods by (destruct conj; reflexivity).
  set (meth := if analysed cfg (dotted fields)
               then (if c_match_word_as_phrase cfg then k_match_phrase else k_match) else k_term).
  assert (Hb : forall P : leaf -> Type,
             P (mkLeaf LWord meth fields (Some q) [] None None None (if conj then k_all else k_none) name [k_q]) ->
             P (conj_wrap conj (mk_word q meth fields name))).
  { intros P H. destruct conj; exact H. }
  apply Hb. clear Hb. cbn [l_kind l_method l_fields l_q l_bounds l_boost l_fuzzy l_slop l_ztq l_name l_addkeys].
  rewrite app_nil_r.
  set (L := mkLeaf LWord _ fields (Some q) [] _ _ _ _ name [k_q]).
  unfold word_clause. cbn [field_of d_fields d_name d_mods d_conj]. kw.
  destruct (str_eqb q k_star) eqn:Hstar.
  - unfold leaf_json. cbn [L l_kind l_q]. rewrite Hstar. unfold leaf_field. cbn [l_fields l_name].
    destruct name; reflexivity.
  - rewrite (leaf_json_unfold cfg L
               (if unescaped_wildcard q then (if analysed cfg (dotted fields) then k_query_string else k_wildcard)
                else if under_fuzziness (mkT tm fields mods conj name) then k_fuzzy
                else if analysed cfg (dotted fields)
                     then match_kind cfg (dotted fields) (if c_match_word_as_phrase cfg then k_match_phrase else k_match)
                     else k_term)).
    + unfold text_clause. cbn [field_of d_fields]. f_equal. f_equal.
      change (leaf_field L) with (dotted fields). f_equal.
      change (class_keys (l_kind L) ++ l_addkeys L) with ([k_boost; k_fuzziness; k_name] ++ [k_q]).
      rewrite fold_left_app, fold_mod_keys. simpl fold_left.
      rewrite (add_key_q L _ _ q eq_refl). rewrite overwrite_app, default_params_eq.
      change (leaf_field L) with (dotted fields).
      unfold modifier_params, ztq. cbn [L l_boost l_fuzzy l_name l_ztq d_mods d_name d_conj]. kw. reflexivity.
    + unfold is_star_of. cbn [L l_kind l_q]. exact Hstar.
    + rewrite (method_eq cfg L Hwf). f_equal.
      change (leaf_has_wildcard L) with (has_wildcard q). rewrite (has_wildcard_unescaped q Hq).
      change (leaf_field L) with (dotted fields).
      destruct (unescaped_wildcard q); [reflexivity|].
      unfold under_fuzziness. cbn [L l_method d_mods].
      destruct (outermost fuzziness_of mods).
      * change (starts_with k_match k_fuzzy) with false. rewrite andb_false_r. reflexivity.
      * unfold meth. destruct (analysed cfg (dotted fields)); [|reflexivity].
        destruct (c_match_word_as_phrase cfg); reflexivity.
Qed.

Lemma phrase_row cfg tm fields mods conj name v :
  wf_config cfg = true -> analysed cfg (dotted fields) = true ->
  leaf_json cfg (fold_left (fun l m => apply_mod m l) mods (conj_wrap conj (mk_phrase v fields name))) =
  ROk (phrase_clause cfg (mkT tm fields mods conj name) (between_quotes (collapse_blanks v))).
Proof.
  intros Hwf Han.
  rewrite fold_mods by (destruct conj; reflexivity).
  rewrite between_quotes_strip_ends, collapse_blanks_eq.
  set (q := strip_ends (collapse_ws false v)).
  assert (Hb : forall P : leaf -> Type,
             P (mkLeaf LPhrase k_match_phrase fields (Some q) [] None None None
                       (if conj then k_all else k_none) name [k_q]) ->
             P (conj_wrap conj (mk_phrase v fields name))).
  { intros P H. destruct conj; exact H. }
  apply Hb. clear Hb. cbn [l_kind l_method l_fields l_q l_bounds l_boost l_fuzzy l_slop l_ztq l_name l_addkeys].
  set (L := mkLeaf LPhrase _ fields (Some q) [] _ _ _ _ name _).
  unfold phrase_clause. cbn [field_of d_fields d_name d_mods d_conj].
  rewrite (leaf_json_unfold cfg L
             (if under_fuzziness (mkT tm fields mods conj name) then k_fuzzy
              else match_kind cfg (dotted fields) k_match_phrase)).
  - unfold text_clause. cbn [field_of d_fields]. kw. f_equal. f_equal.
    change (leaf_field L) with (dotted fields). f_equal.
    change (class_keys (l_kind L) ++ l_addkeys L) with ([k_boost; k_fuzziness; k_name] ++ [k_q] ++ slops mods).
    rewrite !fold_left_app, fold_mod_keys. simpl (fold_left _ [k_q] _).
    rewrite (add_key_q L _ _ q eq_refl).
    rewrite (fold_slop_keys L _ (slops mods) (slops_all mods) (slops_nil mods)).
    rewrite overwrite_app, default_params_eq.
    change (leaf_field L) with (dotted fields).
    unfold modifier_params, ztq. cbn [L l_boost l_fuzzy l_name l_ztq l_slop d_mods d_name d_conj]. kw. reflexivity.
  - reflexivity.
  - rewrite (method_eq cfg L Hwf). f_equal.
    change (leaf_has_wildcard L) with false. cbv iota.
    change (leaf_field L) with (dotted fields). rewrite Han.
    unfold under_fuzziness. cbn [L l_method d_mods andb].
    destruct (outermost fuzziness_of mods); reflexivity.
Qed.

Lemma range_row cfg tm fields mods conj name lo (il : bool) hi (ih : bool) :
  wf_config cfg = true ->
  leaf_json cfg
    (fold_left (fun l m => apply_mod m l) mods
       (conj_wrap conj (mk_range (if il then k_gte else k_gt) lo (if ih then k_lte else k_lt) hi fields name))) =
  ROk (range_clause cfg (mkT tm fields mods conj name) lo il hi ih).
Proof.
  intros Hwf.
  rewrite fold_mods by (destruct conj; reflexivity).
  unfold range_clause, bound_param, field_of. rewrite !unbounded_kept.
  cbn [d_fields d_name d_mods d_conj].
  set (bounds := (if bound_kept hi then [(if ih then k_lte else k_lt, hi)] else []) ++
                 (if bound_kept lo then [(if il then k_gte else k_gt, lo)] else [])).
  assert (Hb : forall P : leaf -> Type,
             P (mkLeaf LRange k_range fields None bounds None None None
                       (if conj then k_all else k_none) name (map fst bounds)) ->
             P (conj_wrap conj (mk_range (if il then k_gte else k_gt) lo (if ih then k_lte else k_lt) hi fields name))).
  { intros P H. destruct conj; exact H. }
  apply Hb. clear Hb. cbn [l_kind l_method l_fields l_q l_bounds l_boost l_fuzzy l_slop l_ztq l_name l_addkeys].
  rewrite app_nil_r.
  set (L := mkLeaf LRange _ fields None bounds _ _ _ _ name _).
  rewrite (leaf_json_unfold cfg L (if under_fuzziness (mkT tm fields mods conj name) then k_fuzzy else k_range)).
  - kw. f_equal. f_equal. change (leaf_field L) with (dotted fields). f_equal.
    change (class_keys (l_kind L) ++ l_addkeys L) with ([k_boost; k_fuzziness; k_name] ++ map fst bounds).
    rewrite fold_left_app, fold_mod_keys, overwrite_app, default_params_eq.
    unfold modifier_params. cbn [L l_boost l_fuzzy l_name d_mods d_name].
    generalize (overwrite (base_options cfg (dotted fields))
                  (mod_params (outermost boost_of mods) (outermost fuzziness_of mods) name)) as o.
    intros o. unfold L, bounds.
    destruct ih, il, (bound_kept hi), (bound_kept lo); reflexivity.
  - reflexivity.
  - rewrite (method_eq cfg L Hwf). f_equal.
    change (leaf_has_wildcard L) with false. cbv iota.
    unfold under_fuzziness. cbn [L l_method d_mods].
    destruct (outermost fuzziness_of mods).
    + change (starts_with k_match k_fuzzy) with false. rewrite andb_false_r. reflexivity.
    + change (starts_with k_match k_range) with false. rewrite andb_false_r. reflexivity.
Qed.

(* ---- THE TABLE THEOREM: for every well-formed configuration and every described term in the domain, the clause
   the builder's E-item renders to is the clause of the documented table *)
Theorem kind_table cfg d :
  wf_config cfg = true -> desc_ok cfg d = true -> leaf_json cfg (leaf_of cfg d) = ROk (spec_clause cfg d).
Proof.
  intros Hwf Hok. destruct d as [tm fields mods conj name].
  unfold leaf_of, base_leaf, new_leaf, spec_clause, desc_ok, field_of in *.
  cbn [d_term d_fields d_mods d_conj d_name] in *.
  destruct tm as [v|v|lo il hi ih].
  - exact (word_row cfg (QWord v) fields mods conj name v Hwf Hok).
  - destruct (analysed cfg (dotted fields)) eqn:Han.
    + exact (phrase_row cfg (QPhrase v) fields mods conj name v Hwf Han).
    + cbn [orb] in Hok. rewrite <- between_quotes_strip_ends.
      pose proof (word_row cfg (QPhrase v) fields mods conj name (between_quotes v) Hwf Hok) as H.
      rewrite Han in H. exact H.
  - exact (range_row cfg (QRange lo il hi ih) fields mods conj name lo il hi ih Hwf).
Qed.

(* ================================================================ E. trees *)
Lemma clause_table cfg d :
  wf_config cfg = true -> desc_ok cfg d = true -> clause cfg (leaf_of cfg d) = spec_clause cfg d.
Proof. intros Hwf Hok. unfold clause. rewrite (kind_table cfg d Hwf Hok). reflexivity. Qed.

Lemma expected_clauses_table cfg t :
  wf_config cfg = true -> terms_in_table cfg t = true ->
  expected_clauses cfg t = table_clauses cfg t.
Proof.
  intros Hwf Hok. unfold expected_clauses, table_clauses. rewrite expected_leaves_terms, map_map.
  unfold terms_in_table in Hok. rewrite forallb_forall in Hok. apply map_ext_in. intros d Hd. apply clause_table; [exact Hwf|apply Hok; exact Hd].
Qed.

(* ---- the guard on texts, read on the tree *)
Lemma no_run3_firstn : forall n s, no_backslash_run3 s = true -> no_backslash_run3 (firstn n s) = true.
Proof.
  induction n as [|n IH]; intros s H; [reflexivity|].
  destruct s as [|a s]; [reflexivity|]. simpl firstn.
  pose proof (IH s (no_run3_tl a s H)) as IHs.
  destruct n as [|n]; [reflexivity|].
  destruct s as [|b s]; [reflexivity|].
  destruct n as [|n]; [reflexivity|].
  destruct s as [|c s]; [reflexivity|].
  change (firstn (S (S n)) (b :: c :: s)) with (b :: c :: firstn n s) in *.
  change (negb (N.eqb a 92 && N.eqb b 92 && N.eqb c 92) && no_backslash_run3 (b :: c :: firstn n s) = true).
  change (negb (N.eqb a 92 && N.eqb b 92 && N.eqb c 92) && no_backslash_run3 (b :: c :: s) = true) in H.
  apply andb_prop in H as [H1 _]. rewrite H1, IHs. reflexivity.
Qed.

Lemma no_run3_between_quotes s : no_backslash_run3 s = true -> no_backslash_run3 (between_quotes s) = true.
Proof.
  intros H. unfold between_quotes. apply no_run3_firstn.
  destruct s as [|a s]; [reflexivity|]. simpl skipn. eapply no_run3_tl. exact H.
Qed.

Lemma forallb_map_same {A} (P : A -> bool) (g : A -> A) l :
  (forall x, P (g x) = P x) -> forallb P (map g l) = forallb P l.
Proof. intros Hg. induction l as [|x l IH]; simpl; [reflexivity|]. rewrite Hg, IH. reflexivity. Qed.

Lemma texts_plain_op_go l :
  (fix go (l : list item) : bool := match l with [] => true | c :: l' => texts_plain c && go l' end) l =
  forallb texts_plain l.
Proof. induction l as [|c l IH]; simpl; [reflexivity|]. rewrite IH. reflexivity. Qed.

Lemma texts_plain_terms cfg : forall t cx,
  texts_plain t = true -> forallb (desc_ok cfg) (xt cfg t cx) = true.
Proof.
  assert (Hsub : forall (b : bool) ds, forallb (desc_ok cfg) ds = true ->
            forallb (desc_ok cfg) (if b then map under_conjunction ds else ds) = true).
  { intros b ds H. destruct b; [|exact H]. rewrite forallb_map_same; [exact H|reflexivity]. }
  intros t. induction t using item_ind'; intros cx Hp.
  - change (no_backslash_run3 v = true) in Hp.
    destruct k; [| |reflexivity]; cbn [xt forallb]; unfold desc_ok; cbn [d_term].
    + rewrite Hp. reflexivity.
    + rewrite (no_run3_between_quotes v Hp), orb_true_r. reflexivity.
  - simpl. apply IHt. exact Hp.
  - simpl. apply IHt. exact Hp.
  - simpl. destruct (bound_text t1), (bound_text t2); reflexivity.
  - simpl in *. destruct (single_leaf t); [|apply IHt; exact Hp].
    rewrite forallb_map_same; [apply IHt; exact Hp|reflexivity].
  - simpl in *. destruct (single_leaf t); [|apply IHt; exact Hp].
    rewrite forallb_map_same; [apply IHt; exact Hp|reflexivity].
  - simpl in *. destruct (single_leaf t); [|apply IHt; exact Hp].
    rewrite forallb_map_same; [apply IHt; exact Hp|reflexivity].
  - change (xt cfg (Op k m ops) cx) with
      ((fix go (l : list item) : list tdesc :=
          match l with
          | [] => []
          | c :: l' =>
              (if conjunction cfg (Op k m ops) &&
                  direct_leaf cfg (field_prefix (propagate_name (Op k m ops) cx)) c
               then map under_conjunction (xt cfg c (propagate_name (Op k m ops) cx))
               else xt cfg c (propagate_name (Op k m ops) cx)) ++ go l'
          end) ops).
    simpl in Hp. rewrite texts_plain_op_go in Hp.
    generalize (propagate_name (Op k m ops) cx) as cx'. intros cx'.
    set (t0 := Op k m ops). clearbody t0.
    induction H as [|c l Hc _ IHl]; [reflexivity|]. simpl in Hp. apply andb_prop in Hp as [Hp1 Hp2].
    rewrite forallb_app, (IHl Hp2), andb_true_r. apply Hsub. apply Hc. exact Hp1.
  - change (xt cfg (Unary k m t) cx) with
      (if conjunction cfg (Unary k m t) &&
          direct_leaf cfg (field_prefix (propagate_name (Unary k m t) cx)) t
       then map under_conjunction (xt cfg t (propagate_name (Unary k m t) cx))
       else xt cfg t (propagate_name (Unary k m t) cx)).
    apply Hsub. apply IHt. exact Hp.
  - simpl. apply IHt. exact Hp.
  - reflexivity.
Qed.

Lemma texts_plain_expected cfg t :
  texts_plain t = true -> terms_in_table cfg t = true.
Proof. apply texts_plain_terms. Qed.

(* ---- the leaf clauses of the generated query, by the table *)
Lemma build_leaves_table cfg t j :
  supported t = true -> wf_config cfg = true -> options_not_reserved cfg = true ->
  modifier_over_nested cfg t = false -> terms_in_table cfg t = true ->
  build cfg t = ROk j -> Permutation (leaves j) (table_clauses cfg t).
Proof.
  intros Hs Hwf Ho Hm Hok Hb. rewrite <- (expected_clauses_table cfg t Hwf Hok).
  exact (build_leaves cfg t j Hs (options_kinds_not_reserved cfg t Ho) Hm Hb).
Qed.

(* in document order, on the E-tree *)
Lemma build_etree_table cfg t e :
  supported t = true -> wf_config cfg = true -> modifier_over_nested cfg t = false ->
  terms_in_table cfg t = true ->
  build_etree cfg t = ROk e ->
  eleaves e = map (leaf_of cfg) (expected_terms cfg t) /\
  map (leaf_json cfg) (eleaves e) = map (fun d => ROk (spec_clause cfg d)) (expected_terms cfg t).
Proof.
  intros Hs Hwf Hm Hok Hb. rewrite (build_etree_leaves cfg t e Hs Hm Hb), expected_leaves_terms.
  split; [reflexivity|]. rewrite map_map. unfold terms_in_table in Hok. rewrite forallb_forall in Hok.
  apply map_ext_in. intros d Hd. apply kind_table; [exact Hwf|apply Hok; exact Hd].
Qed.

(* ---- the E-items of a tree are in the domain of the table theorem *)
Definition leaf_ok (cfg : es_config) (l : leaf) : Prop :=
  exists d, desc_ok cfg d = true /\ l = leaf_of cfg d.

Lemma expected_leaves_ok cfg t : terms_in_table cfg t = true -> Forall (leaf_ok cfg) (expected_leaves cfg t).
Proof.
  intros H. unfold terms_in_table in H. rewrite forallb_forall in H.
  rewrite expected_leaves_terms. apply Forall_forall. intros l Hl. apply in_map_iff in Hl as [d [Hd Hin]].
  exists d. split; [apply H; exact Hin|symmetry; exact Hd].
Qed.

(* ================================================================ F. what "merged in" means, key by key *)
Lemma obj_get_set {A} k k' (v : A) o :
  obj_get k (obj_set k' v o) = if str_eqb k k' then Some v else obj_get k o.
Proof.
  induction o as [|[k0 v0] o IH]; simpl; [reflexivity|].
  destruct (str_eqb k' k0) eqn:E0; simpl.
  - apply str_eqb_eq in E0. subst k0. destruct (str_eqb k k'); reflexivity.
  - rewrite IH. destruct (str_eqb k k0) eqn:E1; [|reflexivity].
    destruct (str_eqb k k') eqn:E2; [|reflexivity].
    apply str_eqb_eq in E1. apply str_eqb_eq in E2. subst. rewrite str_eqb_refl in E0. discriminate E0.
Qed.

Lemma overwrite_snoc o g k v : overwrite o (g ++ [(k, v)]) = obj_set k v (overwrite o g).
Proof. unfold overwrite. rewrite fold_left_app. reflexivity. Qed.

(* generated parameters overwrite the options; the other options stay *)
Lemma obj_get_overwrite k o g :
  obj_get k (overwrite o g) = match last_given k g with Some v => Some v | None => obj_get k o end.
Proof.
  induction g as [|[k1 v1] g IH] using rev_ind; [reflexivity|].
  rewrite overwrite_snoc, obj_get_set, IH. unfold last_given. rewrite fold_left_app. simpl.
  destruct (str_eqb k k1); reflexivity.
Qed.

(* the two wildcard switches: the options win *)
Lemma obj_get_unless_given k k' v o :
  obj_get k (unless_given k' v o) =
  match obj_get k o with Some v' => Some v' | None => if str_eqb k k' then Some v else None end.
Proof.
  unfold unless_given, obj_has. destruct (obj_get k' o) as [v'|] eqn:E.
  - destruct (obj_get k o) eqn:E2; [reflexivity|].
    destruct (str_eqb k k') eqn:E3; [|reflexivity]. apply str_eqb_eq in E3. subst. rewrite E in E2. discriminate E2.
  - rewrite <- (obj_set_absent k' v o E), obj_get_set.
    destruct (str_eqb k k') eqn:E3.
    + apply str_eqb_eq in E3. subst. rewrite E. reflexivity.
    + destruct (obj_get k o); reflexivity.
Qed.
